//go:build verif

package zed

import (
	"strconv"
	"sync"

	"github.com/brimdata/super/internal/verif"
)

// ---------------------------------------------------------------------------
// C05 under SCHEDULES: goroutines share one Context.  verif.Schedules(k) makes
// every lock/unlock/atomic/map access/goroutine start a preemption point; every
// schedule with at most k preemptions is a path of the engine.  Natively the
// same harness repeats the experiment (verif.NativeRounds) with more goroutines
// so that a schedule-dependent counterexample can show up under the Go
// scheduler.
// ---------------------------------------------------------------------------

// vC05sLookup creates (or finds) in c the type of the given kind built over the
// round's fresh name.
func vC05sLookup(c *Context, kind int, name string, foreign zcode_Bytes) Type {
	switch kind {
	case 0:
		return c.MustLookupTypeRecord([]Field{{name, TypeInt64}, {"other", TypeString}})
	case 1:
		typ, err := c.LookupTypeNamed(name, TypeInt64)
		if err != nil {
			panic(err)
		}
		return typ
	case 2:
		return c.LookupTypeEnum([]string{name, "x"})
	case 3:
		// nested: the inner record is new as well
		inner := c.MustLookupTypeRecord([]Field{{name, TypeInt64}})
		return c.LookupTypeUnion([]Type{c.LookupTypeArray(inner), TypeString})
	case 4:
		inner := c.MustLookupTypeRecord([]Field{{name, TypeString}})
		return c.LookupTypeMap(c.LookupTypeSet(inner), c.LookupTypeError(inner))
	default:
		// by serialized value (what TranslateType / zngio / typeof decoding do)
		typ, err := c.LookupByValue(foreign)
		if err != nil {
			panic(err)
		}
		return typ
	}
}

type zcode_Bytes = []byte

// vC05sBound: preemption bound 2 (quick), 3 (thorough).
func vC05sBound() int {
	if verif.Thorough() {
		return 3
	}
	return 2
}

// vC05sNoDuplicateIDs: no two ids of c denote structurally equal types, and
// every id maps back to itself through its type value.
func vC05sNoDuplicateIDs(c *Context) (distinct, selfConsistent bool) {
	distinct, selfConsistent = true, true
	seen := map[string]int{}
	for id := IDTypeComplex; ; id++ {
		typ, err := c.LookupType(id)
		if err != nil {
			break
		}
		tv := string(EncodeTypeValue(typ))
		if _, ok := seen[tv]; ok {
			distinct = false
		}
		seen[tv] = id
		if TypeID(typ) != id {
			selfConsistent = false
		}
		back, err := c.LookupByValue([]byte(tv))
		if err != nil || back != typ {
			selfConsistent = false
		}
	}
	return
}

// verif:desc C05-O9 two goroutines (natively 8, repeated) ask ONE shared zed.Context at the same moment for the same not-yet-existing type - record / named / enum / union-of-array-of-new-record / map-of-set-and-error-of-new-record / by serialized value (Context.LookupByValue of a type value produced in another context, the TranslateType path) - under EVERY schedule with at most 2 (thorough tier: 3) preemptions at lock/unlock/atomic/map-access/spawn points of the real Context code (LookupTypeRecord/Named/Enum/Union/Array/Set/Map/Error, LookupByValue, DecodeTypeValue, enterWithLock, tvPool). Asserted: both get the very same type object; afterwards no two ids of the context denote structurally equal types, every type's id is its index and its type value looks itself up; a third, later lookup returns that object too.
// verif:bounds 2 goroutines x 1 lookup each (6 kinds, one path each) on a fresh context that already holds one unrelated type; preemption bound 2 (thorough: 3); which goroutine runs after a block/exit is free
// verif:outside interleavings with more preemptions than the bound or more than 2 goroutines; preemption inside a critical section at points other than map accesses and atomics (field loads/stores of shared objects are not preemption points: data-race freedom of the code between sync points is assumed, not checked); sync.Pool is a per-path LIFO; natively the replay is a stress repetition (8 goroutines x 3000 rounds), not a controlled schedule
func VerifH_C05_O9_concurrent_same_type() {
	verif.Schedules(vC05sBound())
	verif.Races(true)
	kind := verif.Choose("kind", 6)
	rounds := verif.NativeRounds(3000)
	G := verif.NativeInt(2, 8)
	c := NewContext()
	c.LookupTypeArray(TypeInt64)
	same, later := true, true
	for r := 0; r < rounds; r++ {
		name := "f" + strconv.Itoa(r)
		var foreign []byte
		if kind == 5 {
			other := NewContext()
			foreign = EncodeTypeValue(vC05sLookup(other, r%5, name, nil))
		}
		got := make([]Type, G)
		start := make(chan struct{})
		var wg sync.WaitGroup
		for g := 0; g < G; g++ {
			wg.Add(1)
			go func(g int) {
				defer wg.Done()
				<-start
				got[g] = vC05sLookup(c, kind, name, foreign)
			}(g)
		}
		close(start)
		wg.Wait()
		for g := 1; g < G; g++ {
			if got[g] != got[0] {
				same = false
			}
		}
		if vC05sLookup(c, kind, name, foreign) != got[0] {
			later = false
		}
	}
	verif.Assert(same, "concurrent-lookups-return-one-object")
	verif.Assert(later, "later-lookup-returns-that-object")
	distinct, consistent := vC05sNoDuplicateIDs(c)
	verif.Assert(distinct, "ids-denote-distinct-structures")
	verif.Assert(consistent, "id-and-type-value-consistent")
	verif.Reach("end")
}

// vC05sNamedPair builds in c the record {a:<name>=inner, b:<name>} (the second
// field's type is serialized as a REFERENCE to the name defined by the first).
func vC05sNamedPair(c *Context, name string, inner Type) Type {
	named, err := c.LookupTypeNamed(name, inner)
	if err != nil {
		panic(err)
	}
	return c.MustLookupTypeRecord([]Field{{"a", named}, {"b", named}})
}

// verif:desc C05-O10 decoding a type value is a pure function of the bytes while another goroutine binds the same type NAME differently: goroutine A decodes (Context.LookupByValue -> DecodeTypeValue, name-def then name-ref) the type value of {a:N=int64,b:N}; goroutine B at the same time decodes the type value of {a:N=string,b:N} (or of N=string alone, or calls LookupTypeNamed(N,string)) in the same context; every schedule with at most 2 (thorough tier: 3) preemptions. Asserted: what A gets re-encodes to exactly the bytes A decoded and is structurally {a:N=int64,b:N=int64}; likewise for B; decoding A's bytes again later gives the same object.
// verif:bounds 2 goroutines, 1 decode each; 3 shapes of B; preemption bound 2 (thorough: 3)
// verif:outside as VerifH_C05_O9_concurrent_same_type; names bound by the zson analyzer/zngio decoder to a context shared between concurrently read inputs follow the same DecodeTypeValue/LookupTypeNamed path but are not driven here
func VerifH_C05_O10_concurrent_name_rebinding() {
	verif.Schedules(vC05sBound())
	verif.Races(true)
	shape := verif.Choose("shapeB", 3)
	rounds := verif.NativeRounds(3000)
	c := NewContext()
	okA, okB, stable := true, true, true
	for r := 0; r < rounds; r++ {
		name := "N" + strconv.Itoa(r)
		src := NewContext()
		wantA := vC05sNamedPair(src, name, TypeInt64)
		tvA := EncodeTypeValue(wantA)
		src2 := NewContext()
		wantB := vC05sNamedPair(src2, name, TypeString)
		tvB := EncodeTypeValue(wantB)
		if shape == 1 {
			wantB = wantB.(*TypeRecord).Fields[0].Type
			tvB = EncodeTypeValue(wantB)
		}
		var gotA, gotB Type
		start := make(chan struct{})
		var wg sync.WaitGroup
		wg.Add(2)
		go func() {
			defer wg.Done()
			<-start
			gotA, _ = c.LookupByValue(tvA)
		}()
		go func() {
			defer wg.Done()
			<-start
			if shape == 2 {
				gotB, _ = c.LookupTypeNamed(name, TypeString)
			} else {
				gotB, _ = c.LookupByValue(tvB)
			}
		}()
		close(start)
		wg.Wait()
		if gotA == nil || !vSameStructure(gotA, wantA) || string(EncodeTypeValue(gotA)) != string(tvA) {
			okA = false
		}
		if shape == 2 {
			wantB = wantB.(*TypeRecord).Fields[0].Type
		}
		if gotB == nil || !vSameStructure(gotB, wantB) {
			okB = false
		}
		if again, err := c.LookupByValue(tvA); err != nil || !vSameStructure(again, wantA) {
			stable = false
		}
	}
	verif.Assert(okA, "decoded-type-is-the-encoded-structure")
	verif.Assert(okB, "other-decoder-gets-its-structure")
	verif.Assert(stable, "later-decode-gives-the-encoded-structure")
	verif.Reach("end")
}
