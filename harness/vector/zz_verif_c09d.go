//go:build verif

package vector

import (
	"github.com/brimdata/super/internal/verif"
)

// verif:desc C09-O6 vector.Or (used by NullsOf for error vectors whose own null mask and whose inner vector's mask are both present) never indexes out of range and is the slot-wise OR: for two masks of the same length, Or(a,b).Value(k) == a.Value(k) || b.Value(k) for every slot k, Len preserved; nil operands are identities.
// verif:bounds mask length n in {1, 2, 63, 64, 65, 128, 130} slots (Choose) — one and several 64-bit words and the word boundary; all word contents symbolic; the slot k checked is symbolic in [0,n); each operand nil or present
// verif:outside masks of different lengths (documented panic)
func VerifH_C09_O6_nulls_or() {
	n := uint32([]int{1, 2, 63, 64, 65, 128, 130}[verif.Choose("n", 7)])
	mk := func(name string) *Bool {
		if verif.Bool(name + ".nil") {
			return nil
		}
		b := NewBoolEmpty(n, nil)
		for i := range b.Bits {
			b.Bits[i] = verif.Uint64(name + ".w")
		}
		return b
	}
	a, b := mk("a"), mk("b")
	out := Or(a, b)
	if a == nil && b == nil {
		verif.Assert(out == nil, "or-of-nils-is-nil")
		verif.Reach("both-nil")
		return
	}
	verif.Assert(out != nil && out.Len() == n, "or-len")
	k := uint32(verif.Range("k", 0, int(n)-1))
	verif.Assert(out.Value(k) == (a.Value(k) || b.Value(k)), "or-slotwise")
	if a != nil && b != nil {
		verif.Reach("both-present")
	}
	verif.Reach("end")
}
