//go:build verif

package vector

import (
	"bytes"

	"github.com/brimdata/super"
	"github.com/brimdata/super/internal/verif"
	"github.com/brimdata/super/zcode"
)

// C09-O5: vector.NewView(index, vec) is how the vector runtime selects rows
// (filter, head/tail, over, switch, join ...).  The sequential runtime's
// counterpart is "take the values at these positions", so for every output
// slot k the view must hold exactly the value (and null-ness) of source slot
// index[k].  NewView special-cases most vector kinds (it rebuilds Const, Dict,
// Error, Union, Dynamic, composes View, wraps Named); each case re-maps the
// payload AND the null mask through index.

const (
	vvDictNulls = iota
	vvDict
	vvConstNulls
	vvConst
	vvView
	vvNamedDictNulls
	vvFlatNulls
	vvDynamic
	vvErrorDictNulls
	vvUnion
	vvNumKinds
)

var vvKindName = []string{
	"dict-nulls", "dict", "const-nulls", "const", "view-of-flat-nulls", "named-dict-nulls",
	"flat-nulls", "dynamic(flat-nulls,dict-nulls)", "error(dict-nulls)+nulls", "union(flat-nulls,dict-nulls)+nulls",
}

// vvMask builds an n-slot Bool vector whose bits are the low n bits of a
// fresh symbolic byte.
func vvMask(name string, n uint32) *Bool {
	m := uint64(verif.Uint8(name)) & (1<<n - 1)
	return NewBool([]uint64{m}, n, nil)
}

func vvBit(b *Bool, slot uint32) uint32 {
	return uint32(b.Bits[0]>>slot) & 1
}

// vvDictOf builds an n-slot (n <= 4) Dict over the 2-entry dictionary vals
// with symbolic tags and, if withNulls, a symbolic null mask.  Counts is the
// number of non-null slots per dictionary entry, as vcache builds it.
func vvDictOf(name string, vals Any, n uint32, withNulls bool) *Dict {
	var nulls *Bool
	if withNulls {
		nulls = vvMask(name+".nulls", n)
	}
	tags := make([]byte, n)
	counts := make([]uint32, 2)
	for i := range tags {
		t := verif.Byte(name + ".tag" + string(rune('0'+i)))
		verif.Assume(t < 2)
		tags[i] = t
		live := uint32(1)
		if withNulls {
			live = 1 - vvBit(nulls, uint32(i))
		}
		counts[1] += uint32(t) * live
		counts[0] += uint32(1-t) * live
	}
	return NewDict(vals, tags, counts, nulls)
}

func vvIntDict(name string, small bool, n uint32, withNulls bool) *Dict {
	return vvDictOf(name, NewInt(zed.TypeInt64, []int64{vvInt(name+".d0", small), vvInt(name+".d1", small)}, nil), n, withNulls)
}

// vvInt is a symbolic int64; small restricts it to the values with a one-byte
// ZNG encoding (only so that Serialize does not split on the encoded length).
func vvInt(name string, small bool) int64 {
	x := verif.Int64(name)
	if small {
		verif.Assume(-64 <= x)
		verif.Assume(x < 64)
	}
	return x
}

func vvFlat(name string, small bool, n uint32) *Int {
	vals := make([]int64, n)
	for i := range vals {
		vals[i] = vvInt(name+".v"+string(rune('0'+i)), small)
	}
	return NewInt(zed.TypeInt64, vals, vvMask(name+".nulls", n))
}

// vvSource builds the 4-slot source vector of the given kind.
func vvSource(zctx *zed.Context, kind int, small bool) Any {
	switch kind {
	case vvDictNulls:
		return vvIntDict("dict", small, 4, true)
	case vvDict:
		return vvIntDict("dict", small, 4, false)
	case vvConstNulls:
		return NewConst(zed.NewInt64(vvInt("const", small)), 4, vvMask("const.nulls", 4))
	case vvConst:
		return NewConst(zed.NewInt64(vvInt("const", small)), 4, nil)
	case vvView:
		// what NewView returns for a flat vector
		return &View{vvFlat("inner", small, 6), []uint32{5, 0, 3, 1}}
	case vvNamedDictNulls:
		typ, err := zctx.LookupTypeNamed("n", zed.TypeInt64)
		verif.Assert(err == nil, "setup-named")
		return NewNamed(typ, vvIntDict("dict", small, 4, true))
	case vvFlatNulls:
		return vvFlat("flat", small, 4)
	case vvDynamic:
		// slots 0,3 come from the flat member, slots 1,2 from the dict member
		return NewDynamic([]uint32{0, 1, 1, 0}, []Any{vvFlat("m0", small, 2), vvIntDict("m1", small, 2, true)})
	case vvErrorDictNulls:
		return NewError(zctx.LookupTypeError(zed.TypeInt64), vvIntDict("dict", small, 4, true), vvMask("error.nulls", 4))
	case vvUnion:
		u0, u1 := verif.Uint64("m1.d0"), verif.Uint64("m1.d1")
		verif.Assume(u0 < 128)
		verif.Assume(u1 < 128)
		m1 := vvDictOf("m1", NewUint(zed.TypeUint64, []uint64{u0, u1}, nil), 2, true)
		typ := zctx.LookupTypeUnion([]zed.Type{zed.TypeInt64, zed.TypeUint64})
		return NewUnion(typ, []uint32{0, 1, 1, 0}, []Any{vvFlat("m0", small, 2), m1}, vvMask("union.nulls", 4))
	}
	panic("kind")
}

var vvIndexes = [][]uint32{{2, 0}, {1, 3}, {3, 0, 3}}

func vvSerialize(vec Any, slot uint32) []byte {
	var b zcode.Builder
	vec.Serialize(&b, slot)
	return b.Bytes()
}

// verif:desc C09-O5 vector.NewView (vector/view.go) over every vector kind it special-cases (Dict with and without Nulls, Const with and without Nulls, View, Named, Dynamic, Error, Union) and the default (flat) case, with an index that is neither an identity nor a prefix: the view has len(index) slots and the source's type, and for every output slot k its value and null-ness are those of source slot index[k] -- read with the package's per-slot accessors (IntValue, NullsOf) and, independently, with the real Serialize of both vectors.
// verif:bounds 4-slot sources; index one of [2,0], [1,3], [3,0,3]; 2-entry dictionaries with symbolic int64 values, symbolic tags and symbolic null masks; Const value symbolic; View source = view [5,0,3,1] of a 6-slot flat int64 vector with symbolic null mask; Dynamic/Union with concrete tags [0,1,1,0] over a 2-slot flat member and a 2-slot Dict member (both with symbolic null masks), Union and Error with their own symbolic null masks; under the Serialize oracle values are restricted to one-byte encodings (-64..63, uint < 128); Error and Union are read with Serialize only (IntValue does not take them)
// verif:outside Record/Array/Set/Map/String/Bytes sources (they all take the default case: a plain View), nested Dynamic, symbolic Dynamic/Union tags, sources longer than 4 slots, index out of range (caller error)
func VerifH_C09_O5_view_of_dict_nulls() {
	zctx := zed.NewContext()
	kind := verif.Choose("kind", vvNumKinds)
	ser := verif.Choose("oracle", 2) == 1
	if kind == vvErrorDictNulls || kind == vvUnion {
		// IntValue/NullsOf do not take these; only the Serialize oracle
		verif.Assume(ser)
	}
	index := vvIndexes[verif.Choose("index", len(vvIndexes))]
	src := vvSource(zctx, kind, ser)
	verif.Observe("kind", vvKindName[kind])
	verif.Assert(src.Len() == 4, "setup-source-len")

	view := NewView(append([]uint32(nil), index...), src)

	verif.Assert(view.Len() == uint32(len(index)), "view-len")
	if kind != vvDynamic {
		verif.Assert(view.Type() == src.Type(), "view-type")
	}
	for k, from := range index {
		k := uint32(k)
		if ser {
			got, want := vvSerialize(view, k), vvSerialize(src, from)
			verif.Assert(bytes.Equal(got, want), "view-serialize")
			continue
		}
		gv, gn := IntValue(view, k)
		wv, wn := IntValue(src, from)
		verif.Assert(gn == wn, "view-null-ness")
		if !wn {
			verif.Assert(gv == wv, "view-value")
		}
		if kind != vvDynamic {
			// NullsOf does not take a Dynamic
			verif.Assert(NullsOf(view).Value(k) == NullsOf(src).Value(from), "view-nullsof")
		}
		if wn {
			verif.Reach("null-slot-selected")
		}
	}
	if ser {
		verif.Reach("oracle-serialize")
	} else {
		verif.Reach("oracle-accessors")
	}
	verif.Reach("end")
}
