//go:build verif

package vcache

import (
	"bytes"

	"github.com/brimdata/super"
	"github.com/brimdata/super/internal/verif"
	"github.com/brimdata/super/vng"
	"github.com/brimdata/super/zcode"
	"golang.org/x/sync/errgroup"
)

// vIntVector: well-framed zcode vector of int64s in the full 8-byte spelling
// (zig-zag, little endian) that zed.DecodeInt accepts; branch-free.
func vIntVector(vals ...int64) []byte {
	var b zcode.Bytes
	for _, v := range vals {
		neg := uint64(v >> 63)
		u := ((uint64(v)^neg)-neg)<<1 | neg&1
		var le [8]byte
		for i := range le {
			le[i] = byte(u >> (8 * i))
		}
		b = zcode.Append(b, le[:])
	}
	return b
}

func vFetchRuns(runs []int64, nvals, nnulls uint32) error {
	data := vIntVector(runs...)
	seg := vng.Segment{Offset: 0, Length: uint64(len(data)), MemLength: uint64(len(data))}
	meta := &vng.Nulls{
		Runs:   seg,
		Values: &vng.Const{Value: zed.NewValue(zed.TypeInt64, zed.EncodeInt(7)), Count: nvals},
		Count:  nnulls,
	}
	ns := &nulls{meta: meta}
	var g errgroup.Group
	ns.fetch(&g, bytes.NewReader(data))
	return g.Wait()
}

// verif:desc C11-O4 vcache.nulls.fetch over a run-length vector holding ARBITRARY (untrusted) int64 runs, small or negative: no panic escapes (no out-of-range index into the null bitmap); fetch returns nil or an error.
// verif:bounds column of 2 values + 2 nulls (metadata length 4); 1..3 runs, each any int64 <= 3 (all negative values included)
// verif:outside runs > 3 (see VerifH_C11_O4_vcache_nulls_overlong_run); ill-framed run segment bytes
// verif:unwind 16
func VerifH_C11_O4_vcache_nulls_negative_run() {
	nruns := 1 + verif.Choose("nruns", 3)
	runs := make([]int64, nruns)
	for i := range runs {
		runs[i] = verif.Int64("run")
		verif.Assume(runs[i] <= 3)
	}
	if vFetchRuns(runs, 2, 2) != nil {
		verif.Reach("error")
		return
	}
	verif.Reach("end")
}

// verif:desc C11-O4 vcache.nulls.fetch when the (untrusted) run lengths add up to more than the column length stated in the metadata: no panic escapes (no index past the end of the null bitmap).
// verif:bounds column of 1 value + 1 null (length 2, bitmap of one 64-bit word); runs = [v, r] with v in 0..2 and r any value in 0..70
// verif:outside longer columns
// verif:unwind 80
func VerifH_C11_O4_vcache_nulls_overlong_run() {
	v := int64(verif.Range("v", 0, 2))
	r := int64(verif.Range("r", 0, 70))
	if vFetchRuns([]int64{v, r}, 1, 1) != nil {
		verif.Reach("error")
		return
	}
	verif.Reach("end")
}
