//go:build verif

package vcache

import (
	"bytes"

	"github.com/brimdata/super"
	"github.com/brimdata/super/internal/verif"
	"github.com/brimdata/super/pkg/field"
	"github.com/brimdata/super/vector"
	"github.com/brimdata/super/vng"
	"github.com/brimdata/super/zcode"
)

// ---------------------------------------------------------------------------
// O9: null map keys

// verif:desc C03-O9 maps whose KEY column contains nulls, e.g. |{null(string):2,"a":1}|: written by the real vng encoder (MapEncoder -> NullsEncoder around the key column's PrimitiveEncoder: const / dictionary / plain / empty key column) and read back through BOTH read paths - the row reader (vng.NewBuilder/Build) and the vector cache (newShadow for map keys with a Nulls node, fetchNulls/flattenNulls of the key shadow, loadPrimitive with null slots, loadOffsets, vector.Map.Serialize as vam.Materializer does): every map comes back with exactly its entries, a null key stays a null key with its own value (it is neither dropped nor replaced by a key value), no panic in the loader.
// verif:bounds 2 (quick) / 3 (thorough) map values, each with 1..2 entries whose keys are a nonempty subset of {null, k1, k2} in canonical order (the materializer normalizes maps by key bytes, null first); key type string (k1="a", k2="b": const key column when one distinct non-null key occurs, dictionary when two, empty when all keys are null) or uint8 (k1=1, k2=2: plain column); values int64, distinct per entry (dictionary column) or all equal (const column)
// verif:outside null map values, null maps (C03-O7 vcache_map); keys of container types; more than 2 entries per map; duplicate keys within one map (not a valid map: the materializer drops them)
func VerifH_C03_O9_vcache_null_map_keys() {
	n := 2
	if verif.Thorough() {
		n = 3
	}
	zctx := zed.NewContext()
	var keyType zed.Type = zed.TypeString
	k := [3]zcode.Bytes{nil, []byte("a"), []byte("b")}
	if verif.Choose("keytype", 2) == 1 {
		keyType = zed.TypeUint8
		k = [3]zcode.Bytes{nil, zed.EncodeUint(1), zed.EncodeUint(2)}
	}
	typ := zctx.LookupTypeMap(keyType, zed.TypeInt64)
	distinctVals := verif.Bool("distinct-values")
	// nonempty subsets of {null,k1,k2} of size <= 2, canonical order
	subsets := [][]int{{0}, {1}, {2}, {0, 1}, {0, 2}, {1, 2}}
	bodies := make([]zcode.Bytes, n)
	nullKeys, entries := 0, 0
	var distinctKeys [3]bool
	for i := range bodies {
		sub := subsets[verif.Choose("keys", len(subsets))]
		b := zcode.NewBuilder()
		b.BeginContainer()
		for _, ki := range sub {
			b.Append(k[ki])
			v := int64(7)
			if distinctVals {
				v = int64(10 + entries)
			}
			b.Append(zed.EncodeInt(v))
			entries++
			if ki == 0 {
				nullKeys++
			}
			distinctKeys[ki] = true
		}
		b.EndContainer()
		bodies[i] = b.Bytes().Body()
	}
	if nullKeys == 0 {
		// (no null key: C03-O7 vcache_map)
		return
	}
	meta, data := vEncode(vng.NewEncoder(typ), bodies)
	vRegions(meta)
	m, ok := meta.(*vng.Map)
	verif.Assert(ok, "map-metadata")
	if !ok {
		return
	}
	kn, ok := m.Keys.(*vng.Nulls)
	verif.Assert(ok && int(kn.Count) == nullKeys, "key-column-records-its-nulls")
	vRowCheck(meta, data, bodies, "row")
	vec, _, err := vLoad(meta, data, nil)
	verif.Assert(err == nil, "load-ok")
	if err != nil {
		return
	}
	vVecCheck(vec, bodies, "vector")
	switch {
	case nullKeys == entries:
		verif.Reach("all-keys-null")
	case distinctKeys[1] && distinctKeys[2]:
		verif.Reach("two-distinct-keys")
	default:
		verif.Reach("one-distinct-key")
	}
	verif.Reach("end")
}

// ---------------------------------------------------------------------------
// O10: a sequence of projections on ONE cached object

// vC03eSink collects the bytes of a VNG object.
type vC03eSink struct{ bytes.Buffer }

func (*vC03eSink) Close() error { return nil }

// projections of {a:{b:int64,d:int64},c:int64}
type vC03eProj struct {
	name    string
	paths   []field.Path // nil: whole value
	b, d, c bool
}

var vC03eProjs = []vC03eProj{
	{"full", nil, true, true, true},
	{"a.b", []field.Path{{"a", "b"}}, true, false, false},
	{"a.b,c", []field.Path{{"a", "b"}, {"c"}}, true, false, true},
	{"a.d", []field.Path{{"a", "d"}}, false, true, false},
	{"a.d,c", []field.Path{{"a", "d"}, {"c"}}, false, true, true},
	{"c", []field.Path{{"c"}}, false, false, true},
}

const (
	vC03eFull = iota
	vC03eAB
	vC03eABC
	vC03eAD
	vC03eADC
	vC03eC
)

// the sequences of two fetches on one object
var vC03eSeqs = [][2]int{
	{vC03eABC, vC03eFull},
	{vC03eABC, vC03eAD},
	{vC03eABC, vC03eADC},
	{vC03eAB, vC03eFull},
	{vC03eAB, vC03eAD},
	{vC03eC, vC03eFull},
	{vC03eC, vC03eADC},
	{vC03eFull, vC03eABC},
	{vC03eFull, vC03eAD},
	{vC03eADC, vC03eABC},
}

type vC03eVal struct {
	rootNull, aNull, bNull, dNull, cNull bool
	b, d, c                              int64
}

func (v vC03eVal) leaf(null bool, x int64) zcode.Bytes {
	if null {
		return nil
	}
	return zed.EncodeInt(x)
}

// body restricted to the projected leaves (all three: the value itself)
func (v vC03eVal) body(p vC03eProj) zcode.Bytes {
	if v.rootNull {
		return nil
	}
	w := zcode.NewBuilder()
	w.BeginContainer()
	if p.b || p.d {
		if v.aNull {
			w.Append(nil)
		} else {
			w.BeginContainer()
			if p.b {
				w.Append(v.leaf(v.bNull, v.b))
			}
			if p.d {
				w.Append(v.leaf(v.dNull, v.d))
			}
			w.EndContainer()
		}
	}
	if p.c {
		w.Append(v.leaf(v.cNull, v.c))
	}
	w.EndContainer()
	return w.Bytes().Body()
}

func vC03eProjType(zctx *zed.Context, p vC03eProj) zed.Type {
	var fields []zed.Field
	if p.b || p.d {
		var inner []zed.Field
		if p.b {
			inner = append(inner, zed.NewField("b", zed.TypeInt64))
		}
		if p.d {
			inner = append(inner, zed.NewField("d", zed.TypeInt64))
		}
		fields = append(fields, zed.NewField("a", zctx.MustLookupTypeRecord(inner)))
	}
	if p.c {
		fields = append(fields, zed.NewField("c", zed.TypeInt64))
	}
	return zctx.MustLookupTypeRecord(fields)
}

func vC03eBodies(vec vector.Any) []zcode.Bytes {
	out := make([]zcode.Bytes, vec.Len())
	b := zcode.NewBuilder()
	for i := range out {
		b.Truncate()
		vec.Serialize(b, uint32(i))
		if body := b.Bytes().Body(); body != nil {
			out[i] = append(zcode.Bytes{}, body...)
		}
	}
	return out
}

func vC03eNewObject(data []byte) *Object {
	o, err := vng.NewObject(bytes.NewReader(data))
	verif.Assert(err == nil, "object-opens")
	if err != nil {
		return nil
	}
	return NewObjectFromVNG(o)
}

func vC03eSequence(n int) {
	zctx := zed.NewContext()
	ab := zctx.MustLookupTypeRecord([]zed.Field{zed.NewField("b", zed.TypeInt64), zed.NewField("d", zed.TypeInt64)})
	typ := zctx.MustLookupTypeRecord([]zed.Field{zed.NewField("a", ab), zed.NewField("c", zed.TypeInt64)})
	vals := make([]vC03eVal, n)
	aNulls, dNulls := 0, 0
	for i := range vals {
		v := vC03eVal{b: int64(10 + i), d: int64(20 + i), c: int64(30 + i)}
		switch verif.Choose("kind", 6) {
		case 0:
			v.rootNull = true
		case 1:
			v.aNull = true
			aNulls++
		case 2:
		case 3:
			v.bNull = true
		case 4:
			v.dNull = true
			dNulls++
		case 5:
			v.bNull, v.dNull = true, true
			dNulls++
		}
		if i == 0 && !v.rootNull {
			v.cNull = verif.Bool("c-null")
		}
		vals[i] = v
	}
	seq := vC03eSeqs[verif.Choose("sequence", len(vC03eSeqs))]
	// the object file, by the real writer
	var sink vC03eSink
	w := vng.NewWriter(&sink)
	for _, v := range vals {
		verif.Assert(w.Write(zed.NewValue(typ, v.body(vC03eProjs[vC03eFull]))) == nil, "write-ok")
	}
	verif.Assert(w.Close() == nil, "close-ok")
	data := sink.Bytes()
	cached := vC03eNewObject(data)
	if cached == nil {
		return
	}
	for step, pi := range seq {
		p := vC03eProjs[pi]
		id := "first"
		if step == 1 {
			id = "second"
		}
		proj := NewProjection(p.paths)
		vec, err := cached.Fetch(zctx, proj)
		verif.Assert(err == nil, id+"/fetch-ok")
		if err != nil {
			return
		}
		// what the input says
		want := make([]zcode.Bytes, n)
		for i, v := range vals {
			want[i] = v.body(p)
		}
		verif.Assert(vec.Type() == vC03eProjType(zctx, p), id+"/type")
		vVecCheck(vec, want, id+"/equals-input")
		// what a fresh object says
		fresh := vC03eNewObject(data)
		if fresh == nil {
			return
		}
		fvec, err := fresh.Fetch(zctx, NewProjection(p.paths))
		verif.Assert(err == nil, id+"/fresh-fetch-ok")
		if err != nil {
			return
		}
		verif.Assert(fvec.Type() == vec.Type(), id+"/type-equals-fresh-object")
		got, fgot := vC03eBodies(vec), vC03eBodies(fvec)
		verif.Assert(len(got) == len(fgot), id+"/equals-fresh-object")
		if len(got) == len(fgot) {
			for i := range got {
				verif.Assert(vSame(got[i], fgot[i]), id+"/equals-fresh-object")
			}
		}
	}
	if aNulls > 0 && dNulls > 0 {
		verif.Reach("a-null-somewhere-and-d-null-elsewhere")
	}
	verif.Reach("end")
}

// verif:desc C03-O10 ONE cached vcache.Object is fetched twice with different projections: records {a:{b:int64,d:int64},c:int64}, written by the real vng.Writer, opened by vng.NewObject + vcache.NewObjectFromVNG, then Object.Fetch (NewProjection -> loader.load: fetchNulls / flattenNulls / loadVector / project over the shared shadow with its cached null vectors, flattened nulls and leaf vectors) with a first projection and then a second one that touches fields the first did not name (or the reverse).  After each fetch the vector has the projected record type and materializes (Serialize) to exactly the input restricted to the projected paths, and equals what a FRESH object returns for the same projection - in particular a field's flattened nulls are not fixed before that field's own null runs were fetched (a.d after {a.b,c}).
// verif:bounds 2 records, each one of: null, {a:null,..}, a with b/d each null or a value (6 kinds), c null or a value in the first record; leaf values concrete and distinct per record; sequences {a.b,c}->full, {a.b,c}->{a.d}, {a.b,c}->{a.d,c}, {a.b}->full, {a.b}->{a.d}, {c}->full, {c}->{a.d,c}, full->{a.b,c}, full->{a.d}, {a.d,c}->{a.b,c}; the metadata section passes through the engine's marshal/unmarshal identity model (natively: real ZNG)
// verif:outside concurrent fetches; more than two fetches; projections over a Dynamic of several types; paths through arrays, maps, unions
func VerifH_C03_O10_vcache_projection_sequence() {
	vC03eSequence(2)
}
