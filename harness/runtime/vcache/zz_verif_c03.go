//go:build verif

package vcache

import (
	"bytes"

	"github.com/brimdata/super"
	"github.com/brimdata/super/internal/verif"
	"github.com/brimdata/super/pkg/field"
	"github.com/brimdata/super/vector"
	"github.com/brimdata/super/vng"
	"github.com/brimdata/super/zcode"
	"golang.org/x/sync/errgroup"
)

// vSame: same nullness, same length, same bytes (branch-free over the contents).
func vSame(a, b zcode.Bytes) bool {
	if (a == nil) != (b == nil) || len(a) != len(b) {
		return false
	}
	var diff byte
	for i := range a {
		diff |= a[i] ^ b[i]
	}
	return diff == 0
}

// vEncode is the writer half: real vng encoder for one column, in memory; the
// Metadata tree is handed over as Go structs (what Writer.finalize marshals).
func vEncode(e vng.Encoder, bodies []zcode.Bytes) (vng.Metadata, []byte) {
	for _, b := range bodies {
		e.Write(b)
	}
	var g errgroup.Group
	e.Encode(&g)
	verif.Assert(g.Wait() == nil, "encode-ok")
	_, meta := e.Metadata(0)
	var buf bytes.Buffer
	verif.Assert(e.Emit(&buf) == nil, "emit-ok")
	return meta, buf.Bytes()
}

// vRowCheck: the row-reconstructing reader (vng.NewBuilder/Build).
func vRowCheck(meta vng.Metadata, data []byte, bodies []zcode.Bytes, id string) {
	bld, err := vng.NewBuilder(meta, bytes.NewReader(data))
	verif.Assert(err == nil, id+"/builder")
	if err != nil {
		return
	}
	b := zcode.NewBuilder()
	for i := range bodies {
		b.Truncate()
		err := bld.Build(b)
		verif.Assert(err == nil, id+"/build-ok")
		if err != nil {
			return
		}
		verif.Assert(vSame(b.Bytes().Body(), bodies[i]), id+"/value")
	}
}

// vLoad: the vector-cache read path: newShadow + loader.load (fetchNulls,
// flattenNulls, loadVector, project), i.e. Object.Fetch without the object file.
func vLoad(meta vng.Metadata, data []byte, paths Path) (vector.Any, shadow, error) {
	root := newShadow(meta, nil, 0)
	vec, err := (&loader{zed.NewContext(), bytes.NewReader(data)}).load(paths, root)
	return vec, root, err
}

// vVecCheck materializes every slot the way vam.Materializer.Pull does
// (vec.Serialize into a zcode.Builder) and compares with the bodies written.
func vVecCheck(vec vector.Any, bodies []zcode.Bytes, id string) {
	verif.Assert(vec.Len() == uint32(len(bodies)), id+"/len")
	if vec.Len() != uint32(len(bodies)) {
		return
	}
	b := zcode.NewBuilder()
	for i := range bodies {
		b.Truncate()
		vec.Serialize(b, uint32(i))
		verif.Assert(vSame(b.Bytes().Body(), bodies[i]), id+"/value")
	}
}

// verif:desc C03-O1 null run-lengths, vector-cache reader: vng.NullsEncoder output decoded by vcache.nulls.fetch gives a Bool vector of the column length whose bit i is set iff value i was null, for EVERY null pattern; the row reader (NullsBuilder) over the same bytes agrees.
// verif:bounds column type string, every null/value pattern of length 1..6 (quick) / 1..9 (thorough) with at least one null; value at position i is the concrete byte 'a'+i
// verif:outside columns longer than the bound; compressed run segments
func VerifH_C03_O1_vcache_nulls_fetch() {
	max := 6
	if verif.Thorough() {
		max = 9
	}
	n := 1 + verif.Choose("n", max)
	bodies := make([]zcode.Bytes, n)
	nnull := 0
	for i := range bodies {
		if verif.Bool("null") {
			nnull++
		} else {
			bodies[i] = []byte{'a' + byte(i)}
		}
	}
	if nnull == 0 {
		return
	}
	meta, data := vEncode(vng.NewNullsEncoder(vng.NewPrimitiveEncoder(zed.TypeString, false)), bodies)
	nm, ok := meta.(*vng.Nulls)
	verif.Assert(ok, "nulls-node")
	if !ok {
		return
	}
	ns := &nulls{meta: nm}
	var g errgroup.Group
	ns.fetch(&g, bytes.NewReader(data))
	verif.Assert(g.Wait() == nil, "fetch-ok")
	verif.Assert(ns.local != nil && ns.local.Len() == uint32(n), "fetch/length")
	if ns.local == nil {
		return
	}
	for i := range bodies {
		verif.Assert(ns.local.Value(uint32(i)) == (bodies[i] == nil), "fetch/null-bit")
	}
	vRowCheck(meta, data, bodies, "row")
	verif.Reach("end")
}

// verif:desc C03-O2 flattening of parent and child nulls (vcache newShadow counts, nulls.fetch, nulls.flatten, convolve) agrees with the row reader: for a column of records {a:string} where each value is a null record, a record with a null field, or a record with a value - in EVERY arrangement - the loaded vector materializes (Serialize, as vam.Materializer does) to exactly the sequence written, and so does the row reader.
// verif:bounds every arrangement of {null record, {a:null}, {a:'a'+i}} of length 1..4 (quick) / 1..5 (thorough)
// verif:outside deeper nesting than one record level (see O7_vcache_nested); projections (see O8)
func VerifH_C03_O2_vcache_flatten() {
	max := 4
	if verif.Thorough() {
		max = 5
	}
	n := 1 + verif.Choose("n", max)
	bodies := make([]zcode.Bytes, n)
	recNull := make([]bool, n)
	fldNull := make([]bool, n)
	for i := range bodies {
		b := zcode.NewBuilder()
		switch verif.Choose("kind", 3) {
		case 0:
			recNull[i] = true
			b.Append(nil)
		case 1:
			fldNull[i] = true
			b.BeginContainer()
			b.Append(nil)
			b.EndContainer()
		default:
			b.BeginContainer()
			b.Append([]byte{'a' + byte(i)})
			b.EndContainer()
		}
		bodies[i] = b.Bytes().Body()
	}
	zctx := zed.NewContext()
	typ := zctx.MustLookupTypeRecord([]zed.Field{{Name: "a", Type: zed.TypeString}})
	meta, data := vEncode(vng.NewEncoder(typ), bodies)
	vRowCheck(meta, data, bodies, "row")
	vec, root, err := vLoad(meta, data, nil)
	verif.Assert(err == nil, "load-ok")
	if err != nil {
		return
	}
	// the flattened null vectors themselves
	rec, ok := root.(*record)
	verif.Assert(ok, "record-shadow")
	if ok {
		for i := range bodies {
			verif.Assert(rec.nulls.flat.Value(uint32(i)) == recNull[i], "flat/record")
			var fflat *vector.Bool
			switch f := rec.fields[0].val.(type) {
			case *primitive:
				fflat = f.nulls.flat
			case *const_:
				fflat = f.nulls.flat
			}
			verif.Assert(fflat.Value(uint32(i)) == (recNull[i] || fldNull[i]), "flat/field")
		}
	}
	vVecCheck(vec, bodies, "vector")
	verif.Reach("end")
}

// vLeaf: a possibly-null leaf body of 0..max symbolic bytes (max<0: exactly -max bytes).
func vLeaf(name string, max int, nullable, canonicalInt bool) zcode.Bytes {
	if nullable && verif.Bool(name+".null") {
		return nil
	}
	var b []byte
	if max < 0 {
		b = verif.BytesN(name, -max)
	} else {
		b = verif.Bytes(name, max)
	}
	if b == nil {
		b = []byte{}
	}
	if canonicalInt && len(b) > 0 {
		// writers emit the minimal counted-varint spelling; the vector cache decodes
		// numbers and the materializer re-encodes them minimally
		verif.Assume(b[len(b)-1] != 0)
	}
	return b
}

// vGen appends one value of type typ to b (same generator as the vng harnesses).
func vGen(b *zcode.Builder, typ zed.Type, name string, nullable bool, leafMax int) {
	switch typ := typ.(type) {
	case *zed.TypeNamed:
		vGen(b, typ.Type, name, nullable, leafMax)
		return
	case *zed.TypeError:
		vGen(b, typ.Type, name, nullable, leafMax)
		return
	case *zed.TypeRecord, *zed.TypeArray, *zed.TypeSet, *zed.TypeMap, *zed.TypeUnion:
		if nullable && verif.Bool(name+".null") {
			b.Append(nil)
			return
		}
	default:
		b.Append(vLeaf(name, leafMax, nullable, zed.IsNumber(typ.ID())))
		return
	}
	b.BeginContainer()
	switch typ := typ.(type) {
	case *zed.TypeRecord:
		for _, f := range typ.Fields {
			vGen(b, f.Type, name+"."+f.Name, true, leafMax)
		}
	case *zed.TypeArray:
		for i, n := 0, verif.Choose(name+".len", 3); i < n; i++ {
			vGen(b, typ.Type, name+".e", true, leafMax)
		}
	case *zed.TypeMap:
		for i, n := 0, verif.Choose(name+".len", 2); i < n; i++ {
			vGen(b, typ.KeyType, name+".k", false, leafMax)
			vGen(b, typ.ValType, name+".v", true, leafMax)
		}
	case *zed.TypeUnion:
		tag := verif.Choose(name+".tag", len(typ.Types))
		b.Append(zed.EncodeInt(int64(tag)))
		vGen(b, typ.Types[tag], name+".u", false, leafMax)
	}
	b.EndContainer()
}

// vRegions marks which encodings the metadata tree uses (vacuity witnesses).
func vRegions(m vng.Metadata) {
	switch m := m.(type) {
	case *vng.Nulls:
		verif.Reach("enc/nulls")
		vRegions(m.Values)
	case *vng.Const:
		verif.Reach("enc/const")
	case *vng.Primitive:
		if len(m.Dict) > 0 {
			verif.Reach("enc/dict")
		} else {
			verif.Reach("enc/plain")
		}
	case *vng.Record:
		for _, f := range m.Fields {
			vRegions(f.Values)
		}
	case *vng.Array:
		vRegions(m.Values)
	case *vng.Set:
		vRegions(m.Values)
	case *vng.Map:
		vRegions(m.Keys)
		vRegions(m.Values)
	case *vng.Union:
		for _, v := range m.Values {
			vRegions(v)
		}
	case *vng.Named:
		vRegions(m.Values)
	case *vng.Error:
		vRegions(m.Values)
	}
}

// vStack: n symbolic values of type typ written with the real vng encoder and
// read back through BOTH read paths: the row reader and the vector cache
// (loader.load + Serialize of every slot).
func vStack(typ zed.Type, n, leafMax int, nullable bool) {
	bodies := make([]zcode.Bytes, n)
	for i := range bodies {
		b := zcode.NewBuilder()
		vGen(b, typ, "v", nullable, leafMax)
		bodies[i] = b.Bytes().Body()
	}
	meta, data := vEncode(vng.NewEncoder(typ), bodies)
	vRegions(meta)
	vRowCheck(meta, data, bodies, "row")
	vec, _, err := vLoad(meta, data, nil)
	verif.Assert(err == nil, "load-ok")
	if err != nil {
		return
	}
	vVecCheck(vec, bodies, "vector")
	verif.Reach("end")
}

func vN() int {
	if verif.Thorough() {
		return 3
	}
	return 2
}

// verif:desc C03-O7 vector-cache read path, primitive columns: values written by the real vng encoder, loaded by newShadow + loader.load (loadPrimitive: loadVals / loadDict / const) and materialized slot by slot (Serialize, as vam.Materializer.Pull does) equal the values written, nulls and empty values included; the row reader over the same bytes agrees.  Symbolic values reach the const, dictionary and plain encodings.
// verif:bounds T in {string, int64, uint8}; n = 2 (quick) / 3 (thorough) values, each null or 0..1 symbolic bytes (numbers in the minimal spelling writers produce)
// verif:outside other primitive types; metadata marshalling; LZ4
func VerifH_C03_O7_vcache_primitive() {
	typ := []zed.Type{zed.TypeString, zed.TypeInt64, zed.TypeUint8}[verif.Choose("type", 3)]
	vStack(typ, vN(), 1, true)
}

// verif:desc C03-O7 vector-cache read path for record {a:int64,b:string} (shadow record/field counts, flattened nulls, projectRecord with nil paths) vs the values written and vs the row reader.
// verif:bounds n = 2 records; record null or each field null or exactly 1 symbolic byte
// verif:outside nested records (see vcache_nested)
func VerifH_C03_O7_vcache_record() {
	zctx := zed.NewContext()
	typ := zctx.MustLookupTypeRecord([]zed.Field{{Name: "a", Type: zed.TypeInt64}, {Name: "b", Type: zed.TypeString}})
	vStack(typ, 2, -1, true)
}

// verif:desc C03-O7 vector-cache read path for [string] (loadOffsets with flattened nulls, element vector) vs the values written and vs the row reader.
// verif:bounds n = 2 values; array null or 0..2 elements, element null or exactly 1 symbolic byte
// verif:outside sets (the materializer normalizes sets; not an identity on unnormalized input), arrays longer than 2
func VerifH_C03_O7_vcache_array() {
	zctx := zed.NewContext()
	vStack(zctx.LookupTypeArray(zed.TypeString), 2, -1, true)
}

// verif:desc C03-O7 vector-cache read path for the union (int64,string) without null unions (loadUnion tags, vector.Union/Dynamic TagMap) vs the values written and vs the row reader.
// verif:bounds n = 2 (quick) / 3 (thorough) non-null union values; tag in {0,1}, inner value exactly 1 symbolic byte
// verif:outside null union values (see vcache_union_nulls)
func VerifH_C03_O7_vcache_union() {
	zctx := zed.NewContext()
	vStack(zctx.LookupTypeUnion([]zed.Type{zed.TypeInt64, zed.TypeString}), vN(), -1, false)
}

// verif:desc C03-O7 vector-cache read path for the union (int64,string) WITH null union values mixed in.
// verif:bounds n = 2 values; union null or tag in {0,1} with an inner value of exactly 1 symbolic byte
// verif:outside unions of containers
func VerifH_C03_O7_vcache_union_nulls() {
	zctx := zed.NewContext()
	vStack(zctx.LookupTypeUnion([]zed.Type{zed.TypeInt64, zed.TypeString}), 2, -1, true)
}

// verif:desc C03-O7 vector-cache read path for the map |{string:int64}| (loadOffsets, keys/values vectors) vs the values written and vs the row reader.
// verif:bounds n = 2 values; map null or 0..1 entries; key exactly 1 symbolic byte, value null or 1 symbolic byte
// verif:outside maps with more than one entry (the materializer normalizes key order)
func VerifH_C03_O7_vcache_map() {
	zctx := zed.NewContext()
	vStack(zctx.LookupTypeMap(zed.TypeString, zed.TypeInt64), 2, -1, true)
}

// verif:desc C03-O7 vector-cache read path for a named type n=string, error(string) and a record nested in a record {r:{a:string}} (named/error_ shadows; nulls flattened through two record levels) vs the values written and vs the row reader.
// verif:bounds T in {n=string, error(string), {r:{a:string}}}; n = 2 (quick) / 3 (thorough) values; leaves null or exactly 1 symbolic byte
// verif:outside deeper nesting
func VerifH_C03_O7_vcache_nested() {
	zctx := zed.NewContext()
	var typ zed.Type
	switch verif.Choose("type", 3) {
	case 0:
		named, err := zctx.LookupTypeNamed("n", zed.TypeString)
		verif.Assert(err == nil, "named-type")
		typ = named
	case 1:
		typ = zctx.LookupTypeError(zed.TypeString)
	default:
		inner := zctx.MustLookupTypeRecord([]zed.Field{{Name: "a", Type: zed.TypeString}})
		typ = zctx.MustLookupTypeRecord([]zed.Field{{Name: "r", Type: inner}})
	}
	vStack(typ, vN(), -1, true)
}

// verif:desc C03-O8 projection: for records {a:string,b:string} loaded through the vector cache with a projection (NewProjection -> loader.load -> projectRecord), every value carries at the projected paths the same data as the full read, a path absent from the type reads as error("missing"), and a null record stays null.
// verif:bounds n = 2 records; record null or each field null or exactly 1 symbolic byte; projections {a}, {b}, {a,b} (fork), {z} (absent), {a,z}
// verif:outside nested paths; projections over a Dynamic of several types
func VerifH_C03_O8_vcache_projection() {
	zctx := zed.NewContext()
	typ := zctx.MustLookupTypeRecord([]zed.Field{{Name: "a", Type: zed.TypeString}, {Name: "b", Type: zed.TypeString}})
	const n = 2
	bodies := make([]zcode.Bytes, n)
	for i := range bodies {
		b := zcode.NewBuilder()
		vGen(b, typ, "v", true, -1)
		bodies[i] = b.Bytes().Body()
	}
	meta, data := vEncode(vng.NewEncoder(typ), bodies)
	projs := [][]string{{"a"}, {"b"}, {"a", "b"}, {"z"}, {"a", "z"}}
	names := projs[verif.Choose("projection", len(projs))]
	var fpaths []field.Path
	for _, name := range names {
		fpaths = append(fpaths, field.Path{name})
	}
	vec, _, err := vLoad(meta, data, NewProjection(fpaths))
	verif.Assert(err == nil, "load-ok")
	if err != nil {
		return
	}
	// expected: the full value restricted to the projected fields
	want := make([]zcode.Bytes, n)
	for i, body := range bodies {
		if body == nil {
			continue
		}
		it := body.Iter()
		a, bb := it.Next(), it.Next()
		w := zcode.NewBuilder()
		w.BeginContainer()
		for _, name := range names {
			switch name {
			case "a":
				w.Append(a)
			case "b":
				w.Append(bb)
			default:
				w.Append(zed.EncodeString("missing"))
			}
		}
		w.EndContainer()
		want[i] = w.Bytes().Body()
	}
	vVecCheck(vec, want, "projected")
	verif.Reach("end")
}

// verif:desc C03-O6 top-level tags, vector-cache reader: values of several types written through vng.DynamicEncoder (Write/Encode/Emit) and loaded through the vector cache (dynamic shadow, loadUint32 tags, projectDynamic, vector.Dynamic TagMap) materialize in the order written: slot i has the type and bytes of the i-th value; the row reader (vng.NewZedReader) over the same bytes agrees.
// verif:bounds sequences of 1..4 values, each of type string, bytes or bool chosen symbolically per position (every pattern); values all equal (const columns) or distinct per position (dictionary / plain columns), chosen symbolically; no nulls
// verif:outside metadata marshalling; projections of a Dynamic
// verif:unwind 24
func VerifH_C03_O6_vcache_dynamic_order() {
	n := 1 + verif.Choose("n", 4)
	types := []zed.Type{zed.TypeString, zed.TypeBytes, zed.TypeBool}
	which := make([]int, n)
	vals := make([]zed.Value, n)
	distinct := verif.Bool("distinct")
	for i := 0; i < n; i++ {
		which[i] = verif.Choose("type", 3)
		v := byte(1)
		if distinct && which[i] != 2 {
			v += byte(i)
		}
		vals[i] = zed.NewValue(types[which[i]], []byte{v})
	}
	d := vng.NewDynamicEncoder()
	for _, v := range vals {
		verif.Assert(d.Write(v) == nil, "write-ok")
	}
	meta, _, err := d.Encode()
	verif.Assert(err == nil, "encode-ok")
	var buf bytes.Buffer
	verif.Assert(d.Emit(&buf) == nil, "emit-ok")
	// row reader
	r, err := vng.NewZedReader(zed.NewContext(), meta, bytes.NewReader(buf.Bytes()))
	verif.Assert(err == nil, "reader-ok")
	if err != nil {
		return
	}
	for i := 0; i < n; i++ {
		got, err := r.Read()
		verif.Assert(err == nil && got != nil, "row/read-ok")
		if err != nil || got == nil {
			return
		}
		verif.Assert(got.Type() == types[which[i]], "row/type")
		verif.Assert(vSame(got.Bytes(), vals[i].Bytes()), "row/value")
	}
	// vector cache
	vec, _, err := vLoad(meta, buf.Bytes(), nil)
	verif.Assert(err == nil, "load-ok")
	if err != nil {
		return
	}
	verif.Assert(vec.Len() == uint32(n), "vector/len")
	if vec.Len() != uint32(n) {
		return
	}
	dyn, isDyn := vec.(*vector.Dynamic)
	b := zcode.NewBuilder()
	for i := 0; i < n; i++ {
		typ := zed.Type(nil)
		if isDyn {
			typ = dyn.TypeOf(uint32(i))
		} else {
			typ = vec.Type()
		}
		verif.Assert(typ == types[which[i]], "vector/type")
		b.Truncate()
		vec.Serialize(b, uint32(i))
		verif.Assert(vSame(b.Bytes().Body(), vals[i].Bytes()), "vector/value")
	}
	if isDyn {
		verif.Reach("dynamic")
	} else {
		verif.Reach("single-type")
	}
	verif.Reach("end")
}

// verif:desc C03-O3 dictionary boundary at vng.MaxDictSize=256 through the vector cache: a string column pre-loaded with K distinct values, K in {255,256}, plus ONE more symbolic value (an existing entry or a new one) written by the real encoder and loaded by loadPrimitive (loadDict with byte tags when a dictionary was emitted, loadVals otherwise) materializes to all K+1 values in order; the row reader agrees.
// verif:bounds pre-state concrete: values {i,1} for i<K; the extra value {x,y} with x in {0,1,254,255}, y in {1,2} symbolic
// verif:outside other primitive types; nulls mixed into a dictionary column (see O7_vcache_primitive for small dictionaries with nulls)
// verif:unwind 600
// verif:tier thorough
func VerifH_C03_O3_vcache_dict_boundary() {
	k := []int{255, 256}[verif.Choose("k", 2)]
	var bodies []zcode.Bytes
	for i := 0; i < k; i++ {
		bodies = append(bodies, []byte{byte(i), 1})
	}
	x, y := verif.Byte("x"), verif.Byte("y")
	verif.Assume(x < 2 || x >= 254)
	verif.Assume(y == 1 || y == 2)
	bodies = append(bodies, []byte{x, y})
	meta, data := vEncode(vng.NewPrimitiveEncoder(zed.TypeString, true), bodies)
	p, ok := meta.(*vng.Primitive)
	verif.Assert(ok, "primitive-metadata")
	if !ok {
		return
	}
	if len(p.Dict) > 0 {
		verif.Reach("dict")
	} else {
		verif.Reach("dict-abandoned")
	}
	vRowCheck(meta, data, bodies, "row")
	vec, _, err := vLoad(meta, data, nil)
	verif.Assert(err == nil, "load-ok")
	if err != nil {
		return
	}
	vVecCheck(vec, bodies, "vector")
	verif.Reach("end")
}
