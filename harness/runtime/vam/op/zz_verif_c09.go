//go:build verif

package op

import (
	"errors"

	"github.com/brimdata/super"
	"github.com/brimdata/super/internal/verif"
	samexpr "github.com/brimdata/super/runtime/sam/expr"
	"github.com/brimdata/super/vector"
)

// C09-O3: the two auto-vectorized aggregates (optimizer.Vectorize rewrites
// `sum(<field>)` and `count() by <field>` purely by syntactic shape) against
// the sequential aggregation of the same values.  A "batch" is what one
// object's vector copy delivers to Sum.update / CountByString.update: a
// record vector {x:<field vector>} (or a Dynamic of such records).

// vBatch is one batch: the vector handed to update, and the logical field
// values (one per row, in row order) the sequential runtime sees for it.
// A row whose record has no field x contributes no value.
type vBatch struct {
	vec  vector.Any
	vals []zed.Value
	kind string
}

func vNullBits(n uint32, slot uint32) *vector.Bool {
	b := vector.NewBoolEmpty(n, nil)
	b.Set(slot)
	return b
}

func vRecord(zctx *zed.Context, field vector.Any, n uint32) vector.Any {
	typ := zctx.MustLookupTypeRecord([]zed.Field{{Name: "x", Type: field.Type()}})
	return vector.NewRecord(typ, []vector.Any{field}, n, nil)
}

func vStringVec(nulls *vector.Bool, ss ...string) *vector.String {
	v := vector.NewStringEmpty(uint32(len(ss)), nulls)
	for _, s := range ss {
		v.Append(s)
	}
	return v
}

const (
	vbIntFlat = iota
	vbIntFlatNull
	vbIntDict
	vbIntDictNull
	vbIntConst
	vbIntConstNull
	vbUintFlat
	vbUintDict
	vbFloatFlat
	vbFloatDict
	vbStringFlat
	vbStringFlatNull
	vbStringDict
	vbStringDictNull
	vbStringConst
	vbStringConstNull
	vbAllNullInt
	vbAllNullString
	vbNullType
	vbBoolFlat
	vbBytesFlat
	vbMissingField
	vbUnionIntString
	vbDynamicIntString
	vbErrorField
	vbIntView
	vbStringView
	vbNumKinds
)

var vBatchName = []string{
	"int-flat", "int-flat-null", "int-dict", "int-dict-null", "int-const", "int-const-null",
	"uint-flat", "uint-dict", "float-flat", "float-dict",
	"string-flat", "string-flat-null", "string-dict", "string-dict-null", "string-const", "string-const-null",
	"allnull-int", "allnull-string", "nulltype", "bool-flat", "bytes-flat", "missing-field",
	"union-int-string", "dynamic-int-string", "error-field", "int-view", "string-view",
}

// vMkBatch builds batch number b of the given kind with symbolic payloads.
// The shapes follow vcache.loader: flat vectors hold a zero payload under a
// set Nulls bit; a Dict has >= 2 distinct dictionary values, Counts = number
// of non-null rows per value, Index 0 under a set Nulls bit; a Const column
// is one whose non-null rows are all equal; a column of nulls only is a flat
// vector of zero payloads with every Nulls bit set.
func vMkBatch(zctx *zed.Context, b string, kind int) vBatch {
	bt := vBatch{kind: vBatchName[kind]}
	i1, i2 := verif.Int64(b+".i1"), verif.Int64(b+".i2")
	s1, s2 := verif.StringN(b+".s1", 1), verif.StringN(b+".s2", 1)
	switch kind {
	case vbIntFlat:
		bt.vec = vRecord(zctx, vector.NewInt(zed.TypeInt64, []int64{i1, i2}, nil), 2)
		bt.vals = []zed.Value{zed.NewInt64(i1), zed.NewInt64(i2)}
	case vbIntFlatNull:
		bt.vec = vRecord(zctx, vector.NewInt(zed.TypeInt64, []int64{i1, 0}, vNullBits(2, 1)), 2)
		bt.vals = []zed.Value{zed.NewInt64(i1), zed.NullInt64}
	case vbIntDict:
		verif.Assume(i1 != i2)
		// rows: i1, i2, i2
		d := vector.NewDict(vector.NewInt(zed.TypeInt64, []int64{i1, i2}, nil), []byte{0, 1, 1}, []uint32{1, 2}, nil)
		bt.vec = vRecord(zctx, d, 3)
		bt.vals = []zed.Value{zed.NewInt64(i1), zed.NewInt64(i2), zed.NewInt64(i2)}
	case vbIntDictNull:
		verif.Assume(i1 != i2)
		// rows: i1, null, i2
		d := vector.NewDict(vector.NewInt(zed.TypeInt64, []int64{i1, i2}, nil), []byte{0, 0, 1}, []uint32{1, 1}, vNullBits(3, 1))
		bt.vec = vRecord(zctx, d, 3)
		bt.vals = []zed.Value{zed.NewInt64(i1), zed.NullInt64, zed.NewInt64(i2)}
	case vbIntConst:
		bt.vec = vRecord(zctx, vector.NewConst(zed.NewInt64(i1), 2, nil), 2)
		bt.vals = []zed.Value{zed.NewInt64(i1), zed.NewInt64(i1)}
	case vbIntConstNull:
		bt.vec = vRecord(zctx, vector.NewConst(zed.NewInt64(i1), 2, vNullBits(2, 1)), 2)
		bt.vals = []zed.Value{zed.NewInt64(i1), zed.NullInt64}
	case vbUintFlat:
		bt.vec = vRecord(zctx, vector.NewUint(zed.TypeUint64, []uint64{uint64(i1), uint64(i2)}, nil), 2)
		bt.vals = []zed.Value{zed.NewUint64(uint64(i1)), zed.NewUint64(uint64(i2))}
	case vbUintDict:
		verif.Assume(i1 != i2)
		d := vector.NewDict(vector.NewUint(zed.TypeUint64, []uint64{uint64(i1), uint64(i2)}, nil), []byte{0, 1, 1}, []uint32{1, 2}, nil)
		bt.vec = vRecord(zctx, d, 3)
		bt.vals = []zed.Value{zed.NewUint64(uint64(i1)), zed.NewUint64(uint64(i2)), zed.NewUint64(uint64(i2))}
	case vbFloatFlat:
		f1, f2 := verif.Float64(b+".f1"), verif.Float64(b+".f2")
		bt.vec = vRecord(zctx, vector.NewFloat(zed.TypeFloat64, []float64{f1, f2}, nil), 2)
		bt.vals = []zed.Value{zed.NewFloat64(f1), zed.NewFloat64(f2)}
	case vbFloatDict:
		f1, f2 := verif.Float64(b+".f1"), verif.Float64(b+".f2")
		d := vector.NewDict(vector.NewFloat(zed.TypeFloat64, []float64{f1, f2}, nil), []byte{0, 1, 1}, []uint32{1, 2}, nil)
		bt.vec = vRecord(zctx, d, 3)
		bt.vals = []zed.Value{zed.NewFloat64(f1), zed.NewFloat64(f2), zed.NewFloat64(f2)}
	case vbStringFlat:
		bt.vec = vRecord(zctx, vStringVec(nil, s1, s2), 2)
		bt.vals = []zed.Value{zed.NewString(s1), zed.NewString(s2)}
	case vbStringFlatNull:
		bt.vec = vRecord(zctx, vStringVec(vNullBits(2, 1), s1, ""), 2)
		bt.vals = []zed.Value{zed.NewString(s1), zed.NullString}
	case vbStringDict:
		verif.Assume(s1 != s2)
		d := vector.NewDict(vStringVec(nil, s1, s2), []byte{0, 1, 1}, []uint32{1, 2}, nil)
		bt.vec = vRecord(zctx, d, 3)
		bt.vals = []zed.Value{zed.NewString(s1), zed.NewString(s2), zed.NewString(s2)}
	case vbStringDictNull:
		verif.Assume(s1 != s2)
		d := vector.NewDict(vStringVec(nil, s1, s2), []byte{0, 0, 1}, []uint32{1, 1}, vNullBits(3, 1))
		bt.vec = vRecord(zctx, d, 3)
		bt.vals = []zed.Value{zed.NewString(s1), zed.NullString, zed.NewString(s2)}
	case vbStringConst:
		bt.vec = vRecord(zctx, vector.NewConst(zed.NewString(s1), 2, nil), 2)
		bt.vals = []zed.Value{zed.NewString(s1), zed.NewString(s1)}
	case vbStringConstNull:
		bt.vec = vRecord(zctx, vector.NewConst(zed.NewString(s1), 2, vNullBits(2, 1)), 2)
		bt.vals = []zed.Value{zed.NewString(s1), zed.NullString}
	case vbAllNullInt:
		bt.vec = vRecord(zctx, vector.NewInt(zed.TypeInt64, []int64{0}, vNullBits(1, 0)), 1)
		bt.vals = []zed.Value{zed.NullInt64}
	case vbAllNullString:
		bt.vec = vRecord(zctx, vector.NewString([]uint32{0, 0}, nil, vNullBits(1, 0)), 1)
		bt.vals = []zed.Value{zed.NullString}
	case vbNullType:
		bt.vec = vRecord(zctx, vector.NewConst(zed.Null, 2, nil), 2)
		bt.vals = []zed.Value{zed.Null, zed.Null}
	case vbBoolFlat:
		b1 := verif.Bool(b + ".b1")
		v := vector.NewBoolEmpty(1, nil)
		if b1 {
			v.Set(0)
		}
		bt.vec = vRecord(zctx, v, 1)
		bt.vals = []zed.Value{zed.NewBool(b1)}
	case vbBytesFlat:
		v := vector.NewBytesEmpty(1, nil)
		v.Append([]byte(s1))
		bt.vec = vRecord(zctx, v, 1)
		bt.vals = []zed.Value{zed.NewBytes([]byte(s1))}
	case vbMissingField:
		typ := zctx.MustLookupTypeRecord([]zed.Field{{Name: "y", Type: zed.TypeInt64}})
		bt.vec = vector.NewRecord(typ, []vector.Any{vector.NewInt(zed.TypeInt64, []int64{i1}, nil)}, 1, nil)
		bt.vals = nil
	case vbUnionIntString:
		// x:(int64,string) rows: i1, s1 -- the sequential side is given the
		// values under the union (sam looks through unions with Under)
		utyp := zctx.LookupTypeUnion([]zed.Type{zed.TypeInt64, zed.TypeString})
		u := vector.NewUnion(utyp, []uint32{0, 1}, []vector.Any{
			vector.NewInt(zed.TypeInt64, []int64{i1}, nil),
			vStringVec(nil, s1),
		}, nil)
		bt.vec = vRecord(zctx, u, 2)
		bt.vals = []zed.Value{zed.NewInt64(i1), zed.NewString(s1)}
	case vbDynamicIntString:
		// records of two types in one object: {x:int64} and {x:string}
		bt.vec = vector.NewDynamic([]uint32{0, 1}, []vector.Any{
			vRecord(zctx, vector.NewInt(zed.TypeInt64, []int64{i1}, nil), 1),
			vRecord(zctx, vStringVec(nil, s1), 1),
		})
		bt.vals = []zed.Value{zed.NewInt64(i1), zed.NewString(s1)}
	case vbErrorField:
		ev := vector.NewStringError(zctx, "e", 1)
		bt.vec = vRecord(zctx, ev, 1)
		bt.vals = []zed.Value{zctx.NewError(errors.New("e"))}
	case vbIntView:
		vw := vector.NewView([]uint32{1, 0}, vector.NewInt(zed.TypeInt64, []int64{i1, i2}, nil))
		bt.vec = vRecord(zctx, vw, 2)
		bt.vals = []zed.Value{zed.NewInt64(i2), zed.NewInt64(i1)}
	case vbStringView:
		vw := vector.NewView([]uint32{1, 0}, vStringVec(nil, s1, s2))
		bt.vec = vRecord(zctx, vw, 2)
		bt.vals = []zed.Value{zed.NewString(s2), zed.NewString(s1)}
	default:
		panic("batch kind")
	}
	return bt
}

// vCur is the sequential leaf evaluator: the field value of the current row.
type vCur struct{ val zed.Value }

func (c *vCur) Eval(samexpr.Context, zed.Value) zed.Value { return c.val }

func vRun(f func()) (panicked bool) {
	defer func() {
		if recover() != nil {
			panicked = true
		}
	}()
	f()
	return false
}

var vSumKinds = []int{vbIntFlat, vbIntFlatNull, vbIntDict, vbIntDictNull, vbIntConst, vbIntConstNull, vbUintFlat, vbUintDict,
	vbFloatFlat, vbFloatDict, vbStringFlat, vbAllNullInt, vbNullType, vbBoolFlat, vbMissingField, vbUnionIntString,
	vbDynamicIntString, vbErrorField, vbIntView}

// vSumGood: field shapes for which Sum.update is written (signed integers,
// flat or dict, nulls allowed): everything else gets its own assertion id.
func vSumGood(kind int) bool {
	switch kind {
	case vbIntFlat, vbIntFlatNull, vbIntDict, vbIntDictNull, vbMissingField:
		return true
	}
	return false
}

func vCheckSum(kinds []int) {
	zctx := zed.NewContext()
	s := NewSum(zctx, nil, "x")
	cur := &vCur{}
	a, err := samexpr.NewAggregator("sum", cur, nil)
	if err != nil {
		panic(err)
	}
	f := a.NewFunction()
	ectx := samexpr.NewContext()
	region := ""
	anyVal := false
	for n, k := range kinds {
		bt := vMkBatch(zctx, []string{"b0", "b1"}[n], k)
		if !vSumGood(k) && region == "" {
			region = bt.kind
		}
		panicked := vRun(func() { s.update(bt.vec) })
		verif.Assert(!panicked, "sum-panics/"+bt.kind)
		for _, v := range bt.vals {
			cur.val = v
			a.Apply(zctx, ectx, f, zed.Null)
			if !v.IsNull() {
				anyVal = true
			}
		}
	}
	if region == "" && !anyVal {
		region = "no-non-null-value"
	}
	if region == "" {
		region = "signed"
	} else {
		verif.Reach("other-kinds")
	}
	var out *vector.Record
	panicked := vRun(func() { out = s.materialize(zctx, "x") })
	verif.Assert(!panicked, "sum-materialize-panics/"+region)
	if panicked {
		return
	}
	want := f.Result(zctx)
	verif.Assert(out.Len() == 1 && len(out.Fields) == 1 && len(out.Typ.Fields) == 1 && out.Typ.Fields[0].Name == "sum", "sum-shape/"+region)
	sumVec, ok := out.Fields[0].(*vector.Int)
	verif.Assert(ok, "sum-shape/"+region)
	if !ok {
		return
	}
	// {sum:<want>} is what the sequential summarize yields
	verif.Assert(out.Typ.Fields[0].Type == want.Type(), "sum-type-differs/"+region)
	if out.Typ.Fields[0].Type != want.Type() {
		return
	}
	gotNull := sumVec.Nulls.Value(0)
	verif.Assert(gotNull == want.IsNull(), "sum-null-differs/"+region)
	if gotNull || want.IsNull() {
		return
	}
	verif.Observe("sum", sumVec.Values[0])
	verif.Assert(sumVec.Values[0] == want.Int(), "sum-value-differs/"+region)
	verif.Reach("end")
}

// verif:desc C09-O3 vam/op.Sum.update (+ DotExpr, materialize) on one batch of every field shape the loader can deliver vs the sequential sum (sam/expr.Aggregator.Apply -> agg mathReducer.Consume/Result) over the same field values: no panic, same type, same null-ness, same value.
// verif:bounds one batch of 1..3 rows; field shape in {int64 flat, flat+null, dict, dict+null, const, const+null; uint64 flat, dict; float64 flat, dict; string; all-null int64; null-typed; bool; field missing; union(int64,string); Dynamic of {x:int64},{x:string}; error; view}; payloads arbitrary (64-bit / 1 byte)
// verif:outside more rows, narrower integer types, time/duration, nested fields; the sequential grouping operator itself (the aggregate function is driven directly); union values are given to the sequential side already un-unioned
func VerifH_C09_O3_sum_one_batch() {
	k := vSumKinds[verif.Choose("kind", len(vSumKinds))]
	vCheckSum([]int{k})
}

// verif:desc C09-O3 Sum over two batches (two objects / two types in one pool): state carried across update calls.
// verif:bounds two batches, shapes in {int64 flat, flat+null, dict+null, uint64 flat, float64 flat, const, all-null, missing}^2
// verif:outside as sum_one_batch
func VerifH_C09_O3_sum_two_batches() {
	ks := []int{vbIntFlat, vbIntFlatNull, vbIntDictNull, vbUintFlat, vbFloatFlat, vbIntConst, vbAllNullInt, vbMissingField}
	k0 := ks[verif.Choose("kind0", len(ks))]
	k1 := ks[verif.Choose("kind1", len(ks))]
	vCheckSum([]int{k0, k1})
}

var vCountKinds = []int{vbStringFlat, vbStringFlatNull, vbStringDict, vbStringDictNull, vbStringConst, vbStringConstNull,
	vbAllNullString, vbNullType, vbIntFlat, vbIntDict, vbIntConst, vbFloatFlat, vbBoolFlat, vbBytesFlat, vbMissingField,
	vbUnionIntString, vbDynamicIntString, vbErrorField, vbStringView}

func vCountGood(kind int) bool {
	switch kind {
	case vbStringFlat, vbStringDict, vbStringConst:
		return true
	}
	return false
}

// vGroup is the reference grouping: rows are grouped by (type, value) of the
// key, nulls of one type together; each group is counted by the real
// sequential count aggregate.
type vGroup struct {
	key   zed.Value
	count uint64
}

func vSameKey(a, b zed.Value) bool {
	if a.Type() != b.Type() || a.IsNull() != b.IsNull() {
		return false
	}
	if a.IsNull() {
		return true
	}
	if a.Type() == zed.TypeString {
		return zed.DecodeString(a.Bytes()) == zed.DecodeString(b.Bytes())
	}
	if a.Type() == zed.TypeInt64 {
		return a.Int() == b.Int()
	}
	return string(a.Bytes()) == string(b.Bytes())
}

func vCheckCount(kinds []int) {
	zctx := zed.NewContext()
	c := NewCountByString(zctx, nil, "x")
	var groups []*vGroup
	region := ""
	for n, k := range kinds {
		bt := vMkBatch(zctx, []string{"b0", "b1"}[n], k)
		if !vCountGood(k) && region == "" {
			region = bt.kind
		}
		panicked := vRun(func() { c.update(bt.vec) })
		verif.Assert(!panicked, "count-panics/"+bt.kind)
		if panicked {
			// the query is dead; nothing to compare
			return
		}
		for _, v := range bt.vals {
			if v.IsError() {
				continue
			}
			found := false
			for _, g := range groups {
				if vSameKey(g.key, v) {
					g.count++
					found = true
					break
				}
			}
			if !found {
				groups = append(groups, &vGroup{key: v, count: 1})
			}
		}
	}
	if region == "" {
		if len(kinds) == 2 && (kinds[0] == vbStringDict || kinds[1] == vbStringDict) {
			region = "strings-with-dict"
		} else {
			region = "strings"
		}
	} else {
		verif.Reach("other-kinds")
	}
	var out *vector.Record
	panicked := vRun(func() { out = c.table.materialize(zctx, "x") })
	verif.Assert(!panicked, "count-materialize-panics/"+region)
	if panicked {
		return
	}
	keys, ok1 := out.Fields[0].(*vector.String)
	counts, ok2 := out.Fields[1].(*vector.Uint)
	verif.Assert(ok1 && ok2, "count-shape/"+region)
	if !ok1 || !ok2 {
		return
	}
	rows := out.Len()
	verif.Assert(keys.Len() == rows && counts.Len() == rows, "count-shape/"+region)
	// every reference group must be a row with the same count, and there
	// must be no other rows (the output has string keys only, so a group
	// with a key of another type can never be matched)
	verif.Assert(int(rows) == len(groups), "count-groups-differ/"+region)
	for _, g := range groups {
		matched := false
		for r := uint32(0); r < rows && r < keys.Len() && r < counts.Len(); r++ {
			var row zed.Value
			if keys.Nulls.Value(r) {
				row = zed.NullString
			} else {
				row = zed.NewString(keys.Value(r))
			}
			if vSameKey(g.key, row) {
				matched = true
				verif.Assert(counts.Values[r] == g.count, "count-value-differs/"+region)
			}
		}
		verif.Assert(matched, "count-group-missing/"+region)
	}
	verif.Reach("end")
}

// verif:desc C09-O3 vam/op.CountByString.update (DotExpr, countByString.count/countDict/countFixed, materialize) on one batch of every field shape vs grouping the same field values by (type,value) and counting: no panic, same groups, same counts.
// verif:bounds one batch of 1..3 rows; field shape in {string flat, flat+null, dict, dict+null, const, const+null, all-null, view; null-typed; int64 flat/dict/const; float64; bool; bytes; field missing; union; Dynamic; error}; string payloads 1 arbitrary byte
// verif:outside more rows, longer keys, the sequential group-by operator (the reference grouping is done by the harness: equal type and value)
func VerifH_C09_O3_countby_one_batch() {
	k := vCountKinds[verif.Choose("kind", len(vCountKinds))]
	vCheckCount([]int{k})
}

// verif:desc C09-O3 CountByString over two batches: the table carried across update calls (the same key may occur in both).
// verif:bounds two batches, shapes in {string flat, flat+null, dict, const, const+null}^2; 1-byte keys, any of which may coincide
// verif:outside as countby_one_batch
func VerifH_C09_O3_countby_two_batches() {
	ks := []int{vbStringFlat, vbStringFlatNull, vbStringDict, vbStringConst, vbStringConstNull}
	k0 := ks[verif.Choose("kind0", len(ks))]
	k1 := ks[verif.Choose("kind1", len(ks))]
	vCheckCount([]int{k0, k1})
}
