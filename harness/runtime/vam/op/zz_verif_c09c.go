//go:build verif

package op

import (
	"github.com/brimdata/super"
	"github.com/brimdata/super/internal/verif"
	samhead "github.com/brimdata/super/runtime/sam/op/head"
	"github.com/brimdata/super/vector"
	"github.com/brimdata/super/zbuf"
)

// C09-O4: the vam head operator is re-used across successive input streams.
// In a lateral subquery `over ... => (head N)` the operator is pulled until
// EOS once per outer value ("scope"); the parent (op.Scope over op.Over, or
// anything between it and head) delivers the rows of one scope, then EOS,
// then the rows of the next scope.  The puller protocol (zbuf.Puller doc):
// after EOS -- natural or requested with done -- an operator behaves as if
// restarted in its initial state.

// vScopes is the model parent shared by both runtimes: rows[s] are the row
// values of scope s, delivered as vectors / batches of width rows each and
// then EOS.  Pull(done=true) abandons the scope that is being delivered (as
// op.Scope and sam's traverse scope do) and answers EOS; between scopes it
// is answered with EOS and nothing is skipped.
type vScopes struct {
	rows    [][]int64
	width   int
	s, i    int
	inScope bool // at least one row of scope s was delivered, no EOS yet
	dones   int
}

// next returns the rows of the next vector, or nil for EOS.
func (p *vScopes) next(done bool) []int64 {
	if p.s >= len(p.rows) {
		return nil
	}
	if done {
		p.dones++
		if p.inScope {
			p.s++
			p.i = 0
			p.inScope = false
		}
		return nil
	}
	if p.i < len(p.rows[p.s]) {
		x := p.rows[p.s][p.i : p.i+p.width]
		p.i += p.width
		p.inScope = true
		return x
	}
	p.s++
	p.i = 0
	p.inScope = false
	return nil
}

type vVecScopes struct{ vScopes }

func (p *vVecScopes) Pull(done bool) (vector.Any, error) {
	x := p.next(done)
	if x == nil {
		return nil, nil
	}
	return vector.NewInt(zed.TypeInt64, append([]int64(nil), x...), nil), nil
}

type vSeqScopes struct{ vScopes }

func (p *vSeqScopes) Pull(done bool) (zbuf.Batch, error) {
	x := p.next(done)
	if x == nil {
		return nil, nil
	}
	var vals []zed.Value
	for _, x := range x {
		vals = append(vals, zed.NewInt64(x))
	}
	return zbuf.NewArray(vals), nil
}

// vDrainVec pulls a vector puller until EOS and returns the rows delivered.
func vDrainVec(p vector.Puller) ([]int64, bool) {
	var out []int64
	for {
		vec, err := p.Pull(false)
		if err != nil {
			return out, false
		}
		if vec == nil {
			return out, true
		}
		for slot := uint32(0); slot < vec.Len(); slot++ {
			x, null := vector.IntValue(vec, slot)
			if null {
				return out, false
			}
			out = append(out, x)
		}
	}
}

func vDrainSeq(p zbuf.Puller) ([]int64, bool) {
	var out []int64
	for {
		b, err := p.Pull(false)
		if err != nil {
			return out, false
		}
		if b == nil {
			return out, true
		}
		for _, v := range b.Values() {
			out = append(out, v.Int())
		}
	}
}

// verif:desc C09-O4 vam op.Head (runtime/vam/op/head.go) re-used across successive input streams, against sam op/head.Op on the same batches and against the specification: the parent delivers S scopes of k_s vectors of w rows, each scope followed by EOS; the operator is pulled until EOS once per scope; for EVERY scope the rows delivered are exactly the first min(N, w*k_s) rows of that scope, in order -- a scope that ends before the limit does not reduce the budget of the next one, and a scope cut at the limit does not leak rows into (or out of) the next one.
// verif:bounds S in 2..3 scopes; k_s in 0..3 vectors per scope, each of w in 1..2 rows (flat int64 vectors, symbolic values); limit N in 1..3; the consumer never sends done
// verif:outside vectors wider than 2 rows, non-flat input vectors (views of Dict/Const/View: C09-O5), done sent by the consumer, errors from the parent, N = 0
func VerifH_C09_O4_head_reuse() {
	nscopes := 2 + verif.Choose("scopes", 2)
	limit := 1 + verif.Choose("limit", 3)
	width := 1 + verif.Choose("width", 2)
	rows := make([][]int64, nscopes)
	for s := range rows {
		k := verif.Choose("vecs"+string(rune('0'+s)), 4)
		for i := 0; i < k*width; i++ {
			rows[s] = append(rows[s], verif.Int64("x"+string(rune('0'+s))+string(rune('0'+i))))
		}
	}
	vparent := &vVecScopes{vScopes{rows: rows, width: width}}
	vhead := NewHead(vparent, limit)
	sparent := &vSeqScopes{vScopes{rows: rows, width: width}}
	shead := samhead.New(sparent, limit)
	short, cut := false, false
	for s := 0; s < nscopes; s++ {
		got, ok := vDrainVec(vhead)
		verif.Assert(ok, "vam-no-error")
		seq, ok := vDrainSeq(shead)
		verif.Assert(ok, "sam-no-error")
		want := rows[s]
		if len(want) > limit {
			want = want[:limit]
		}
		verif.Observe("scope", s)
		verif.Observe("vam-rows", len(got))
		verif.Observe("sam-rows", len(seq))
		// the sequential operator is the reference and must itself meet the specification
		verif.Assert(len(seq) == len(want), "sam-head-count")
		for i := range want {
			verif.Assert(seq[i] == want[i], "sam-head-rows")
		}
		if s == 0 {
			verif.Assert(len(got) == len(want), "first-scope-count")
		} else if short {
			// an earlier scope ended before reaching the limit
			verif.Assert(len(got) == len(want), "scope-count-after-short-scope")
		} else {
			verif.Assert(len(got) == len(want), "scope-count")
		}
		for i := range want {
			verif.Assert(got[i] == want[i], "scope-rows")
			verif.Assert(got[i] == seq[i], "vam-equals-sam")
		}
		if len(rows[s]) < limit {
			short = true
			verif.Reach("short-scope")
		}
		if len(rows[s]) >= limit {
			cut = true
			verif.Reach("scope-reaches-limit")
			if width == 2 && limit%2 == 1 {
				verif.Reach("limit-cuts-inside-a-vector")
			}
		}
	}
	// both parents were consumed to the same point
	verif.Assert(vparent.s == sparent.s && vparent.i == sparent.i, "parents-in-step")
	verif.Assert(vparent.dones == sparent.dones, "same-done-signals")
	if short && cut {
		verif.Reach("mixed")
	}
	verif.Reach("end")
}
