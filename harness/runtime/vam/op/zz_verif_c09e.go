//go:build verif

package op

import (
	"github.com/brimdata/super"
	"github.com/brimdata/super/internal/verif"
	samtail "github.com/brimdata/super/runtime/sam/op/tail"
	"github.com/brimdata/super/vector"
	"github.com/brimdata/super/zbuf"
)

// vUneven is a model parent delivering, per scope, vectors / batches of the
// given (uneven) widths and then EOS.
type vUneven struct {
	scopes [][][]int64 // scopes[s][v] = rows of vector v
	s, v   int
}

func (p *vUneven) next() []int64 {
	if p.s >= len(p.scopes) {
		return nil
	}
	if p.v < len(p.scopes[p.s]) {
		x := p.scopes[p.s][p.v]
		p.v++
		return x
	}
	p.s++
	p.v = 0
	return nil
}

type vUnevenVec struct{ vUneven }

func (p *vUnevenVec) Pull(done bool) (vector.Any, error) {
	x := p.next()
	if x == nil {
		return nil, nil
	}
	return vector.NewInt(zed.TypeInt64, append([]int64(nil), x...), nil), nil
}

type vUnevenSeq struct{ vUneven }

func (p *vUnevenSeq) Pull(done bool) (zbuf.Batch, error) {
	x := p.next()
	if x == nil {
		return nil, nil
	}
	var vals []zed.Value
	for _, x := range x {
		vals = append(vals, zed.NewInt64(x))
	}
	return zbuf.NewArray(vals), nil
}

// verif:desc C09-O7 vam op.Tail (runtime/vam/op/tail.go: Pull/tail, the buffer of trailing vectors, the view that trims the first kept vector) against sam op/tail.Op on the same input and against the specification, for input streams of vectors of UNEVEN sizes and for the operator re-used across two scopes: per scope the rows delivered are exactly the last min(N, total) rows of that scope, in order, and the second scope is not affected by the first.
// verif:bounds 1-2 scopes; first scope 0..4 vectors, second scope 0..2, each of 1, 2 or 4 rows (Choose per vector: includes several short vectors followed by a long one, and a long one first); limit N in 1..5; rows flat int64 with concrete distinct values; the consumer never sends done
// verif:outside non-flat input vectors, done sent by the consumer, errors from the parent, N = 0
func VerifH_C09_O7_tail_uneven_vectors() {
	nscopes := 1 + verif.Choose("scopes", 2)
	limit := 1 + verif.Choose("limit", 5)
	widths := []int{1, 2, 4}
	scopes := make([][][]int64, nscopes)
	next := int64(1)
	for s := range scopes {
		maxVecs := 4
		if s > 0 {
			maxVecs = 2
		}
		k := verif.Choose("vecs"+string(rune('0'+s)), maxVecs+1)
		for v := 0; v < k; v++ {
			w := widths[verif.Choose("w"+string(rune('0'+s))+string(rune('0'+v)), len(widths))]
			var rows []int64
			for i := 0; i < w; i++ {
				rows = append(rows, next)
				next++
			}
			scopes[s] = append(scopes[s], rows)
		}
	}
	vparent := &vUnevenVec{vUneven{scopes: scopes}}
	vtail := NewTail(vparent, limit)
	sparent := &vUnevenSeq{vUneven{scopes: scopes}}
	stail := samtail.New(sparent, limit)
	for s := 0; s < nscopes; s++ {
		got, ok := vDrainVec(vtail)
		verif.Assert(ok, "vam-no-error")
		seq, ok := vDrainSeq(stail)
		verif.Assert(ok, "sam-no-error")
		var all []int64
		for _, rows := range scopes[s] {
			all = append(all, rows...)
		}
		want := all
		if len(want) > limit {
			want = want[len(want)-limit:]
		}
		verif.Assert(len(seq) == len(want), "sam-tail-count")
		for i := range want {
			if i < len(seq) {
				verif.Assert(seq[i] == want[i], "sam-tail-rows")
			}
		}
		if s == 0 {
			verif.Assert(len(got) == len(want), "tail-count")
		} else {
			verif.Assert(len(got) == len(want), "tail-count/second-scope")
		}
		for i := range want {
			if i < len(got) {
				verif.Assert(got[i] == want[i], "tail-rows")
			}
		}
		if len(all) > limit {
			verif.Reach("scope-longer-than-limit")
		}
		if len(scopes[s]) >= 3 && len(scopes[s][0]) == 1 && len(scopes[s][len(scopes[s])-1]) == 4 {
			verif.Reach("short-vectors-then-a-long-one")
		}
	}
	verif.Reach("end")
}
