//go:build verif

package expr

import (
	"github.com/brimdata/super"
	"github.com/brimdata/super/internal/verif"
	"github.com/brimdata/super/pkg/field"
	samexpr "github.com/brimdata/super/runtime/sam/expr"
	"github.com/brimdata/super/vector"
	"github.com/brimdata/super/zcode"
)

// v09eCandidates are the paths a drop list is drawn from.
var v09eCandidates = []field.Path{
	{"x"}, {"rec", "a"}, {"rec", "b"}, {"rec"}, {"y"}, {"outer", "inner", "leaf"}, {"outer", "inner"}, {"outer"}, {"absent"}, {"rec", "absent"},
}

// verif:desc C09-O8 `drop`: vam/expr.Dropper.Eval (drop over Record / Dict / View vectors, fieldsMap, nested records that lose all their fields, error("quiet") when nothing is left) vs sam/expr.Dropper.Eval on the same record {x:int64,rec:{a:int64,b:string},y:string,outer:{inner:{leaf:int64}}} for every drop list over 10 candidate paths (fields, nested fields, whole nested records, the only leaf of a doubly nested record, absent fields): the vector result materializes to exactly the sequential result (same type - field names, order, nesting - and same bytes).
// verif:bounds one row; every subset with 1..3 of the 10 candidate paths, in candidate order (175 drop lists); the record vector flat, as a View, or as a Dict; concrete leaf values
// verif:outside drop lists longer than 3; null records; unions/named records; several rows with different types (vector.Apply over a Dynamic)
func VerifH_C09_O8_dropper() {
	zctx := zed.NewContext()
	inner := zctx.MustLookupTypeRecord([]zed.Field{zed.NewField("leaf", zed.TypeInt64)})
	outer := zctx.MustLookupTypeRecord([]zed.Field{zed.NewField("inner", inner)})
	rec := zctx.MustLookupTypeRecord([]zed.Field{zed.NewField("a", zed.TypeInt64), zed.NewField("b", zed.TypeString)})
	top := zctx.MustLookupTypeRecord([]zed.Field{
		zed.NewField("x", zed.TypeInt64), zed.NewField("rec", rec), zed.NewField("y", zed.TypeString), zed.NewField("outer", outer),
	})
	// (the drop logic looks at types only: concrete leaves)
	x, a, leaf := int64(1), int64(-2), int64(300)
	// the drop list: 1..3 candidates
	var drops field.List
	n := 1 + verif.Choose("ndrops", 3)
	last := -1
	for i := 0; i < n; i++ {
		c := verif.Choose("drop"+string(rune('0'+i)), len(v09eCandidates))
		verif.Assume(c > last)
		last = c
		drops = append(drops, v09eCandidates[c])
	}
	// the sequential value
	var b zcode.Builder
	b.Append(zed.EncodeInt(x))
	b.BeginContainer()
	b.Append(zed.EncodeInt(a))
	b.Append([]byte("bb"))
	b.EndContainer()
	b.Append([]byte("yy"))
	b.BeginContainer()
	b.BeginContainer()
	b.Append(zed.EncodeInt(leaf))
	b.EndContainer()
	b.EndContainer()
	in := zed.NewValue(top, b.Bytes())
	want := samexpr.NewDropper(zctx, drops).Eval(samexpr.NewContext(), in)
	// the vector value
	str := func(s string) vector.Any {
		return vector.NewString([]uint32{0, uint32(len(s))}, []byte(s), nil)
	}
	i64 := func(v int64) vector.Any { return vector.NewInt(zed.TypeInt64, []int64{v}, nil) }
	recVec := vector.NewRecord(rec, []vector.Any{i64(a), str("bb")}, 1, nil)
	outerVec := vector.NewRecord(outer, []vector.Any{vector.NewRecord(inner, []vector.Any{i64(leaf)}, 1, nil)}, 1, nil)
	var vec vector.Any = vector.NewRecord(top, []vector.Any{i64(x), recVec, str("yy"), outerVec}, 1, nil)
	switch verif.Choose("form", 3) {
	case 1:
		vec = vector.NewView([]uint32{0}, vec)
	case 2:
		vec = vector.NewDict(vec, []byte{0}, []uint32{1}, nil)
	}
	var got zed.Value
	panicked := vRun(func() { got = vMaterialize(NewDropper(zctx, drops).Eval(vec)) })
	verif.Assert(!panicked, "vam-drop-no-panic")
	if panicked {
		return
	}
	verif.Assert(got.Type() == want.Type(), "drop-result-type")
	verif.Assert(string(got.Bytes()) == string(want.Bytes()), "drop-result-bytes")
	if want.IsError() {
		verif.Reach("everything-dropped")
	}
	verif.Reach("end")
}
