//go:build verif

package expr

import (
	"github.com/brimdata/super"
	"github.com/brimdata/super/internal/verif"
	samexpr "github.com/brimdata/super/runtime/sam/expr"
	"github.com/brimdata/super/vector"
	"github.com/brimdata/super/zcode"
)

// ---- operands: the same value for both runtimes ----

const (
	vkInt = iota
	vkUint
	vkFloat
	vkString
	vkBytes
	vkBool
)

var vKindName = []string{"int", "uint", "float", "string", "bytes", "bool"}

const (
	vfFlat = iota
	vfConst
	vfDict
	vfView
)

var vFormName = []string{"flat", "const", "dict", "view"}

// vOperand is one value presented to the sequential runtime as a zed.Value
// and to the vector runtime as slot 0 of a one-slot vector.
type vOperand struct {
	kind int
	val  zed.Value
	vec  vector.Any
	i    int64
	u    uint64
	f    float64
	s    string
	b    bool
}

// vWrapForm presents slot 1 of the two-slot flat vector `two` (slot 0 is an
// unrelated value) as a one-slot dict or view, or returns `one`/const.
func vWrapForm(form int, val zed.Value, one, two vector.Any) vector.Any {
	switch form {
	case vfFlat:
		return one
	case vfConst:
		return vector.NewConst(val, 1, nil)
	case vfDict:
		return vector.NewDict(two, []byte{1}, []uint32{0, 1}, nil)
	case vfView:
		return vector.NewView([]uint32{1}, two)
	}
	panic("form")
}

// vMkOperand creates a symbolic payload of the given kind (type = the 64-bit
// / only type of the kind) in the given vector form.
func vMkOperand(name string, kind, form int) vOperand {
	o := vOperand{kind: kind}
	switch kind {
	case vkInt:
		o.i = verif.Int64(name)
		junk := verif.Int64(name + ".other")
		o.val = zed.NewInt64(o.i)
		o.vec = vWrapForm(form, o.val,
			vector.NewInt(zed.TypeInt64, []int64{o.i}, nil),
			vector.NewInt(zed.TypeInt64, []int64{junk, o.i}, nil))
	case vkUint:
		o.u = verif.Uint64(name)
		junk := verif.Uint64(name + ".other")
		o.val = zed.NewUint64(o.u)
		o.vec = vWrapForm(form, o.val,
			vector.NewUint(zed.TypeUint64, []uint64{o.u}, nil),
			vector.NewUint(zed.TypeUint64, []uint64{junk, o.u}, nil))
	case vkFloat:
		o.f = verif.Float64(name)
		junk := verif.Float64(name + ".other")
		o.val = zed.NewFloat64(o.f)
		o.vec = vWrapForm(form, o.val,
			vector.NewFloat(zed.TypeFloat64, []float64{o.f}, nil),
			vector.NewFloat(zed.TypeFloat64, []float64{junk, o.f}, nil))
	case vkString:
		o.s = verif.String(name, 2)
		junk := verif.StringN(name+".other", 1)
		o.val = zed.NewString(o.s)
		one := vector.NewStringEmpty(1, nil)
		one.Append(o.s)
		two := vector.NewStringEmpty(2, nil)
		two.Append(junk)
		two.Append(o.s)
		o.vec = vWrapForm(form, o.val, one, two)
	case vkBytes:
		o.s = verif.String(name, 2)
		junk := verif.StringN(name+".other", 1)
		o.val = zed.NewBytes([]byte(o.s))
		one := vector.NewBytesEmpty(1, nil)
		one.Append([]byte(o.s))
		two := vector.NewBytesEmpty(2, nil)
		two.Append([]byte(junk))
		two.Append([]byte(o.s))
		o.vec = vWrapForm(form, o.val, one, two)
	case vkBool:
		o.b = verif.Bool(name)
		junk := verif.Bool(name + ".other")
		o.val = zed.NewBool(o.b)
		one := vector.NewBoolEmpty(1, nil)
		if o.b {
			one.Set(0)
		}
		two := vector.NewBoolEmpty(2, nil)
		if junk {
			two.Set(0)
		}
		if o.b {
			two.Set(1)
		}
		o.vec = vWrapForm(form, o.val, one, two)
	default:
		panic("kind")
	}
	return o
}

func (o vOperand) isNaN() bool { return o.kind == vkFloat && o.f != o.f }

// vVecEval is the harness-side leaf evaluator of the vector runtime: it
// yields a fixed vector (stands for a column reference).
type vVecEval struct{ vec vector.Any }

func (e vVecEval) Eval(vector.Any) vector.Any { return e.vec }

// vMaterialize turns slot 0 of a vector into a zed.Value exactly as
// vam.Materializer.Pull does.
func vMaterialize(vec vector.Any) zed.Value {
	b := zcode.NewBuilder()
	vec.Serialize(b, 0)
	return zed.NewValue(vec.Type(), b.Bytes().Body())
}

// vRun runs f and reports whether it panicked (the vector operators run in
// goroutines of the query: an escaping panic crashes the process).
func vRun(f func()) (panicked bool) {
	defer func() {
		if recover() != nil {
			panicked = true
		}
	}()
	f()
	return false
}

var vCmpOps = []string{"==", "!=", "<", "<=", ">", ">="}

func vCmpResult(op string, c int) bool {
	switch op {
	case "==":
		return c == 0
	case "!=":
		return c != 0
	case "<":
		return c < 0
	case "<=":
		return c <= 0
	case ">":
		return c > 0
	case ">=":
		return c >= 0
	}
	panic(op)
}

// vSpecCompare is the reference ordering used only to attribute a
// disagreement to one side: -1/0/1, or 2 when unordered (NaN involved).
func vSpecCompare(l, r vOperand) int {
	c3 := func(lt, eq bool) int {
		if lt {
			return -1
		}
		if eq {
			return 0
		}
		return 1
	}
	switch {
	case l.kind == vkInt && r.kind == vkInt:
		return c3(l.i < r.i, l.i == r.i)
	case l.kind == vkUint && r.kind == vkUint:
		return c3(l.u < r.u, l.u == r.u)
	case l.kind == vkInt && r.kind == vkUint:
		if l.i < 0 {
			return -1
		}
		return c3(uint64(l.i) < r.u, uint64(l.i) == r.u)
	case l.kind == vkUint && r.kind == vkInt:
		if r.i < 0 {
			return 1
		}
		return c3(l.u < uint64(r.i), l.u == uint64(r.i))
	case l.kind == vkString && r.kind == vkString, l.kind == vkBytes && r.kind == vkBytes:
		return c3(l.s < r.s, l.s == r.s)
	case l.kind == vkBool && r.kind == vkBool:
		return c3(!l.b && r.b, l.b == r.b)
	}
	// a float is involved: both runtimes convert the other side to float64
	var lf, rf float64
	switch l.kind {
	case vkInt:
		lf = float64(l.i)
	case vkUint:
		lf = float64(l.u)
	case vkFloat:
		lf = l.f
	default:
		panic("spec kind")
	}
	switch r.kind {
	case vkInt:
		rf = float64(r.i)
	case vkUint:
		rf = float64(r.u)
	case vkFloat:
		rf = r.f
	default:
		panic("spec kind")
	}
	if lf != lf || rf != rf {
		return 2
	}
	return c3(lf < rf, lf == rf)
}

// vSamCompare evaluates `l op r` in the sequential runtime.
func vSamCompare(zctx *zed.Context, l, r zed.Value, op string) zed.Value {
	le, re := samexpr.NewLiteral(l), samexpr.NewLiteral(r)
	ectx := samexpr.NewContext()
	if op == "==" || op == "!=" {
		e, err := samexpr.NewCompareEquality(zctx, le, re, op)
		if err != nil {
			panic(err)
		}
		return e.Eval(ectx, zed.Null)
	}
	e, err := samexpr.NewCompareRelative(zctx, le, re, op)
	if err != nil {
		panic(err)
	}
	return e.Eval(ectx, zed.Null)
}

// vCheckCompare evaluates `l op r` for every comparison operator in both
// runtimes and asserts that the answers agree: both errors, or the same
// Boolean.  region is appended to the assertion ids.
func vCheckCompare(l, r vOperand, region string) {
	zctx := zed.NewContext()
	nan := l.isNaN() || r.isNaN()
	if nan {
		region += "/nan"
	}
	for _, op := range vCmpOps {
		var vv zed.Value
		var vlen uint32
		panicked := vRun(func() {
			out := NewCompare(zctx, vVecEval{l.vec}, vVecEval{r.vec}, op).Eval(nil)
			vlen = out.Len()
			vv = vMaterialize(out)
		})
		sv := vSamCompare(zctx, l.val, r.val, op)
		verif.Assert(!panicked, "vam-panics/"+region)
		if panicked {
			continue
		}
		verif.Assert(vlen == 1, "vam-length/"+region)
		verr, serr := vv.IsError(), sv.IsError()
		if verr != serr {
			if verr {
				verif.Assert(false, "only-vam-errors/"+region)
			} else {
				verif.Assert(false, "only-sam-errors/"+region)
			}
			continue
		}
		if verr {
			verif.Reach("both-error")
			continue
		}
		vIsBool := !vv.IsNull() && vv.Type() == zed.TypeBool
		sIsBool := !sv.IsNull() && sv.Type() == zed.TypeBool
		verif.Assert(vIsBool, "vam-not-bool/"+region)
		verif.Assert(sIsBool, "sam-not-bool/"+region)
		if !vIsBool || !sIsBool {
			continue
		}
		vb, sb := vv.Bool(), sv.Bool()
		verif.Observe("vam "+op, vb)
		verif.Observe("sam "+op, sb)
		if vb != sb {
			// attribute the disagreement
			c := vSpecCompare(l, r)
			spec := c != 2 && vCmpResult(op, c) || c == 2 && op == "!="
			if sb != spec {
				verif.Assert(false, "disagree-sam-wrong/"+region+"/"+op)
			} else {
				verif.Assert(false, "disagree-vam-wrong/"+region+"/"+op)
			}
		}
	}
	verif.Reach("end")
}

// verif:desc C09-O1 comparisons of two numbers: vam/expr.Compare.Eval (vector.Apply, coerceVals, promoteToSigned/intToFloat, the generated compare<Op><Kind><Form><Form> kernels) on one-slot vectors vs sam/expr.Equal.Eval / Compare.Eval (coerce.Equal, compareNumbers) on the same two values, for all six operators: both error or the same Boolean; the vector side does not panic.
// verif:bounds lhs,rhs kind in {int64,uint64,float64}^2, any payload (all 2^64 bit patterns incl. NaN, +-0, +-Inf); vector form of each side in {flat, const, dict, view} (dict/view select slot 1 of a two-slot vector whose slot 0 is arbitrary); ops ==,!=,<,<=,>,>=; one slot; no nulls
// verif:outside narrower numeric types, time/duration (see O1 widths), nulls (see O1 nulls), non-numeric kinds (see O1 same-kind / mixed), vectors longer than one slot, Dynamic/Union inputs
func VerifH_C09_O1_compare_numbers() {
	lk, rk := verif.Choose("lkind", 3), verif.Choose("rkind", 3)
	lf, rf := verif.Choose("lform", 4), verif.Choose("rform", 4)
	l := vMkOperand("l", lk, lf)
	r := vMkOperand("r", rk, rf)
	vCheckCompare(l, r, vKindName[lk]+"-"+vKindName[rk])
}
