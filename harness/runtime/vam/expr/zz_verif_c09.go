//go:build verif

package expr

import (
	"math"

	"github.com/brimdata/super"
	"github.com/brimdata/super/internal/verif"
	samexpr "github.com/brimdata/super/runtime/sam/expr"
	"github.com/brimdata/super/vector"
	"github.com/brimdata/super/zcode"
)

// C09: the vector runtime (runtime/vam) agrees with the sequential runtime
// (runtime/sam).  Every harness below builds ONE logical value per operand,
// hands it to the sequential runtime as a zed.Value and to the vector runtime
// as slot 0 of a one-slot vector in one of the physical forms the loader and
// the operators produce (flat, const, dict, view), evaluates the same
// expression in both and compares the two results.

// ---- operands: the same value for both runtimes ----

const (
	vkInt = iota
	vkUint
	vkFloat
	vkString
	vkBytes
	vkBool
)

var vKindName = []string{"int", "uint", "float", "string", "bytes", "bool"}

const (
	vfFlat = iota
	vfConst
	vfDict
	vfView
)

// vOperand is one value presented to the sequential runtime as a zed.Value
// and to the vector runtime as slot 0 of a one-slot vector.
type vOperand struct {
	kind int
	null bool
	typ  zed.Type
	val  zed.Value
	vec  vector.Any
	i    int64
	u    uint64
	f    float64
	s    string
	b    bool
}

// vSpec selects how an operand is made.
type vSpec struct {
	kind   int
	form   int
	typ    zed.Type // nil: the 64-bit (or only) type of the kind
	narrow bool     // integer payload limited to 16 bits (kept in a 64-bit type)
	null   bool     // the value is null
}

func vNulls(n uint32, slot uint32, null bool) *vector.Bool {
	if !null {
		return nil
	}
	b := vector.NewBoolEmpty(n, nil)
	b.Set(slot)
	return b
}

// vWrapForm presents the value as a one-slot vector of the requested form.
// one: one-slot flat vector; two: two-slot flat vector whose slot 1 is the
// value (slot 0 is unrelated) used under dict and view; for a null value the
// shapes are those vcache.loader builds (zero payload + Nulls bit; dict index
// 0 + Nulls bit; const value + Nulls bit).
func vWrapForm(sp vSpec, constVal zed.Value, one, two, dictVals vector.Any) vector.Any {
	switch sp.form {
	case vfFlat:
		return one
	case vfConst:
		return vector.NewConst(constVal, 1, vNulls(1, 0, sp.null))
	case vfDict:
		if sp.null {
			return vector.NewDict(dictVals, []byte{0}, []uint32{0, 0}, vNulls(1, 0, true))
		}
		return vector.NewDict(dictVals, []byte{1}, []uint32{0, 1}, nil)
	case vfView:
		return vector.NewView([]uint32{1}, two)
	}
	panic("form")
}

func vIntPayload(name string, typ zed.Type, narrow bool) int64 {
	switch typ.ID() {
	case zed.IDInt8:
		return int64(verif.Int8(name + ".i8"))
	case zed.IDInt16:
		return int64(verif.Int16(name + ".i16"))
	case zed.IDInt32:
		return int64(verif.Int32(name + ".i32"))
	}
	if narrow {
		return int64(verif.Int16(name + ".i16"))
	}
	return verif.Int64(name)
}

func vUintPayload(name string, typ zed.Type, narrow bool) uint64 {
	switch typ.ID() {
	case zed.IDUint8:
		return uint64(verif.Uint8(name + ".u8"))
	case zed.IDUint16:
		return uint64(verif.Uint16(name + ".u16"))
	case zed.IDUint32:
		return uint64(verif.Uint32(name + ".u32"))
	}
	if narrow {
		return uint64(verif.Uint16(name + ".u16"))
	}
	return verif.Uint64(name)
}

// vMkOperand creates a symbolic payload as described by sp.
func vMkOperand(name string, sp vSpec) vOperand {
	o := vOperand{kind: sp.kind, null: sp.null, typ: sp.typ}
	switch sp.kind {
	case vkInt:
		if o.typ == nil {
			o.typ = zed.TypeInt64
		}
		junk := verif.Int64(name + ".other")
		if !sp.null {
			o.i = vIntPayload(name, o.typ, sp.narrow)
			o.val = zed.NewInt(o.typ, o.i)
		} else {
			o.val = zed.NewValue(o.typ, nil)
		}
		cv := zed.NewInt(o.typ, o.i)
		if sp.null {
			cv = zed.NewInt(o.typ, junk)
		}
		o.vec = vWrapForm(sp, cv,
			vector.NewInt(o.typ, []int64{o.i}, vNulls(1, 0, sp.null)),
			vector.NewInt(o.typ, []int64{junk, o.i}, vNulls(2, 1, sp.null)),
			vector.NewInt(o.typ, []int64{junk, o.i}, nil))
	case vkUint:
		if o.typ == nil {
			o.typ = zed.TypeUint64
		}
		junk := verif.Uint64(name + ".other")
		if !sp.null {
			o.u = vUintPayload(name, o.typ, sp.narrow)
			o.val = zed.NewUint(o.typ, o.u)
		} else {
			o.val = zed.NewValue(o.typ, nil)
		}
		cv := zed.NewUint(o.typ, o.u)
		if sp.null {
			cv = zed.NewUint(o.typ, junk)
		}
		o.vec = vWrapForm(sp, cv,
			vector.NewUint(o.typ, []uint64{o.u}, vNulls(1, 0, sp.null)),
			vector.NewUint(o.typ, []uint64{junk, o.u}, vNulls(2, 1, sp.null)),
			vector.NewUint(o.typ, []uint64{junk, o.u}, nil))
	case vkFloat:
		o.typ = zed.TypeFloat64
		junk := verif.Float64(name + ".other")
		if !sp.null {
			o.f = verif.Float64(name)
			o.val = zed.NewFloat64(o.f)
		} else {
			o.val = zed.NullFloat64
		}
		cv := zed.NewFloat64(o.f)
		if sp.null {
			cv = zed.NewFloat64(junk)
		}
		o.vec = vWrapForm(sp, cv,
			vector.NewFloat(zed.TypeFloat64, []float64{o.f}, vNulls(1, 0, sp.null)),
			vector.NewFloat(zed.TypeFloat64, []float64{junk, o.f}, vNulls(2, 1, sp.null)),
			vector.NewFloat(zed.TypeFloat64, []float64{junk, o.f}, nil))
	case vkString:
		o.typ = zed.TypeString
		junk := verif.StringN(name+".other", 1)
		if !sp.null {
			o.s = verif.String(name, 2)
			o.val = zed.NewString(o.s)
		} else {
			o.val = zed.NullString
		}
		cv := zed.NewString(o.s)
		if sp.null {
			cv = zed.NewString(junk)
		}
		one := vector.NewStringEmpty(1, vNulls(1, 0, sp.null))
		one.Append(o.s)
		two := vector.NewStringEmpty(2, vNulls(2, 1, sp.null))
		two.Append(junk)
		two.Append(o.s)
		dv := vector.NewStringEmpty(2, nil)
		dv.Append(junk)
		dv.Append(o.s)
		o.vec = vWrapForm(sp, cv, one, two, dv)
	case vkBytes:
		o.typ = zed.TypeBytes
		junk := verif.StringN(name+".other", 1)
		if !sp.null {
			o.s = verif.String(name, 2)
			o.val = zed.NewBytes([]byte(o.s))
		} else {
			o.val = zed.NullBytes
		}
		cv := zed.NewBytes([]byte(o.s))
		if sp.null {
			cv = zed.NewBytes([]byte(junk))
		}
		one := vector.NewBytesEmpty(1, vNulls(1, 0, sp.null))
		one.Append([]byte(o.s))
		two := vector.NewBytesEmpty(2, vNulls(2, 1, sp.null))
		two.Append([]byte(junk))
		two.Append([]byte(o.s))
		dv := vector.NewBytesEmpty(2, nil)
		dv.Append([]byte(junk))
		dv.Append([]byte(o.s))
		o.vec = vWrapForm(sp, cv, one, two, dv)
	case vkBool:
		o.typ = zed.TypeBool
		junk := verif.Bool(name + ".otherb")
		if !sp.null {
			o.b = verif.Bool(name + ".b")
			o.val = zed.NewBool(o.b)
		} else {
			o.val = zed.NullBool
		}
		cv := zed.NewBool(o.b)
		if sp.null {
			cv = zed.NewBool(junk)
		}
		mk := func(n uint32, nulls *vector.Bool) *vector.Bool {
			v := vector.NewBoolEmpty(n, nulls)
			if n == 1 {
				if o.b {
					v.Set(0)
				}
				return v
			}
			if junk {
				v.Set(0)
			}
			if o.b {
				v.Set(1)
			}
			return v
		}
		o.vec = vWrapForm(sp, cv, mk(1, vNulls(1, 0, sp.null)), mk(2, vNulls(2, 1, sp.null)), mk(2, nil))
	default:
		panic("kind")
	}
	return o
}

func (o vOperand) isNaN() bool { return o.kind == vkFloat && !o.null && o.f != o.f }

// vVecEval is the harness-side leaf evaluator of the vector runtime: it
// yields a fixed vector (stands for a column reference).
type vVecEval struct{ vec vector.Any }

func (e vVecEval) Eval(vector.Any) vector.Any { return e.vec }

// vMaterialize turns slot 0 of a vector into a zed.Value exactly as
// vam.Materializer.Pull does.
func vMaterialize(vec vector.Any) zed.Value {
	b := zcode.NewBuilder()
	vec.Serialize(b, 0)
	return zed.NewValue(vec.Type(), b.Bytes().Body())
}

// vRun runs f and reports whether it panicked (the vector operators run in
// goroutines of the query: an escaping panic crashes the process).
func vRun(f func()) (panicked bool) {
	defer func() {
		if recover() != nil {
			panicked = true
		}
	}()
	f()
	return false
}

// ---- O1: comparisons ----

var vCmpOps = []string{"==", "!=", "<", "<=", ">", ">="}

func vCmpResult(op string, c int) bool {
	switch op {
	case "==":
		return c == 0
	case "!=":
		return c != 0
	case "<":
		return c < 0
	case "<=":
		return c <= 0
	case ">":
		return c > 0
	case ">=":
		return c >= 0
	}
	panic(op)
}

func vToFloat(o vOperand) float64 {
	switch o.kind {
	case vkInt:
		return float64(o.i)
	case vkUint:
		return float64(o.u)
	case vkFloat:
		return o.f
	}
	panic("spec kind")
}

// vSpecCompare is the reference ordering used only to attribute a
// disagreement to one side: -1/0/1, or 2 when unordered (NaN involved).
func vSpecCompare(l, r vOperand) int {
	c3 := func(lt, eq bool) int {
		if lt {
			return -1
		}
		if eq {
			return 0
		}
		return 1
	}
	switch {
	case l.kind == vkInt && r.kind == vkInt:
		return c3(l.i < r.i, l.i == r.i)
	case l.kind == vkUint && r.kind == vkUint:
		return c3(l.u < r.u, l.u == r.u)
	case l.kind == vkInt && r.kind == vkUint:
		if l.i < 0 {
			return -1
		}
		return c3(uint64(l.i) < r.u, uint64(l.i) == r.u)
	case l.kind == vkUint && r.kind == vkInt:
		if r.i < 0 {
			return 1
		}
		return c3(l.u < uint64(r.i), l.u == uint64(r.i))
	case l.kind == vkString && r.kind == vkString, l.kind == vkBytes && r.kind == vkBytes:
		return c3(l.s < r.s, l.s == r.s)
	case l.kind == vkBool && r.kind == vkBool:
		return c3(!l.b && r.b, l.b == r.b)
	}
	// a float is involved: both runtimes convert the other side to float64
	lf, rf := vToFloat(l), vToFloat(r)
	if lf != lf || rf != rf {
		return 2
	}
	return c3(lf < rf, lf == rf)
}

// vSamCompare evaluates `l op r` in the sequential runtime.
func vSamCompare(zctx *zed.Context, l, r zed.Value, op string) zed.Value {
	le, re := samexpr.NewLiteral(l), samexpr.NewLiteral(r)
	ectx := samexpr.NewContext()
	if op == "==" || op == "!=" {
		e, err := samexpr.NewCompareEquality(zctx, le, re, op)
		if err != nil {
			panic(err)
		}
		return e.Eval(ectx, zed.Null)
	}
	e, err := samexpr.NewCompareRelative(zctx, le, re, op)
	if err != nil {
		panic(err)
	}
	return e.Eval(ectx, zed.Null)
}

// vKnownRegion names the regions in which the two runtimes are already known
// to differ (each gets its own coarse assertion id so that it can be listed
// precisely as a known finding); "" outside them.
func vKnownRegion(l, r vOperand) string {
	if l.null || r.null {
		return "null-operand"
	}
	if l.isNaN() || r.isNaN() {
		return "nan"
	}
	if l.kind == vkUint && r.kind == vkInt && l.u > math.MaxInt64 ||
		l.kind == vkInt && r.kind == vkUint && r.u > math.MaxInt64 {
		return "uint-above-maxint64-vs-signed"
	}
	return ""
}

// vCheckCompare evaluates `l op r` for every comparison operator in both
// runtimes and asserts that the answers agree: both errors, or the same
// Boolean.  kinds (e.g. "int-uint") is part of every assertion id.
func vCheckCompare(l, r vOperand, kinds string) {
	zctx := zed.NewContext()
	region := vKnownRegion(l, r)
	if region != "" {
		verif.Reach(region)
	}
	for _, op := range vCmpOps {
		var vv zed.Value
		var vlen uint32
		panicked := vRun(func() {
			out := NewCompare(zctx, vVecEval{l.vec}, vVecEval{r.vec}, op).Eval(nil)
			vlen = out.Len()
			vv = vMaterialize(out)
		})
		sv := vSamCompare(zctx, l.val, r.val, op)
		verif.Assert(!panicked, "vam-panics/"+kinds)
		if panicked {
			continue
		}
		verif.Assert(vlen == 1, "vam-length/"+kinds)
		verr, serr := vv.IsError(), sv.IsError()
		if verr != serr {
			if verr {
				verif.Assert(false, "only-vam-errors/"+kinds)
			} else {
				verif.Assert(false, "only-sam-errors/"+kinds)
			}
			continue
		}
		if verr {
			verif.Reach("both-error")
			continue
		}
		vIsBool := !vv.IsNull() && vv.Type() == zed.TypeBool
		sIsBool := !sv.IsNull() && sv.Type() == zed.TypeBool
		verif.Assert(vIsBool, "vam-not-bool/"+kinds)
		verif.Assert(sIsBool, "sam-not-bool/"+kinds)
		if !vIsBool || !sIsBool {
			continue
		}
		vb, sb := vv.Bool(), sv.Bool()
		verif.Observe("vam "+op, vb)
		verif.Observe("sam "+op, sb)
		if vb == sb {
			continue
		}
		if region != "" {
			verif.Assert(false, "disagree/"+kinds+"/"+region)
			continue
		}
		// attribute the disagreement to the side that departs from the
		// plain ordering of the payloads
		c := vSpecCompare(l, r)
		if sb != vCmpResult(op, c) {
			verif.Assert(false, "disagree-sam-wrong/"+kinds+"/"+op)
		} else {
			verif.Assert(false, "disagree-vam-wrong/"+kinds+"/"+op)
		}
	}
	verif.Reach("end")
}

// verif:desc C09-O1 comparisons of two integers: vam/expr.Compare.Eval (vector.Apply, coerceVals, promoteToSigned/uintToInt, the generated compare<Op>{Int,Uint}<Form><Form> kernels) on one-slot vectors vs sam/expr.Equal.Eval / Compare.Eval (coerce.Equal, compareNumbers) on the same two values, for all six operators: both error or the same Boolean; the vector side does not panic.
// verif:bounds lhs,rhs kind in {int64,uint64}^2, any 64-bit payload; vector form of each side in {flat, const, dict, view} (dict/view select slot 1 of a two-slot vector whose slot 0 is arbitrary); ops ==,!=,<,<=,>,>=; one slot; no nulls
// verif:outside narrower integer types, time/duration (compare_widths), nulls (compare_nulls), floats and non-numeric kinds (other O1 harnesses), vectors longer than one slot, Dynamic/Union inputs
func VerifH_C09_O1_compare_ints() {
	lk, rk := verif.Choose("lkind", 2), verif.Choose("rkind", 2)
	lf, rf := verif.Choose("lform", 4), verif.Choose("rform", 4)
	l := vMkOperand("l", vSpec{kind: lk, form: lf})
	r := vMkOperand("r", vSpec{kind: rk, form: rf})
	vCheckCompare(l, r, vKindName[lk]+"-"+vKindName[rk])
}

// verif:desc C09-O1 comparisons of two float64 (kernels compare<Op>Float<Form><Form>) vs sam Equal/Compare (cmp.Compare on floats), all six operators.
// verif:bounds both sides float64 with any bit pattern (NaN, +-0, +-Inf, subnormals); forms {flat,const,dict,view}^2; one slot; no nulls
// verif:outside float16/float32 typed vectors
func VerifH_C09_O1_compare_floats() {
	lf, rf := verif.Choose("lform", 4), verif.Choose("rform", 4)
	l := vMkOperand("l", vSpec{kind: vkFloat, form: lf})
	r := vMkOperand("r", vSpec{kind: vkFloat, form: rf})
	vCheckCompare(l, r, "float-float")
}

func vIntFloat(forms int) {
	ik := verif.Choose("intkind", 2)
	form := verif.Choose("intform", forms)
	if verif.Choose("floatside", 2) == 0 {
		l := vMkOperand("l", vSpec{kind: vkFloat, form: vfFlat})
		r := vMkOperand("r", vSpec{kind: ik, form: form, narrow: true})
		vCheckCompare(l, r, "float-"+vKindName[ik])
	} else {
		l := vMkOperand("l", vSpec{kind: ik, form: form, narrow: true})
		r := vMkOperand("r", vSpec{kind: vkFloat, form: vfFlat})
		vCheckCompare(l, r, vKindName[ik]+"-float")
	}
}

// verif:desc C09-O1 comparisons of an integer with a float64 (coerceVals -> intToFloat on the integer side, then the compare<Op>Float kernels) vs sam Equal/Compare (coerce.Equal / compareNumbers converting with ToNumeric[float64]), all six operators.
// verif:bounds one side int64 or uint64 typed with payload in the int16 / uint16 range and form in {flat,const}; the other side a flat float64 with any bit pattern; both orders; one slot; no nulls
// verif:outside integer payloads beyond 16 bits (both runtimes use the same Go conversion float64(x)), dict/view integer side (thorough tier), non-flat float side (the Float kernels of all 16 form pairs are covered by compare_floats), float16/float32
// verif:solver cvc5
func VerifH_C09_O1_compare_int_float() {
	vIntFloat(2)
}

// verif:desc C09-O1 as compare_int_float with the integer side in every form.
// verif:bounds as compare_int_float, integer side form in {flat,const,dict,view}
// verif:tier thorough
// verif:solver cvc5
func VerifH_C09_O1_compare_int_float_allforms() {
	vIntFloat(4)
}

// verif:desc C09-O1 comparisons of two values of the same non-numeric kind: string (compare<Op>String kernels), bytes (compare<Op>Bytes kernels), bool (no vector kernel exists: the vector side must not answer differently) vs sam Equal/Compare (string, bytes and bool cases of Compare.Eval; coerce.Equal), all six operators.
// verif:bounds kind in {string,bytes,bool}; string/bytes payload 0..2 arbitrary bytes; forms {flat,const,dict,view}^2; one slot; no nulls
// verif:outside longer payloads, ip/net/type values
func VerifH_C09_O1_compare_samekind() {
	k := vkString + verif.Choose("kind", 3)
	lf, rf := verif.Choose("lform", 4), verif.Choose("rform", 4)
	l := vMkOperand("l", vSpec{kind: k, form: lf})
	r := vMkOperand("r", vSpec{kind: k, form: rf})
	vCheckCompare(l, r, vKindName[k]+"-"+vKindName[k])
}

// verif:desc C09-O1 comparisons where one or both operands are null (vector side: Nulls bit of the flat / const / dict vector, as vcache.loader builds them) vs sam Equal/Compare null handling.
// verif:bounds both operands of the same kind in {int64,float64,string}; which side is null: lhs, rhs, both; forms {flat,const,dict,view}^2; one slot
// verif:outside null of type null (zed.Null constant), mixed kinds with nulls
func VerifH_C09_O1_compare_nulls() {
	k := []int{vkInt, vkFloat, vkString}[verif.Choose("kind", 3)]
	which := verif.Choose("nullside", 3)
	lf, rf := verif.Choose("lform", 4), verif.Choose("rform", 4)
	l := vMkOperand("l", vSpec{kind: k, form: lf, null: which != 1})
	r := vMkOperand("r", vSpec{kind: k, form: rf, null: which != 0})
	vCheckCompare(l, r, vKindName[k]+"-"+vKindName[k])
}

// verif:desc C09-O1 comparisons of two values of different, not both numeric kinds (sequential: == false, != true, relational false; the vector side must say the same).
// verif:bounds ordered pairs of different kinds from {int64,string,bytes,bool}; forms {flat,const}^2; payloads as elsewhere; one slot; no nulls
// verif:outside dict/view forms (coerceVals rejects on the type ids before looking at the form)
func VerifH_C09_O1_compare_mixedkinds() {
	ks := []int{vkInt, vkString, vkBytes, vkBool}
	lk := ks[verif.Choose("lkind", 4)]
	rk := ks[verif.Choose("rkind", 4)]
	verif.Assume(lk != rk)
	lf, rf := verif.Choose("lform", 2), verif.Choose("rform", 2)
	l := vMkOperand("l", vSpec{kind: lk, form: lf})
	r := vMkOperand("r", vSpec{kind: rk, form: rf})
	vCheckCompare(l, r, vKindName[lk]+"-"+vKindName[rk])
}

var vSignedTypes = []zed.Type{zed.TypeInt8, zed.TypeInt16, zed.TypeInt32, zed.TypeInt64, zed.TypeDuration, zed.TypeTime}
var vUnsignedTypes = []zed.Type{zed.TypeUint8, zed.TypeUint16, zed.TypeUint32, zed.TypeUint64}

func vChooseIntType(name string, quick bool) (int, zed.Type) {
	if quick {
		ts := []zed.Type{zed.TypeInt8, zed.TypeInt32, zed.TypeInt64, zed.TypeTime, zed.TypeUint8, zed.TypeUint32, zed.TypeUint64}
		k := verif.Choose(name, len(ts))
		if k < 4 {
			return vkInt, ts[k]
		}
		return vkUint, ts[k]
	}
	k := verif.Choose(name, len(vSignedTypes)+len(vUnsignedTypes))
	if k < len(vSignedTypes) {
		return vkInt, vSignedTypes[k]
	}
	return vkUint, vUnsignedTypes[k-len(vSignedTypes)]
}

func vCompareWidths(quick bool) {
	lk, lt := vChooseIntType("ltype", quick)
	rk, rt := vChooseIntType("rtype", quick)
	var lf, rf int
	if quick {
		// one side in any form, the other flat
		f := verif.Choose("forms", 7)
		if f < 4 {
			lf = f
		} else {
			rf = f - 3
		}
	} else {
		lf, rf = verif.Choose("lform", 4), verif.Choose("rform", 4)
	}
	l := vMkOperand("l", vSpec{kind: lk, form: lf, typ: lt})
	r := vMkOperand("r", vSpec{kind: rk, form: rf, typ: rt})
	kinds := vKindName[lk] + "-" + vKindName[rk]
	// An 8-bit integer Const is excluded: the loader never builds one (VNG
	// keeps no dictionary for 8-bit types, so no Const), a literal is
	// always 64-bit, and `const c = int8(1)` (dag.Scope) is rejected by the
	// vector compiler.  (vector.KindOfType knows no 8-bit integers; with
	// such a Const Compare.eval panics "vector kind mismatch after coerce".)
	verif.Assume(!(lf == vfConst && (lt == zed.TypeInt8 || lt == zed.TypeUint8)))
	verif.Assume(!(rf == vfConst && (rt == zed.TypeInt8 || rt == zed.TypeUint8)))
	vCheckCompare(l, r, kinds)
}

// verif:desc C09-O1 comparisons of integers of all widths and of time/duration: coerceVals -> promoteWider (Int/Uint.Promote, Const, Dict, View cases) / promoteToSigned, vector.KindOfType, then the Int/Uint kernels, vs sam Equal/Compare.
// verif:bounds lhs,rhs type in {int8,int32,int64,time,uint8,uint32,uint64}^2, payload any value of the type; one side in {flat,const,dict,view}, the other flat (7 form pairs); six operators; no nulls
// verif:outside int16/uint16/duration and both sides non-flat (thorough tier)
func VerifH_C09_O1_compare_widths() {
	vCompareWidths(true)
}

// verif:desc C09-O1 compare_widths over every integer type and every form pair.
// verif:bounds lhs,rhs type in {int8,int16,int32,int64,duration,time,uint8,uint16,uint32,uint64}^2; forms {flat,const,dict,view}^2
// verif:tier thorough
func VerifH_C09_O1_compare_widths_all() {
	vCompareWidths(false)
}

// ---- O2: arithmetic ----

var vArithOps = []string{"+", "-", "*", "/", "%"}

// vSameValue: same type and same value; floats: both NaN, or equal with the
// same sign of zero.
func vSameValue(a, b zed.Value) bool {
	if a.Type() != b.Type() || a.IsNull() != b.IsNull() {
		return false
	}
	if a.IsNull() {
		return true
	}
	switch id := a.Type().ID(); {
	case zed.IsFloat(id):
		x, y := a.Float(), b.Float()
		if math.Float64bits(x) == math.Float64bits(y) {
			// the same bits (under gosym: the same term, decided
			// without the solver)
			return true
		}
		if x != x || y != y {
			return x != x && y != y
		}
		return x == y && math.Signbit(x) == math.Signbit(y)
	case zed.IsSigned(id):
		return a.Int() == b.Int()
	case zed.IsUnsigned(id):
		return a.Uint() == b.Uint()
	}
	return string(a.Bytes()) == string(b.Bytes())
}

func vIsZero(o vOperand) bool {
	switch o.kind {
	case vkInt:
		return o.i == 0
	case vkUint:
		return o.u == 0
	case vkFloat:
		return o.f == 0
	}
	return false
}

// vSlot0 reads slot 0 of a result vector without going through the
// variable-length ZNG encoding of numbers (Serialize + Decode of a symbolic
// 64-bit number forks on its encoded length): flat and const numeric vectors
// are read directly, anything else is materialized.
func vSlot0(vec vector.Any) zed.Value {
	switch v := vec.(type) {
	case *vector.Int:
		if v.Nulls.Value(0) {
			return zed.NewValue(v.Typ, nil)
		}
		return zed.NewInt(v.Typ, v.Values[0])
	case *vector.Uint:
		if v.Nulls.Value(0) {
			return zed.NewValue(v.Typ, nil)
		}
		return zed.NewUint(v.Typ, v.Values[0])
	case *vector.Float:
		if v.Nulls.Value(0) {
			return zed.NewValue(v.Typ, nil)
		}
		return zed.NewFloat(v.Typ, v.Values[0])
	case *vector.Const:
		if v.Nulls.Value(0) {
			return zed.NewValue(v.Type(), nil)
		}
		return v.Value()
	}
	return vMaterialize(vec)
}

// vCheckArith evaluates `l op r` for the given operators in both runtimes and
// asserts: both errors, or the same typed value.
func vCheckArith(l, r vOperand, kinds string, ops []string) {
	zctx := zed.NewContext()
	base := vKnownRegion(l, r)
	if base == "nan" {
		// NaN operands are no special region for arithmetic
		base = ""
	}
	for _, op := range ops {
		region := base
		if region == "" && (op == "/" || op == "%") && vIsZero(r) {
			region = "zero-divisor"
		}
		if region != "" {
			verif.Reach(region)
		}
		id := kinds + "/" + op
		if region != "" {
			id = kinds + "/" + region
		}
		var out vector.Any
		panicked := vRun(func() {
			out = NewArith(zctx, vVecEval{l.vec}, vVecEval{r.vec}, op).Eval(nil)
		})
		se, err := samexpr.NewArithmetic(zctx, samexpr.NewLiteral(l.val), samexpr.NewLiteral(r.val), op)
		if err != nil {
			panic(err)
		}
		sv := se.Eval(samexpr.NewContext(), zed.Null)
		verif.Assert(!panicked, "vam-panics/"+id)
		if panicked {
			continue
		}
		verif.Assert(out.Len() == 1, "vam-length/"+id)
		// error-ness is decided on the vector's type before slot 0 is read
		_, verr := out.Type().(*zed.TypeError)
		serr := sv.IsError()
		if verr != serr {
			if verr {
				verif.Assert(false, "only-vam-errors/"+id)
			} else {
				verif.Assert(false, "only-sam-errors/"+id)
			}
			continue
		}
		if verr {
			verif.Reach("both-error")
			continue
		}
		vv := vSlot0(out)
		verif.Assert(vv.Type() == sv.Type(), "result-type-differs/"+id)
		if vv.Type() != sv.Type() {
			continue
		}
		verif.Assert(vSameValue(vv, sv), "result-differs/"+id)
		verif.Reach("both-value")
	}
	verif.Reach("end")
}

// verif:desc C09-O2 arithmetic on two integers: vam/expr.Arith.Eval (coerceVals, promoteToSigned, the generated arith<Op>{Int,Uint}<Form><Form> kernels) vs sam/expr Add/Subtract/Multiply/Divide/Modulo.Eval (coerce.Promote, ToNumeric) on the same values: both error (divide by zero, overflow of the signed promotion) or the same typed value; the vector side does not panic.
// verif:bounds lhs,rhs kind in {int64,uint64}^2, any 64-bit payload incl. 0, -1, MinInt64; forms {flat,const,dict,view}^2; ops + - * / %; one slot; no nulls
// verif:outside narrower types (result type of the vector kernels is always 64-bit), nulls, vectors longer than one slot
func VerifH_C09_O2_arith_ints() {
	lk, rk := verif.Choose("lkind", 2), verif.Choose("rkind", 2)
	lf, rf := verif.Choose("lform", 4), verif.Choose("rform", 4)
	l := vMkOperand("l", vSpec{kind: lk, form: lf})
	r := vMkOperand("r", vSpec{kind: rk, form: rf})
	vCheckArith(l, r, vKindName[lk]+"-"+vKindName[rk], vArithOps)
}

// verif:desc C09-O2 arithmetic on two float64 (arith<Op>Float kernels; there is no Float modulo kernel) vs sam Add/Subtract/Multiply/Divide/Modulo.
// verif:bounds both sides float64, any bit pattern; forms {flat,const,dict,view}^2; ops + - * /; one slot; no nulls
// verif:outside float16/float32; the NaN payload bits of a NaN result (both NaN counts as equal); % on floats (no vector kernel; sam builds its error text with zson.FormatType)
func VerifH_C09_O2_arith_floats() {
	lf, rf := verif.Choose("lform", 4), verif.Choose("rform", 4)
	l := vMkOperand("l", vSpec{kind: vkFloat, form: lf})
	r := vMkOperand("r", vSpec{kind: vkFloat, form: rf})
	// one operator per path: every computed float that reaches a zed.Value
	// adds an FP constraint to the path condition
	vCheckArith(l, r, "float-float", vArithOps[verif.Choose("op", 4):][:1])
}

// verif:desc C09-O2 string concatenation with + (arithAddString kernels) vs sam Add.Eval string case.
// verif:bounds both sides string of 0..2 arbitrary bytes; forms {flat,const,dict,view}^2; one slot; no nulls
// verif:outside longer strings; - * / % on strings (sam formats an error with zson.FormatType)
func VerifH_C09_O2_arith_strings() {
	lf, rf := verif.Choose("lform", 4), verif.Choose("rform", 4)
	l := vMkOperand("l", vSpec{kind: vkString, form: lf})
	r := vMkOperand("r", vSpec{kind: vkString, form: rf})
	vCheckArith(l, r, "string-string", []string{"+"})
}
