//go:build verif

package fuse

import (
	"bytes"

	"github.com/brimdata/super"
	"github.com/brimdata/super/internal/verif"
	"github.com/brimdata/super/zcode"
)

// ---------------------------------------------------------------------------
// O4: a field that is a set in one input and an array in another

var v20cInner = []zed.Type{zed.TypeInt64, zed.TypeString}

// v20cSeq is one container-valued field: a set or an array of int64 (1-byte
// non-zero bodies) or of string (1-byte bodies).
type v20cSeq struct {
	set   bool
	inner zed.Type
	elems [][]byte
}

// v20cSymSeq: 0..maxN elements with symbolic bytes.  A set value obeys the
// representation invariant of sets (elements distinct and in ascending byte
// order, what NormalizeSet produces); an array is any sequence -- unsorted,
// with duplicates.
func v20cSymSeq(name string, set bool, maxN int) v20cSeq {
	s := v20cSeq{set: set}
	t := verif.Choose(name+".inner", len(v20cInner))
	s.inner = v20cInner[t]
	n := verif.Choose(name+".n", maxN+1)
	for i := 0; i < n; i++ {
		e := verif.Byte(name + ".e" + string(rune('0'+i)))
		if t == 0 {
			verif.Assume(e != 0)
		}
		if set && i > 0 {
			verif.Assume(s.elems[i-1][0] < e)
		}
		s.elems = append(s.elems, []byte{e})
	}
	return s
}

// rec returns {a:<container>}.
func (s v20cSeq) rec(zctx *zed.Context) zed.Value {
	var b zcode.Builder
	b.BeginContainer()
	for _, e := range s.elems {
		b.Append(e)
	}
	b.EndContainer()
	var ct zed.Type = zctx.LookupTypeArray(s.inner)
	if s.set {
		ct = zctx.LookupTypeSet(s.inner)
	}
	return zed.NewValue(zctx.MustLookupTypeRecord([]zed.Field{zed.NewField("a", ct)}), b.Bytes())
}

// verif:desc C20-O4 a field that is a set |[..]| in one input and an array [..] in the other, in both input orders, through the real fuse.Fuser (agg.Schema.Mixin/merge for set+array and array+set, expr.ConstShaper newShaper/shaperType/newStep/newArrayOrSetStep/buildArrayOrSet with copy or castToUnion element steps), in memory or through the spill file: both outputs have one record type whose field a is an ARRAY (a set would sort and de-duplicate the array input's elements), and output k's field a holds exactly input k's element sequence: same length, same order, duplicates kept, every element (untagged when the fused inner type is a union) with its input type and bytes.
// verif:bounds 2 records {a:S},{a:A} or {a:A},{a:S}; S a set of 0..2 elements, A an array of 0..3 elements; element types int64 | string chosen per container (so the fused inner type is int64, string or (int64,string)); every element one symbolic byte (int64: non-zero 1-byte body); sets are normalised on input (ascending distinct); memMaxBytes 0 (spill everything) or 1000 (in memory)
// verif:outside nested containers, named types, null containers or null elements, more than two records, the fuse() aggregate's partials
func VerifH_C20_O4_set_array_lossless() {
	zctx := zed.NewContext()
	memMax := []int{0, 1000}[verif.Choose("memMax", 2)]
	f := NewFuser(zctx, memMax)
	setFirst := verif.Choose("setFirst", 2) == 1
	s := v20cSymSeq("set", true, 2)
	a := v20cSymSeq("arr", false, 3)
	in := []v20cSeq{a, s}
	if setFirst {
		in = []v20cSeq{s, a}
		verif.Reach("set-first")
	} else {
		verif.Reach("array-first")
	}
	for _, x := range in {
		verif.Assert(f.Write(x.rec(zctx)) == nil, "write-no-error")
	}
	var typ zed.Type
	for k := range in {
		out, err := f.Read()
		verif.Assert(err == nil && out != nil, "one-output-per-input")
		if out == nil || err != nil {
			return
		}
		verif.Assert(!out.IsError(), "output-not-error")
		if typ == nil {
			typ = out.Type()
		}
		verif.Assert(out.Type() == typ, "uniform-type")
		rt := zed.TypeRecordOf(out.Type())
		verif.Assert(rt != nil && len(rt.Fields) == 1 && rt.Fields[0].Name == "a", "record-with-field-a")
		if rt == nil || len(rt.Fields) != 1 {
			return
		}
		at, isArray := zed.TypeUnder(rt.Fields[0].Type).(*zed.TypeArray)
		verif.Assert(isArray, "set-plus-array-fuses-to-array")
		if !isArray {
			return
		}
		fv := out.DerefByColumn(0)
		verif.Assert(fv != nil && !fv.IsNull(), "container-not-null")
		if fv == nil || fv.IsNull() {
			return
		}
		var n int
		for it := fv.Iter(); !it.Done(); n++ {
			e := zed.NewValue(at.Type, it.Next()).Under()
			if n < len(in[k].elems) {
				verif.Assert(e.Type() == in[k].inner, "element-type-preserved")
				verif.Assert(bytes.Equal(e.Bytes(), in[k].elems[n]), "element-sequence-preserved")
			}
		}
		verif.Assert(n == len(in[k].elems), "element-count-preserved")
		if zed.IsUnionType(at.Type) {
			verif.Reach("union-inner")
		}
	}
	out, err := f.Read()
	verif.Assert(err == nil && out == nil, "no-extra-output")
	verif.Assert(f.Close() == nil, "close-no-error")
	if len(a.elems) == 3 {
		verif.Reach("three-element-array")
	}
	if f.spiller != nil {
		verif.Reach("spilled")
	}
	verif.Reach("end")
}

// ---------------------------------------------------------------------------
// O2b: a new shape arrives after the spill

type v20cField struct {
	path []string
	typ  zed.Type
	null bool
	body []byte
}

func v20cStr(name string) (bool, []byte) {
	if verif.Choose(name+".null", 2) == 1 {
		return true, nil
	}
	return false, []byte{verif.Byte(name + ".b")}
}

func v20cAppend(b *zcode.Builder, null bool, body []byte) {
	if null {
		b.Append(nil)
	} else {
		b.Append(body)
	}
}

// v20cLate: the record that arrives last.  0 {b:string}, 1 {a:string,b:string},
// 2 {b:string,a:string}, 3 {a:int64} (field a becomes a union), 4 {c:{b:string}}.
func v20cLate(zctx *zed.Context, name string) (zed.Value, []v20cField) {
	str := func(f string) zed.Field { return zed.NewField(f, zed.TypeString) }
	var b zcode.Builder
	var fields []zed.Field
	var leaves []v20cField
	leaf := func(n string, path ...string) {
		null, body := v20cStr(name + "." + n)
		v20cAppend(&b, null, body)
		leaves = append(leaves, v20cField{path, zed.TypeString, null, body})
	}
	switch verif.Choose(name+".shape", 5) {
	case 0:
		fields = []zed.Field{str("b")}
		leaf("b", "b")
	case 1:
		fields = []zed.Field{str("a"), str("b")}
		leaf("a", "a")
		leaf("b", "b")
	case 2:
		fields = []zed.Field{str("b"), str("a")}
		leaf("b", "b")
		leaf("a", "a")
	case 3:
		fields = []zed.Field{zed.NewField("a", zed.TypeInt64)}
		e := verif.Byte(name + ".i")
		verif.Assume(e != 0)
		b.Append([]byte{e})
		leaves = append(leaves, v20cField{[]string{"a"}, zed.TypeInt64, false, []byte{e}})
	case 4:
		inner := zctx.MustLookupTypeRecord([]zed.Field{str("b")})
		fields = []zed.Field{zed.NewField("c", inner)}
		b.BeginContainer()
		leaf("cb", "c", "b")
		b.EndContainer()
	}
	return zed.NewValue(zctx.MustLookupTypeRecord(fields), b.Bytes()), leaves
}

// v20cLeafIs: the leaf of out at path, untagged, has the type and bytes (or
// the null-ness) of the input leaf.
func v20cLeafIs(out zed.Value, l v20cField) bool {
	v := out
	for k, name := range l.path {
		rt := zed.TypeRecordOf(v.Type())
		if rt == nil {
			return false
		}
		i, ok := rt.IndexOfField(name)
		if !ok {
			return false
		}
		fv := v.DerefByColumn(i)
		if fv == nil {
			// DerefByColumn gives nil for a null field
			return l.null && k == len(l.path)-1
		}
		v = fv.Under()
	}
	if l.null {
		return v.IsNull()
	}
	return !v.IsNull() && v.Type() == l.typ && bytes.Equal(v.Bytes(), l.body)
}

// verif:desc C20-O2b a NEW shape that arrives only after the Fuser has spilled: records 1 and 2 are {a:string} and trigger the spill (at record 1 or 2), record 3 has a shape not seen before (new field, new field order, new type for a, new nested record).  The same three records go through a second Fuser that stays in memory.  Asserted: both give three outputs, pairwise of identical type and bytes, all of one type; that type has every field of the late shape; the late record's own leaves come out with their type and bytes (nulls stay null).  Real code: Fuser.Write/stash (types set, uberSchema.Mixin after f.spiller != nil), spill.File, Read/next, ConstShaper.
// verif:bounds 3 records; records 1,2 = {a:string}, a null or one symbolic byte; record 3 one of {b:string}, {a:string,b:string}, {b:string,a:string}, {a:int64}, {c:{b:string}} with string leaves null or one symbolic byte, int64 a non-zero 1-byte body; memMaxBytes symbolic in 0..13 restricted to the values that spill at record 1 or 2 (the in-memory twin uses 1<<20); model temp file that never fails
// verif:outside VerifH_C20_O2_fuser3 (thorough) covers late {b}/{a,b} shapes against the direct specification for every spill point; here: quick tier, spill-vs-memory equality, and late shapes that change a field's type or nest; more than 3 records
func VerifH_C20_O2b_new_shape_after_spill() {
	zctx := zed.NewContext()
	memMax := verif.Range("memMaxBytes", 0, 13)
	fs := NewFuser(zctx, memMax)
	fm := NewFuser(zctx, 1<<20)
	var vals []zed.Value
	for i := 0; i < 2; i++ {
		null, body := v20cStr(string(rune('p' + i)))
		var b zcode.Builder
		v20cAppend(&b, null, body)
		rt := zctx.MustLookupTypeRecord([]zed.Field{zed.NewField("a", zed.TypeString)})
		vals = append(vals, zed.NewValue(rt, b.Bytes()))
	}
	spilledAt := 0
	for i, v := range vals {
		verif.Assert(fs.Write(v) == nil && fm.Write(v) == nil, "write-no-error")
		if spilledAt == 0 && fs.spiller != nil {
			spilledAt = i + 1
		}
	}
	// the spill happened before the new shape shows up
	verif.Assume(fs.spiller != nil)
	late, leaves := v20cLate(zctx, "late")
	verif.Assert(fs.Write(late) == nil && fm.Write(late) == nil, "write-no-error")
	verif.Assert(fm.spiller == nil, "twin-stays-in-memory")
	var typ zed.Type
	for k := 0; k < 3; k++ {
		so, err1 := fs.Read()
		mo, err2 := fm.Read()
		verif.Assert(err1 == nil && err2 == nil, "read-no-error")
		verif.Assert(so != nil && mo != nil, "one-output-per-input")
		if so == nil || mo == nil || err1 != nil || err2 != nil {
			return
		}
		if typ == nil {
			typ = so.Type()
		}
		verif.Assert(so.Type() == typ, "uniform-type")
		verif.Assert(so.Type() == mo.Type(), "spilled-type-equals-in-memory-type")
		verif.Assert(bytes.Equal(so.Bytes(), mo.Bytes()), "spilled-value-equals-in-memory-value")
		rt := zed.TypeRecordOf(so.Type())
		verif.Assert(rt != nil, "output-is-record")
		if rt == nil {
			return
		}
		for _, f := range zed.TypeRecordOf(late.Type()).Fields {
			verif.Assert(rt.HasField(f.Name), "late-shape-field-in-output-type")
		}
		verif.Assert(rt.HasField("a"), "early-shape-field-in-output-type")
		if k == 2 {
			for _, l := range leaves {
				verif.Assert(v20cLeafIs(*so, l), "late-record-leaf-preserved")
			}
		}
	}
	so, err1 := fs.Read()
	mo, err2 := fm.Read()
	verif.Assert(err1 == nil && so == nil && err2 == nil && mo == nil, "no-extra-output")
	verif.Assert(fs.Close() == nil && fm.Close() == nil, "close-no-error")
	if spilledAt == 1 {
		verif.Reach("spilled-at-first-record")
	} else {
		verif.Reach("spilled-at-second-record")
	}
	verif.Reach("end")
}
