//go:build verif

package fuse

import (
	"context"

	"github.com/brimdata/super"
	"github.com/brimdata/super/internal/verif"
	"github.com/brimdata/super/runtime"
	"github.com/brimdata/super/runtime/sam/expr/agg"
	"github.com/brimdata/super/zbuf"
	"github.com/brimdata/super/zcode"
)

// v20gParent delivers a fixed sequence of streams: each stream is a list of
// batches followed by end-of-stream (a nil batch); after the last stream it
// keeps answering end-of-stream.
type v20gParent struct {
	streams [][][]zed.Value
	s, b    int
}

func (p *v20gParent) Pull(done bool) (zbuf.Batch, error) {
	if p.s >= len(p.streams) {
		return nil, nil
	}
	if p.b >= len(p.streams[p.s]) {
		p.s++
		p.b = 0
		return nil, nil
	}
	vals := p.streams[p.s][p.b]
	p.b++
	return zbuf.NewArray(vals), nil
}

// v20gField is one string field of an input record: its name, null or body.
type v20gField struct {
	name string
	null bool
	body []byte
}

type v20gRec struct {
	fields []v20gField
	val    zed.Value
}

// v20gMkRec builds the record with the given field names (all of type string);
// each field is null or one symbolic byte (nullable) or one symbolic byte.
func v20gMkRec(zctx *zed.Context, name string, names []string, nullable bool) v20gRec {
	var r v20gRec
	var fields []zed.Field
	var b zcode.Builder
	for _, fn := range names {
		f := v20gField{name: fn}
		if nullable && verif.Choose(name+"."+fn+".null", 2) == 1 {
			f.null = true
			b.Append(nil)
		} else {
			f.body = []byte{verif.Byte(name + "." + fn)}
			b.Append(f.body)
		}
		r.fields = append(r.fields, f)
		fields = append(fields, zed.NewField(fn, zed.TypeString))
	}
	r.val = zed.NewValue(zctx.MustLookupTypeRecord(fields), b.Bytes())
	return r
}

var v20gShapes = [][]string{{"a"}, {"b"}, {"a", "b"}}

// v20gAggType is the type the fuse() aggregate reports for the values.
func v20gAggType(zctx *zed.Context, recs []v20gRec) zed.Type {
	pattern, err := agg.NewPattern("fuse", true)
	verif.Assert(err == nil, "agg-fuse-exists")
	f := pattern()
	for _, r := range recs {
		f.Consume(r.val)
	}
	tv := f.Result(zctx)
	typ, err := zctx.LookupByValue(tv.Bytes())
	verif.Assert(err == nil, "agg-fuse-result-is-a-type")
	return typ
}

type v20gNames []string

func (n v20gNames) has(s string) bool {
	for _, x := range n {
		if x == s {
			return true
		}
	}
	return false
}

// v20gCheckStream pulls one stream from the operator and checks it against
// its input; sfx distinguishes the assertion ids of the later stream.
func v20gCheckStream(zctx *zed.Context, op *Op, in []v20gRec, sfx string) bool {
	return v20gCheckStreamWant(zctx, op, in, sfx, nil)
}

// v20gCheckStreamWant: want is what v20gAggType reports for in (nil: computed
// here; the schedule variant computes it before the operator starts, so that
// the harness's own map accesses are not scheduling points of the exploration).
func v20gCheckStreamWant(zctx *zed.Context, op *Op, in []v20gRec, sfx string, want zed.Type) bool {
	var got []zed.Value
	for {
		batch, err := op.Pull(false)
		verif.Assert(err == nil, "pull-no-error"+sfx)
		if err != nil {
			return false
		}
		if batch == nil {
			break
		}
		for _, v := range batch.Values() {
			got = append(got, v.Copy())
		}
		batch.Unref()
	}
	verif.Assert(len(got) == len(in), "one-output-per-input"+sfx)
	if len(got) != len(in) {
		return false
	}
	if want == nil {
		want = v20gAggType(zctx, in)
	}
	// every field name of the stream's input
	// (name lists, not maps: a map access would be a scheduling point of the
	// schedule variant)
	var seen v20gNames
	nseen := 0
	for _, r := range in {
		for _, f := range r.fields {
			if !seen.has(f.name) {
				seen = append(seen, f.name)
				nseen++
			}
		}
	}
	for i := range got {
		out := &got[i]
		verif.Assert(out.Type() == want, "uniform-type-is-what-agg-fuse-reports"+sfx)
		rt := zed.TypeRecordOf(out.Type())
		verif.Assert(rt != nil && len(rt.Fields) == nseen, "fields-of-this-stream-only"+sfx)
		if rt == nil {
			return false
		}
		// in order and lossless: output i carries input i's leaves, null elsewhere
		var has v20gNames
		for _, f := range in[i].fields {
			has = append(has, f.name)
			verif.Assert(vFieldIs(out, f.name, f.null, f.body), "field-preserved-in-order"+sfx)
		}
		for _, f := range rt.Fields {
			if !has.has(f.Name) {
				verif.Assert(seen.has(f.Name) && vFieldIs(out, f.Name, true, nil), "other-fields-null"+sfx)
			}
		}
	}
	return true
}

// v20gMkRecConcrete is v20gMkRec with concrete contents (schedule variant):
// every field null (if nulls) or the one byte b, b+1, ...
func v20gMkRecConcrete(zctx *zed.Context, names []string, nulls bool, b0 byte) v20gRec {
	var r v20gRec
	var fields []zed.Field
	var b zcode.Builder
	for i, fn := range names {
		f := v20gField{name: fn}
		if nulls {
			f.null = true
			b.Append(nil)
		} else {
			f.body = []byte{b0 + byte(i)}
			b.Append(f.body)
		}
		r.fields = append(r.fields, f)
		fields = append(fields, zed.NewField(fn, zed.TypeString))
	}
	r.val = zed.NewValue(zctx.MustLookupTypeRecord(fields), b.Bytes())
	return r
}

func v20gRun(twoStreams bool, sched int) {
	data := 0
	if sched > 0 {
		// schedules are the quantifier: concrete field contents, without
		// nulls or with the nullable fields null
		verif.Schedules(sched)
		verif.Races(true)
		data = verif.Choose("data", 2)
	} else {
		verif.Goroutines(true)
	}
	nrec := 0
	v20gMkRec := func(zctx *zed.Context, name string, names []string, nullable bool) v20gRec {
		if sched > 0 {
			nrec++
			return v20gMkRecConcrete(zctx, names, nullable && data == 1, byte('a'+4*nrec))
		}
		return v20gMkRec(zctx, name, names, nullable)
	}
	zctx := zed.NewContext()
	saved := MemMaxBytes
	if sched > 0 {
		MemMaxBytes = []int{1, 1 << 20}[verif.Choose("memmax", 2)]
	} else {
		MemMaxBytes = []int{1, 3, 1 << 20}[verif.Choose("memmax", 3)]
	}
	defer func() { MemMaxBytes = saved }()

	var first []v20gRec
	if twoStreams {
		// the first stream only sets the scene: {a},{b} or {a,b},{b}
		shape := v20gShapes[2]
		if sched < 2 {
			shape = v20gShapes[[]int{0, 2}[verif.Choose("shape", 2)]]
		}
		first = append(first, v20gMkRec(zctx, "p", shape, false))
		first = append(first, v20gMkRec(zctx, "q", []string{"b"}, false))
	} else {
		for i := 0; i < 2; i++ {
			shape := v20gShapes[verif.Choose("shape", len(v20gShapes))]
			first = append(first, v20gMkRec(zctx, []string{"p", "q"}[i], shape, true))
		}
		if verif.Choose("third", 2) == 1 {
			first = append(first, v20gMkRec(zctx, "r", []string{"b", "a"}, false))
		}
	}
	var second []v20gRec
	if twoStreams {
		if sched > 1 || verif.Choose("second", 2) == 1 {
			second = append(second, v20gMkRec(zctx, "s", []string{"c"}, true))
		}
		second = append(second, v20gMkRec(zctx, "t", []string{"a"}, true))
	}

	vals := func(rs []v20gRec) []zed.Value {
		var out []zed.Value
		for _, r := range rs {
			out = append(out, r.val)
		}
		return out
	}
	var s1 [][]zed.Value
	if verif.Choose("batches", 2) == 0 {
		s1 = [][]zed.Value{vals(first)}
	} else {
		for _, r := range first {
			s1 = append(s1, []zed.Value{r.val})
		}
	}
	streams := [][][]zed.Value{s1}
	if twoStreams {
		streams = append(streams, [][]zed.Value{vals(second)})
	}
	parent := &v20gParent{streams: streams}
	var wantFirst, wantSecond zed.Type
	if sched > 0 {
		wantFirst = v20gAggType(zctx, first)
		if twoStreams {
			wantSecond = v20gAggType(zctx, second)
		}
	}
	rctx := runtime.NewContext(context.Background(), zctx)
	op, err := New(rctx, parent)
	verif.Assert(err == nil && op != nil, "new-no-error")

	if !v20gCheckStreamWant(zctx, op, first, "", wantFirst) {
		return
	}
	verif.Reach("first-stream-done")
	if MemMaxBytes == 1 {
		verif.Reach("first-stream-spilled")
	}
	if twoStreams {
		if !v20gCheckStreamWant(zctx, op, second, "/second-stream", wantSecond) {
			return
		}
		verif.Reach("second-stream-done")
	} else {
		// nothing after the end of the input
		batch, err := op.Pull(false)
		verif.Assert(batch == nil && err == nil, "end-of-stream-again-at-end-of-input")
	}
	rctx.Cancel()
	verif.Reach("end")
}

// verif:desc C20-O5 the fuse OPERATOR executed end to end under cooperative goroutines: real fuse.New(rctx, parent), Op.Pull/run/pullInput/pushOutput/sendResult/shutdown, zbuf.WriteBatch into the real Fuser (agg.Schema, spill.File past MemMaxBytes, expr.ConstShaper) and zbuf.NewPuller(fuser) back out, over a model parent: exactly one output per input, in input order, all of ONE type, and that type is the one the fuse() aggregate (agg.NewPattern("fuse")) reports for the same input; each output carries its input's fields (same bytes / null) and null in the other fields; no error; end-of-stream afterwards.
// verif:bounds 2 records of shape {a:string}, {b:string} or {a,b}, each field null or one symbolic byte, optionally a third record {b:string,a:string} (field order differs) with symbolic bytes; in one batch or one batch per record; MemMaxBytes in {1 (spill from the first value), 3 (spill when the cumulative body size reaches 3), 2^20 (in memory)}
// verif:outside ONE deterministic goroutine schedule (the operator's goroutine runs whenever the consumer blocks in Pull); Pull(done=true) (ignored by the operator, issue #3436) and context cancellation; non-record values, unions (C20-O1/O3/O4); temp-file errors; a second stream (O5b)
// verif:unwind 64
func VerifH_C20_O5_fuse_op_exec() {
	v20gRun(false, 0)
}

// verif:desc C20-O5b the fuse operator over TWO streams: after the end-of-stream of the first, the parent delivers a second stream (what `over x => (fuse)` does for the next outer value, and what sort.Op/C06-O7 supports): it must be fused like the first and independently of it — one output per input, in order, one type = what fuse() reports for the second stream alone (its own fields only), fields preserved.  Assertion ids .../second-stream.
// verif:bounds first stream {a:string}|{a,b} then {b:string} (one symbolic byte per field), one batch or one per record; second stream optional {c:string} then {a:string}, each field null or one symbolic byte, one batch; MemMaxBytes in {1, 3, 2^20}
// verif:outside as O5; more than two streams
// verif:unwind 64
func VerifH_C20_O5b_fuse_op_second_stream() {
	v20gRun(true, 0)
}

// verif:desc C20-O5s the fuse operator over two streams, same run and same assertions as VerifH_C20_O5b_fuse_op_second_stream (and, for its first stream, VerifH_C20_O5_fuse_op_exec), under EVERY goroutine schedule with at most 1 preemption (thorough tier: 2) at the channel operations, selects, closes, atomics, map accesses, lock/once operations and the goroutine start of the real Op.Pull/run/pullInput/pushOutput/sendResult code and of what the operator's goroutine runs (Fuser, agg.Schema, spill.File through zngio, batch reference counts), with a bounded free choice of which runnable goroutine continues: what each stream is fused to (one output per input, in order, one type = what fuse() reports for that stream alone, fields preserved, no error, EOS) does not depend on how the operator's goroutine and the consumer interleave
// verif:bounds first stream {a:string}|{a,b} then {b:string}, one batch or one per record; second stream optional {c:string} then {a:string}, one batch; concrete field bytes, the second stream's fields all non-null or all null (Choose); MemMaxBytes in {1 (every stream spilled), 2^20 (in memory)}; preemption bound 1 (thorough: 2, there with the first stream {a,b},{b} and the second {c},{a} only)
// verif:outside as VerifH_C20_O5b_fuse_op_second_stream except that schedules are explored up to the bound; symbolic field contents (O5/O5b); field loads/stores are not preemption points (data-race freedom between sync points is assumed)
// verif:unwind 64
func VerifH_C20_O5s_fuse_op_schedules() {
	if verif.Thorough() {
		v20gRun(true, 2)
	} else {
		v20gRun(true, 1)
	}
}
