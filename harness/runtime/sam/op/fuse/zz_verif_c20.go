//go:build verif

package fuse

import (
	"bytes"

	"github.com/brimdata/super"
	"github.com/brimdata/super/internal/verif"
	"github.com/brimdata/super/zcode"
)

// vRec is one input record: which of the string fields a and b it has, and
// for each present field whether it is null, or its body.
type vRec struct {
	hasA, hasB   bool
	nullA, nullB bool
	a, b         []byte
	val          zed.Value
}

func vSymField(name string, maxLen int) (null bool, body []byte) {
	return vSymFieldLens(name, vLens[maxLen])
}

// vLens[maxLen]: null (-1) or 0..maxLen bytes
var vLens = [][]int{{-1, 0}, {-1, 0, 1}, {-1, 0, 1, 2}}

func vSymFieldLens(name string, lens []int) (null bool, body []byte) {
	l := lens[verif.Choose(name+".len", len(lens))]
	if l < 0 {
		return true, nil
	}
	body = make([]byte, l)
	for i := range body {
		body[i] = verif.Byte(name + ".b" + string(rune('0'+i)))
	}
	return false, body
}

// vSymRec: shape 0 = {a:string}, 1 = {b:string}, 2 = {a:string,b:string},
// 3 = {b:string,a:string}.
func vSymRec(zctx *zed.Context, name string, nshapes int, lens []int) *vRec {
	r := &vRec{}
	shape := verif.Choose(name+".shape", nshapes)
	var fields []zed.Field
	var b zcode.Builder
	addA := func() {
		r.hasA = true
		r.nullA, r.a = vSymFieldLens(name+".a", lens)
		fields = append(fields, zed.NewField("a", zed.TypeString))
		if r.nullA {
			b.Append(nil)
		} else {
			b.Append(r.a)
		}
	}
	addB := func() {
		r.hasB = true
		r.nullB, r.b = vSymFieldLens(name+".b", lens)
		fields = append(fields, zed.NewField("b", zed.TypeString))
		if r.nullB {
			b.Append(nil)
		} else {
			b.Append(r.b)
		}
	}
	switch shape {
	case 0:
		addA()
	case 1:
		addB()
	case 2:
		addA()
		addB()
	case 3:
		addB()
		addA()
	}
	r.val = zed.NewValue(zctx.MustLookupTypeRecord(fields), b.Bytes())
	return r
}

// vFieldIs: out has field name, of type string, null (wantNull) or with body want.
func vFieldIs(out *zed.Value, name string, wantNull bool, want []byte) bool {
	rt := zed.TypeRecordOf(out.Type())
	if rt == nil {
		return false
	}
	i, ok := rt.IndexOfField(name)
	if !ok || rt.Fields[i].Type != zed.TypeString {
		return false
	}
	fv := out.DerefByColumn(i)
	if fv == nil {
		return wantNull
	}
	return !wantNull && bytes.Equal(fv.Bytes(), want)
}

func vRunFuser(minVals, maxVals, nshapes int, lens []int) {
	zctx := zed.NewContext()
	memMax := verif.Range("memMaxBytes", 0, 3*(2*lens[len(lens)-1]+2)+1)
	f := NewFuser(zctx, memMax)
	n := verif.Choose("n", maxVals-minVals+1) + minVals
	var in []*vRec
	anyA, anyB := false, false
	for i := 0; i < n; i++ {
		r := vSymRec(zctx, string(rune('p'+i)), nshapes, lens)
		in = append(in, r)
		anyA = anyA || r.hasA
		anyB = anyB || r.hasB
		err := f.Write(r.val)
		verif.Assert(err == nil, "write-no-error")
	}
	spilled := f.spiller != nil
	var typ zed.Type
	for i := 0; i < n; i++ {
		out, err := f.Read()
		verif.Assert(err == nil, "read-no-error")
		verif.Assert(out != nil, "one-output-per-input")
		if out == nil || err != nil {
			return
		}
		// uniform: every output has the same type, with every field seen
		if typ == nil {
			typ = out.Type()
		}
		verif.Assert(out.Type() == typ, "uniform-type")
		verif.Assert(!out.IsNull(), "output-not-null")
		// in order and lossless: the i-th output carries the i-th input's
		// leaves; fields the input did not have are null
		r := in[i]
		if anyA {
			verif.Assert(vFieldIs(out, "a", !r.hasA || r.nullA, r.a), "field-a-preserved-in-order")
		}
		if anyB {
			verif.Assert(vFieldIs(out, "b", !r.hasB || r.nullB, r.b), "field-b-preserved-in-order")
		}
		verif.Assert(len(zed.TypeRecordOf(out.Type()).Fields) == func() int {
			k := 0
			if anyA {
				k++
			}
			if anyB {
				k++
			}
			return k
		}(), "no-extra-fields")
	}
	out, err := f.Read()
	verif.Assert(err == nil && out == nil, "no-extra-output")
	verif.Assert(f.Close() == nil, "close-no-error")
	if spilled {
		verif.Reach("spilled")
		if f.nbytes > 0 && n > 1 {
			verif.Reach("spilled-with-values")
		}
	} else {
		verif.Reach("in-memory")
	}
	verif.Reach("end")
}

// verif:desc C20-O2 fuse.Fuser Write/stash/Read/next with the real agg.Schema, expr.ConstShaper(Cast|Fill|Order) and, past the memory limit, the real spill.File (zngio.Writer -> model temp file -> zngio.Reader): exactly one output per input, in input order, all of one record type that has every field seen; the k-th output carries the k-th input's field values (same bytes, null-ness) and nulls elsewhere; no error; the same whatever memMaxBytes is.
// verif:bounds 1..2 input records, each of shape {a:string}, {b:string}, {a,b} or {b,a}; each field null or 0..1 symbolic bytes; memMaxBytes any value in 0..13 (spill at the first value, at the second, or never); the temp file is an in-memory model that never fails
// verif:outside non-record and nested values, differing field types (unions), temp-file I/O errors (C18), more than 2 values (thorough: 3)
func VerifH_C20_O2_fuser2() {
	vRunFuser(1, 2, 4, vLens[1])
}

// verif:desc C20-O2 as fuser2 with exactly 3 records (spill at the first, second, third value or never; values buffered before the spill are moved to the file in order)
// verif:bounds 3 records of shape {a:string}, {b:string} or {a,b}; each field null or exactly 1 symbolic byte; memMaxBytes in 0..13
// verif:tier thorough
func VerifH_C20_O2_fuser3() {
	vRunFuser(3, 3, 3, []int{-1, 1})
}

// ---------------------------------------------------------------------------
// O3: shaping to a fused type with unions is lossless

// vSymUnionRec: {a:T} with T one of int64 (one-byte body), string (0..1 bytes),
// {b:string} (0..1 bytes), each possibly null.
func vSymUnionRec(zctx *zed.Context, name string) (val zed.Value, ftyp zed.Type, null bool, body []byte) {
	var b zcode.Builder
	switch verif.Choose(name+".shape", 3) {
	case 0:
		ftyp = zed.TypeInt64
		if null = verif.Choose(name+".null", 2) == 1; !null {
			body = []byte{verif.Byte(name + ".i")}
		}
	case 1:
		ftyp = zed.TypeString
		null, body = vSymField(name+".s", 1)
	case 2:
		ftyp = zctx.MustLookupTypeRecord([]zed.Field{zed.NewField("b", zed.TypeString)})
		if null = verif.Choose(name+".null", 2) == 1; !null {
			inNull, inner := vSymField(name+".r", 1)
			var rb zcode.Builder
			if inNull {
				rb.Append(nil)
			} else {
				rb.Append(inner)
			}
			body = rb.Bytes()
		}
	}
	if null {
		b.Append(nil)
	} else {
		b.Append(body)
	}
	typ := zctx.MustLookupTypeRecord([]zed.Field{zed.NewField("a", ftyp)})
	return zed.NewValue(typ, b.Bytes()), ftyp, null, body
}

// verif:desc C20-O3 shaping to a fused type with unions loses nothing: two records {a:T1},{a:T2} with T in {int64,string,{b:string}} through fuse.Fuser (agg.Schema.merge -> union field type; expr.ConstShaper newShaper/shaperType/newStep/bestUnionTag/step.build castToUnion/BuildUnion, buildRecord), in memory or through the spill file: outputs have one type; output k's field a, untagged with Value.Under, has input k's field type and bytes (or is null when the input's was).
// verif:bounds 2 records; field a: int64 with any one-byte body, string of 0..1 symbolic bytes, or {b:string} with b null or 0..1 bytes; each possibly null; memMaxBytes 0 (spill everything) or 1000 (in memory)
// verif:outside arrays/sets/maps of unions, named types, more than two member types, casts between primitives (fuse never needs them)
func VerifH_C20_O3_union_fields() {
	zctx := zed.NewContext()
	memMax := []int{0, 1000}[verif.Choose("memMax", 2)]
	f := NewFuser(zctx, memMax)
	type rec struct {
		ftyp zed.Type
		null bool
		body []byte
	}
	var in []rec
	for i := 0; i < 2; i++ {
		val, ftyp, null, body := vSymUnionRec(zctx, string(rune('p'+i)))
		in = append(in, rec{ftyp, null, body})
		verif.Assert(f.Write(val) == nil, "write-no-error")
	}
	var typ zed.Type
	for i := 0; i < 2; i++ {
		out, err := f.Read()
		verif.Assert(err == nil && out != nil, "one-output-per-input")
		if out == nil || err != nil {
			return
		}
		if typ == nil {
			typ = out.Type()
		}
		verif.Assert(out.Type() == typ, "uniform-type")
		rt := zed.TypeRecordOf(out.Type())
		verif.Assert(rt != nil && len(rt.Fields) == 1 && rt.Fields[0].Name == "a", "record-with-field-a")
		if rt == nil || len(rt.Fields) != 1 {
			return
		}
		fv := out.DerefByColumn(0)
		if in[i].null {
			verif.Assert(fv == nil, "null-stays-null")
			continue
		}
		verif.Assert(fv != nil, "value-not-lost")
		if fv == nil {
			return
		}
		u := fv.Under()
		verif.Assert(u.Type() == in[i].ftyp, "leaf-type-preserved")
		verif.Assert(bytes.Equal(u.Bytes(), in[i].body), "leaf-bytes-preserved")
		if zed.IsUnionType(fv.Type()) {
			verif.Reach("union-member")
		}
	}
	out, err := f.Read()
	verif.Assert(err == nil && out == nil, "no-extra-output")
	if f.spiller != nil {
		verif.Reach("spilled")
	}
	verif.Reach("end")
}
