//go:build verif

package fuse

import (
	"bytes"

	"github.com/brimdata/super"
	"github.com/brimdata/super/internal/verif"
)

// verif:desc C20-O6 named and unnamed values of the SAME underlying type in one input (top level, so the fused type is a union such as (int64,foo=int64)): 2-3 values drawn from {int64, foo=int64, bar=int64, string, foo2=string} through fuse.Fuser (agg.Schema.Mixin/merge, expr.ConstShaper.Eval with its per-input-type shaper table, newShaper/bestUnionTag/castToUnion), in memory or through the spill file: one output per input in order, all of one type; output k, untagged one level, has EXACTLY input k's type - a named value stays named, an unnamed one stays unnamed, whatever came before it - and input k's bytes.
// verif:bounds 2-3 values, each one of 5 types (Choose), one symbolic body byte each; memMaxBytes 0 or 1000
// verif:outside named records/containers (fuse merges records structurally and drops their names by design); nulls (C20-O2/O3)
func VerifH_C20_O6_named_and_unnamed_members() {
	zctx := zed.NewContext()
	foo, _ := zctx.LookupTypeNamed("foo", zed.TypeInt64)
	bar, _ := zctx.LookupTypeNamed("bar", zed.TypeInt64)
	foo2, _ := zctx.LookupTypeNamed("foo2", zed.TypeString)
	types := []zed.Type{zed.TypeInt64, foo, bar, zed.TypeString, foo2}
	memMax := []int{0, 1000}[verif.Choose("memMax", 2)]
	f := NewFuser(zctx, memMax)
	n := 2 + verif.Choose("n", 2)
	var inTypes []zed.Type
	var inBodies [][]byte
	for i := 0; i < n; i++ {
		t := types[verif.Choose("type"+string(rune('0'+i)), len(types))]
		body := verif.BytesN("body"+string(rune('0'+i)), 1)
		inTypes = append(inTypes, t)
		inBodies = append(inBodies, body)
		verif.Assert(f.Write(zed.NewValue(t, body)) == nil, "write-no-error")
	}
	var typ zed.Type
	for i := 0; i < n; i++ {
		out, err := f.Read()
		verif.Assert(err == nil && out != nil, "one-output-per-input")
		if out == nil || err != nil {
			return
		}
		if typ == nil {
			typ = out.Type()
		}
		verif.Assert(out.Type() == typ, "uniform-type")
		// one level of untagging only (Value.Under would also strip the names)
		mt, mb := out.Type(), out.Bytes()
		if union, ok := out.Type().(*zed.TypeUnion); ok {
			mt, mb = union.Untag(out.Bytes())
			verif.Reach("union")
		}
		verif.Assert(mt == inTypes[i], "member-type-preserved")
		verif.Assert(bytes.Equal(mb, inBodies[i]), "bytes-preserved")
	}
	out, err := f.Read()
	verif.Assert(err == nil && out == nil, "no-extra-output")
	verif.Reach("end")
}
