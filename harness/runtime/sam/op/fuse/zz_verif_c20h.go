//go:build verif

package fuse

import (
	"bytes"

	"github.com/brimdata/super"
	"github.com/brimdata/super/internal/verif"
	"github.com/brimdata/super/runtime/sam/expr/agg"
	"github.com/brimdata/super/zcode"
)

// verif:desc C20-O6 named and unnamed values of the SAME underlying type in one input (top level, so the fused type is a union such as (int64,foo=int64)): 2-3 values drawn from {int64, foo=int64, bar=int64, string, foo2=string} through fuse.Fuser (agg.Schema.Mixin/merge, expr.ConstShaper.Eval with its per-input-type shaper table, newShaper/bestUnionTag/castToUnion), in memory or through the spill file: one output per input in order, all of one type; output k, untagged one level, has EXACTLY input k's type - a named value stays named, an unnamed one stays unnamed, whatever came before it - and input k's bytes.
// verif:bounds 2-3 values, each one of 5 types (Choose), one symbolic body byte each; memMaxBytes 0 or 1000
// verif:outside named records/containers (fuse merges records structurally and drops their names by design); nulls (C20-O2/O3)
func VerifH_C20_O6_named_and_unnamed_members() {
	zctx := zed.NewContext()
	foo, _ := zctx.LookupTypeNamed("foo", zed.TypeInt64)
	bar, _ := zctx.LookupTypeNamed("bar", zed.TypeInt64)
	foo2, _ := zctx.LookupTypeNamed("foo2", zed.TypeString)
	types := []zed.Type{zed.TypeInt64, foo, bar, zed.TypeString, foo2}
	memMax := []int{0, 1000}[verif.Choose("memMax", 2)]
	f := NewFuser(zctx, memMax)
	n := 2 + verif.Choose("n", 2)
	var inTypes []zed.Type
	var inBodies [][]byte
	for i := 0; i < n; i++ {
		t := types[verif.Choose("type"+string(rune('0'+i)), len(types))]
		body := verif.BytesN("body"+string(rune('0'+i)), 1)
		inTypes = append(inTypes, t)
		inBodies = append(inBodies, body)
		verif.Assert(f.Write(zed.NewValue(t, body)) == nil, "write-no-error")
	}
	var typ zed.Type
	for i := 0; i < n; i++ {
		out, err := f.Read()
		verif.Assert(err == nil && out != nil, "one-output-per-input")
		if out == nil || err != nil {
			return
		}
		if typ == nil {
			typ = out.Type()
		}
		verif.Assert(out.Type() == typ, "uniform-type")
		// one level of untagging only (Value.Under would also strip the names)
		mt, mb := out.Type(), out.Bytes()
		if union, ok := out.Type().(*zed.TypeUnion); ok {
			mt, mb = union.Untag(out.Bytes())
			verif.Reach("union")
		}
		verif.Assert(mt == inTypes[i], "member-type-preserved")
		verif.Assert(bytes.Equal(mb, inBodies[i]), "bytes-preserved")
	}
	out, err := f.Read()
	verif.Assert(err == nil && out == nil, "no-extra-output")
	verif.Reach("end")
}

// verif:desc C20-O7 typed NULL inputs count: a top-level null whose type adds something the other values do not (null({a:int64,b:string}) between {a:1} and {c:2}; null(string) between integers; an input of nulls only) is mixed into the fused type by BOTH the fuse operator's Fuser (agg.Schema.Mixin) and the fuse() aggregate (agg fuse.Consume/Result): 2-3 values from {{a:int64}, null {a:int64,b:string}, {c:int64}, int64, null string, null {a:int64}} through fuse.Fuser: one output per input in order, all of ONE type, that type is what fuse() reports for the same input, a null input gives a null output.
// verif:bounds 2-3 values, each one of 6 templates (Choose), concrete leaves; memMaxBytes 0 or 1000
// verif:outside nulls nested inside non-null values (C20-O2/O3/O5); partial aggregation of fuse() (C10-O7)
func VerifH_C20_O7_typed_null_inputs() {
	zctx := zed.NewContext()
	ra := zctx.MustLookupTypeRecord([]zed.Field{zed.NewField("a", zed.TypeInt64)})
	rab := zctx.MustLookupTypeRecord([]zed.Field{zed.NewField("a", zed.TypeInt64), zed.NewField("b", zed.TypeString)})
	rc := zctx.MustLookupTypeRecord([]zed.Field{zed.NewField("c", zed.TypeInt64)})
	one := zcode.Append(nil, zed.EncodeInt(1))
	tmpl := []zed.Value{
		zed.NewValue(ra, one),
		zed.NewValue(rab, nil),
		zed.NewValue(rc, one),
		zed.NewInt64(7),
		zed.NewValue(zed.TypeString, nil),
		zed.NewValue(ra, nil),
	}
	memMax := []int{0, 1000}[verif.Choose("memMax", 2)]
	f := NewFuser(zctx, memMax)
	pattern, err := agg.NewPattern("fuse", true)
	verif.Assert(err == nil, "agg-fuse-exists")
	af := pattern()
	n := 2 + verif.Choose("n", 2)
	var in []zed.Value
	for i := 0; i < n; i++ {
		v := tmpl[verif.Choose("val"+string(rune('0'+i)), len(tmpl))]
		in = append(in, v)
		verif.Assert(f.Write(v) == nil, "write-no-error")
		af.Consume(v)
	}
	tv := af.Result(zctx)
	var aggType zed.Type
	if !tv.IsNull() {
		aggType, err = zctx.LookupByValue(tv.Bytes())
		verif.Assert(err == nil, "agg-fuse-result-is-a-type")
	}
	verif.Assert(aggType != nil, "fuse-aggregate-reports-a-type")
	for i := 0; i < n; i++ {
		out, err := f.Read()
		verif.Assert(err == nil && out != nil, "one-output-per-input")
		if out == nil || err != nil {
			return
		}
		// known region (the XXX note in runtime/sam/op/fuse/ztests/mixed.yaml): the fused type
		// is a union one of whose members is a record MERGED from several input records, and
		// this input is one of those records - the shaper finds no member with its type and
		// passes the value through unshaped
		region := ""
		if union, ok := aggType.(*zed.TypeUnion); ok && zed.IsRecordType(in[i].Type()) && !in[i].IsNull() {
			member := false
			for _, t := range union.Types {
				if t == in[i].Type() {
					member = true
				}
			}
			if !member {
				region = "/record-into-union-with-merged-record"
			}
		}
		verif.Assert(out.Type() == aggType, "operator-type-is-the-aggregates-type"+region)
		verif.Assert(out.IsNull() == in[i].IsNull(), "null-stays-null")
		if in[i].IsNull() {
			verif.Reach("typed-null-input")
		}
	}
	out, err := f.Read()
	verif.Assert(err == nil && out == nil, "no-extra-output")
	verif.Reach("end")
}

// verif:desc C20-O8 the spill path has no size limit of its own: a single value larger than the ZNG reader's DEFAULT frame limits must come back from the spill file (spill.File.Write/Rewind/Read over zngio with the options the spill file chooses) exactly as the in-memory path returns it: 2 values - a string of 600 KiB or 1.2 MiB (concrete bytes) and a small record - through fuse.Fuser with memMaxBytes 1 (everything after the first value is spilled) and 1 GiB: one output per input in order, no error, same bytes.
// verif:bounds string length in {600 KiB, 1.2 MiB}; 2 values in either order; memMaxBytes 1 or 2^30; lz4 = the engine's incompressible stub
// verif:outside values above 1.2 MiB; several large values; real temp files (model)
// verif:tier thorough
func VerifH_C20_O8_large_value_through_spill() {
	zctx := zed.NewContext()
	n := []int{600 << 10, 1200 << 10}[verif.Choose("size", 2)]
	big := make([]byte, n)
	for i := range big {
		big[i] = byte('a' + i%7)
	}
	rec := zed.NewValue(zctx.MustLookupTypeRecord([]zed.Field{zed.NewField("a", zed.TypeInt64)}), zcode.Append(nil, zed.EncodeInt(1)))
	in := []zed.Value{zed.NewValue(zed.TypeString, big), rec}
	if verif.Choose("order", 2) == 1 {
		in[0], in[1] = in[1], in[0]
	}
	memMax := []int{1, 1 << 30}[verif.Choose("memMax", 2)]
	f := NewFuser(zctx, memMax)
	for _, v := range in {
		verif.Assert(f.Write(v) == nil, "write-no-error")
	}
	for i := range in {
		out, err := f.Read()
		verif.Assert(err == nil && out != nil, "one-output-per-input")
		if out == nil || err != nil {
			return
		}
		u := out.Under()
		verif.Assert(len(u.Bytes()) == len(in[i].Bytes()), "value-length-preserved")
		verif.Assert(bytes.Equal(u.Bytes(), in[i].Bytes()), "value-bytes-preserved")
	}
	out, err := f.Read()
	verif.Assert(err == nil && out == nil, "no-extra-output")
	if f.spiller != nil {
		verif.Reach("spilled")
	}
	verif.Reach("end")
}
