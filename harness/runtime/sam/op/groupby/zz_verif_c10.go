//go:build verif

package groupby

import (
	"bytes"

	"github.com/brimdata/super"
	"github.com/brimdata/super/internal/verif"
	"github.com/brimdata/super/order"
	"github.com/brimdata/super/pkg/field"
	"github.com/brimdata/super/runtime/sam/expr"
	"github.com/brimdata/super/zbuf"
)

// vKeyExpr is the model of a (computed) key expression: for the i-th input,
// identified by this == int64(i), it yields the key value chosen by the harness.
type vKeyExpr struct {
	keys  *[]zed.Value // row-major: keys[i*ncols+col]
	col   int
	ncols int
}

func (k *vKeyExpr) Eval(_ expr.Context, this zed.Value) zed.Value {
	return (*k.keys)[int(this.Int())*k.ncols+k.col]
}

var vKeyTypes = []zed.Type{zed.TypeString, zed.TypeBytes}

// vSymKeyVal: a key of type vKeyTypes[0..ntypes) that is null, or has a body of
// 0..maxLen symbolic bytes.
func vSymKeyVal(name string, ntypes, maxLen int) zed.Value {
	typ := vKeyTypes[0]
	if ntypes > 1 {
		typ = vKeyTypes[verif.Choose(name+".type", ntypes)]
	}
	l := verif.Choose(name+".len", maxLen+2) - 1
	if l < 0 {
		return zed.NewValue(typ, nil)
	}
	body := make([]byte, l)
	for i := range body {
		body[i] = verif.Byte(name + ".b" + string(rune('0'+i)))
	}
	return zed.NewValue(typ, body)
}

// vSameVal: same type and same value ("distinct meaning same type and value").
func vSameVal(a, b zed.Value) bool {
	if a.Type() != b.Type() || a.IsNull() != b.IsNull() {
		return false
	}
	return a.IsNull() || bytes.Equal(a.Bytes(), b.Bytes())
}

func vNewCountAggregator(nkeys int, keys *[]zed.Value, dir order.Direction) *Aggregator {
	zctx := zed.NewContext()
	names := field.List{}
	var keyRefs, keyExprs []expr.Evaluator
	for c := 0; c < nkeys; c++ {
		p := field.Path{"k" + string(rune('1'+c))}
		names = append(names, p)
		keyRefs = append(keyRefs, expr.NewDottedExpr(zctx, p))
		keyExprs = append(keyExprs, &vKeyExpr{keys: keys, col: c, ncols: nkeys})
	}
	names = append(names, field.Path{"count"})
	builder, err := zed.NewRecordBuilder(zctx, names)
	if err != nil {
		panic(err)
	}
	count, err := expr.NewAggregator("count", nil, nil)
	if err != nil {
		panic(err)
	}
	aggRefs := []expr.Evaluator{expr.NewDottedExpr(zctx, field.Path{"count"})}
	a, err := NewAggregator(nil, zctx, keyRefs, keyExprs, aggRefs, []*expr.Aggregator{count}, builder, 0, dir, false, false)
	if err != nil {
		panic(err)
	}
	return a
}

func vRunKeys(n, nkeys int) {
	var keys []zed.Value
	for i := 0; i < n; i++ {
		for c := 0; c < nkeys; c++ {
			name := string(rune('a'+i)) + string(rune('1'+c))
			if nkeys == 1 {
				keys = append(keys, vSymKeyVal(name, 2, 2))
			} else if c == 0 {
				keys = append(keys, vSymKeyVal(name, 1, 2))
			} else {
				keys = append(keys, vSymKeyVal(name, 1, 1))
			}
		}
	}
	a := vNewCountAggregator(nkeys, &keys, 0)
	ref := zbuf.NewArray(nil)
	for i := 0; i < n; i++ {
		if err := a.Consume(ref, zed.NewInt64(int64(i))); err != nil {
			panic(err)
		}
	}
	// the naive evaluation: group i = inputs with the same (types, values)
	same := func(i, j int) bool {
		for c := 0; c < nkeys; c++ {
			if !vSameVal(keys[i*nkeys+c], keys[j*nkeys+c]) {
				return false
			}
		}
		return true
	}
	groups := 0
	for i := 0; i < n; i++ {
		first := true
		for j := 0; j < i; j++ {
			if same(i, j) {
				first = false
			}
		}
		if first {
			groups++
		}
	}
	verif.Assert(len(a.table) == groups, "one-table-row-per-distinct-key")
	batch, err := a.readTable(true, false, ref)
	if err != nil {
		panic(err)
	}
	var rows []zed.Value
	if batch != nil {
		rows = batch.Values()
	}
	verif.Assert(len(rows) == groups, "one-output-row-per-distinct-key")
	// every input finds exactly one output row carrying its key, and that
	// row's count is the size of its group
	for i := 0; i < n; i++ {
		size := uint64(0)
		for j := 0; j < n; j++ {
			if same(i, j) {
				size++
			}
		}
		found := 0
		for r := range rows {
			match := true
			for c := 0; c < nkeys; c++ {
				kv := rows[r].Deref("k" + string(rune('1'+c)))
				if kv == nil {
					// Deref yields nil for a null field body; the type is still there
					kv = zed.NewValue(rows[r].Fields()[c].Type, nil).Ptr()
				}
				if !vSameVal(*kv, keys[i*nkeys+c]) {
					match = false
				}
			}
			if match {
				found++
				cv := rows[r].Deref("count")
				verif.Assert(cv != nil && cv.Type() == zed.TypeUint64 && cv.Uint() == size, "count-is-group-size")
			}
		}
		verif.Assert(found == 1, "key-appears-once-in-output")
	}
	if groups < n {
		verif.Reach("merged")
	}
	if groups > 1 {
		verif.Reach("distinct")
	}
	verif.Reach("end")
}

// verif:desc C10-O2 the key-table key of groupby.Aggregator.Consume (zcode.Append of every key body + uvarint of the TypeVectorTable code) is injective and readTable(flush) inverts it: after consuming 2 inputs with one key column, table and output have exactly one row per distinct (type, value) key, the row carries that key (type, null-ness, bytes) and count() equals the group size.  Real Consume, TypeVectorTable.Lookup, newValRow/apply (count), readTable, RecordBuilder, lookupRecordType.
// verif:bounds 2 inputs; 1 key column of type string or bytes (chosen per input), null or body of 0..2 symbolic bytes; key expression = model evaluator returning the chosen value
// verif:outside container/native-encoded keys, quiet/missing keys, spills (limit not reached), more than 2 inputs
func VerifH_C10_O2_keys1() {
	vRunKeys(2, 1)
}

// verif:desc C10-O2 as keys1 with two key columns: concatenated key bodies must not be ambiguous (("a",""), ("","a"), (null,"a"), ("a",null) ... are different keys)
// verif:bounds 2 inputs; 2 string key columns, first null or 0..2 symbolic bytes, second null or 0..1 symbolic bytes
// verif:outside as keys1
func VerifH_C10_O2_keys2() {
	vRunKeys(2, 2)
}

// ---------------------------------------------------------------------------
// O3: early release on input declared sorted

type vSortedKey struct {
	null bool
	v    int64
}

func (k vSortedKey) val() zed.Value {
	if k.null {
		return zed.NullInt64
	}
	return zed.NewInt64(k.v)
}

func vRunSorted(n int, lo, hi int64) {
	dir := order.Direction(1)
	if verif.Choose("desc", 2) == 1 {
		dir = -1
	}
	in := make([]vSortedKey, n)
	var keys []zed.Value
	for i := range in {
		name := string(rune('a' + i))
		if verif.Choose(name+".null", 2) == 1 {
			in[i].null = true
		} else {
			in[i].v = verif.Int64(name)
			verif.Assume(in[i].v >= lo && in[i].v <= hi)
		}
		keys = append(keys, in[i].val())
	}
	a := vNewCountAggregator(1, &keys, dir)
	// the input is sorted as declared, under the comparator the operator itself
	// uses for the declaration (nulls are the largest key)
	for i := 0; i+1 < n; i++ {
		verif.Assume(a.valueCompare(keys[i], keys[i+1]) <= 0)
	}
	ref := zbuf.NewArray(nil)
	var rows []zed.Value
	early := 0
	drain := func(eof bool) {
		for {
			b, err := a.nextResult(eof, ref)
			if err != nil {
				panic(err)
			}
			if b == nil {
				return
			}
			rows = append(rows, b.Values()...)
			if !eof {
				early += len(b.Values())
			}
		}
	}
	for i := 0; i < n; i++ {
		if err := a.Consume(ref, zed.NewInt64(int64(i))); err != nil {
			panic(err)
		}
		// Op.run asks for completed keys after every batch; batches of one
		// value release the most
		drain(false)
	}
	drain(true)
	same := func(i, j int) bool {
		return in[i].null == in[j].null && (in[i].null || in[i].v == in[j].v)
	}
	groups := 0
	for i := 0; i < n; i++ {
		first := true
		for j := 0; j < i; j++ {
			if same(i, j) {
				first = false
			}
		}
		if first {
			groups++
		}
	}
	verif.Assert(len(rows) == groups, "sorted-one-row-per-distinct-key")
	for i := 0; i < n; i++ {
		size := uint64(0)
		for j := 0; j < n; j++ {
			if same(i, j) {
				size++
			}
		}
		found := 0
		for r := range rows {
			kv := rows[r].Deref("k1")
			var match bool
			if kv == nil {
				match = in[i].null
			} else {
				match = !in[i].null && kv.Type() == zed.TypeInt64 && kv.Int() == in[i].v
			}
			if match {
				found++
				cv := rows[r].Deref("count")
				verif.Assert(cv != nil && cv.Uint() == size, "sorted-count-is-group-size")
			}
		}
		verif.Assert(found == 1, "sorted-key-appears-once")
	}
	if early > 0 {
		verif.Reach("released-early")
	}
	if groups < n && early > 0 {
		verif.Reach("released-early-with-duplicates")
	}
	verif.Reach("end")
}

// verif:desc C10-O3 sorted-input release rule: groupby.Aggregator with inputDir asc/desc, Consume (updateMaxTableKey, Row.groupval) followed after every input by nextResult(false) -> readTable(flush=false), then nextResult(true): all released rows together hold exactly one row per distinct key with count = group size, i.e. no row is released while the sorted input can still deliver its key.  Real expr.NewValueCompareFn comparator.
// verif:bounds 3 inputs, key null(int64) or int64 in [-60,60] (one-byte encodings), sorted per the declared direction under the operator's own comparator (nulls max); direction asc or desc; results requested after every input
// verif:outside spills (maxSpillKey/readSpills), secondary keys, keys of mixed types, input that violates its declared order
func VerifH_C10_O3_sorted_release() {
	vRunSorted(3, -60, 60)
}

// verif:desc C10-O3 as sorted_release with the full int64 key range (multi-byte key encodings)
// verif:bounds as sorted_release, keys any int64 or null
// verif:tier thorough
func VerifH_C10_O3_sorted_release_full() {
	vRunSorted(3, -1<<63, 1<<63-1)
}
