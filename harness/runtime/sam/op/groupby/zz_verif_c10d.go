//go:build verif

package groupby

import (
	"context"

	"github.com/brimdata/super"
	"github.com/brimdata/super/internal/verif"
	"github.com/brimdata/super/order"
	"github.com/brimdata/super/pkg/field"
	"github.com/brimdata/super/runtime/sam/expr"
	"github.com/brimdata/super/zbuf"
	"github.com/brimdata/super/zcode"
)

// vC10dNewAggregator is "count(), sum(v) by k1" as groupby.New wires it: the key
// expression and the key reference are both the field k1 (so that the key
// expression also evaluates on spilled partial rows, as spillTable/readSpills
// do), the aggregation references are the output fields count and sum.
func vC10dNewAggregator(zctx *zed.Context, limit int, dir order.Direction) *Aggregator {
	k1 := field.Path{"k1"}
	names := field.List{k1, field.Path{"count"}, field.Path{"sum"}}
	builder, err := zed.NewRecordBuilder(zctx, names)
	if err != nil {
		panic(err)
	}
	count, err := expr.NewAggregator("count", nil, nil)
	if err != nil {
		panic(err)
	}
	sum, err := expr.NewAggregator("sum", expr.NewDottedExpr(zctx, field.Path{"v"}), nil)
	if err != nil {
		panic(err)
	}
	keyRefs := []expr.Evaluator{expr.NewDottedExpr(zctx, k1)}
	keyExprs := []expr.Evaluator{expr.NewDottedExpr(zctx, k1)}
	aggRefs := []expr.Evaluator{expr.NewDottedExpr(zctx, field.Path{"count"}), expr.NewDottedExpr(zctx, field.Path{"sum"})}
	a, err := NewAggregator(context.Background(), zctx, keyRefs, keyExprs, aggRefs, []*expr.Aggregator{count, sum}, builder, limit, dir, false, false)
	if err != nil {
		panic(err)
	}
	return a
}

var vC10dLimits = []int{1, 2, 1000}

func vC10dRun(n int, dirs []order.Direction) {
	dir := dirs[verif.Choose("dir", len(dirs))]
	limit := vC10dLimits[verif.Choose("limit", len(vC10dLimits))]
	// the order in which readTable walks the table (a Go map) is arbitrary; it
	// decides the order of a spilled run's input and which row updateMaxSpillKey
	// sees (the in-memory reference run is insensitive to it: C10-O2/O3)
	verif.ArbitraryMapOrder(limit < 1000)
	zctx := zed.NewContext()
	inType := zctx.MustLookupTypeRecord([]zed.Field{zed.NewField("k1", zed.TypeInt64), zed.NewField("v", zed.TypeInt64)})
	ks := make([]int64, n)
	vs := make([]int64, n)
	var in []zed.Value
	for i := 0; i < n; i++ {
		name := string(rune('a' + i))
		ks[i] = int64(verif.Choose(name+".k", 3))
		// 0 is encoded as an empty body (the encoder's one length boundary in
		// this range): only the first input may be 0, so that a zero sum passes
		// through a spill as a partial without a fork per input
		lo := 1
		if i == 0 {
			lo = 0
		}
		vs[i] = int64(verif.Range(name+".v", lo, 7))
		body := zcode.Append(zcode.Append(nil, zed.EncodeInt(ks[i])), zed.EncodeInt(vs[i]))
		in = append(in, zed.NewValue(inType, body))
	}
	a := vC10dNewAggregator(zctx, limit, dir)
	if dir != 0 {
		// the input is sorted as declared, under the operator's own comparator
		for i := 0; i+1 < n; i++ {
			verif.Assume(a.valueCompare(zed.NewInt64(ks[i]), zed.NewInt64(ks[i+1])) <= 0)
		}
	}
	ref := zbuf.NewArray(nil)
	var rows []zed.Value
	early := 0
	ok := true
	drain := func(eof bool) {
		for i := 0; i < 8; i++ {
			b, err := a.nextResult(eof, ref)
			verif.Assert(err == nil, "no-error")
			if err != nil {
				ok = false
				return
			}
			if b == nil {
				return
			}
			for _, r := range b.Values() {
				rows = append(rows, r.Copy())
			}
			if !eof {
				early += len(b.Values())
			}
		}
		verif.Assert(false, "results-terminate")
	}
	for i := 0; i < n && ok; i++ {
		err := a.Consume(ref, in[i])
		verif.Assert(err == nil, "no-error")
		if err != nil {
			return
		}
		if dir != 0 {
			// Op.run asks for completed keys after every batch of sorted input
			drain(false)
		}
	}
	if !ok {
		return
	}
	drain(true)
	if !ok {
		return
	}
	spilled := a.spiller != nil
	// the naive evaluation
	groups := 0
	for i := 0; i < n; i++ {
		first := true
		for j := 0; j < i; j++ {
			if ks[j] == ks[i] {
				first = false
			}
		}
		if first {
			groups++
		}
	}
	verif.Assert(len(rows) == groups, "one-row-per-distinct-key")
	for i := 0; i < n; i++ {
		size, total := uint64(0), int64(0)
		for j := 0; j < n; j++ {
			if ks[j] == ks[i] {
				size++
				total += vs[j]
			}
		}
		found := 0
		for r := range rows {
			kv := rows[r].Deref("k1")
			if kv != nil && kv.Type() == zed.TypeInt64 && kv.Int() == ks[i] {
				found++
				cv := rows[r].Deref("count")
				verif.Assert(cv != nil && cv.Type() == zed.TypeUint64 && cv.Uint() == size, "count-is-group-size")
				sv := rows[r].Deref("sum")
				verif.Assert(sv != nil && sv.Type() == zed.TypeInt64 && sv.Int() == total, "sum-is-group-sum")
			}
		}
		verif.Assert(found == 1, "key-appears-once")
	}
	if spilled {
		verif.Reach("spilled")
		verif.Assert(limit < groups || limit < n, "spill-only-over-limit")
		if groups < n {
			verif.Reach("spilled-key-in-two-runs-or-merged")
		}
		if early > 0 {
			verif.Reach("spilled-and-released-early")
		}
		// what Op.run does when it is done
		a.spiller.Cleanup()
	} else if dir == 0 {
		// (with sorted input completed keys leave the table early, so more
		// groups than the limit can pass through without a spill)
		verif.Assert(groups <= limit, "table-within-limit")
	}
	verif.Reach("end")
}

// verif:desc C10-O6 aggregation past the table limit: the real groupby.Aggregator for "count(), sum(v) by k1" with limit 1 or 2, so that Consume spills the table (spillTable -> readTable(partials) -> spill.MergeSort.Spill -> spill files) once or twice and the results come from nextResult(true) -> spillTable(eof) -> readSpills -> nextResultFromSpills (MergeSort.Peek/Read, keysComparator, consumeAsPartial of count and sum, RecordBuilder); for input declared sorted also updateMaxSpillKey and the early release from the spills (readSpills(eof=false)) after every input.  Asserted: no error; the rows are exactly one per distinct key, each with count = group size (uint64) and sum = group sum (int64) — the same specification the run with limit 1000 (no spill, same harness) is held to, so spilled and in-memory results are equal; a spill happens only over the limit.
// verif:bounds 3 input records {k1:int64,v:int64}, k1 each of 0..2 (enumerated: all 27 key sequences, i.e. 1-3 distinct keys in every arrangement), v symbolic: 0..7 for the first input, 1..7 for the others (0 has an empty encoding; one input suffices to send a zero sum through a spill); limit in {1,2,1000}; inputDir in {0, +1, -1}, for +-1 the keys are assumed sorted under the operator's own comparator and results are requested after every input; every iteration order of the table map when the limit is 1 or 2; temp files = the engine's in-memory model, never failing (natively: real files)
// verif:outside more than 3 inputs / 1 key column; null, missing or mixed-type keys; aggregates other than count and sum; partialsIn/partialsOut; I/O errors of the spill (C18); Op.run's goroutine and channel plumbing; output order
// verif:unwind 64
func VerifH_C10_O6_groupby_spill() {
	vC10dRun(3, []order.Direction{0, 1, -1})
}
