//go:build verif

package groupby

import (
	"context"

	"github.com/brimdata/super"
	"github.com/brimdata/super/internal/verif"
	"github.com/brimdata/super/pkg/field"
	"github.com/brimdata/super/runtime/sam/expr"
	"github.com/brimdata/super/zbuf"
	"github.com/brimdata/super/zcode"
)

// v08gAggregator is "avg(v), count() by k1" with the partials flags a parallel
// plan gives its legs (partialsOut) and its tail (partialsIn).
func v08gAggregator(zctx *zed.Context, limit int, partialsIn, partialsOut bool) *Aggregator {
	k1 := field.Path{"k1"}
	names := field.List{k1, field.Path{"avg"}, field.Path{"count"}}
	builder, err := zed.NewRecordBuilder(zctx, names)
	if err != nil {
		panic(err)
	}
	// the tail aggregates the legs' output fields; the legs aggregate the input field
	in := field.Path{"v"}
	if partialsIn {
		in = field.Path{"avg"}
	}
	avg, err := expr.NewAggregator("avg", expr.NewDottedExpr(zctx, in), nil)
	if err != nil {
		panic(err)
	}
	var cin expr.Evaluator
	if partialsIn {
		cin = expr.NewDottedExpr(zctx, field.Path{"count"})
	}
	count, err := expr.NewAggregator("count", cin, nil)
	if err != nil {
		panic(err)
	}
	keyRefs := []expr.Evaluator{expr.NewDottedExpr(zctx, k1)}
	keyExprs := []expr.Evaluator{expr.NewDottedExpr(zctx, k1)}
	aggRefs := []expr.Evaluator{expr.NewDottedExpr(zctx, field.Path{"avg"}), expr.NewDottedExpr(zctx, field.Path{"count"})}
	a, err := NewAggregator(context.Background(), zctx, keyRefs, keyExprs, aggRefs, []*expr.Aggregator{avg, count}, builder, limit, 0, partialsIn, partialsOut)
	if err != nil {
		panic(err)
	}
	return a
}

func v08gDrain(a *Aggregator) (rows []zed.Value, ok bool) {
	ref := zbuf.NewArray(nil)
	for i := 0; i < 8; i++ {
		b, err := a.nextResult(true, ref)
		if err != nil {
			return rows, false
		}
		if b == nil {
			return rows, true
		}
		for _, r := range b.Values() {
			rows = append(rows, r.Copy())
		}
	}
	return rows, false
}

// verif:desc C08-O8 a summarize split over parallel legs gives the sequential result also when tables spill: `avg(v), count() by k1` as two LEG aggregators (groupby.Aggregator with partialsOut: results are partials - avg as {sum,count}) feeding one TAIL aggregator (partialsIn: ConsumeAsPartial, final results), each with its own table limit (1: every second key spills the table to the spill files and the results come back through nextResultFromSpills; 1000: in memory). Asserted: no error anywhere; the tail emits exactly one row per distinct key over both legs, with count = group size (uint64) and avg = group sum / group size as a float64 - the same whatever spilled.
// verif:bounds 2 legs x 2 input records {k1,v}, keys each of 0..1 (all 16 arrangements), v concrete powers of two; leg limit and tail limit each in {1,1000}; unsorted input (inputDir 0); spill files = the engine's in-memory temp-file model
// verif:outside sorted input with early release (C10-O3/O6); other aggregates (their partials: C10-O1/O7); more than 2 legs; Op.run's goroutines; I/O errors of the spill (C18)
// verif:unwind 64
func VerifH_C08_O8_partials_through_spills() {
	zctx := zed.NewContext()
	inType := zctx.MustLookupTypeRecord([]zed.Field{zed.NewField("k1", zed.TypeInt64), zed.NewField("v", zed.TypeInt64)})
	legLimit := []int{1, 1000}[verif.Choose("leg-limit", 2)]
	tailLimit := []int{1, 1000}[verif.Choose("tail-limit", 2)]
	verif.ArbitraryMapOrder(true)
	var ks, vs []int64
	tail := v08gAggregator(zctx, tailLimit, true, false)
	ref := zbuf.NewArray(nil)
	spilled := false
	for leg := 0; leg < 2; leg++ {
		a := v08gAggregator(zctx, legLimit, false, true)
		for i := 0; i < 2; i++ {
			k := int64(verif.Choose("k"+string(rune('0'+leg))+string(rune('0'+i)), 2))
			v := int64(1) << uint(2*leg+i)
			ks, vs = append(ks, k), append(vs, v)
			body := zcode.Append(zcode.Append(nil, zed.EncodeInt(k)), zed.EncodeInt(v))
			err := a.Consume(ref, zed.NewValue(inType, body))
			verif.Assert(err == nil, "leg-no-error")
			if err != nil {
				return
			}
		}
		partials, ok := v08gDrain(a)
		verif.Assert(ok, "leg-no-error")
		if !ok {
			return
		}
		if a.spiller != nil {
			spilled = true
			verif.Reach("leg-spilled")
			a.spiller.Cleanup()
		}
		for _, p := range partials {
			err := tail.Consume(ref, p)
			verif.Assert(err == nil, "tail-no-error")
			if err != nil {
				return
			}
		}
	}
	rows, ok := v08gDrain(tail)
	verif.Assert(ok, "tail-no-error")
	if !ok {
		return
	}
	if tail.spiller != nil {
		spilled = true
		verif.Reach("tail-spilled")
		tail.spiller.Cleanup()
	}
	groups := 0
	for i := range ks {
		first := true
		for j := 0; j < i; j++ {
			if ks[j] == ks[i] {
				first = false
			}
		}
		if first {
			groups++
		}
	}
	verif.Assert(len(rows) == groups, "one-row-per-distinct-key")
	for i := range ks {
		size, total := uint64(0), int64(0)
		for j := range ks {
			if ks[j] == ks[i] {
				size++
				total += vs[j]
			}
		}
		found := 0
		for r := range rows {
			kv := rows[r].Deref("k1")
			if kv != nil && kv.Type() == zed.TypeInt64 && kv.Int() == ks[i] {
				found++
				cv := rows[r].Deref("count")
				verif.Assert(cv != nil && cv.Type() == zed.TypeUint64 && cv.Uint() == size, "count-is-group-size")
				av := rows[r].Deref("avg")
				verif.Assert(av != nil && av.Type() == zed.TypeFloat64, "avg-is-a-final-float64")
				if av != nil && av.Type() == zed.TypeFloat64 {
					verif.Assert(av.Float() == float64(total)/float64(size), "avg-is-group-mean")
				}
			}
		}
		verif.Assert(found == 1, "key-appears-once")
	}
	if spilled {
		verif.Reach("spilled")
	}
	verif.Reach("end")
}
