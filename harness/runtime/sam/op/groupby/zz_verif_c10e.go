//go:build verif

package groupby

// verif:needs .

import (
	"strconv"

	"github.com/brimdata/super"
	"github.com/brimdata/super/internal/verif"
	"github.com/brimdata/super/zbuf"
)

// vC10eRun: the key-types table of a real Aggregator ("count() by k1") already
// holds n type vectors when two inputs arrive.  The inputs' key types are picked
// among table entries 0, 1, n-1 and two types new to the table (which get the
// codes n and n+1 in order of arrival); all these types are records {x:int64}, so
// that one key body is a valid value of every one of them.
func vC10eRun(ns []int, bulk bool) {
	n := ns[verif.Choose("N", len(ns))]
	var keys []zed.Value
	a := vNewCountAggregator(1, &keys, 0)
	rec := func(name string) zed.Type {
		return a.zctx.MustLookupTypeRecord([]zed.Field{zed.NewField(name, zed.TypeInt64)})
	}
	// the candidates: table entries 0, 1, n-1 and two new types
	candIdx := []int{}
	for _, i := range []int{0, 1, n - 1} {
		if i >= 0 && i < n && (len(candIdx) == 0 || candIdx[len(candIdx)-1] != i) {
			candIdx = append(candIdx, i)
		}
	}
	fill := make([]zed.Type, n)
	for _, i := range candIdx {
		fill[i] = rec("f" + strconv.Itoa(i))
	}
	if bulk {
		// pre-state by struct literal (see VerifNewTypeVectorTable); the entries
		// that are not candidates are distinct record types outside the context
		vecs := make([][]zed.Type, n)
		for i := range fill {
			if fill[i] == nil {
				fill[i] = zed.NewTypeRecord(-1, []zed.Field{{Name: "f" + strconv.Itoa(i), Type: zed.TypeInt64}})
			}
			vecs[i] = []zed.Type{fill[i]}
		}
		a.keyTypes = zed.VerifNewTypeVectorTable(vecs)
	} else {
		// pre-state through the real API, one Lookup per new key type as
		// Consume does
		for i := range fill {
			if fill[i] == nil {
				fill[i] = rec("f" + strconv.Itoa(i))
			}
			code := a.keyTypes.Lookup([]zed.Type{fill[i]})
			verif.Assert(code == i, "codes-are-sequential")
		}
	}
	verif.Assert(a.keyTypes.Length() == n, "table-prepopulated")
	for _, i := range candIdx {
		verif.Assert(a.keyTypes.Lookup([]zed.Type{fill[i]}) == i, "table-prepopulated")
		ts := a.keyTypes.Types(i)
		verif.Assert(len(ts) == 1 && ts[0] == fill[i], "table-prepopulated")
	}
	verif.Assert(a.keyTypes.Length() == n, "table-prepopulated")
	cands := []zed.Type{}
	for _, i := range candIdx {
		cands = append(cands, fill[i])
	}
	ncands := len(cands)
	cands = append(cands, rec("g0"), rec("g1"))
	// two inputs: key type = a candidate, key body = {x: one-byte int64}
	const nin = 2
	which := make([]int, nin)
	bs := make([]byte, nin)
	for i := 0; i < nin; i++ {
		name := string(rune('a' + i))
		which[i] = verif.Choose(name+".type", len(cands))
		bs[i] = verif.Byte(name + ".b")
		verif.Assume(bs[i] >= 1 && bs[i] <= 127)
		keys = append(keys, zed.NewValue(cands[which[i]], []byte{2, bs[i]}))
	}
	ref := zbuf.NewArray(nil)
	for i := 0; i < nin; i++ {
		if err := a.Consume(ref, zed.NewInt64(int64(i))); err != nil {
			panic(err)
		}
	}
	// codes handed out: a new type gets the next code
	newSeen := 0
	for i := 0; i < nin; i++ {
		if which[i] >= ncands && (i == 0 || which[i] != which[0]) {
			newSeen++
		}
	}
	verif.Assert(a.keyTypes.Length() == n+newSeen, "new-key-type-gets-next-code")
	same := func(i, j int) bool { return which[i] == which[j] && bs[i] == bs[j] }
	groups := 1
	if !same(0, 1) {
		groups = 2
	}
	verif.Assert(len(a.table) == groups, "one-table-row-per-distinct-key")
	batch, err := a.readTable(true, false, ref)
	if err != nil {
		panic(err)
	}
	var rows []zed.Value
	if batch != nil {
		rows = batch.Values()
	}
	verif.Assert(len(rows) == groups, "one-output-row-per-distinct-key")
	for i := 0; i < nin; i++ {
		size := uint64(0)
		for j := 0; j < nin; j++ {
			if same(i, j) {
				size++
			}
		}
		found := 0
		for r := range rows {
			kv := rows[r].Deref("k1")
			if kv != nil && vSameVal(*kv, keys[i]) {
				found++
				cv := rows[r].Deref("count")
				verif.Assert(cv != nil && cv.Type() == zed.TypeUint64 && cv.Uint() == size, "count-is-group-size")
			}
		}
		verif.Assert(found == 1, "key-appears-once-in-output")
	}
	if which[0] != which[1] {
		if bs[0] == bs[1] {
			verif.Reach("same-bytes-different-types")
			if which[0] < ncands || which[1] < ncands {
				verif.Reach("same-bytes-old-and-new-type")
			}
		}
	} else if groups == 1 {
		verif.Reach("merged")
	}
	verif.Reach("end")
}

// verif:desc C10-O2c width of the key-type code in the group-by table key: groupby.Aggregator.Consume keys its table on (flattened key bytes ++ uvarint(code)), the code being the index TypeVectorTable.Lookup hands out sequentially for the vector of key types.  With N type vectors already in the REAL key-types table (N real Lookup calls) two inputs arrive whose key types are table entry 0, 1 or N-1 or one of two types new to the table (codes N, N+1): afterwards the table and readTable(flush) hold exactly one row per distinct (key type, key bytes), each input's key (type and bytes) appears in exactly one output row, and count() is the size of its group - in particular two inputs with IDENTICAL key bytes and different key types (codes 0 and 128, 0 and 256, 1 and 257, 127 and 128, 255 and 256 ...) are two groups of one, and equal type and bytes are one group of two.
// verif:bounds N in {0,127,128,255,256,257}; table entries and new types are records {f<i>:int64} / {g<j>:int64} of the aggregator's own zed.Context; 2 inputs, key type each one of up to 5 candidates (entries 0, 1, N-1, new g0, new g1: every pair), key body {x:v} with v one symbolic byte 1..127 per input; one key column; count() as the aggregate
// verif:outside tables of more than 259 entries (see keytype_codes_large); more than one key column; spills; more than two inputs
// verif:unwind 600
func VerifH_C10_O2c_keytype_codes() {
	vC10eRun([]int{0, 127, 128, 255, 256, 257}, false)
}

// verif:desc C10-O2c as keytype_codes at the next width boundary of the uvarint code (2 -> 3 bytes): N in {16383,16384}.  TypeVectorTable.Lookup is a linear scan, so the pre-state of N entries is built as a struct literal (zed.VerifNewTypeVectorTable, harness accessor) and checked with the real Length/Types/Lookup; the two Consume calls, their Lookups over the whole table and readTable are the real code.
// verif:bounds N in {16383,16384}; entries 0, 1, N-1 and the two new types are records of the aggregator's context, the other entries distinct record types {f<i>:int64} outside any context (they are never a key); inputs as keytype_codes
// verif:outside as keytype_codes; tables beyond 16386 entries
// verif:unwind 600
func VerifH_C10_O2c_keytype_codes_large() {
	vC10eRun([]int{16383, 16384}, true)
}
