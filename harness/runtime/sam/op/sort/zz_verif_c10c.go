//go:build verif

package sort

import (
	"github.com/brimdata/super"
	"github.com/brimdata/super/runtime/sam/expr"
	"github.com/brimdata/super/zbuf"
)

// Accessors for the plan obligations of package compiler/kernel
// (VerifH_C10_O4_join_plan).

// VerifParts returns what sort.New stored: the parent, the sort keys and the
// nullsFirst/reverse flags.
func VerifParts(o *Op) (parent zbuf.Puller, keys []expr.SortEvaluator, nullsFirst, reverse bool) {
	return o.parent, o.fieldResolvers, o.nullsFirst, o.reverse
}

// VerifComparator runs the real setComparator (what Op.run does on the first
// value r) and returns the comparator the operator sorts with.
func VerifComparator(o *Op, r zed.Value) *expr.Comparator {
	o.setComparator(r)
	return o.comparator
}
