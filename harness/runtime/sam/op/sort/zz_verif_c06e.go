//go:build verif

package sort

import (
	"context"

	"github.com/brimdata/super"
	"github.com/brimdata/super/internal/verif"
	"github.com/brimdata/super/order"
	"github.com/brimdata/super/pkg/field"
	"github.com/brimdata/super/runtime"
	"github.com/brimdata/super/runtime/sam/expr"
	"github.com/brimdata/super/zbuf"
	"github.com/brimdata/super/zcode"
)

// v06eParent delivers a fixed sequence of streams: each stream is a list of
// batches followed by end-of-stream (nil batch).
type v06eParent struct {
	streams [][][]zed.Value
	s, b    int
}

func (p *v06eParent) Pull(done bool) (zbuf.Batch, error) {
	if p.s >= len(p.streams) {
		return nil, nil
	}
	if p.b >= len(p.streams[p.s]) {
		p.s++
		p.b = 0
		return nil, nil
	}
	vals := p.streams[p.s][p.b]
	p.b++
	return zbuf.NewArray(vals), nil
}

func v06eRec(zctx *zed.Context, null bool, x byte) zed.Value {
	var body zcode.Bytes
	if !null {
		body = zcode.Bytes{x}
	}
	var b zcode.Builder
	b.Append(body)
	rt := zctx.MustLookupTypeRecord([]zed.Field{zed.NewField("k", zed.TypeInt64)})
	return zed.NewValue(rt, b.Bytes())
}

// verif:desc C06-O7 the sort OPERATOR executed end to end (sort.Op.Pull/run/send/sendResult/setComparator under cooperative goroutines): an operator instance that is restarted across end-of-stream cycles (as inside `over ... => (sort ...)`) sorts EVERY stream the same way: each stream's output is a permutation of its input, non-decreasing under the requested order (desc / -r / nulls first applied identically to the first and to the later streams), equal keys in input order.
// verif:bounds 2 streams of 2 values each, in one or two batches; first stream the concrete keys 2,1; later stream: key int64 with a non-zero one-byte body (-127..127 and MinInt64 in the counted-varint encoding) or null; order asc/desc, Reverse and NullsFirst symbolic (Choose); in memory (MemMaxBytes default)
// verif:outside spilled sorts (C06-O6 covers the merge of spilled runs), guessed sort keys, more than two streams; one deterministic goroutine schedule
func VerifH_C06_O7_sort_op_streams() { v06eSortOp(0) }

// verif:desc C06-O7s the sort operator restarted across end-of-stream cycles, same run and same assertions as VerifH_C06_O7_sort_op_streams, under EVERY goroutine schedule with at most 2 preemptions (thorough tier: 3) at the channel operations, selects, closes, lock/once/WaitGroup operations and the goroutine start of the real Op.Pull/run/sendResult code, with a bounded free choice of which runnable goroutine continues: each stream's output (permutation of its input, sorted as requested with the same rule for the first and the later stream, stable) does not depend on how the operator's goroutine and the consumer interleave
// verif:bounds 2 streams of 2 values each, each in one batch or in one batch per value (Choose); first stream the concrete keys 2,1; later stream concrete: the keys 3,1 / null,5 / the equal keys 4,4 (Choose); order asc/desc, NullsFirst, Reverse: all 8 combinations; preemption bound 2 (thorough: 3) - two goroutines only (the operator's and the consumer)
// verif:outside as VerifH_C06_O7_sort_op_streams except that schedules are explored up to the bound; symbolic keys (VerifH_C06_O7_sort_op_streams); field loads/stores are not preemption points (data-race freedom between sync points is assumed)
func VerifH_C06_O7s_sort_op_schedules() {
	// (two goroutines only - the operator's and the consumer - so a schedule
	// has few decisions: the bounds are one higher than for the fan-in operators)
	if verif.Thorough() {
		v06eSortOp(3)
	} else {
		v06eSortOp(2)
	}
}

// v06eSched: concrete second streams for the schedule variant {null, body byte}
var v06eSched = [][2][2]byte{
	{{0, 6}, {0, 2}},  // 3, 1
	{{1, 0}, {0, 10}}, // null, 5
	{{0, 8}, {0, 8}},  // 4, 4
}

// (desc, nullsFirst, reverse) of the schedule variant
var v06eSchedCfg = [][3]bool{
	{false, false, false}, {true, true, false}, {false, false, true}, {true, false, true},
	{true, false, false}, {false, true, false}, {false, true, true}, {true, true, true},
}

func v06eSortOp(sched int) {
	var desc, reverse, nullsFirst bool
	data := 0
	if sched > 0 {
		// schedules are the quantifier: concrete keys, fewer configurations
		verif.Schedules(sched)
		verif.Races(true)
		c := v06eSchedCfg[verif.Choose("cfg", len(v06eSchedCfg))]
		desc, nullsFirst, reverse = c[0], c[1], c[2]
		data = verif.Choose("data", len(v06eSched))
	} else {
		verif.Goroutines(true)
		desc = verif.Choose("desc", 2) == 1
		reverse = verif.Choose("reverse", 2) == 1
		nullsFirst = verif.Choose("nullsfirst", 2) == 1
	}
	zctx := zed.NewContext()
	nmk := 0
	mk := func(name string) (zed.Value, bool, int64) {
		if sched > 0 {
			c := v06eSched[data][nmk]
			nmk++
			null, x := c[0] == 1, c[1]
			if null {
				x = 2
			}
			return v06eRec(zctx, null, x), null, zed.DecodeInt(zcode.Bytes{x})
		}
		null := verif.Bool(name + ".null")
		x := verif.Byte(name)
		verif.Assume(x != 0)
		return v06eRec(zctx, null, x), null, zed.DecodeInt(zcode.Bytes{x})
	}
	type in struct {
		v    zed.Value
		null bool
		k    int64
	}
	var streams [][][]zed.Value
	var inputs [][]in
	for s := 0; s < 2; s++ {
		var a, b zed.Value
		var an, bn bool
		var ak, bk int64
		if s == 0 {
			// first stream: the concrete keys 2, 1 (it fixes the comparator);
			// the symbolic keys and nulls are in the later stream
			a, ak = v06eRec(zctx, false, 4), 2
			b, bk = v06eRec(zctx, false, 2), 1
		} else {
			a, an, ak = mk("a")
			b, bn, bk = mk("b")
		}
		inputs = append(inputs, []in{{a, an, ak}, {b, bn, bk}})
		if verif.Choose("batches", 2) == 0 {
			streams = append(streams, [][]zed.Value{{a, b}})
		} else {
			streams = append(streams, [][]zed.Value{{a}, {b}})
		}
	}
	rctx := runtime.NewContext(context.Background(), zctx)
	keyEval := expr.NewDottedExpr(zctx, field.Path{"k"})
	o := order.Which(desc)
	op := New(rctx, &v06eParent{streams: streams}, []expr.SortEvaluator{expr.NewSortEvaluator(keyEval, o)}, nullsFirst, reverse, expr.Resetters{})
	effDesc := desc != reverse
	for s := 0; s < 2; s++ {
		var got []zed.Value
		for {
			batch, err := op.Pull(false)
			verif.Assert(err == nil, "pull-no-error")
			if batch == nil {
				break
			}
			got = append(got, batch.Values()...)
		}
		verif.Assert(len(got) == 2, "stream-length-preserved")
		if len(got) != 2 {
			return
		}
		// decode keys of the output
		key := func(v zed.Value) (bool, int64) {
			kv := v.DerefByColumn(0)
			if kv == nil || kv.IsNull() {
				return true, 0
			}
			return false, zed.DecodeInt(kv.Bytes())
		}
		n0, k0 := key(got[0])
		n1, k1 := key(got[1])
		ia, ib := inputs[s][0], inputs[s][1]
		same := n0 == ia.null && (n0 || k0 == ia.k) && n1 == ib.null && (n1 || k1 == ib.k)
		swapped := n0 == ib.null && (n0 || k0 == ib.k) && n1 == ia.null && (n1 || k1 == ia.k)
		verif.Assert(same || swapped, "stream-is-a-permutation-of-its-input")
		// ordered as requested; the same rule for every stream
		ordered := true
		switch {
		case n0 && n1:
		case n0:
			ordered = nullsFirst
		case n1:
			ordered = !nullsFirst
		case effDesc:
			ordered = k0 >= k1
		default:
			ordered = k0 <= k1
		}
		if s == 0 {
			verif.Assert(ordered, "first-stream-sorted-as-requested")
		} else {
			verif.Assert(ordered, "later-stream-sorted-as-requested")
		}
		// stability: equal keys keep input order
		if !n0 && !n1 && k0 == k1 || n0 && n1 {
			verif.Assert(same, "equal-keys-keep-input-order")
		}
	}
	verif.Reach("end")
}
