//go:build verif

package meta

import (
	"github.com/brimdata/super"
	"github.com/brimdata/super/internal/verif"
	"github.com/brimdata/super/lake/data"
	"github.com/brimdata/super/order"
	"github.com/brimdata/super/zbuf"
	"github.com/brimdata/super/zson"
	"github.com/segmentio/ksuid"
)

// ---------------------------------------------------------------------------
// C08: the sequential data-structure steps under a parallel pool scan.
// Keys are int64 or null (nulls are the largest key, as everywhere in lake
// metadata).  The SPEC side (v08Cmp) is plain Go on (null,int64) pairs and
// does not use the repo's comparator.
// ---------------------------------------------------------------------------

type v08Key struct {
	null bool
	v    int64
}

func (k v08Key) val() zed.Value {
	if k.null {
		return zed.NullInt64
	}
	return zed.NewInt64(k.v)
}

func v08KeyOf(v zed.Value) v08Key {
	if v.IsNull() {
		return v08Key{null: true}
	}
	return v08Key{v: v.Int()}
}

// v08Cmp: ascending order of keys with nulls last (spec).
func v08Cmp(a, b v08Key) int {
	return verif.MergeInt(func() int {
		switch {
		case a.null && b.null:
			return 0
		case a.null:
			return 1
		case b.null:
			return -1
		case a.v < b.v:
			return -1
		case a.v > b.v:
			return 1
		}
		return 0
	})
}

type v08Obj struct {
	o        *data.Object
	min, max v08Key
}

// v08NewObj: an object with symbolic key range min<=max.  class 0: both
// int64, 1: max null, 2: both null; nclasses (1..3) is how many of them are offered.
func v08NewObj(name string, id byte, nclasses int, small bool) v08Obj {
	cls := 0
	if nclasses > 1 {
		cls = verif.Choose(name+".class", nclasses)
	}
	var lo, hi int64
	if small {
		lo, hi = int64(verif.Range(name+".min", -2, 2)), int64(verif.Range(name+".max", -2, 2))
	} else {
		lo, hi = verif.Int64(name+".min"), verif.Int64(name+".max")
	}
	x := v08Obj{min: v08Key{null: cls == 2, v: lo}, max: v08Key{null: cls >= 1, v: hi}}
	verif.Assume(v08Cmp(x.min, x.max) <= 0)
	x.o = &data.Object{ID: ksuid.KSUID{id}, Min: x.min.val(), Max: x.max.val(), Count: 1, Size: 1}
	return x
}

func v08Decode(b zbuf.Batch) (Partition, bool) {
	var p Partition
	vals := b.Values()
	verif.Assert(len(vals) == 1, "partition-batch-has-one-value")
	if len(vals) != 1 {
		return p, false
	}
	err := zson.NewZNGUnmarshaler().Unmarshal(vals[0], &p)
	verif.Assert(err == nil, "partition-decodes")
	return p, err == nil
}

// v08CheckPartition: p holds exactly the objects want (same ids, same order)
// and its Min/Max are their hull.
func v08CheckPartition(p Partition, want []v08Obj) {
	verif.Assert(len(p.Objects) == len(want), "partition-holds-exactly-the-accumulated-objects")
	if len(p.Objects) != len(want) {
		return
	}
	pmin, pmax := v08KeyOf(p.Min), v08KeyOf(p.Max)
	minHit, maxHit := false, false
	for i, w := range want {
		verif.Assert(p.Objects[i] != nil && p.Objects[i].ID == w.o.ID, "partition-holds-exactly-the-accumulated-objects")
		verif.Assert(v08Cmp(pmin, w.min) <= 0, "partition-min-is-the-hull")
		verif.Assert(v08Cmp(pmax, w.max) >= 0, "partition-max-is-the-hull")
		minHit = verif.MergeBool(func() bool { return minHit || v08Cmp(pmin, w.min) == 0 })
		maxHit = verif.MergeBool(func() bool { return maxHit || v08Cmp(pmax, w.max) == 0 })
	}
	verif.Assert(minHit, "partition-min-is-the-hull")
	verif.Assert(maxHit, "partition-max-is-the-hull")
}

func v08Disjoint(p Partition, x v08Obj) bool {
	pmin, pmax := v08KeyOf(p.Min), v08KeyOf(p.Max)
	return verif.MergeBool(func() bool { return v08Cmp(x.max, pmin) < 0 || v08Cmp(x.min, pmax) > 0 })
}

func v08SameObjects(got []*data.Object, want []v08Obj) bool {
	if len(got) != len(want) {
		return false
	}
	for i := range want {
		if got[i] != want[i].o {
			return false
		}
	}
	return true
}

// v08HullInvariant: s.min/s.max are the hull of s.objects (checked by value).
func v08HullInvariant(s *Slicer, objs []v08Obj, id string) {
	if len(objs) == 0 {
		return
	}
	verif.Assert(s.min != nil && s.max != nil, id)
	if s.min == nil || s.max == nil {
		return
	}
	smin, smax := v08KeyOf(*s.min), v08KeyOf(*s.max)
	minHit, maxHit := false, false
	for _, w := range objs {
		verif.Assert(v08Cmp(smin, w.min) <= 0, id)
		verif.Assert(v08Cmp(smax, w.max) >= 0, id)
		minHit = verif.MergeBool(func() bool { return minHit || v08Cmp(smin, w.min) == 0 })
		maxHit = verif.MergeBool(func() bool { return maxHit || v08Cmp(smax, w.max) == 0 })
	}
	verif.Assert(minHit && maxHit, id)
}

func v08SlicerStep(nclasses int, maxAcc int) {
	desc := verif.Choose("order", 2) == 1
	n := verif.Choose("accumulated", maxAcc+1)
	s := NewSlicer(nil, zed.NewContext())
	verif.Assert(len(s.objects) == 0 && s.min == nil && s.max == nil, "constructor-establishes-invariant")
	// the stream of objects: acc[0..n), then o, then a later object o2, in
	// lister order (asc: Min non-decreasing; desc: Max non-increasing)
	var acc []v08Obj
	for i := 0; i < n; i++ {
		acc = append(acc, v08NewObj("acc"+string(rune('0'+i)), byte(1+i), nclasses, false))
	}
	o := v08NewObj("o", 10, nclasses, false)
	o2 := v08NewObj("later", 11, nclasses, false)
	stream := append(append([]v08Obj{}, acc...), o, o2)
	for i := 0; i+1 < len(stream); i++ {
		if desc {
			verif.Assume(v08Cmp(stream[i].max, stream[i+1].max) >= 0)
		} else {
			verif.Assume(v08Cmp(stream[i].min, stream[i+1].min) <= 0)
		}
	}
	// arbitrary state satisfying the invariant: accumulated objects + their hull
	if n > 0 {
		hmin, hmax := acc[0].min, acc[0].max
		for _, a := range acc[1:] {
			if v08Cmp(a.min, hmin) < 0 {
				hmin = a.min
			}
			if v08Cmp(a.max, hmax) > 0 {
				hmax = a.max
			}
		}
		for _, a := range acc {
			s.objects = append(s.objects, a.o)
		}
		s.min, s.max = hmin.val().Ptr(), hmax.val().Ptr()
	}

	batch, err := s.stash(o.o)
	verif.Assert(err == nil, "stash-no-error")
	if err != nil {
		return
	}
	var rest []v08Obj
	if batch != nil {
		verif.Assert(n > 0, "no-empty-partition")
		p, ok := v08Decode(batch)
		if !ok {
			return
		}
		v08CheckPartition(p, acc)
		verif.Assert(v08Disjoint(p, o), "emitted-partition-disjoint-from-the-new-object")
		verif.Assert(v08Disjoint(p, o2), "emitted-partition-disjoint-from-later-objects")
		rest = []v08Obj{o}
		verif.Reach("partition-emitted")
	} else {
		rest = append(append([]v08Obj{}, acc...), o)
		verif.Reach("object-accumulated")
	}
	verif.Assert(v08SameObjects(s.objects, rest), "every-object-in-exactly-one-partition")
	v08HullInvariant(s, rest, "step-preserves-hull-invariant")

	// end of stream: the remaining objects come out as one last partition
	last, err := s.nextPartition()
	verif.Assert(err == nil && last != nil, "flush-emits-the-rest")
	if err != nil || last == nil {
		return
	}
	if p, ok := v08Decode(last); ok {
		v08CheckPartition(p, rest)
	}
	verif.Assert(len(s.objects) == 0, "flush-leaves-nothing-behind")
	again, err := s.nextPartition()
	verif.Assert(err == nil && again == nil, "nothing-emitted-twice")
	verif.Reach("end")
}

// verif:desc C08-O1 inductive step of meta.Slicer: from the constructor state or an arbitrary state satisfying the invariant (0..2 accumulated objects, s.min/s.max = their hull), stash() of the next object in lister order (asc: Min non-decreasing, desc: Max non-increasing) either accumulates it or emits a partition that (a) holds exactly the accumulated objects, (b) has Min/Max equal to their hull (real nextPartition), (c) is disjoint from the new object's key range and from any later object's range; no object is lost or duplicated; the hull invariant is preserved; at end of stream nextPartition emits the rest exactly once.
// verif:bounds int64 keys (any values) with min<=max per object; 0,1 or 2 accumulated objects + new object + one later object; asc and desc
// verif:outside null keys (see _nulls); more than 2 accumulated objects (covered inductively through the hull only); the zson marshalling of the partition (identity stub in the engine, real in replay); goroutine schedules of the legs pulling from the slicer
func VerifH_C08_O1_slicer_step() {
	v08SlicerStep(1, 2)
}

// verif:desc C08-O1 (null keys) the same step with objects whose Max or Min+Max may be null (nulls are the largest key).
// verif:bounds as slicer_step with 0..1 accumulated objects and 3 null classes per object
func VerifH_C08_O1_slicer_step_nulls() {
	v08SlicerStep(3, 1)
}

// ---- O2: lister order ----

// v08Before: spec of the lister order: (from,to) lexicographic, from=Min,to=Max
// ascending for asc pools; from=Max,to=Min descending for desc pools; nulls are
// the largest key in both.
func v08Before(a, b v08Obj, desc bool) int {
	if desc {
		if c := v08Cmp(b.max, a.max); c != 0 {
			return c
		}
		return v08Cmp(b.min, a.min)
	}
	if c := v08Cmp(a.min, b.min); c != 0 {
		return c
	}
	return v08Cmp(a.max, b.max)
}

func v08SortObjects(nobj int, nclasses int, small bool) {
	desc := verif.Choose("order", 2) == 1
	o := order.Asc
	if desc {
		o = order.Desc
	}
	var in []v08Obj
	var objs []*data.Object
	for i := 0; i < nobj; i++ {
		x := v08NewObj("obj"+string(rune('0'+i)), byte(1+i), nclasses, small)
		in = append(in, x)
		objs = append(objs, x.o)
	}
	sortObjects(objs, o)
	// permutation
	pos := make([]int, nobj) // pos[k] = input index of output k
	for k, p := range objs {
		pos[k] = -1
		for i := range in {
			if in[i].o == p {
				pos[k] = i
			}
		}
		verif.Assert(pos[k] >= 0, "sorted-is-a-permutation")
		if pos[k] < 0 {
			return
		}
		for j := 0; j < k; j++ {
			verif.Assert(pos[j] != pos[k], "sorted-is-a-permutation")
		}
	}
	// int64 0 and null both have an empty encoding; sortObjects tests
	// equality of keys on their bytes: separate id for that region
	zeroVsNull := false
	for i := range in {
		for j := range in {
			a, b := in[i], in[j]
			zeroVsNull = verif.MergeBool(func() bool {
				z := func(x, y v08Key) bool { return x.null && !y.null && y.v == 0 }
				return zeroVsNull || z(a.min, b.min) || z(a.max, b.max)
			})
		}
	}
	// what the slicer relies on
	for k := 0; k+1 < nobj; k++ {
		a, b := in[pos[k]], in[pos[k+1]]
		var ok bool
		if desc {
			ok = v08Cmp(a.max, b.max) >= 0
		} else {
			ok = v08Cmp(a.min, b.min) <= 0
		}
		if zeroVsNull {
			verif.Assert(ok, "slicer-precondition/int-zero-vs-null-key")
		} else {
			verif.Assert(ok, "slicer-precondition")
		}
	}
	for k := 0; k+1 < nobj; k++ {
		for l := k + 1; l < nobj; l++ {
			c := v08Before(in[pos[k]], in[pos[l]], desc)
			if zeroVsNull {
				verif.Assert(c <= 0, "listed-in-from-to-order/int-zero-vs-null-key")
			} else {
				verif.Assert(c <= 0, "listed-in-from-to-order")
			}
			if c == 0 {
				// equal key ranges keep commit (input) order
				verif.Assert(pos[k] < pos[l], "equal-ranges-keep-input-order")
				verif.Reach("tie")
			}
		}
	}
	verif.Reach("end")
}

// verif:desc C08-O2 meta.sortObjects (the lister's order; real less-function driven through sort.SliceStable) on 3 objects: the result is a permutation listed in (from,to) lexicographic order (asc: Min then Max ascending; desc: Max then Min descending; nulls largest), objects with equal ranges keep their input (commit) order, and the primary key is monotone — the precondition VerifH_C08_O1 assumes.
// verif:bounds 3 objects, keys int64 in [-2,2] (encodings of 0 and 1 bytes, so equal / smaller / larger and the empty encoding of 0 are all reachable) with min<=max; asc and desc
// verif:outside keys of other types or mixed types (the function compares bytes); more than 3 objects; sort.SliceStable itself is the engine's stable insertion sort (the native replay runs the real one)
func VerifH_C08_O2_lister_order3() {
	v08SortObjects(3, 1, true)
}

// verif:desc C08-O2 (nulls) the same on 2 objects whose Max or Min+Max may be null; id .../int-zero-vs-null-key is the region where one key is int64 0 and the compared key is null (both have an empty byte encoding).
// verif:bounds 2 objects, 3 null classes each, int64 keys in [-2,2]; asc and desc
func VerifH_C08_O2_lister_order_nulls() {
	v08SortObjects(2, 3, true)
}

// verif:desc C08-O2 (full range) the same on 2 objects with arbitrary int64 keys (all encoding lengths).
// verif:bounds 2 objects, any int64 keys with min<=max; asc and desc
// verif:tier thorough
func VerifH_C08_O2_lister_order_fullrange() {
	v08SortObjects(2, 1, false)
}

// ---- O1+O2 composed: lister order, then the slicer over the whole stream ----

func v08ListThenSlice(nobj int, nclasses int) {
	desc := verif.Choose("order", 2) == 1
	o := order.Asc
	if desc {
		o = order.Desc
	}
	var in []v08Obj
	var objs []*data.Object
	for i := 0; i < nobj; i++ {
		x := v08NewObj("obj"+string(rune('0'+i)), byte(1+i), nclasses, true)
		in = append(in, x)
		objs = append(objs, x.o)
	}
	sortObjects(objs, o)
	s := NewSlicer(nil, zed.NewContext())
	var parts []Partition
	for _, obj := range objs {
		batch, err := s.stash(obj)
		verif.Assert(err == nil, "stash-no-error")
		if batch != nil {
			if p, ok := v08Decode(batch); ok {
				parts = append(parts, p)
			}
		}
	}
	last, err := s.nextPartition()
	verif.Assert(err == nil && last != nil, "flush-emits-the-rest")
	if last != nil {
		if p, ok := v08Decode(last); ok {
			parts = append(parts, p)
		}
	}
	// every object in exactly one partition
	seen := make([]int, nobj)
	for _, p := range parts {
		verif.Assert(len(p.Objects) > 0, "no-empty-partition")
		for _, po := range p.Objects {
			for i := range in {
				if po.ID == in[i].o.ID {
					seen[i]++
					// the partition's span covers the object
					verif.Assert(v08Cmp(v08KeyOf(p.Min), in[i].min) <= 0 && v08Cmp(v08KeyOf(p.Max), in[i].max) >= 0, "partition-span-covers-its-objects")
				}
			}
		}
	}
	for i := range seen {
		verif.Assert(seen[i] == 1, "every-object-in-exactly-one-partition")
	}
	// partitions come out in pool order: every key of an earlier partition is
	// before-or-equal every key of a later one (what makes the concatenation
	// of the partitions' merged scans sorted), and - as stash() promises - they
	// do not even touch
	zeroVsNull := false
	for i := range in {
		for j := range in {
			a, b := in[i], in[j]
			zeroVsNull = verif.MergeBool(func() bool {
				z := func(x, y v08Key) bool { return x.null && !y.null && y.v == 0 }
				return zeroVsNull || z(a.min, b.min) || z(a.max, b.max)
			})
		}
	}
	for i := 0; i+1 < len(parts); i++ {
		for j := i + 1; j < len(parts); j++ {
			pi, pj := parts[i], parts[j]
			c := verif.MergeInt(func() int {
				if desc {
					return v08Cmp(v08KeyOf(pj.Max), v08KeyOf(pi.Min))
				}
				return v08Cmp(v08KeyOf(pi.Max), v08KeyOf(pj.Min))
			})
			if zeroVsNull {
				verif.Assert(c <= 0, "partitions-in-pool-order/int-zero-vs-null-key")
				verif.Assert(c < 0, "partitions-do-not-touch/int-zero-vs-null-key")
			} else {
				verif.Assert(c <= 0, "partitions-in-pool-order")
				verif.Assert(c < 0, "partitions-do-not-touch")
			}
		}
	}
	if len(parts) > 1 {
		verif.Reach("several-partitions")
	} else {
		verif.Reach("one-partition")
	}
	verif.Reach("end")
}

// verif:desc C08-O1+O2 composed: the real meta.sortObjects order followed by the real meta.Slicer (stash for each object, nextPartition at end of stream) over a whole stream of 3 objects: every object lands in exactly one partition, each partition's span covers its objects, and the partitions come out in pool order without overlapping each other.
// verif:bounds 3 objects, int64 keys in [-2,2] with min<=max; asc and desc
// verif:outside null keys (see _nulls); longer streams (covered by the inductive step VerifH_C08_O1_slicer_step under the order VerifH_C08_O2 establishes)
func VerifH_C08_O1O2_list_then_slice() {
	v08ListThenSlice(3, 1)
}

// verif:desc C08-O1+O2 composed, objects whose Max or Min+Max may be null; id .../int-zero-vs-null-key is the region where one object key is int64 0 and another object's compared key is null (sortObjects tests key equality on bytes and both encode to nothing).
// verif:bounds 3 objects, 3 null classes each, int64 keys in [-2,2]; asc and desc
// verif:tier thorough
func VerifH_C08_O1O2_list_then_slice_nulls() {
	v08ListThenSlice(3, 3)
}
