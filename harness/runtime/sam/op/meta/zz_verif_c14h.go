//go:build verif

package meta

// C14-O11: the lake scan path that merges the overlapping data objects of a
// partition, EXECUTED: the objects are written by the real data.Writer
// (Object.NewWriter -> zngio.Writer / seekindex.Writer) into a model storage
// engine, the pool handle is the real lake.CreatePool + lake.OpenPool over the
// same storage, and the real newObjectsScanner (data.LookupSeekRange,
// Object.NewReader, zngio scanner, statScanner, merge.New with
// lake.ImportComparator) is pulled until end of stream under cooperative
// goroutines.

import (
	"bytes"
	"context"
	"fmt"
	"io"
	"io/fs"
	"strings"
	"sync/atomic"

	zed "github.com/brimdata/super"
	"github.com/brimdata/super/internal/verif"
	"github.com/brimdata/super/lake"
	"github.com/brimdata/super/lake/data"
	"github.com/brimdata/super/lake/pools"
	"github.com/brimdata/super/order"
	"github.com/brimdata/super/pkg/field"
	"github.com/brimdata/super/pkg/storage"
	"github.com/brimdata/super/zbuf"
	"github.com/brimdata/super/zcode"
	"go.uber.org/zap"
)

// ---------------------------------------------------------------------------
// model storage: path -> bytes, a Put becomes visible at Close (object store)

type v14hEngine struct {
	files  map[string][]byte
	opened int   // readers handed out by Get (by the consumer's goroutine)
	closed int32 // readers closed (by the merge's puller goroutines: atomic)
}

var _ storage.Engine = (*v14hEngine)(nil)

type v14hReader struct {
	*bytes.Reader
	e      *v14hEngine
	closed bool
}

func (r *v14hReader) Close() error {
	if !r.closed {
		r.closed = true
		atomic.AddInt32(&r.e.closed, 1)
	}
	return nil
}

func (e *v14hEngine) Get(_ context.Context, u *storage.URI) (storage.Reader, error) {
	b, ok := e.files[u.Path]
	if !ok {
		return nil, fmt.Errorf("%s: %w", u.Path, fs.ErrNotExist)
	}
	e.opened++
	return &v14hReader{Reader: bytes.NewReader(b), e: e}, nil
}

type v14hWriter struct {
	e    *v14hEngine
	path string
	buf  []byte
}

func (w *v14hWriter) Write(p []byte) (int, error) {
	w.buf = append(w.buf, p...)
	return len(p), nil
}

func (w *v14hWriter) Close() error {
	w.e.files[w.path] = w.buf
	return nil
}

func (e *v14hEngine) Put(_ context.Context, u *storage.URI) (io.WriteCloser, error) {
	return &v14hWriter{e: e, path: u.Path}, nil
}

func (e *v14hEngine) PutIfNotExists(_ context.Context, u *storage.URI, b []byte) error {
	if _, ok := e.files[u.Path]; ok {
		return fs.ErrExist
	}
	e.files[u.Path] = append([]byte(nil), b...)
	return nil
}

func (e *v14hEngine) Delete(_ context.Context, u *storage.URI) error {
	if _, ok := e.files[u.Path]; !ok {
		return fmt.Errorf("%s: %w", u.Path, fs.ErrNotExist)
	}
	delete(e.files, u.Path)
	return nil
}

func (e *v14hEngine) DeleteByPrefix(_ context.Context, u *storage.URI) error {
	for k := range e.files {
		if strings.HasPrefix(k, u.Path) {
			delete(e.files, k)
		}
	}
	return nil
}

func (e *v14hEngine) Exists(_ context.Context, u *storage.URI) (bool, error) {
	_, ok := e.files[u.Path]
	return ok, nil
}

func (e *v14hEngine) Size(_ context.Context, u *storage.URI) (int64, error) {
	b, ok := e.files[u.Path]
	if !ok {
		return 0, fmt.Errorf("%s: %w", u.Path, fs.ErrNotExist)
	}
	return int64(len(b)), nil
}

func (e *v14hEngine) List(_ context.Context, u *storage.URI) ([]storage.Info, error) {
	var infos []storage.Info
	prefix := u.Path + "/"
	for k, b := range e.files {
		if strings.HasPrefix(k, prefix) && !strings.Contains(k[len(prefix):], "/") {
			infos = append(infos, storage.Info{Name: k[len(prefix):], Size: int64(len(b))})
		}
	}
	return infos, nil
}

// ---------------------------------------------------------------------------
// values

// v14hVal is the specification-side view of one loaded value: its pool key
// (null covers a null key and a record without the key field) and a tag that
// identifies it.
type v14hVal struct {
	null bool
	k    int64
	tag  byte
}

const (
	v14hInt     = iota // {k:K,t:T}
	v14hNull           // {k:null(int64),t:T}
	v14hMissing        // {t:T}
)

func v14hRec(zctx *zed.Context, kind int, x, tag byte) zed.Value {
	var b zcode.Builder
	fields := []zed.Field{zed.NewField("k", zed.TypeInt64), zed.NewField("t", zed.TypeInt64)}
	switch kind {
	case v14hInt:
		b.Append(zcode.Bytes{x})
	case v14hNull:
		b.Append(nil)
	case v14hMissing:
		fields = fields[1:]
	}
	b.Append(zcode.Bytes{tag})
	return zed.NewValue(zctx.MustLookupTypeRecord(fields), b.Bytes())
}

// v14hDecode reads a scanned value back into the specification-side view.
func v14hDecode(v zed.Value) (v14hVal, bool) {
	var o v14hVal
	rt := zed.TypeRecordOf(v.Type())
	if rt == nil {
		return o, false
	}
	it := v.Bytes().Iter()
	switch len(rt.Fields) {
	case 2:
		if it.Done() {
			return o, false
		}
		kb := it.Next()
		if kb == nil {
			o.null = true
		} else {
			if len(kb) != 1 {
				return o, false
			}
			o.k = zed.DecodeInt(kb)
		}
	case 1:
		o.null = true
	default:
		return o, false
	}
	if it.Done() {
		return o, false
	}
	tb := it.Next()
	if len(tb) != 1 || !it.Done() {
		return o, false
	}
	o.tag = tb[0]
	return o, true
}

// v14hBefore reports whether a value with key a may precede a value with key
// b in a scan of a pool of the given order: ascending keys with null/missing
// as the largest key, or the reverse of that for a descending pool.
func v14hBefore(a, b v14hVal, desc bool) bool {
	if desc {
		a, b = b, a
	}
	// a <= b, null largest
	if b.null {
		return true
	}
	if a.null {
		return false
	}
	return a.k <= b.k
}

// v14hSymObject makes the n values of one object in the order the loader
// writes them (sorted by the import comparator: pool-key order, null/missing
// largest, i.e. FIRST in a descending pool and last in an ascending one; ties
// by value bytes in the pool's direction, which the tags follow).  At most one
// value has a null or missing key (Choose); the other keys are symbolic ints
// in 1..kmax.
func v14hSymObject(zctx *zed.Context, name string, n, kmax int, base byte, desc bool) ([]v14hVal, []zed.Value) {
	nullKind := verif.Choose(name+".nullkind", 3) // 0 none, 1 null key, 2 key field missing
	nullAt := -1
	if nullKind != 0 {
		nullAt = n - 1
		if desc {
			nullAt = 0
		}
	}
	spec := make([]v14hVal, n)
	vals := make([]zed.Value, n)
	prev := -1
	for i := 0; i < n; i++ {
		tag := base + byte(i)
		if desc {
			tag = base + byte(n-1-i)
		}
		if i == nullAt {
			spec[i] = v14hVal{null: true, tag: tag}
			vals[i] = v14hRec(zctx, nullKind, 0, tag)
			continue
		}
		// a one-byte ZNG int body 2k encodes k (zigzag), k in 1..kmax
		x := verif.Byte(name + ".k" + string(rune('0'+i)))
		verif.Assume(x&1 == 0)
		verif.Assume(x >= 2)
		verif.Assume(int(x) <= 2*kmax)
		spec[i] = v14hVal{k: int64(x >> 1), tag: tag}
		vals[i] = v14hRec(zctx, v14hInt, x, tag)
		if prev >= 0 {
			if desc {
				verif.Assume(spec[prev].k >= spec[i].k)
			} else {
				verif.Assume(spec[prev].k <= spec[i].k)
			}
		}
		prev = i
	}
	return spec, vals
}

// v14hSetup creates the model storage and a real pool handle on it.
func v14hSetup(ctx context.Context, desc bool) (*v14hEngine, *lake.Pool, order.SortKey, bool) {
	return v14hSetupStride(ctx, desc, 0)
}

// v14hSetupStride: seekStride 0 is the default (an object of a few values is
// one ZNG frame); 1 makes data.Writer end the stream after every value with a
// non-null key, so an object is a sequence of frames and the scanner delivers
// it as several batches whose buffers are recycled.
func v14hSetupStride(ctx context.Context, desc bool, seekStride int) (*v14hEngine, *lake.Pool, order.SortKey, bool) {
	eng := &v14hEngine{files: map[string][]byte{}}
	sortKey := order.NewSortKey(order.Which(desc), field.Path{"k"})
	root := &storage.URI{Scheme: "file", Path: "/lake"}
	config := pools.NewConfig("p", order.SortKeys{sortKey}, 0, seekStride)
	if err := lake.CreatePool(ctx, eng, zap.NewNop(), root, config); err != nil {
		verif.Assert(false, "setup-create-pool")
		return nil, nil, sortKey, false
	}
	pool, err := lake.OpenPool(ctx, eng, zap.NewNop(), root, config)
	if err != nil {
		verif.Assert(false, "setup-open-pool")
		return nil, nil, sortKey, false
	}
	// only the readers of the scan are counted
	eng.opened, eng.closed = 0, 0
	return eng, pool, sortKey, true
}

// v14hWriteObject writes vals with the real data.Writer as a load does
// (lake.Writer.writeObject: NewObject, NewWriter, Write per value, Close).
func v14hWriteObject(ctx context.Context, pool *lake.Pool, sortKey order.SortKey, vals []zed.Value) (*data.Object, bool) {
	o := data.NewObject()
	w, err := o.NewWriter(ctx, pool.Storage(), pool.DataPath, sortKey, pool.SeekStride)
	if err != nil {
		verif.Assert(false, "write-object-no-error")
		return nil, false
	}
	for _, v := range vals {
		if err := w.Write(v); err != nil {
			verif.Assert(false, "write-object-no-error")
			return nil, false
		}
	}
	if err := w.Close(ctx); err != nil {
		verif.Assert(false, "write-object-no-error")
		return nil, false
	}
	return w.Object(), true
}

// v14hScan runs the real newObjectsScanner over the objects and pulls until
// end of stream (at most max values are kept).
func v14hScan(ctx context.Context, zctx *zed.Context, pool *lake.Pool, objects []*data.Object, max int) ([]v14hVal, bool) {
	var progress zbuf.Progress
	scanner, err := newObjectsScanner(ctx, zctx, pool, objects, nil, nil, &progress)
	if err != nil {
		verif.Assert(false, "scan-no-error")
		return nil, false
	}
	var got []v14hVal
	for pulls := 0; ; pulls++ {
		if pulls > 2*max+2 {
			verif.Assert(false, "scan-terminates")
			return nil, false
		}
		batch, err := scanner.Pull(false)
		if err != nil {
			verif.Assert(false, "scan-no-error")
			return nil, false
		}
		if batch == nil {
			break
		}
		// decode before the next Pull (the merge releases the batch then)
		for _, v := range batch.Values() {
			o, ok := v14hDecode(v)
			verif.Assert(ok, "scanned-value-well-formed")
			if !ok {
				return nil, false
			}
			if len(got) < max+1 {
				got = append(got, o)
			}
		}
	}
	return got, true
}

// v14hConcObject is v14hSymObject with concrete keys (schedule variant): keys
// lists the object's keys in ascending order (0 = null key, -1 = key field
// missing, last); a descending pool gets them reversed, as the loader writes them.
func v14hConcObject(zctx *zed.Context, keys []int, base byte, desc bool) ([]v14hVal, []zed.Value) {
	n := len(keys)
	spec := make([]v14hVal, n)
	vals := make([]zed.Value, n)
	for i := 0; i < n; i++ {
		k, tag := keys[i], base+byte(i)
		if desc {
			k, tag = keys[n-1-i], base+byte(n-1-i)
		}
		switch {
		case k == 0:
			spec[i] = v14hVal{null: true, tag: tag}
			vals[i] = v14hRec(zctx, v14hNull, 0, tag)
		case k < 0:
			spec[i] = v14hVal{null: true, tag: tag}
			vals[i] = v14hRec(zctx, v14hMissing, 0, tag)
		default:
			spec[i] = v14hVal{k: int64(k), tag: tag}
			vals[i] = v14hRec(zctx, v14hInt, byte(2*k), tag)
		}
	}
	return spec, vals
}

// v14hSchedKeys: the concrete objects {A, B} of the schedule variant
var v14hSchedKeys = [][2][]int{
	{{1, 3, -1}, {2, 3, 4}}, // ranges interleave, a tie, a record without the key field
	{{2, 2, 0}, {2, 4, 0}},  // ties inside and across the objects, a null key in both
}

func v14hPartitionScanOrder(n, kmax int) { v14hPartitionScan(n, kmax, 0) }

func v14hPartitionScan(n, kmax, sched int) {
	pat, rounds := 0, 1
	if sched > 0 {
		// schedules are the quantifier: concrete objects; the native run
		// repeats the experiment (under the Go scheduler a schedule-dependent
		// counterexample shows up by repetition)
		verif.Schedules(sched)
		verif.Races(true)
		pat = verif.Choose("data", len(v14hSchedKeys))
		rounds = verif.NativeRounds(200)
	} else {
		verif.Goroutines(true)
	}
	desc := verif.Choose("desc", 2) == 1
	for r := 0; r < rounds; r++ {
		v14hPartitionScanRun(n, kmax, sched, pat, desc)
	}
}

func v14hPartitionScanRun(n, kmax, sched, pat int, desc bool) {
	ctx := context.Background()
	zctx := zed.NewContext()
	var specA, specB []v14hVal
	var valsA, valsB []zed.Value
	if sched > 0 {
		specA, valsA = v14hConcObject(zctx, v14hSchedKeys[pat][0][:n], 0x10, desc)
		specB, valsB = v14hConcObject(zctx, v14hSchedKeys[pat][1][:n], 0x20, desc)
	} else {
		specA, valsA = v14hSymObject(zctx, "A", n, kmax, 0x10, desc)
		specB, valsB = v14hSymObject(zctx, "B", n, kmax, 0x20, desc)
	}

	stride := 0
	if sched > 0 {
		// a frame (a batch, a recycled buffer) per value
		stride = 1
	}
	eng, pool, sortKey, ok := v14hSetupStride(ctx, desc, stride)
	if !ok {
		return
	}
	objA, ok := v14hWriteObject(ctx, pool, sortKey, valsA)
	if !ok {
		return
	}
	objB, ok := v14hWriteObject(ctx, pool, sortKey, valsB)
	if !ok {
		return
	}
	verif.Assert(objA.Count == uint64(n) && objB.Count == uint64(n), "object-count")

	// the partition as the Slicer hands it over; the order of its object list
	// is not part of the contract (it derives from Snapshot.Select)
	part := Partition{Objects: []*data.Object{objA, objB}}
	got, ok := v14hScan(ctx, zctx, pool, part.Objects, 2*n)
	if !ok {
		return
	}

	// (a) every value of both objects exactly once
	verif.Assert(len(got) == 2*n, "merged-stream-length")
	if len(got) != 2*n {
		return
	}
	all := append(append([]v14hVal{}, specA...), specB...)
	for _, in := range all {
		cnt := 0
		for _, g := range got {
			if g.tag == in.tag {
				cnt++
				same := g.null == in.null && (g.null || g.k == in.k)
				verif.Assert(same, "value-delivered-intact")
			}
		}
		verif.Assert(cnt == 1, "every-value-exactly-once")
	}

	// (b) pool-key order, null/missing as the largest key: the order in which
	// each object was written
	for i := 0; i+1 < len(got); i++ {
		a, b := got[i], got[i+1]
		ordered := v14hBefore(a, b, desc)
		if a.null || b.null {
			if desc {
				verif.Assert(ordered, "merged-stream-in-pool-key-order/null-keys-first-desc")
			} else {
				verif.Assert(ordered, "merged-stream-in-pool-key-order/null-keys-last-asc")
			}
		} else {
			verif.Assert(ordered, "merged-stream-in-pool-key-order")
		}
	}

	// each object's values keep the order in which they were written
	for _, spec := range [][]v14hVal{specA, specB} {
		p := 0
		for _, g := range got {
			if p < len(spec) && g.tag == spec[p].tag {
				p++
			}
		}
		verif.Assert(p == len(spec), "object-order-preserved")
	}

	if sched > 0 {
		// the merged output is THE sequence the values determine (pool-key
		// order, ties by the value bytes i.e. the tags, in the pool's
		// direction), whatever the schedule of the scan's goroutines
		want := append([]v14hVal{}, all...)
		for i := 1; i < len(want); i++ {
			for j := i; j > 0; j-- {
				a, b := want[j-1], want[j]
				tie := a.null == b.null && (a.null || a.k == b.k)
				inOrder := v14hBefore(a, b, desc)
				if tie {
					inOrder = a.tag < b.tag != desc
				}
				if inOrder {
					break
				}
				want[j-1], want[j] = b, a
			}
		}
		for i := range got {
			verif.Assert(got[i].tag == want[i].tag, "merged-stream-is-the-sequence-the-values-determine")
		}
	}

	if sched > 1 {
		// (preemption bound 2: one scan only)
		verif.Assert(eng.opened == 2 && atomic.LoadInt32(&eng.closed) == 2, "object-readers-closed-at-end-of-stream")
	} else {
		// ties: the merged order is a function of the values, not of the order in
		// which the partition lists its objects
		got2, ok := v14hScan(ctx, zctx, pool, []*data.Object{objB, objA}, 2*n)
		if !ok {
			return
		}
		verif.Assert(len(got2) == len(got), "ties-deterministic/independent-of-object-list-order")
		if len(got2) != len(got) {
			return
		}
		for i := range got {
			verif.Assert(got2[i].tag == got[i].tag, "ties-deterministic/independent-of-object-list-order")
		}
		verif.Assert(eng.opened == 4 && atomic.LoadInt32(&eng.closed) == 4, "object-readers-closed-at-end-of-stream")
	}

	// vacuity witnesses
	tie, overlap := false, false
	for _, a := range specA {
		for _, b := range specB {
			if a.null == b.null && (a.null || a.k == b.k) {
				tie = true
			}
		}
	}
	for i := 0; i+2 < len(got); i++ {
		// A B A or B A B somewhere in the stream: the ranges interleave
		if got[i].tag&0xf0 != got[i+1].tag&0xf0 && got[i+1].tag&0xf0 != got[i+2].tag&0xf0 {
			overlap = true
		}
	}
	if tie {
		verif.Reach("cross-object-key-tie")
	}
	if overlap {
		verif.Reach("objects-interleave")
	}
	if got[0].null && desc {
		verif.Reach("desc-null-first")
	}
	if got[len(got)-1].null && !desc {
		verif.Reach("asc-null-last")
	}
	if got[0].null && got[1].null {
		verif.Reach("null-keys-in-both-objects")
	}
	verif.Reach("end")
}

// verif:desc C14-O11 the scan of a partition of two OVERLAPPING data objects, executed end to end: both objects are written by the real data.Writer (Object.NewWriter, Write, Close; zngio.Writer + seekindex.Writer) through a model storage engine in the order the loader writes them (import-comparator order: pool key asc/desc with null and missing keys as the largest key, so FIRST in a desc pool and last in an asc pool); then the real meta.newObjectsScanner (data.LookupSeekRange, Object.NewReader, zngio scanner, statScanner, merge.New under lake.ImportComparator of a pool opened by the real lake.CreatePool/OpenPool) is pulled until end of stream: (a) the merged stream contains every value of both objects exactly once and intact; (b) it is in pool-key order with null/missing keys as the largest key (asc: last, desc: first), i.e. the order in which each object was written - the merge comparator must agree with the import comparator; each object's values keep their written order; (c) ties: the merged order does not depend on the order in which the partition lists its objects; every object reader is closed at end of stream.
// verif:bounds 2 objects of 3 values each; per object at most one value with a null key or without the key field (Choose: none/null/missing), placed where the loader puts it; the other keys symbolic int64 in 1..4 (one-byte ZNG bodies) in pool order, so key ranges overlap, nest, are disjoint or tie; concrete distinct tags; pool order asc and desc; seek stride and threshold default; no pruner, no filter
// verif:outside ONE goroutine schedule (cooperative: a goroutine runs until it blocks, then the first runnable in FIFO order; select takes the first ready case) - other interleavings of the merge pullers are not explored; the engine runs the zngio scanner single-threaded (GOMAXPROCS=1), the native replay with real threads; LZ4 CompressBlock is the incompressible stub in the engine; pool/branch journal metadata through marshal tokens; pruned scans (seek ranges), filters, more than two objects, non-integer keys, storage failures; SequenceScanner.Pull/newScanner (the marshaled Partition value is a token in the engine)
func VerifH_C14_O11_partition_scan_order() { v14hPartitionScanOrder(3, 4) }

// verif:desc C08-O6s the parallel scan of a partition's overlapping objects is independent of the goroutine schedule: same run and same assertions as VerifH_C14_O11_partition_scan_order (two objects written by the real data.Writer, scanned by the real meta.newObjectsScanner = one zngio scanner + statScanner per object under merge.New with lake.ImportComparator, pulled to end of stream, then once more with the object list reversed), under EVERY schedule with at most 1 preemption (thorough tier: 2) at the channel operations, selects, closes, atomics, map accesses, lock/once/WaitGroup operations and goroutine starts of the real merge pullers, zngio scanner/parser/worker goroutines and the consumer, with a bounded free choice of which runnable goroutine continues; in addition the merged stream is exactly THE sequence the values determine (pool-key order, null/missing largest, ties by value bytes in the pool's direction): every value once, intact, same order under every schedule and for both object list orders, every object reader closed at end of stream
// verif:bounds 2 objects of 3 values (thorough tier: 2 values, the first two of each, and a single scan) with concrete keys: A=1,3,(no key field) B=2,3,4, or A=2,2,null B=2,4,null (Choose); pool seek stride 1, so data.Writer ends the stream after every value with a key: an object is several ZNG frames and each scanner delivers several batches whose buffers and batch objects are recycled through the pools while the merge holds values of them (VerifH_C14_O11: default stride, one frame per object); pool order asc and desc; no pruner, no filter; the native replay repeats the experiment 200 times; preemption bound 1 (thorough: 2)
// verif:outside as VerifH_C14_O11_partition_scan_order except that schedules are explored up to the bound; symbolic keys (VerifH_C14_O11_partition_scan_order); field/slice loads and stores are not preemption points (data-race freedom between sync points is assumed, not checked); sync.Pool is a per-path LIFO shared by all goroutines; the engine's zngio scanner has one worker per scanner
func VerifH_C08_O6s_partition_scan_schedules() {
	if verif.Thorough() {
		v14hPartitionScan(2, 4, 2)
	} else {
		v14hPartitionScan(3, 4, 1)
	}
}

// verif:desc C14-O11s a partition of ONE data object (no merge): the real newObjectsScanner returns exactly the object's values, intact, in the order the real data.Writer wrote them, for asc and desc pools, and closes the object reader.
// verif:bounds 1 object of 3 values, at most one null/missing key, other keys symbolic int64 in 1..4 in pool order; asc and desc
// verif:outside as C14-O11
func VerifH_C14_O11s_single_object_scan() {
	verif.Goroutines(true)
	ctx := context.Background()
	zctx := zed.NewContext()
	desc := verif.Choose("desc", 2) == 1
	const n = 3
	spec, vals := v14hSymObject(zctx, "A", n, 4, 0x10, desc)
	eng, pool, sortKey, ok := v14hSetup(ctx, desc)
	if !ok {
		return
	}
	obj, ok := v14hWriteObject(ctx, pool, sortKey, vals)
	if !ok {
		return
	}
	got, ok := v14hScan(ctx, zctx, pool, []*data.Object{obj}, n)
	if !ok {
		return
	}
	verif.Assert(len(got) == n, "single-object-stream-length")
	if len(got) != n {
		return
	}
	for i := range got {
		same := got[i].tag == spec[i].tag && got[i].null == spec[i].null && (got[i].null || got[i].k == spec[i].k)
		verif.Assert(same, "single-object-values-unchanged")
	}
	verif.Assert(eng.opened == 1 && atomic.LoadInt32(&eng.closed) == 1, "object-readers-closed-at-end-of-stream")
	verif.Reach("end")
}
