//go:build verif

package meta

import (
	"sync"

	"github.com/brimdata/super"
	"github.com/brimdata/super/internal/verif"
	"github.com/brimdata/super/lake/data"
	"github.com/brimdata/super/zbuf"
	"github.com/brimdata/super/zson"
	"github.com/segmentio/ksuid"
)

// v08sParent is the model lister: it hands out the objects in lister order, one
// per batch (marshaled as Lister.Pull marshals them), then end of stream for
// good.  Several legs pull from it THROUGH the slicer, i.e. concurrently unless
// the slicer serializes them.
type v08sParent struct {
	mu   sync.Mutex // like the real Lister, the model serializes its own Pull
	m    *zson.MarshalZNGContext
	objs []*data.Object
	next int
}

func (p *v08sParent) Pull(done bool) (zbuf.Batch, error) {
	p.mu.Lock()
	defer p.mu.Unlock()
	if p.next >= len(p.objs) {
		return nil, nil
	}
	o := p.objs[p.next]
	p.next++
	val, err := p.m.Marshal(o)
	if err != nil {
		return nil, err
	}
	return zbuf.NewArray([]zed.Value{val}), nil
}

// v08sPartitions runs nlegs goroutines pulling partitions from one shared
// slicer until each sees the end; it returns, per partition, the object ids in
// it, in the order the slicer produced them (sequence taken under the harness's
// own mutex right after Pull returns - used only as a multiset).
func v08sPartitions(objs []*data.Object, nlegs int) (parts [][]byte, ok bool) {
	zctx := zed.NewContext()
	m := zson.NewZNGMarshalerWithContext(zctx)
	m.Decorate(zson.StylePackage)
	s := NewSlicer(&v08sParent{m: m, objs: objs}, zctx)
	ok = true
	var mu sync.Mutex
	var wg sync.WaitGroup
	for l := 0; l < nlegs; l++ {
		wg.Add(1)
		go func() {
			defer wg.Done()
			for i := 0; i < len(objs)+2; i++ {
				batch, err := s.Pull(false)
				if err != nil {
					mu.Lock()
					ok = false
					mu.Unlock()
					return
				}
				if batch == nil {
					return
				}
				var p Partition
				vals := batch.Values()
				if len(vals) != 1 || zson.NewZNGUnmarshaler().Unmarshal(vals[0], &p) != nil {
					mu.Lock()
					ok = false
					mu.Unlock()
					return
				}
				var ids []byte
				for _, o := range p.Objects {
					ids = append(ids, o.ID[0])
				}
				mu.Lock()
				parts = append(parts, ids)
				mu.Unlock()
			}
		}()
	}
	wg.Wait()
	return parts, ok
}

// verif:desc C08-O7s the slicer shared by all scatter legs (meta.Slicer.Pull under its mutex, stash, nextPartition) pulled CONCURRENTLY by 2 legs over a model lister that hands out 3-4 objects in lister order, under every schedule with at most 2 preemptions (thorough: 3) at the lock/unlock/map-access points: the partitions produced - as a multiset of object-id lists - are exactly the ones a single leg produces for the same object stream (objects are stashed in lister order whatever the interleaving, so partitions are cut in the same places), no error, every object in exactly one partition.
// verif:bounds 2 legs; 3 object streams (Choose): 3 disjoint ranges; 4 objects of which the middle two overlap; 4 objects all overlapping except the last; int64 keys, ascending pool; preemption bound 2 (thorough: 3); natively 2000 repetitions with 4 legs
// verif:outside which leg gets which partition and in what order the legs receive them (schedule-dependent by design); the Lister itself; descending pools and null keys (C08-O1/O2); data races between sync points are assumed absent
func VerifH_C08_O7s_slicer_shared_by_legs() {
	k := 2
	if verif.Thorough() {
		k = 3
	}
	verif.Schedules(k)
	verif.Races(true)
	mk := func(id byte, lo, hi int64) *data.Object {
		return &data.Object{ID: ksuid.KSUID{id}, Min: zed.NewInt64(lo), Max: zed.NewInt64(hi), Count: 1, Size: 1}
	}
	var objs []*data.Object
	switch verif.Choose("stream", 3) {
	case 0:
		objs = []*data.Object{mk(1, 0, 2), mk(2, 20, 22), mk(3, 40, 42)}
	case 1:
		objs = []*data.Object{mk(1, 0, 2), mk(2, 10, 25), mk(3, 20, 30), mk(4, 40, 42)}
	default:
		objs = []*data.Object{mk(1, 0, 12), mk(2, 10, 25), mk(3, 20, 30), mk(4, 40, 42)}
	}
	want, ok := v08sPartitions(objs, 1)
	verif.Assert(ok, "single-leg-no-error")
	rounds := verif.NativeRounds(2000)
	legs := verif.NativeInt(2, 4)
	same, noErr := true, true
	for r := 0; r < rounds; r++ {
		got, ok := v08sPartitions(objs, legs)
		if !ok {
			noErr = false
			continue
		}
		if len(got) != len(want) {
			same = false
			continue
		}
		used := make([]bool, len(want))
		for _, g := range got {
			found := false
			for i, w := range want {
				if !used[i] && string(g) == string(w) {
					used[i], found = true, true
					break
				}
			}
			if !found {
				same = false
			}
		}
	}
	verif.Assert(noErr, "concurrent-legs-no-error")
	verif.Assert(same, "partitions-independent-of-the-legs-interleaving")
	verif.Reach("end")
}
