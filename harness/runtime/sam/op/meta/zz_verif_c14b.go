//go:build verif

package meta

// verif:desc C14-O8 scans are partitioned without overlap: the Slicer step of VerifH_C08_O1_slicer_step under property C14 — an unfiltered scan returns values in pool-key order only if the partitions handed to the scanner are disjoint hulls in lister order (asc and desc pools).
// verif:bounds as VerifH_C08_O1_slicer_step
// verif:outside as VerifH_C08_O1_slicer_step
func VerifH_C14_O8_slicer_partitions() { v08SlicerStep(1, 2) }
