//go:build verif

package meta

import (
	"context"

	zed "github.com/brimdata/super"
	"github.com/brimdata/super/internal/verif"
	"github.com/brimdata/super/lake/data"
	"github.com/brimdata/super/order"
	"github.com/brimdata/super/runtime/sam/expr"
	"github.com/brimdata/super/zson"
	"github.com/segmentio/ksuid"
)

// ---------------------------------------------------------------------------
// C16-O6: the object lister with a key pruner.
//
// The pruner expression the optimizer synthesizes is an expr.Evaluator over the
// marshaled object record ({id,min,max,count,size}) whose result "true" means
// "no key of this object can satisfy the filter: skip it".  What the filter
// forms yield on {min,max} is C16-O1; here the environment is an evaluator with
// exactly that contract and the obligation is on how meta.Lister.Pull and
// meta.pruner.prune apply it along the object list.
// ---------------------------------------------------------------------------

const (
	v16GE  = iota // filter k >= LIT: skip iff max < LIT
	v16LE         // filter k <= LIT: skip iff min > LIT
	v16EQ         // filter k == LIT: skip iff LIT < min or LIT > max
	v16Nil        // no pruner
)

func v16Skip(form int, lit, min, max int64) bool {
	switch form {
	case v16GE:
		return max < lit
	case v16LE:
		return min > lit
	case v16EQ:
		return lit < min || lit > max
	}
	return false
}

// v16Pruner is the environment evaluator: it sees only the value the lister
// hands to it.
type v16Pruner struct {
	form   int
	lit    int64
	noSkip int // what "do not skip" looks like: 0 false, 1 a null (not a Boolean), 2 a null Boolean
	calls  int
	bad    bool
}

func (p *v16Pruner) Eval(_ expr.Context, this zed.Value) zed.Value {
	p.calls++
	var o data.Object
	if err := zson.NewZNGUnmarshaler().Unmarshal(this, &o); err != nil {
		p.bad = true
		return zed.Null
	}
	if v16Skip(p.form, p.lit, o.Min.Int(), o.Max.Int()) {
		return zed.True
	}
	switch p.noSkip {
	case 1:
		return zed.Null
	case 2:
		return zed.NullBool
	}
	return zed.False
}

type v16Obj struct {
	o        *data.Object
	min, max int64
}

func v16Lister(nobj int, small bool) {
	desc := verif.Choose("order", 2) == 1
	which := order.Asc
	if desc {
		which = order.Desc
	}
	form := verif.Choose("filter", 4)
	var in []v16Obj
	var objs []*data.Object
	for i := 0; i < nobj; i++ {
		name := "obj" + string(rune('0'+i))
		var lo, hi int64
		if small {
			lo, hi = int64(verif.Range(name+".min", -2, 2)), int64(verif.Range(name+".max", -2, 2))
		} else {
			lo, hi = verif.Int64(name+".min"), verif.Int64(name+".max")
		}
		verif.Assume(lo <= hi)
		x := v16Obj{min: lo, max: hi}
		x.o = &data.Object{ID: ksuid.KSUID{byte(1 + i)}, Min: zed.NewInt64(lo), Max: zed.NewInt64(hi), Count: uint64(10 + i), Size: int64(100 + i)}
		in = append(in, x)
		objs = append(objs, x.o)
	}
	// lister order: what initObjectScan leaves in Lister.objects
	sortObjects(objs, which)
	sorted := make([]v16Obj, 0, nobj)
	for _, p := range objs {
		for i := range in {
			if in[i].o == p {
				sorted = append(sorted, in[i])
			}
		}
	}
	verif.Assert(len(sorted) == nobj, "lister-order-is-a-permutation")
	if len(sorted) != nobj {
		return
	}

	var ev expr.Evaluator
	var pr *v16Pruner
	var lit int64
	if form != v16Nil {
		if small {
			lit = int64(verif.Range("lit", -3, 3))
		} else {
			lit = verif.Int64("lit")
		}
		pr = &v16Pruner{form: form, lit: lit, noSkip: verif.Choose("no-skip-result", 3)}
		ev = pr
	}
	l := NewSortedListerFromSnap(context.Background(), zed.NewContext(), nil, nil, ev)
	verif.Assert((l.pruner == nil) == (form == v16Nil), "pruner-installed-iff-given")
	l.objects = append([]*data.Object{}, objs...)

	// pull until done
	var got []data.Object
	for k := 0; k < nobj+2; k++ {
		batch, err := l.Pull(false)
		verif.Assert(err == nil, "pull-no-error")
		if err != nil {
			return
		}
		if batch == nil {
			break
		}
		vals := batch.Values()
		verif.Assert(len(vals) == 1, "batch-holds-one-object")
		if len(vals) != 1 {
			return
		}
		var o data.Object
		err = zson.NewZNGUnmarshaler().Unmarshal(vals[0], &o)
		verif.Assert(err == nil, "delivered-object-decodes")
		if err != nil {
			return
		}
		got = append(got, o)
	}
	if pr != nil {
		verif.Assert(!pr.bad, "pruner-sees-the-object-record")
	}

	// spec: the objects the pruner does not prune, each once, in lister order
	var want []v16Obj
	pattern := ""
	for _, x := range sorted {
		if v16Skip(form, lit, x.min, x.max) {
			pattern += "p"
		} else {
			pattern += "d"
			want = append(want, x)
		}
	}
	for k, o := range got {
		if k >= len(want) {
			break
		}
		verif.Assert(o.ID == want[k].o.ID, "delivered-are-the-unpruned-objects-in-lister-order")
		verif.Assert(o.Min.Int() == want[k].min && o.Max.Int() == want[k].max && o.Count == want[k].o.Count && o.Size == want[k].o.Size, "delivered-object-metadata-intact")
	}
	verif.Assert(len(got) <= len(want), "pruned-or-repeated-object-delivered")
	verif.Assert(len(got) >= len(want), "surviving-object-not-delivered")
	// end of stream stays end of stream
	batch, err := l.Pull(false)
	verif.Assert(err == nil && batch == nil, "end-of-stream-stays-ended")

	verif.Observe("pattern", pattern)
	switch pattern {
	case "dpd":
		// a survivor behind an object that was pruned after an earlier match
		verif.Reach("survivor-after-prune-after-match")
	case "ppp":
		verif.Reach("all-pruned")
	case "ddd":
		verif.Reach("none-pruned")
	case "pdp":
		verif.Reach("pruned-around-a-survivor")
	}
	verif.Reach("end")
}

// verif:desc C16-O6 real meta.Lister (NewSortedListerFromSnap, Pull) and meta.pruner.prune over 3 data objects in lister order (the real sortObjects output) whose int64 key ranges may nest and overlap, with a key pruner honouring the optimizer's contract (result true = skip) for the filters k >= LIT, k <= LIT, k == LIT on {min,max}, or no pruner: pulling until end of stream delivers EXACTLY the objects the pruner does not prune, each once, in lister order, with their metadata intact - in particular a surviving object behind an object that was pruned after an earlier one matched (prune decisions are not monotone along the list when ranges nest); only a Boolean true prunes (false, a non-Boolean null and a null Boolean all mean keep); a nil pruner delivers all; end of stream is stable.
// verif:bounds 3 objects, keys int64 in [-2,2] with min<=max, LIT in [-3,3]; asc and desc; 3 filter forms + no pruner; 3 encodings of the "keep" answer
// verif:outside what the synthesized pruner expression yields for a filter (C16-O1/O2: the optimizer cannot be imported from package meta - import cycle - and the marshaled record is a token in the engine); null / non-int64 keys; more than 3 objects; Snapshot.Select and the pool handle (Lister.objects is set directly); the zson marshaling of the object record (identity tokens in the engine, real in the replay)
func VerifH_C16_O6_lister_pruning() { v16Lister(3, true) }
