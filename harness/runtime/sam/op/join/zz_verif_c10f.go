//go:build verif

package join

import (
	"context"

	"github.com/brimdata/super"
	"github.com/brimdata/super/internal/verif"
	"github.com/brimdata/super/order"
	"github.com/brimdata/super/pkg/field"
	"github.com/brimdata/super/runtime"
	"github.com/brimdata/super/runtime/sam/expr"
	"github.com/brimdata/super/zbuf"
	"github.com/brimdata/super/zcode"
)

// v10fParent is a model upstream: it delivers its batches, then end of stream
// (and end of stream again on every later Pull).
type v10fParent struct {
	batches [][]zed.Value
	i       int
}

func (p *v10fParent) Pull(done bool) (zbuf.Batch, error) {
	if p.i >= len(p.batches) {
		return nil, nil
	}
	b := p.batches[p.i]
	p.i++
	return zbuf.NewArray(b), nil
}

// v10fKey is one symbolic join key: an int64 in 1..127 (one-byte body
// x=2k) or null(int64).
type v10fKey struct {
	null bool
	x    byte
	k    int64
}

func v10fMkKey(name string, nullable bool) v10fKey {
	null := false
	if nullable {
		null = verif.Bool(name + ".null")
	}
	x := verif.Byte(name)
	verif.Assume(x != 0)
	verif.Assume(x&1 == 0) // 1..127: the comparator's sign decoding is C06's subject
	k := verif.MergeInt64(func() int64 { return zed.DecodeInt(zcode.Bytes{x}) })
	return v10fKey{null, x, k}
}

// v10fRec builds {<kname>:key(int64), <vname>:tag(int64)}.
func v10fRec(zctx *zed.Context, kname, vname string, key v10fKey, tag byte) zed.Value {
	var b zcode.Builder
	if key.null {
		b.Append(nil)
	} else {
		b.Append(zcode.Bytes{key.x})
	}
	b.Append(zcode.Bytes{tag << 1}) // int64 tag
	rt := zctx.MustLookupTypeRecord([]zed.Field{
		zed.NewField(kname, zed.TypeInt64),
		zed.NewField(vname, zed.TypeInt64),
	})
	return zed.NewValue(rt, b.Bytes())
}

// v10fSorted: are two consecutive keys in the order a join input declared
// `dir` must have?  The join compares with nulls as the largest value: Up =
// non-decreasing with nulls last, Down = non-increasing with nulls first.
func v10fSorted(dir order.Direction, a, b v10fKey) bool {
	switch dir {
	case order.Up:
		if a.null {
			return b.null
		}
		return b.null || a.k <= b.k
	case order.Down:
		if a.null {
			return true
		}
		return !b.null && a.k >= b.k
	}
	return true
}

// v10fEq is the language's == on two int64 keys (`null(int64)==null(int64)`
// is true in this tree: `super query -z -c 'yield a==b'` over
// {a:null(int64),b:null(int64)} yields true, and `where a==b` keeps it; the
// ztest runtime/sam/op/join/ztests/first-key-is-null.yaml pins the same for join).
func v10fEq(a, b v10fKey) bool {
	if a.null || b.null {
		return a.null && b.null
	}
	return a.k == b.k
}

var v10fDirs = [][2]order.Direction{
	{order.Unknown, order.Unknown},
	{order.Up, order.Unknown},
	{order.Unknown, order.Up},
	{order.Up, order.Up},
	{order.Down, order.Unknown},
	{order.Unknown, order.Down},
	{order.Down, order.Down},
	{order.Up, order.Down},
}

func v10fJoin(style int, dirs [2]order.Direction, split int, lkeys, rkeys [2]v10fKey) {
	zctx := zed.NewContext()
	anti, inner := style == 2, style == 0
	leftDir, rightDir := dirs[0], dirs[1]
	// an input declared sorted is sorted (that is what the declaration means)
	verif.Assume(verif.MergeBool(func() bool { return v10fSorted(leftDir, lkeys[0], lkeys[1]) }))
	verif.Assume(verif.MergeBool(func() bool { return v10fSorted(rightDir, rkeys[0], rkeys[1]) }))
	l0 := v10fRec(zctx, "lk", "lv", lkeys[0], 1)
	l1 := v10fRec(zctx, "lk", "lv", lkeys[1], 2)
	r0 := v10fRec(zctx, "rk", "rv", rkeys[0], 1)
	r1 := v10fRec(zctx, "rk", "rv", rkeys[1], 2)
	var lb, rb [][]zed.Value
	if split&1 == 0 {
		lb = [][]zed.Value{{l0, l1}}
	} else {
		lb = [][]zed.Value{{l0}, {l1}}
	}
	if split&2 == 0 {
		rb = [][]zed.Value{{r0, r1}}
	} else {
		rb = [][]zed.Value{{r0}, {r1}}
	}
	rctx := runtime.NewContext(context.Background(), zctx)
	leftKey := expr.NewDottedExpr(zctx, field.Path{"lk"})
	rightKey := expr.NewDottedExpr(zctx, field.Path{"rk"})
	// `... join ... on lk=rk r:=rv` as compiler/kernel builds it
	// (compileAssignments + splitAssignments): lval path r, rhs the field rv
	lhs := []*expr.Lval{expr.NewLval([]expr.LvalElem{&expr.StaticLvalElem{Name: "r"}})}
	rhs := []expr.Evaluator{expr.NewDottedExpr(zctx, field.Path{"rv"})}
	op, err := New(rctx, anti, inner, &v10fParent{batches: lb}, &v10fParent{batches: rb},
		leftKey, rightKey, leftDir, rightDir, lhs, rhs, expr.Resetters{})
	verif.Assert(err == nil, "new-no-error")
	if err != nil {
		return
	}
	var outs []zed.Value
	eos := false
	for i := 0; i < 8; i++ {
		batch, err := op.Pull(false)
		verif.Assert(err == nil, "pull-no-error")
		if err != nil {
			return
		}
		if batch == nil {
			eos = true
			break
		}
		outs = append(outs, batch.Values()...)
	}
	verif.Assert(eos, "terminates")
	rctx.Cancel()
	// decode the output: pair[l][r] = number of joined records (l,r),
	// alone[l] = number of left records passed through unjoined
	var pair [2][2]int
	var alone [2]int
	wellFormed := true
	for _, v := range outs {
		rt := zed.TypeRecordOf(v.Type())
		if rt == nil || len(rt.Fields) < 2 || len(rt.Fields) > 3 ||
			rt.Fields[0].Name != "lk" || rt.Fields[1].Name != "lv" ||
			rt.Fields[0].Type != zed.TypeInt64 || rt.Fields[1].Type != zed.TypeInt64 {
			wellFormed = false
			continue
		}
		lv := v.DerefByColumn(1)
		if lv == nil || lv.IsNull() || len(lv.Bytes()) != 1 {
			wellFormed = false
			continue
		}
		l := int(lv.Bytes()[0]>>1) - 1
		if l < 0 || l > 1 {
			wellFormed = false
			continue
		}
		// the left record's key is carried unchanged
		lk := v.DerefByColumn(0) // nil for a null column
		if lkeys[l].null {
			verif.Assert(lk == nil || lk.IsNull(), "left-key-carried")
		} else {
			verif.Assert(lk != nil && !lk.IsNull() && len(lk.Bytes()) == 1 && lk.Bytes()[0] == lkeys[l].x, "left-key-carried")
		}
		if len(rt.Fields) == 2 {
			alone[l]++
			continue
		}
		if rt.Fields[2].Name != "r" || rt.Fields[2].Type != zed.TypeInt64 {
			wellFormed = false
			continue
		}
		rv := v.DerefByColumn(2)
		if rv == nil || rv.IsNull() || len(rv.Bytes()) != 1 {
			wellFormed = false
			continue
		}
		r := int(rv.Bytes()[0]>>1) - 1
		if r < 0 || r > 1 {
			wellFormed = false
			continue
		}
		pair[l][r]++
	}
	verif.Assert(wellFormed, "output-records-well-formed")
	// the nested-loop specification
	nullKeys := (lkeys[0].null || lkeys[1].null) && (rkeys[0].null || rkeys[1].null)
	ok := verif.MergeBool(func() bool {
		ok := true
		for l := 0; l < 2; l++ {
			matched := false
			for r := 0; r < 2; r++ {
				eq := v10fEq(lkeys[l], rkeys[r])
				if eq {
					matched = true
				}
				want := 0
				if eq && !anti {
					want = 1
				}
				if pair[l][r] != want {
					ok = false
				}
			}
			want := 0
			if !matched && !inner {
				want = 1
			}
			if alone[l] != want {
				ok = false
			}
		}
		return ok
	})
	id := "inner"
	switch style {
	case 1:
		id = "left"
	case 2:
		id = "anti"
	}
	if nullKeys {
		verif.Assert(ok, id+"-join-is-the-nested-loop-join/null-keys")
	} else {
		verif.Assert(ok, id+"-join-is-the-nested-loop-join")
	}
	verif.Observe("n", len(outs))
	verif.Reach("end")
}

func v10fExec(style int) {
	verif.Goroutines(true)
	dirs := v10fDirs[verif.Choose("dirs", len(v10fDirs))]
	split := verif.Choose("split", 4)
	lkeys := [2]v10fKey{v10fMkKey("l0", true), v10fMkKey("l1", true)}
	rkeys := [2]v10fKey{v10fMkKey("r0", true), v10fMkKey("r1", true)}
	v10fJoin(style, dirs, split, lkeys, rkeys)
}

// verif:desc C10-O8 the join OPERATOR executed end to end, style INNER (join.New with the sorts it inserts, Op.Pull/getJoinSet/readJoinSet/splice, the two puller goroutines, zio.Peeker, expr.Cutter for `r:=rv`) over two model parents: the multiset of output records is exactly what a nested-loop join with the language's == emits (one {lk,lv,r} per pair of equal keys, null(int64) keys included: null==null is true in this language), without error, and Pull ends with EOS.  The specification does not depend on the declared directions, so declaring an input that is sorted as sorted gives the same multiset as leaving it undeclared.
// verif:bounds left 2 records {lk,lv}, right 2 records {rk,rv}; the 4 keys int64 with a symbolic value in 1..127 (one-byte body), or null(int64), ties possible; declared directions (left,right) in {(?,?),(up,?),(?,up),(up,up),(down,?),(?,down),(down,down),(up,down)}, a declared input is assumed sorted that way (up: nulls last, down: nulls first), an undeclared one is in any order; each input delivered as one batch or as one batch per record
// verif:outside missing keys (outside the claim), keys of other or mixed types, more than 2 records per side, right joins (compiled as a swapped left join: VerifH_C10_O4), upstream errors, Pull(done); one deterministic goroutine schedule
func VerifH_C10_O8_join_exec_inner() { v10fExec(0) }

// verif:desc C10-O8 as join_exec_inner for style LEFT: the inner pairs plus every left record without an equal right key exactly once, unjoined ({lk,lv}).
// verif:bounds as VerifH_C10_O8_join_exec_inner
// verif:outside as VerifH_C10_O8_join_exec_inner
func VerifH_C10_O8_join_exec_left() { v10fExec(1) }

// verif:desc C10-O8 as join_exec_inner for style ANTI: exactly the left records without an equal right key, each once, unjoined.
// verif:bounds as VerifH_C10_O8_join_exec_inner
// verif:outside as VerifH_C10_O8_join_exec_inner
func VerifH_C10_O8_join_exec_anti() { v10fExec(2) }

// v10fSchedKeys: concrete key patterns of the schedule variant, {left, right},
// each side in ascending order with null last; 0 stands for null(int64)
var v10fSchedKeys = [][2][2]int64{
	{{1, 2}, {2, 2}}, // the second left record joins both right records
	{{3, 0}, {3, 0}}, // a tie and a null key on both sides
}

// (left, right) declared directions of the schedule variant: no sort, two
// sorts, one sort on either side, a descending join
var v10fSchedDirs = [][2]order.Direction{
	{order.Up, order.Up},
	{order.Unknown, order.Unknown},
	{order.Up, order.Unknown},
	{order.Unknown, order.Down},
	{order.Down, order.Down},
}

func v10fExecSched(sched int) {
	verif.Schedules(sched)
	verif.Races(true)
	style := verif.Choose("style", 3) // inner, left, anti
	ndirs := len(v10fSchedDirs)
	if sched > 1 {
		ndirs = 4
	}
	dirs := v10fSchedDirs[verif.Choose("dirs", ndirs)]
	split := 3 * verif.Choose("split", 2) // every input in one batch, or one batch per record
	pat := v10fSchedKeys[verif.Choose("keys", len(v10fSchedKeys))]
	// the join's order (as New decides it)
	joinDown := dirs[0] == order.Down || dirs[0] == order.Unknown && dirs[1] == order.Down
	var keys [2][2]v10fKey
	for side := 0; side < 2; side++ {
		// a declared input is delivered in that order (down: reversed, nulls
		// first); an undeclared one against the join's order, so the sort
		// New inserts has to move both records
		down := dirs[side] == order.Down || dirs[side] == order.Unknown && !joinDown
		for i := 0; i < 2; i++ {
			k := pat[side][i]
			if down {
				k = pat[side][1-i]
			}
			if k == 0 {
				keys[side][i] = v10fKey{null: true, x: 2, k: 1}
			} else {
				keys[side][i] = v10fKey{x: byte(2 * k), k: k}
			}
		}
	}
	v10fJoin(style, dirs, split, keys[0], keys[1])
}

// verif:desc C10-O8s the join operator, styles INNER, LEFT and ANTI, same run and same assertions as VerifH_C10_O8_join_exec_inner/_left/_anti (the output multiset is the nested-loop join under the language's ==, no error, EOS), under EVERY goroutine schedule with at most 1 preemption (thorough tier: 2) at the channel operations, selects, closes, lock/once/WaitGroup operations and goroutine starts of the real join.Op.Pull/puller.run/Read code and of the sort operators join.New inserts (sort.Op.Pull/run/sendResult), with a bounded free choice of which runnable goroutine continues: up to 5 goroutines (consumer, two join pullers, two sorts); the result does not depend on how they interleave
// verif:bounds left 2 records, right 2 records, concrete keys: left 1,2 / right 2,2, or left 3,null / right 3,null (Choose); declared directions (left,right) in {(up,up) no sort, (?,?) two sorts, (up,?), (?,down), (down,down)} (thorough tier: the first four), a declared input delivered in that order, an undeclared one in the opposite of the join's order; both inputs in one batch or both in one batch per record; preemption bound 1 (thorough: 2)
// verif:outside as VerifH_C10_O8_join_exec_inner except that schedules are explored up to the bound; symbolic keys and the other direction/split combinations (VerifH_C10_O8_join_exec_*); field loads/stores are not preemption points (data-race freedom between sync points is assumed)
func VerifH_C10_O8s_join_schedules() {
	if verif.Thorough() {
		v10fExecSched(2)
	} else {
		v10fExecSched(1)
	}
}
