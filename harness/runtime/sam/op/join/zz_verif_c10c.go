//go:build verif

package join

import (
	"github.com/brimdata/super/runtime/sam/expr"
	"github.com/brimdata/super/zbuf"
)

// Accessors for the plan obligations of package compiler/kernel
// (VerifH_C10_O4_join_plan): nothing here changes the operator, it only
// unwraps what join.New stored in unexported fields.

// VerifPlan returns the puller consumed as the left and as the right input
// (below the goroutine/peeker wrappers), the key evaluators applied to each,
// the anti/inner flags and the comparison function of the merge join.
func VerifPlan(o *Op) (left, right zbuf.Puller, leftKey, rightKey expr.Evaluator, anti, inner bool, compare expr.CompareFn) {
	left = o.left.op
	if p, ok := o.right.Reader.(*puller); ok {
		right = p.op
	}
	return left, right, o.getLeftKey, o.getRightKey, o.anti, o.inner, o.compare
}
