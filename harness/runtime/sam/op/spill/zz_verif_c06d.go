//go:build verif

package spill

import (
	"context"
	"errors"
	"io/fs"
	"os"
	"path/filepath"
	"strconv"

	"github.com/brimdata/super"
	"github.com/brimdata/super/internal/verif"
	"github.com/brimdata/super/order"
	"github.com/brimdata/super/runtime/sam/expr"
)

// Every value is the int64 key<<4 | id: the sort key is the high part
// (symbolic, 0..3: ties within and across runs exist), the low part is a
// concrete identity = position in the concatenation of the runs.
type vC06dKeyEval struct{}

func (vC06dKeyEval) Eval(_ expr.Context, val zed.Value) zed.Value {
	return zed.NewInt64(val.Int() >> 4)
}

// run lengths; the quick tier takes the first four
var vC06dShapes = [][]int{{1, 1}, {2, 1}, {1, 2}, {1, 1, 1}, {2, 2}, {2, 1, 1}, {1, 2, 1}}

const vC06dQuickShapes = 4

func vC06dGone(path string) bool {
	_, err := os.Stat(path)
	return errors.Is(err, fs.ErrNotExist)
}

// verif:desc C06-O6 external merge sort through the real spill.MergeSort: NewMergeSort, Spill (Comparator.SortStableReader, newPeeker -> spill.File: zngio.Writer -> temp file -> Rewind -> zngio.Reader, heap.Push), Read until end (peeker.read, heap.Fix/Pop, CloseAndRemove of an exhausted run), Cleanup.  Asserted: no error; the output is the STABLE sort of the concatenated runs: every value exactly once with its key, keys non-decreasing under the comparator, equal keys in (run, position-in-run) order; SpillSize is the sum of the run files' sizes; every run file exists after its Spill, an exhausted run's file is gone, and after Cleanup (called after all, or after only the first k values were read) no run file and no temp directory is left.
// verif:bounds runs of lengths {1,1}, {2,1}, {1,2} or {1,1,1} (at most 3 values); key = symbolic 0..3 per value, NOT assumed pre-sorted within a run (Spill sorts its run); ascending or descending comparator (nullsMax=true); Cleanup after reading everything or after 0..1 values; the temp files are the engine's in-memory model, which never fails (natively: real files)
// verif:outside I/O errors of the spill files (C18); null/mixed-type keys (C06-O1..O5); cancellation (ctx is Background); more than 3 runs / 2 values per run; multi-frame run files
// verif:unwind 64
func VerifH_C06_O6_spill_mergesort() {
	vC06dMergeSort(vC06dShapes[:vC06dQuickShapes])
}

// verif:desc C06-O6t as O6_spill_mergesort with up to 4 values: runs of lengths {2,2}, {2,1,1}, {1,2,1} in addition
// verif:bounds as O6_spill_mergesort, run lengths {1,1}, {2,1}, {1,2}, {1,1,1}, {2,2}, {2,1,1}, {1,2,1}
// verif:outside as O6_spill_mergesort
// verif:tier thorough
// verif:unwind 64
func VerifH_C06_O6t_spill_mergesort4() {
	vC06dMergeSort(vC06dShapes)
}

func vC06dMergeSort(shapes [][]int) {
	shape := shapes[verif.Choose("shape", len(shapes))]
	desc := verif.Choose("desc", 2) == 1
	c := expr.NewComparator(true, expr.SortEvaluator{Evaluator: vC06dKeyEval{}, Order: order.Which(desc)})
	ms, err := NewMergeSort(c)
	verif.Assert(err == nil && ms != nil, "new-noerr")
	if err != nil {
		return
	}
	ctx := context.Background()
	var keys []int64
	var sizes int64
	for r, n := range shape {
		run := make([]zed.Value, n)
		for i := range run {
			k := int64(verif.Uint8("k"+strconv.Itoa(len(keys))) & 3)
			run[i] = zed.NewInt64(k<<4 | int64(len(keys)))
			keys = append(keys, k)
		}
		verif.Assert(ms.Spill(ctx, run) == nil, "spill-noerr")
		fi, err := os.Stat(filepath.Join(ms.tempDir, strconv.Itoa(r)))
		verif.Assert(err == nil, "run-file-exists")
		if err == nil {
			sizes += fi.Size()
		}
	}
	verif.Assert(ms.SpillSize() == sizes && sizes > 0, "spill-size")
	total := len(keys)
	// read everything, or stop early and let Cleanup deal with the open runs
	nread := total
	if stop := verif.Choose("stop", 3); stop < 2 {
		nread = stop
		verif.Reach("cleanup-with-open-runs")
	}
	var outs []int64
	for i := 0; i < nread; i++ {
		p, err := ms.Peek()
		verif.Assert(err == nil && p != nil, "peek-noerr")
		v, err := ms.Read()
		verif.Assert(err == nil, "read-noerr")
		verif.Assert(v != nil, "read-value-present")
		if err != nil || v == nil {
			return
		}
		verif.Assert(v.Type() == zed.TypeInt64, "type-preserved")
		outs = append(outs, v.Int())
	}
	if nread == total {
		v, err := ms.Read()
		verif.Assert(err == nil && v == nil, "eos-after-last")
		p, err := ms.Peek()
		verif.Assert(err == nil && p == nil, "eos-after-last")
		for r := range shape {
			verif.Assert(vC06dGone(filepath.Join(ms.tempDir, strconv.Itoa(r))), "exhausted-run-removed")
		}
	}
	// every value exactly once (ids are concrete), with the key it was given
	seen := 0
	for _, o := range outs {
		id := int(o & 15)
		verif.Assert(id < total && seen&(1<<uint(id)) == 0, "every-value-at-most-once")
		if id >= total {
			return
		}
		seen |= 1 << uint(id)
		verif.Assert(o>>4 == keys[id], "key-preserved")
	}
	if nread == total {
		verif.Assert(seen == 1<<uint(total)-1, "every-value-exactly-once")
	}
	// sorted, and stable: equal keys come out in input (run, position) order
	for i := 0; i+1 < len(outs); i++ {
		a, b := outs[i], outs[i+1]
		if desc {
			verif.Assert(a>>4 >= b>>4, "output-sorted")
		} else {
			verif.Assert(a>>4 <= b>>4, "output-sorted")
		}
		if a>>4 == b>>4 {
			verif.Assert(a&15 < b&15, "stable-across-and-within-runs")
			verif.Reach("tie")
		}
	}
	// a prefix of the merge is a prefix of the full sort: nothing not yet read
	// sorts strictly before the last value read
	if nread == 1 && len(outs) == 1 {
		for id, k := range keys {
			if id == int(outs[0]&15) {
				continue
			}
			if desc {
				verif.Assert(k <= outs[0]>>4, "first-is-least")
			} else {
				verif.Assert(k >= outs[0]>>4, "first-is-least")
			}
			if k == outs[0]>>4 {
				verif.Assert(id > int(outs[0]&15), "first-is-least")
			}
		}
	}
	dir := ms.tempDir
	ms.Cleanup()
	for r := range shape {
		verif.Assert(vC06dGone(filepath.Join(dir, strconv.Itoa(r))), "cleanup-removes-run-files")
	}
	verif.Assert(vC06dGone(dir), "cleanup-removes-temp-dir")
	verif.Reach("end")
}
