//go:build verif

package spill

import (
	"container/heap"

	"github.com/brimdata/super"
	"github.com/brimdata/super/internal/verif"
	"github.com/brimdata/super/order"
	"github.com/brimdata/super/runtime/sam/expr"
)

// vC06Key is a symbolic sort key: int64, uint64 or a null.
func vC06Key(name string) zed.Value {
	switch verif.Choose(name+".kind", 3) {
	case 0:
		return zed.NewInt64(verif.Int64(name + ".i64"))
	case 1:
		return zed.NewUint64(verif.Uint64(name + ".u64"))
	}
	return zed.NullInt64
}

// verif:desc C06-O5 spill.MergeSort.Less (the k-way merge frontier of the spilled sort) is exactly the lexicographic order on (Comparator.Compare of the runs' next records, run ordinal): equal keys are ordered by run ordinal (stability across spills), Less is irreflexive, asymmetric, total on distinct ordinals and transitive; after heap.Init over three runs the frontier head runs[0] is the least run.
// verif:bounds 3 runs; next record = int64 | uint64 | null(int64) with any payload; ordinals symbolic, pairwise distinct, 0..7; 1 key (this), asc/desc and nullsMax symbolic
// verif:outside the spill files themselves (peeker.read, zngio round trip), Spill/Read/Cleanup I/O, goroutines
func VerifH_C06_O5_mergesort_less() {
	c := expr.NewComparator(verif.Bool("nullsMax"), expr.SortEvaluator{Evaluator: &expr.This{}, Order: order.Which(verif.Bool("desc"))})
	vals := make([]zed.Value, 3)
	ords := make([]int, 3)
	r := &MergeSort{comparator: c}
	for i, name := range []string{"r0", "r1", "r2"} {
		vals[i] = vC06Key(name)
		ords[i] = int(verif.Uint8(name+".ordinal") & 7)
		r.runs = append(r.runs, &peeker{nextRecord: &vals[i], ordinal: ords[i]})
	}
	verif.Assume(ords[0] != ords[1] && ords[0] != ords[2] && ords[1] != ords[2])
	less := func(i, j int) bool { return r.Less(i, j) }
	// specification: (key, ordinal) lexicographic
	for _, p := range [][2]int{{0, 1}, {1, 0}, {1, 2}, {0, 2}} {
		i, j := p[0], p[1]
		v := c.Compare(vals[i], vals[j])
		want := v < 0
		if v == 0 {
			want = ords[i] < ords[j]
			verif.Reach("tie")
		}
		verif.Assert(less(i, j) == want, "less-is-key-then-ordinal")
	}
	verif.Assert(!less(0, 0), "irreflexive")
	verif.Assert(less(0, 1) != less(1, 0), "total-and-asymmetric")
	if less(0, 1) && less(1, 2) {
		verif.Assert(less(0, 2), "transitive")
	}
	heap.Init(r)
	verif.Assert(r.Len() == 3, "heap-keeps-runs")
	verif.Assert(!r.Less(1, 0) && !r.Less(2, 0), "heap-head-is-least")
	verif.Reach("end")
}
