//go:build verif

package combine

import (
	"context"
	"errors"
	"sync/atomic"

	"github.com/brimdata/super"
	"github.com/brimdata/super/internal/verif"
	"github.com/brimdata/super/runtime"
	"github.com/brimdata/super/zbuf"
)

var errV08f = errors.New("v08f: upstream failure")

// v08fParent is a model scan leg: it delivers the batches of its streams,
// an end of stream (nil) after each stream, and end of stream forever once
// they are used up; its failAt-th Pull (0-based; -1 never) returns an error
// instead.  Only the combiner's puller goroutine of this leg calls Pull;
// eos (the number of ends of stream delivered so far) is read by the harness.
type v08fParent struct {
	streams [][][]zed.Value
	s, b    int
	calls   int
	failAt  int
	eos     int32
}

func (p *v08fParent) Pull(done bool) (zbuf.Batch, error) {
	n := p.calls
	p.calls++
	if n == p.failAt {
		return nil, errV08f
	}
	if p.s >= len(p.streams) {
		atomic.AddInt32(&p.eos, 1)
		return nil, nil
	}
	if p.b >= len(p.streams[p.s]) {
		p.s++
		p.b = 0
		atomic.AddInt32(&p.eos, 1)
		return nil, nil
	}
	vals := p.streams[p.s][p.b]
	p.b++
	return zbuf.NewArray(vals), nil
}

// v08fShapes[cfg][round][parent] = batch sizes delivered before the end of stream
var v08fShapes = [][][][]int{
	{
		{{1, 2}, {2}},
		{{1}, {1, 1}},
	},
	{
		{{2}, {}, {1, 1}},
		{{1}, {1}, {}},
	},
	{
		{{1}, {1, 0}, {2}},
		{{}, {2}, {1}},
	},
}

// verif:desc C08-O4 the combine OPERATOR (fan-in of parallel legs when no order is needed) executed with its real pullers (combine.New, Op.Pull/next/block/unwait, puller.run/wait goroutines, the queue and wait channels, op.Catcher) over 2-3 model legs: (a) without failures, pulling until EOS returns every value the legs delivered in this round exactly once and unchanged, nothing of the next round, and EOS only once EVERY leg has delivered its end of stream for the round; after the EOS the next round works the same way (platoon restart through unwait); (b) when one leg's Pull fails, combine.Pull returns that error (after at most all the batches of the round, never an EOS first) and no value was delivered twice.
// verif:bounds 3 shapes: 2-3 legs x 2 rounds, per leg and round 0-2 batches of 0-2 values (a leg immediately at EOS, an empty batch last); values int64 with a symbolic payload byte and a concrete tag; failure: none, or leg f in 0..2 at its Pull number 0..2 (Choose)
// verif:outside Pull(done=true)/propagateDone (errgroup), context cancellation, what the operator does after it returned an error; one deterministic goroutine schedule in the engine (the asserted facts do not depend on the schedule; the native replay runs the real goroutines)
func VerifH_C08_O4_combine_exec() { v08fCombine(0) }

// verif:desc C08-O4s the same combine operator run and the same assertions under EVERY goroutine schedule with at most 1 preemption (thorough tier: 2) at the channel operations, selects, closes, atomics, lock operations and goroutine starts of the real puller/wait code, with a free choice of which runnable goroutine continues whenever one blocks or exits: results do not depend on the schedule
// verif:bounds as VerifH_C08_O4_combine_exec; preemption bound 1 (thorough: 2)
// verif:outside as VerifH_C08_O4_combine_exec, except that the schedule is explored up to the preemption bound; field loads/stores are not preemption points (data-race freedom between sync points is assumed)
func VerifH_C08_O4s_combine_schedules() {
	if verif.Thorough() {
		v08fCombine(2)
	} else {
		v08fCombine(1)
	}
}

func v08fCombine(sched int) {
	if sched > 0 {
		verif.Schedules(sched)
		verif.Races(true)
	} else {
		verif.Goroutines(true)
	}
	zctx := zed.NewContext()
	shape := v08fShapes[verif.Choose("shape", len(v08fShapes))]
	nlegs := len(shape[0])
	failLeg, failAt := -1, -1
	if f := verif.Choose("fail", 1+3*3); f > 0 {
		failLeg, failAt = (f-1)/3, (f-1)%3
		if failLeg >= nlegs {
			return
		}
	}
	const maxTags = 16
	var payload [maxTags]byte
	var roundOf [maxTags]int
	tag := 0
	nbatches := 0
	legs := make([]*v08fParent, nlegs)
	parents := make([]zbuf.Puller, nlegs)
	for l := 0; l < nlegs; l++ {
		mp := &v08fParent{failAt: -1}
		if l == failLeg {
			mp.failAt = failAt
		}
		for r := range shape {
			var stream [][]zed.Value
			for _, n := range shape[r][l] {
				vals := make([]zed.Value, 0, n)
				for i := 0; i < n; i++ {
					var x byte
					if sched > 0 {
						// schedules are the quantifier here: concrete payloads
						x = byte(17*tag + 3)
					} else {
						x = verif.Byte("x" + string(rune('a'+tag)))
					}
					// int64 value = payload<<8 | tag
					vals = append(vals, zed.NewInt64(int64(x)<<8|int64(tag)))
					payload[tag], roundOf[tag] = x, r
					tag++
				}
				stream = append(stream, vals)
				nbatches++
			}
			mp.streams = append(mp.streams, stream)
		}
		legs[l], parents[l] = mp, mp
	}
	ntags := tag
	rctx := runtime.NewContext(context.Background(), zctx)
	defer rctx.Cancel()
	o := New(rctx, parents)
	var seen [maxTags]int
	for r := range shape {
		eos := false
		for i := 0; i < nbatches+2; i++ {
			batch, err := o.Pull(false)
			if failLeg >= 0 {
				if err != nil {
					verif.Assert(err == errV08f, "the-legs-error-is-returned")
					for t := 0; t < ntags; t++ {
						verif.Assert(seen[t] <= 1, "no-value-twice-before-the-error")
					}
					verif.Reach("error-returned")
					return
				}
			} else {
				verif.Assert(err == nil, "pull-no-error")
				if err != nil {
					return
				}
			}
			if batch == nil {
				eos = true
				break
			}
			for _, v := range batch.Values() {
				ok := v.Type() == zed.TypeInt64
				verif.Assert(ok, "value-well-formed")
				if !ok {
					return
				}
				n := v.Int()
				t := int(n & 0xff)
				ok = t < ntags
				verif.Assert(ok, "value-well-formed")
				if !ok {
					return
				}
				verif.Assert(byte(n>>8) == payload[t] && n>>16 == 0, "value-unchanged")
				seen[t]++
			}
		}
		if failLeg >= 0 {
			// a leg whose failing Pull lies in this round or earlier: the
			// error must have come back instead of this EOS
			pullsSoFar := 0 // Pull calls leg failLeg needs to finish rounds 0..r
			for q := 0; q <= r; q++ {
				pullsSoFar += len(shape[q][failLeg]) + 1
			}
			if failAt < pullsSoFar {
				verif.Assert(false, "the-legs-error-is-returned")
				return
			}
		}
		verif.Assert(eos, "terminates")
		if !eos {
			return
		}
		for l := 0; l < nlegs; l++ {
			verif.Assert(int(atomic.LoadInt32(&legs[l].eos)) >= r+1, "eos-only-after-every-leg-is-at-eos")
		}
		for t := 0; t < ntags; t++ {
			want := 0
			if roundOf[t] <= r {
				want = 1
			}
			if r == 0 {
				verif.Assert(seen[t] == want, "every-value-exactly-once/first-round")
			} else {
				verif.Assert(seen[t] == want, "every-value-exactly-once/after-restart")
			}
		}
	}
	verif.Reach("end")
}
