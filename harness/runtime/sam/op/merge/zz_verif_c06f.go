//go:build verif

package merge

import (
	"context"

	"github.com/brimdata/super"
	"github.com/brimdata/super/internal/verif"
	"github.com/brimdata/super/order"
	"github.com/brimdata/super/pkg/field"
	"github.com/brimdata/super/runtime/sam/expr"
	"github.com/brimdata/super/zbuf"
	"github.com/brimdata/super/zcode"
)

// v06fParent is a model upstream delivering a fixed sequence of streams: the
// batches of a stream, then end of stream (nil), then the next stream; once
// all streams are delivered every Pull answers end of stream.  Only the
// merge's puller goroutine of this parent calls it.
type v06fParent struct {
	streams [][][]zed.Value
	s, b    int
}

func (p *v06fParent) Pull(done bool) (zbuf.Batch, error) {
	if p.s >= len(p.streams) {
		return nil, nil
	}
	if p.b >= len(p.streams[p.s]) {
		p.s++
		p.b = 0
		return nil, nil
	}
	vals := p.streams[p.s][p.b]
	p.b++
	return zbuf.NewArray(vals), nil
}

// v06fShapes[cfg][round][parent] = sizes of the batches the parent delivers
// in that round before its end of stream (0 = an empty non-nil batch, no
// entry = the parent is at end of stream immediately).
var v06fShapes = [][][][]int{
	{ // three parents; an empty batch first; a parent with nothing in round 1
		{{2}, {0, 1}, {}},
		{{1}, {1, 1}, {1}},
	},
	{ // three parents; a parent with nothing in round 2; an empty batch last
		{{1, 1}, {1}, {}},
		{{}, {2}, {1, 0}},
	},
	{ // two parents; an empty batch between two values
		{{1, 0, 1}, {2}},
		{{1}, {1}},
	},
	{ // three parents, five values: a heap of three with two-value batches
		{{2}, {2}, {1}},
		{{1}, {}, {2}},
	},
}

// verif:desc C06-O8 the merge OPERATOR executed with its real pullers (merge.New, Op.Pull/run/start/Read/Less + container/heap, puller.run/replenish goroutines over unbuffered channels, op.Catcher) over 2-3 model parents, with the comparator compiler/kernel builds for `merge k`: pulling until EOS yields, without error, every value the parents delivered in this round exactly once (values are tagged), in key order (non-decreasing for asc, non-increasing for desc), each parent's values in the order it delivered them, and the pull sequence terminates with EOS; after that EOS the operator restarts (start() after EOS) and the SECOND round delivers the parents' next streams the same way.
// verif:bounds 4 shapes (2-3 parents x 2 rounds; per parent and round 0-3 batches of 0-2 values: includes an empty non-nil batch first/between/last, a parent immediately at EOS in round 1 resp. round 2); <= 5 values per round; keys int64 symbolic in 1..127 (one-byte body, ties possible), order asc or desc (Choose), each parent's stream sorted that way (assumed); comparator expr.NewComparator(nullsMax=true, k asc|desc).WithMissingAsNull()
// verif:outside Pull(done=true)/propagateDone, upstream errors, null/missing keys (the comparator itself: C06-O1..O3), value-at-a-time Read mixed with Pull (C06-O4); one deterministic goroutine schedule
func VerifH_C06_O8_merge_exec() { v06fMerge(0) }

// verif:desc C08-O5s the merge operator that re-joins ordered parallel legs, same run and same assertions as VerifH_C06_O8_merge_exec, under EVERY goroutine schedule with at most 1 preemption (thorough tier: 2) at the channel operations, selects, closes, lock operations and goroutine starts of the real Op.run/puller.run/replenish code, with a bounded free choice of which runnable goroutine continues: the merged output (complete, exactly once, key order, per-leg order, EOS, restart) does not depend on the schedule
// verif:bounds shapes as VerifH_C06_O8_merge_exec; keys concrete: all equal (every comparison a tie) or strictly monotone per leg with ties across legs (Choose); asc/desc; preemption bound 1 (thorough: 2)
// verif:outside as VerifH_C06_O8_merge_exec except that schedules are explored up to the bound; symbolic keys (VerifH_C06_O8_merge_exec); field loads/stores are not preemption points (data-race freedom between sync points is assumed)
func VerifH_C08_O5s_merge_schedules() {
	if verif.Thorough() {
		v06fMerge(2)
	} else {
		v06fMerge(1)
	}
}

func v06fMerge(sched int) {
	keys := 0
	if sched > 0 {
		verif.Schedules(sched)
		verif.Races(true)
		keys = verif.Choose("keys", 2)
	} else {
		verif.Goroutines(true)
	}
	zctx := zed.NewContext()
	rt := zctx.MustLookupTypeRecord([]zed.Field{
		zed.NewField("k", zed.TypeInt64),
		zed.NewField("t", zed.TypeInt64),
	})
	shape := v06fShapes[verif.Choose("shape", len(v06fShapes))]
	desc := verif.Choose("desc", 2) == 1
	nparents := len(shape[0])
	// build the parents' streams
	const maxTags = 16
	var keyByte [maxTags]byte
	var parentOf, roundOf [maxTags]int
	tag := 0
	parents := make([]zbuf.Puller, nparents)
	for p := 0; p < nparents; p++ {
		mp := &v06fParent{}
		for r := range shape {
			var stream [][]zed.Value
			var last byte
			first := true
			for _, n := range shape[r][p] {
				vals := make([]zed.Value, 0, n)
				for i := 0; i < n; i++ {
					var x byte
					if sched > 0 {
						// schedules are the quantifier: concrete keys
						x = 2
						if keys == 1 {
							switch {
							case first && desc:
								x = 18
							case first:
								x = 2
							case desc:
								x = last - 2
							default:
								x = last + 2
							}
						}
					} else {
						x = verif.Byte("k" + string(rune('a'+tag)))
					}
					verif.Assume(x != 0)
					verif.Assume(x&1 == 0) // int64 1..127
					// the parent's stream is sorted as the merge is ordered
					if desc {
						verif.Assume(first || last >= x)
					} else {
						verif.Assume(first || last <= x)
					}
					last, first = x, false
					var b zcode.Builder
					b.Append(zcode.Bytes{x})
					b.Append(zcode.Bytes{byte(tag) << 1})
					vals = append(vals, zed.NewValue(rt, b.Bytes()))
					keyByte[tag], parentOf[tag], roundOf[tag] = x, p, r
					tag++
				}
				stream = append(stream, vals)
			}
			mp.streams = append(mp.streams, stream)
		}
		parents[p] = mp
	}
	ntags := tag
	ctx, cancel := context.WithCancel(context.Background())
	defer cancel()
	// as compiler/kernel compiles dag.Merge
	e := expr.NewDottedExpr(zctx, field.Path{"k"})
	cmp := expr.NewComparator(true, expr.NewSortEvaluator(e, order.Which(desc))).WithMissingAsNull()
	o := New(ctx, parents, cmp.Compare, expr.Resetters{})
	for r := range shape {
		var tags []int
		eos := false
		for i := 0; i < 8; i++ {
			batch, err := o.Pull(false)
			verif.Assert(err == nil, "pull-no-error")
			if err != nil {
				return
			}
			if batch == nil {
				eos = true
				break
			}
			for _, v := range batch.Values() {
				kv, tv := v.DerefByColumn(0), v.DerefByColumn(1)
				ok := v.Type() == zed.Type(rt) && kv != nil && tv != nil && len(kv.Bytes()) == 1 && len(tv.Bytes()) == 1
				verif.Assert(ok, "value-well-formed")
				if !ok {
					return
				}
				t := int(tv.Bytes()[0] >> 1)
				ok = t < ntags
				verif.Assert(ok, "value-well-formed")
				if !ok {
					return
				}
				verif.Assert(kv.Bytes()[0] == keyByte[t], "value-unchanged")
				tags = append(tags, t)
			}
		}
		verif.Assert(eos, "terminates")
		if !eos {
			return
		}
		// every value of this round exactly once, nothing else
		want := 0
		for t := 0; t < ntags; t++ {
			if roundOf[t] == r {
				want++
			}
		}
		var seen [maxTags]int
		for _, t := range tags {
			seen[t]++
		}
		exactlyOnce := len(tags) == want
		for t := 0; t < ntags; t++ {
			if roundOf[t] == r && seen[t] != 1 || roundOf[t] != r && seen[t] != 0 {
				exactlyOnce = false
			}
		}
		id := "/first-round"
		if r > 0 {
			id = "/after-restart"
		}
		verif.Assert(exactlyOnce, "every-value-exactly-once"+id)
		for i := 0; i+1 < len(tags); i++ {
			a, b := tags[i], tags[i+1]
			if desc {
				verif.Assert(keyByte[a] >= keyByte[b], "merged-output-sorted"+id)
			} else {
				verif.Assert(keyByte[a] <= keyByte[b], "merged-output-sorted"+id)
			}
		}
		// an interleaving: each parent's values keep the order it delivered them in
		inOrder := true
		for i := 0; i < len(tags); i++ {
			for j := i + 1; j < len(tags); j++ {
				if parentOf[tags[i]] == parentOf[tags[j]] && tags[i] > tags[j] {
					inOrder = false
				}
			}
		}
		verif.Assert(inOrder, "each-input-keeps-its-order"+id)
		verif.Observe("n", len(tags))
	}
	verif.Reach("end")
}
