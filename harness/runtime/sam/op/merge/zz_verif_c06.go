//go:build verif

package merge

import (
	"context"

	"github.com/brimdata/super"
	"github.com/brimdata/super/internal/verif"
	"github.com/brimdata/super/runtime/sam/expr"
	"github.com/brimdata/super/runtime/sam/op"
	"github.com/brimdata/super/zbuf"
)

type vC06Reset struct{}

func (vC06Reset) Reset() {}

// Every value is the int64 key<<4 | id: the merge key is the high part
// (symbolic, 0..7, so ties and every relative order of <= 8 values exist), the
// low part is a concrete identity used for the exactly-once bookkeeping.
type vC06KeyEval struct{}

func (vC06KeyEval) Eval(_ expr.Context, val zed.Value) zed.Value {
	return zed.NewInt64(val.Int() >> 4)
}

// batch-size sequences an upstream delivers before its EOS; 0 is an empty
// non-nil batch
var vC06Shapes = [][]int{
	{1}, {2}, {1, 1}, {2, 1}, {}, // 0..4: no empty batch
	{0, 1}, {1, 0}, // 5..6
}

const vC06NoEmpty = 5

type vC06Upstream struct {
	total    int
	mask     uint64
	hasEmpty bool
}

// vC06Parent builds one parent puller whose result channel already holds what
// its goroutine (puller.run, outside the model) would deliver: the batches of
// the chosen shape with symbolic non-decreasing keys, then EOS, then the EOS of
// the restarted stream.
func vC06Parent(ctx context.Context, name string, shape []int, nextID *int, up *vC06Upstream) *puller {
	p := &puller{ctx: ctx, resultCh: make(chan op.Result, len(shape)+2), doneCh: make(chan struct{})}
	var last int64
	first := true
	for _, n := range shape {
		vals := make([]zed.Value, n)
		for i := range vals {
			k := int64(verif.Uint8(name+".key") & 7)
			if !first {
				verif.Assume(last <= k) // each input is sorted
			}
			last, first = k, false
			id := *nextID
			*nextID++
			vals[i] = zed.NewInt64(k<<4 | int64(id))
			up.total++
			up.mask |= 1 << uint(id)
		}
		if n == 0 {
			up.hasEmpty = true
		}
		p.resultCh <- op.Result{Batch: zbuf.NewArray(vals)}
	}
	p.resultCh <- op.Result{}
	p.resultCh <- op.Result{}
	return p
}

func vC06Merge(shapeIdx []int, nreads int) {
	ctx := context.Background()
	up := &vC06Upstream{}
	nextID := 1
	var parents []*puller
	for i, s := range shapeIdx {
		parents = append(parents, vC06Parent(ctx, string(rune('a'+i)), vC06Shapes[s], &nextID, up))
	}
	cmp := expr.NewCompareFn(true, vC06KeyEval{})
	o := &Op{ctx: ctx, cmp: cmp, resetter: vC06Reset{}, parents: parents}
	var outs []zed.Value
	crashed := true
	func() {
		defer func() {
			if crashed {
				recover()
			}
		}()
		// Op.run minus the goroutine spawn: the upstream results are already queued
		var err error
		o.once.Do(func() { err = o.start() })
		verif.Assert(err == nil, "no-error")
		for i := 0; i < nreads; i++ {
			v, err := o.Read()
			verif.Assert(err == nil, "no-error")
			if v == nil {
				break
			}
			outs = append(outs, *v)
			verif.Reach("value-at-a-time")
		}
		eos := false
		for i := 0; i < 8 && !eos; i++ {
			b, err := o.Pull(false)
			verif.Assert(err == nil, "no-error")
			if b == nil {
				eos = true
				break
			}
			if len(b.Values()) == 0 {
				verif.Reach("empty-batch-forwarded")
			}
			outs = append(outs, b.Values()...)
		}
		verif.Assert(eos, "terminates")
		crashed = false
	}()
	if crashed {
		if up.hasEmpty {
			verif.Assert(false, "no-crash/empty-batch")
		} else {
			verif.Assert(false, "no-crash")
		}
		return
	}
	// every input value exactly once
	var mask uint64
	for _, v := range outs {
		mask |= 1 << uint(v.Int()&15)
	}
	verif.Assert(len(outs) == up.total, "every-value-exactly-once/count")
	verif.Assert(mask == up.mask, "every-value-exactly-once")
	// sorted interleaving
	for i := 0; i+1 < len(outs); i++ {
		verif.Assert(cmp(outs[i], outs[i+1]) <= 0, "merged-output-sorted")
	}
	verif.Observe("n", len(outs))
	verif.Reach("end")
}

// verif:desc C06-O4 merge.Op (start/Pull/Read/Less and the container/heap calls) over two sorted upstreams whose results are already queued in the pullers' channels: after 0..2 value-at-a-time Reads, pulling until EOS yields every input value exactly once, in non-decreasing key order, without error or panic.  A parent batch partially consumed by Read is then returned as a trimmed batch by Pull; the slow path of Pull drains through zbuf.NewPuller(o).
// verif:bounds 2 parents; upstream batch sequences {[1],[2],[1,1],[2,1],[]} x {[1],[2],[1,1],[2,1],[],[0,1],[1,0]} (sizes; 0 = empty non-nil batch); keys symbolic in 0..7 (ties possible), each upstream sorted; 0..2 Reads first; real comparator NewCompareFn(nullsMax=true) on the key
// verif:outside goroutines and channel blocking of puller.run/replenish (results are pre-queued in buffered channels), Pull(done=true)/propagateDone, upstream errors, more than 3 values per parent
func VerifH_C06_O4_merge_two() {
	a := verif.Choose("a.shape", vC06NoEmpty)
	b := verif.Choose("b.shape", len(vC06Shapes))
	vC06Merge([]int{a, b}, verif.Choose("nreads", 3))
}

// verif:desc C06-O4-three as O4 with three parents (heap of three: up/down with two children, Pull's fast path compares with the second-smallest head only).
// verif:bounds 3 parents; upstream batch sequences {[1],[2],[1,1]} for two of them and {[1],[2]} for the third; keys symbolic in 0..7, each upstream sorted; 0..1 Reads first
// verif:outside as O4; empty batches (O4)
// verif:tier thorough
func VerifH_C06_O4_merge_three() {
	a := verif.Choose("a.shape", 3)
	b := verif.Choose("b.shape", 3)
	c := verif.Choose("c.shape", 2)
	vC06Merge([]int{a, b, c}, verif.Choose("nreads", 2))
}
