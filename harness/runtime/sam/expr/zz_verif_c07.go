//go:build verif

package expr

import (
	"github.com/brimdata/super"
	"github.com/brimdata/super/internal/verif"
)

// C07-O1, evaluator half: the meaning of the `and` that optimizer.mergeFilters
// introduces, stated against sequential filtering (in-package: And, EvalBool
// and filterApplier are exercised directly, no operator plumbing).

const (
	v07xTrue = iota
	v07xFalse
	v07xNull
	v07xMissing
	v07xQuiet
	v07xErr
	v07xNonBool
	v07xNamedTrue
	v07xNamedFalse
	v07xN
)

// v07xPred is an opaque predicate with a fixed result that counts its evaluations.
type v07xPred struct {
	val   zed.Value
	calls int
}

func (p *v07xPred) Eval(Context, zed.Value) zed.Value {
	p.calls++
	return p.val
}

func v07xOutcome(zctx *zed.Context, name string) (int, zed.Value) {
	oc := verif.Choose(name, v07xN)
	switch oc {
	case v07xTrue:
		return oc, zed.True
	case v07xFalse:
		return oc, zed.False
	case v07xNull:
		return oc, zed.NullBool
	case v07xMissing:
		return oc, zctx.Missing()
	case v07xQuiet:
		return oc, zctx.Quiet()
	case v07xErr:
		return oc, zed.NewValue(zctx.StringTypeError(), []byte("failed: "+name))
	case v07xNonBool:
		return oc, zed.NewInt64(7)
	}
	named, err := zctx.LookupTypeNamed("mybool", zed.TypeBool)
	if err != nil {
		panic(err)
	}
	return oc, zed.NewValue(named, zed.EncodeBool(oc == v07xNamedTrue))
}

// spec: does a `where P` keep the value when P has outcome oc?
func v07xKeeps(oc int) bool { return oc == v07xTrue || oc == v07xNamedTrue }

// spec: is outcome oc a Boolean (possibly null / named)?
func v07xIsBool(oc int) bool {
	switch oc {
	case v07xTrue, v07xFalse, v07xNull, v07xNamedTrue, v07xNamedFalse:
		return true
	}
	return false
}

// verif:desc C07-O1 (evaluator half) the real expr.And.Eval over two opaque predicates A,B with outcomes in {true,false,null,missing,quiet,error,non-bool,named true,named false}: (1) a value passes `where A and B` (real filterApplier returns the value itself) iff it passes `where A` and `where B`; the scanner-side pass test Type()==Bool && Bool() on the result of `and` agrees; (2) `and` is a plain Boolean (true/false) whenever A is a non-true Boolean or both are Booleans; (3) if A is not a Boolean the result is A's error (A itself when it is an error value, a wrapping error otherwise) and B is NOT evaluated; if A is true and B is not a Boolean the result is B's error; (4) B is evaluated exactly when A is a true Boolean, A exactly once.
// verif:bounds 9 outcome classes per predicate (81 combinations), one input value
// verif:outside predicates whose result depends on evaluation order (side effects); `or` and `not`
func VerifH_C07_O1_and_eval() {
	zctx := zed.NewContext()
	ocA, va := v07xOutcome(zctx, "A")
	ocB, vb := v07xOutcome(zctx, "B")
	a, b := &v07xPred{val: va}, &v07xPred{val: vb}
	this := zed.NewInt64(42)
	ectx := NewContext()
	and := NewLogicalAnd(zctx, a, b)
	res := and.Eval(ectx, this)
	verif.Assert(a.calls == 1, "lhs-evaluated-once")
	if v07xKeeps(ocA) {
		verif.Assert(b.calls == 1, "rhs-evaluated-iff-lhs-true")
	} else {
		verif.Assert(b.calls == 0, "rhs-evaluated-iff-lhs-true")
	}
	both := v07xKeeps(ocA) && v07xKeeps(ocB)
	// scanner-side pass test on the merged predicate
	scanPass := res.Type() == zed.TypeBool && res.Bool()
	verif.Assert(scanPass == both, "and-passes-iff-both-pass")
	// result classes
	switch {
	case !v07xIsBool(ocA):
		verif.Assert(res.IsError(), "non-boolean-lhs-yields-error")
		if va.IsError() {
			verif.Assert(res.Equal(va), "lhs-error-is-propagated-unchanged")
		}
		verif.Reach("lhs-not-boolean")
	case !v07xKeeps(ocA):
		verif.Assert(res.Equal(zed.False), "false-or-null-lhs-yields-false")
		verif.Reach("lhs-false")
	case !v07xIsBool(ocB):
		verif.Assert(res.IsError(), "non-boolean-rhs-yields-error")
		if vb.IsError() {
			verif.Assert(res.Equal(vb), "rhs-error-is-propagated-unchanged")
		}
		verif.Reach("rhs-not-boolean")
	case v07xKeeps(ocB):
		verif.Assert(res.Equal(zed.True), "true-and-true-is-true")
		verif.Reach("both-true")
	default:
		verif.Assert(res.Equal(zed.False), "true-and-false-is-false")
		verif.Reach("rhs-false")
	}
	// the filter operator's evaluator over the merged predicate vs over A then B
	a2, b2 := &v07xPred{val: va}, &v07xPred{val: vb}
	merged := NewFilterApplier(zctx, NewLogicalAnd(zctx, a2, b2)).Eval(ectx, this)
	passMerged := !merged.IsError() && merged.Equal(this)
	first := NewFilterApplier(zctx, &v07xPred{val: va}).Eval(ectx, this)
	passSeq := false
	if !first.IsError() && first.Equal(this) {
		second := NewFilterApplier(zctx, &v07xPred{val: vb}).Eval(ectx, first)
		passSeq = !second.IsError() && second.Equal(this)
	}
	verif.Assert(passMerged == passSeq, "value-passes-merged-iff-passes-chain")
	verif.Assert(passMerged == both, "value-passes-iff-both-true")
	if !passMerged {
		// what is not passed is either silently dropped (missing) or an error value
		verif.Assert(merged.IsError(), "rejected-value-becomes-error-or-missing")
	}
	verif.Reach("end")
}
