//go:build verif

package expr

import (
	"github.com/brimdata/super"
	"github.com/brimdata/super/internal/verif"
	"github.com/brimdata/super/order"
	"github.com/brimdata/super/pkg/nano"
)

// ---------------------------------------------------------------------------
// symbolic primitive values
// ---------------------------------------------------------------------------

const (
	vC06Uint8 = iota
	vC06Uint64
	vC06Int8
	vC06Int64
	vC06Duration
	vC06Time
	vC06Float32
	vC06Float64
	vC06Bool
	vC06String // one symbolic byte
	vC06Null   // zed.Null (type null)
	vC06NKinds
)

// the quick tier uses one or two representatives of every class the comparator
// distinguishes (unsigned, signed, float, bool, other primitive, null type)
var vC06QuickKinds = []int{vC06Uint64, vC06Int64, vC06Time, vC06Float64, vC06Bool, vC06String, vC06Null}

type vC06Val struct {
	kind int
	null bool
	val  zed.Value
	// class and payload, for the region split and the observations
	isUint, isInt, isFloat bool
	u                      uint64
	i                      int64
}

func vC06Type(kind int) zed.Type {
	switch kind {
	case vC06Uint8:
		return zed.TypeUint8
	case vC06Uint64:
		return zed.TypeUint64
	case vC06Int8:
		return zed.TypeInt8
	case vC06Int64:
		return zed.TypeInt64
	case vC06Duration:
		return zed.TypeDuration
	case vC06Time:
		return zed.TypeTime
	case vC06Float32:
		return zed.TypeFloat32
	case vC06Float64:
		return zed.TypeFloat64
	case vC06Bool:
		return zed.TypeBool
	case vC06String:
		return zed.TypeString
	}
	return zed.TypeNull
}

// vC06Sym returns a symbolic value of the given kind; typed kinds may be null.
func vC06Sym(name string, kind int) vC06Val {
	r := vC06Val{kind: kind}
	if kind == vC06Null {
		r.null = true
		r.val = zed.Null
		return r
	}
	if verif.Bool(name + ".null") {
		r.null = true
		r.val = zed.NewValue(vC06Type(kind), nil)
		return r
	}
	switch kind {
	case vC06Uint8:
		x := verif.Uint8(name + ".u8")
		r.isUint, r.u = true, uint64(x)
		r.val = zed.NewUint8(x)
	case vC06Uint64:
		x := verif.Uint64(name + ".u64")
		r.isUint, r.u = true, x
		r.val = zed.NewUint64(x)
	case vC06Int8:
		x := verif.Int8(name + ".i8")
		r.isInt, r.i = true, int64(x)
		r.val = zed.NewInt8(x)
	case vC06Int64:
		x := verif.Int64(name + ".i64")
		r.isInt, r.i = true, x
		r.val = zed.NewInt64(x)
	case vC06Duration:
		x := verif.Int64(name + ".dur")
		r.isInt, r.i = true, x
		r.val = zed.NewDuration(nano.Duration(x))
	case vC06Time:
		x := verif.Int64(name + ".ts")
		r.isInt, r.i = true, x
		r.val = zed.NewTime(nano.Ts(x))
	case vC06Float32:
		r.isFloat = true
		r.val = zed.NewFloat32(verif.Float32(name + ".f32"))
	case vC06Float64:
		r.isFloat = true
		r.val = zed.NewFloat64(verif.Float64(name + ".f64"))
	case vC06Bool:
		r.val = zed.NewBool(verif.Bool(name + ".b"))
	case vC06String:
		r.val = zed.NewString(verif.StringN(name+".s", 1))
	}
	return r
}

func vC06Pick(name string) vC06Val {
	if verif.Thorough() {
		return vC06Sym(name, verif.Choose(name+".kind", vC06NKinds))
	}
	return vC06Sym(name, vC06QuickKinds[verif.Choose(name+".kind", len(vC06QuickKinds))])
}

// bigInt: a non-null integer whose magnitude exceeds 2^53, i.e. one that
// float64() may round.
func (v vC06Val) bigInt() bool {
	if v.null {
		return false
	}
	if v.isUint {
		return v.u > 1<<53
	}
	if v.isInt {
		return v.i > 1<<53 || v.i < -(1<<53)
	}
	return false
}

func vC06Sgn(c int) int {
	if c < 0 {
		return -1
	}
	if c > 0 {
		return 1
	}
	return 0
}

// verif:desc C06-O1a expr.Comparator.Compare/compareValues/compareNumbers/zed.CompareTypes on two primitive values: reflexive (cmp(a,a)=0), antisymmetric (sgn cmp(a,b) = -sgn cmp(b,a)), and never panics; ascending and descending, nulls first and last.
// verif:bounds a,b: kind in {uint64,int64,time,float64,bool,string(1 byte),null-type} (thorough: also uint8,int8,duration,float32), each typed kind null or not, any 64-bit payload / any float bit pattern (NaN, Inf, -0 included); order and nullsMax symbolic
// verif:outside ip, net, type values, containers, records, unions, named types, errors; non-native (byte-encoded) primitive values
func VerifH_C06_O1_antisym() {
	a, b := vC06Pick("a"), vC06Pick("b")
	cmp := NewValueCompareFn(order.Which(verif.Bool("desc")), verif.Bool("nullsMax"))
	ab := cmp(a.val, b.val)
	ba := cmp(b.val, a.val)
	verif.Assert(vC06Sgn(ab) == -vC06Sgn(ba), "antisymmetric")
	verif.Assert(cmp(a.val, a.val) == 0, "reflexive")
	verif.Observe("ab", ab)
	verif.Observe("ba", ba)
	if a.isFloat != b.isFloat && !a.null && !b.null {
		verif.Reach("int-vs-float")
	}
	if a.isUint && b.isInt && !a.null && !b.null {
		verif.Reach("uint-vs-int")
	}
	if a.null != b.null {
		verif.Reach("null-vs-value")
	}
	verif.Reach("end")
}

// verif:desc C06-O1b transitivity of expr.Comparator.Compare on primitive values: cmp(a,b)<=0 and cmp(b,c)<=0 imply cmp(a,c)<=0.  The assertion id is split: `transitive/bigint-vs-float` when the triple mixes a float with an integer of magnitude > 2^53 (the integer is rounded by float64()), `transitive` everywhere else.
// verif:bounds a,b,c as in O1a (quick: 7 kinds, thorough: 11 kinds); ascending; nullsMax symbolic
// verif:outside as O1a; descending order (Compare only swaps the operands, covered by O1a)
func VerifH_C06_O1_transitive() {
	a, b, c := vC06Pick("a"), vC06Pick("b"), vC06Pick("c")
	cmp := NewValueCompareFn(order.Asc, verif.Bool("nullsMax"))
	verif.Assume(cmp(a.val, b.val) <= 0)
	verif.Assume(cmp(b.val, c.val) <= 0)
	ac := cmp(a.val, c.val)
	verif.Observe("ac", ac)
	if ac > 0 {
		anyFloat := (a.isFloat && !a.null) || (b.isFloat && !b.null) || (c.isFloat && !c.null)
		if anyFloat && (a.bigInt() || b.bigInt() || c.bigInt()) {
			verif.Assert(false, "transitive/bigint-vs-float")
		} else {
			verif.Assert(false, "transitive")
		}
	}
	verif.Reach("end")
}
