//go:build verif

package expr

import (
	"github.com/brimdata/super"
	"github.com/brimdata/super/internal/verif"
	"github.com/brimdata/super/order"
	"github.com/brimdata/super/pkg/nano"
	"github.com/brimdata/super/zcode"
)

// ---------------------------------------------------------------------------
// symbolic primitive values
// ---------------------------------------------------------------------------

const (
	vC06Uint8 = iota
	vC06Uint64
	vC06Int8
	vC06Int64
	vC06Duration
	vC06Time
	vC06Float32
	vC06Float64
	vC06Bool
	vC06String // one symbolic byte
	vC06Null   // zed.Null (type null)
	vC06NKinds
)

// the quick tier uses one or two representatives of every class the comparator
// distinguishes (unsigned, signed, float, bool, other primitive, null type)
var vC06QuickKinds = []int{vC06Uint64, vC06Int64, vC06Time, vC06Float64, vC06Bool, vC06String, vC06Null}

// kinds for the three-value transitivity harness; the comparator looks at
// IsNull before the type, so one null kind stands for nulls of every type
// (typed nulls are covered pairwise by O1a)
var (
	vC06TransQuick    = []int{vC06Uint64, vC06Int64, vC06Float64, vC06Bool, vC06String, vC06Null}
	vC06MixedQuick    = []int{vC06Int64, vC06Float64}
	vC06MixedThorough = []int{vC06Uint64, vC06Int64, vC06Float32, vC06Float64} // antisymmetry
	vC06MixedTransTh  = []int{vC06Uint64, vC06Int64, vC06Float64}              // transitivity
	vC06TransThorough = []int{vC06Uint8, vC06Uint64, vC06Int64, vC06Duration, vC06Time, vC06Float32, vC06Float64, vC06Bool, vC06String, vC06Null}
)

type vC06Val struct {
	kind int
	null bool
	val  zed.Value
	// class and payload, for the region split and the observations
	isUint, isInt, isFloat bool
	u                      uint64
	i                      int64
}

func vC06Type(kind int) zed.Type {
	switch kind {
	case vC06Uint8:
		return zed.TypeUint8
	case vC06Uint64:
		return zed.TypeUint64
	case vC06Int8:
		return zed.TypeInt8
	case vC06Int64:
		return zed.TypeInt64
	case vC06Duration:
		return zed.TypeDuration
	case vC06Time:
		return zed.TypeTime
	case vC06Float32:
		return zed.TypeFloat32
	case vC06Float64:
		return zed.TypeFloat64
	case vC06Bool:
		return zed.TypeBool
	case vC06String:
		return zed.TypeString
	}
	return zed.TypeNull
}

// vC06Sym returns a symbolic value of the given kind; typed kinds may be null.
func vC06Sym(name string, kind int, typedNulls bool) vC06Val {
	r := vC06Val{kind: kind}
	if kind == vC06Null {
		r.null = true
		r.val = zed.Null
		return r
	}
	if typedNulls && verif.Bool(name+".null") {
		r.null = true
		r.val = zed.NewValue(vC06Type(kind), nil)
		return r
	}
	switch kind {
	case vC06Uint8:
		x := verif.Uint8(name + ".u8")
		r.isUint, r.u = true, uint64(x)
		r.val = zed.NewUint8(x)
	case vC06Uint64:
		x := verif.Uint64(name + ".u64")
		r.isUint, r.u = true, x
		r.val = zed.NewUint64(x)
	case vC06Int8:
		x := verif.Int8(name + ".i8")
		r.isInt, r.i = true, int64(x)
		r.val = zed.NewInt8(x)
	case vC06Int64:
		x := verif.Int64(name + ".i64")
		r.isInt, r.i = true, x
		r.val = zed.NewInt64(x)
	case vC06Duration:
		x := verif.Int64(name + ".dur")
		r.isInt, r.i = true, x
		r.val = zed.NewDuration(nano.Duration(x))
	case vC06Time:
		x := verif.Int64(name + ".ts")
		r.isInt, r.i = true, x
		r.val = zed.NewTime(nano.Ts(x))
	case vC06Float32:
		r.isFloat = true
		r.val = zed.NewFloat32(verif.Float32(name + ".f32"))
	case vC06Float64:
		r.isFloat = true
		r.val = zed.NewFloat64(verif.Float64(name + ".f64"))
	case vC06Bool:
		r.val = zed.NewBool(verif.Bool(name + ".b"))
	case vC06String:
		r.val = zed.NewString(verif.StringN(name+".s", 1))
	}
	return r
}

func vC06Pick(name string, typedNulls bool) vC06Val {
	if verif.Thorough() {
		return vC06Sym(name, verif.Choose(name+".kind", vC06NKinds), typedNulls)
	}
	return vC06Sym(name, vC06QuickKinds[verif.Choose(name+".kind", len(vC06QuickKinds))], typedNulls)
}

// bigBits is nonzero iff v is a non-null integer whose magnitude exceeds 2^53,
// i.e. one that float64() may round.  Branch-free on purpose: the region of
// the known finding is then decided by one fork instead of six.
func (v vC06Val) bigBits() uint64 {
	if v.null || !(v.isUint || v.isInt) {
		return 0
	}
	m := v.u
	if v.isInt {
		s := v.i >> 63
		m = uint64((v.i ^ s) - s) // |i| (MinInt64 -> 2^63)
	}
	t := m >> 53
	low := m & (1<<53 - 1)
	return (t >> 1) | (t & ((low | -low) >> 63))
}

func vC06Mixed(vs ...vC06Val) bool {
	anyFloat, anyInt := false, false
	for _, v := range vs {
		switch v.kind {
		case vC06Float32, vC06Float64:
			anyFloat = true
		case vC06Uint8, vC06Uint64, vC06Int8, vC06Int64, vC06Duration, vC06Time:
			anyInt = true
		}
	}
	return anyFloat && anyInt
}

func vC06Antisym(a, b vC06Val) {
	cmp := NewValueCompareFn(order.Which(verif.Bool("desc")), verif.Bool("nullsMax"))
	ab := cmp(a.val, b.val)
	ba := cmp(b.val, a.val)
	verif.Assert((ab < 0) == (ba > 0), "antisymmetric")
	verif.Assert((ab == 0) == (ba == 0), "antisymmetric-eq")
	verif.Assert(cmp(a.val, a.val) == 0, "reflexive")
	verif.Observe("ab", ab)
	verif.Observe("ba", ba)
	if a.isFloat != b.isFloat && !a.null && !b.null {
		verif.Reach("float-vs-nonfloat")
	}
	if a.isUint && b.isInt && !a.null && !b.null {
		verif.Reach("uint-vs-int")
	}
	if a.null != b.null {
		verif.Reach("null-vs-value")
	}
	verif.Reach("end")
}

// verif:desc C06-O1a expr.Comparator.Compare/compareValues/compareNumbers/zed.CompareTypes on two primitive values: reflexive (cmp(a,a)=0), antisymmetric (sgn cmp(a,b) = -sgn cmp(b,a)), and never panics; ascending and descending, nulls first and last.
// verif:bounds a,b: kind in {uint64,int64,time,float64,bool,string(1 byte),null-type} (thorough: also uint8,int8,duration,float32), each typed kind null or not, any 64-bit payload / any float bit pattern (NaN, Inf, -0 included); order and nullsMax symbolic; pairs of one float and one integer kind are left to O1a-mixed
// verif:outside ip, net, type values, containers, records, unions, named types, errors; non-native (byte-encoded) primitive values
func VerifH_C06_O1_antisym() {
	a, b := vC06Pick("a", true), vC06Pick("b", true)
	if vC06Mixed(a, b) {
		return
	}
	vC06Antisym(a, b)
}

// verif:desc C06-O1a-mixed as O1a for one float and one integer operand (compareNumbers converts the integer with float64()); decided with cvc5 because z3 4.8 does not finish 64-bit int->float conversions within the query timeout.
// verif:bounds a,b: one of kind float64 and one of kind int64 (thorough: also float32, uint64), each null or not, any 64-bit payload / float bit pattern; order and nullsMax symbolic
// verif:outside as O1a
// verif:solver cvc5
func VerifH_C06_O1_antisym_mixed() {
	kinds := vC06MixedQuick
	if verif.Thorough() {
		kinds = vC06MixedThorough
	}
	a := vC06Sym("a", kinds[verif.Choose("a.kind", len(kinds))], true)
	b := vC06Sym("b", kinds[verif.Choose("b.kind", len(kinds))], true)
	if !vC06Mixed(a, b) {
		return
	}
	vC06Antisym(a, b)
}

func vC06Transitive(a, b, c vC06Val) {
	// decided first, while the path condition is still free of float terms
	big := (a.bigBits() | b.bigBits() | c.bigBits()) != 0
	if big {
		verif.Reach("bigint")
	}
	cmp := NewValueCompareFn(order.Asc, verif.Bool("nullsMax"))
	verif.Assume(cmp(a.val, b.val) <= 0)
	verif.Assume(cmp(b.val, c.val) <= 0)
	ac := cmp(a.val, c.val)
	verif.Observe("ac", ac)
	if vC06Mixed(a, b, c) {
		// the region is computed before the assertion so that each id is one query
		if big {
			verif.Assert(ac <= 0, "transitive/bigint-vs-float")
			verif.Reach("bigint-vs-float")
		} else {
			verif.Assert(ac <= 0, "transitive")
			verif.Reach("smallint-vs-float")
		}
	} else {
		verif.Assert(ac <= 0, "transitive")
	}
	verif.Reach("end")
}

// verif:desc C06-O1b transitivity of expr.Comparator.Compare on primitive values: cmp(a,b)<=0 and cmp(b,c)<=0 imply cmp(a,c)<=0.
// verif:bounds a,b,c: kind in {uint64,int64,float64,bool,string(1 byte),null} (thorough: also uint8,duration,time,float32), any 64-bit payload / float bit pattern; ascending; nullsMax symbolic; triples containing both a float and an integer kind are left to O1b-mixed
// verif:outside as O1a; descending order (Compare only swaps the operands, covered by O1a)
func VerifH_C06_O1_transitive() {
	kinds := vC06TransQuick
	if verif.Thorough() {
		kinds = vC06TransThorough
	}
	a := vC06Sym("a", kinds[verif.Choose("a.kind", len(kinds))], false)
	b := vC06Sym("b", kinds[verif.Choose("b.kind", len(kinds))], false)
	c := vC06Sym("c", kinds[verif.Choose("c.kind", len(kinds))], false)
	if vC06Mixed(a, b, c) {
		return
	}
	vC06Transitive(a, b, c)
}

// verif:desc C06-O1b-mixed transitivity of Comparator.Compare on triples mixing floats and integers.  The assertion id is split: `transitive/bigint-vs-float` when the triple contains an integer of magnitude > 2^53 (float64() rounds it), `transitive` everywhere else.
// verif:bounds a,b,c: kind in {int64,float64} (thorough: also uint64) with at least one float and one integer, non-null, any 64-bit payload / float bit pattern; ascending; nullsMax symbolic
// verif:outside as O1a
// verif:solver cvc5
// verif:tier thorough
func VerifH_C06_O1_transitive_mixed() {
	kinds := vC06MixedQuick
	if verif.Thorough() {
		kinds = vC06MixedTransTh
	}
	a := vC06Sym("a", kinds[verif.Choose("a.kind", len(kinds))], false)
	b := vC06Sym("b", kinds[verif.Choose("b.kind", len(kinds))], false)
	c := vC06Sym("c", kinds[verif.Choose("c.kind", len(kinds))], false)
	if !vC06Mixed(a, b, c) {
		return
	}
	vC06Transitive(a, b, c)
}

// ---------------------------------------------------------------------------
// O2: bulk sort path
// ---------------------------------------------------------------------------

// kinds for the bulk-sort harnesses: ids <= IDTime take the native int64 path
// of sortStableIndices; one float64 or string among the values disables it.
var (
	vC06SortNative = []int{vC06Uint8, vC06Uint64, vC06Int64, vC06Time}
	vC06SortAll    = []int{vC06Uint8, vC06Uint64, vC06Int64, vC06Time, vC06Float64, vC06String}
)

// vC06CheckSorted asserts that idx is a permutation of 0..n-1 that is
// non-decreasing under c.Compare and keeps equal values in input order.
func vC06CheckSorted(c *Comparator, vals []zed.Value, idx []uint32) {
	n := len(vals)
	verif.Assert(len(idx) == n, "indices-length")
	seen := make([]bool, n)
	for _, k := range idx {
		verif.Assert(int(k) < n && !seen[k], "indices-permutation")
		seen[k] = true
	}
	for i := 0; i+1 < n; i++ {
		v := c.Compare(vals[idx[i]], vals[idx[i+1]])
		verif.Assert(v <= 0, "bulk-sorted")
		if v == 0 {
			verif.Assert(idx[i] < idx[i+1], "bulk-stable")
			verif.Reach("tie")
		}
	}
}

// verif:desc C06-O2 Comparator.sortStableIndices (the bulk path of sort and spill: native int64 keys with nulls and uint64 > MaxInt64 clamped, ties re-decided by compareValues) on two values agrees with the pair path Comparator.Compare: the permutation is non-decreasing under Compare and stable.
// verif:bounds 2 values; kinds {uint8,uint64,int64,time} (native path) or one/both of {float64,string(1 byte)} (generic path), each null or not, any payload; 1 key (this), asc/desc and nullsMax symbolic
// verif:outside more than one sort key; record fields as keys; byte-encoded values; n > 2 (see O2-three)
func VerifH_C06_O2_sortindices_two() {
	nullsMax := verif.Bool("nullsMax")
	c := NewComparator(nullsMax, SortEvaluator{&This{}, order.Which(verif.Bool("desc"))})
	a := vC06Sym("a", vC06SortAll[verif.Choose("a.kind", len(vC06SortAll))], true)
	b := vC06Sym("b", vC06SortAll[verif.Choose("b.kind", len(vC06SortAll))], true)
	if vC06Mixed(a, b) {
		// int vs float on the generic path is compareValues again (O1a-mixed)
		return
	}
	vals := []zed.Value{a.val, b.val}
	idx := c.sortStableIndices(vals)
	vC06CheckSorted(c, vals, idx)
	if !a.null && !b.null && a.isUint && b.isUint && a.u > 1<<63 && b.u > 1<<63 && a.u != b.u {
		verif.Reach("both-clamped")
	}
	if a.null != b.null {
		if (a.isInt && (a.i == -1<<63 || a.i == 1<<63-1)) || (b.isInt && (b.i == -1<<63 || b.i == 1<<63-1)) {
			verif.Reach("null-vs-extreme-int")
		}
	}
	verif.Observe("idx0", int(idx[0]))
	verif.Reach("end")
}

// verif:desc C06-O2-three sortStableIndices and SortStable on three values of the native path: permutation, non-decreasing under Compare, stable; SortStable applies exactly that permutation in place.
// verif:bounds 3 values; kinds {uint64,int64}, each null or not, any payload; 1 key, asc/desc and nullsMax symbolic; sort.SliceStable is the engine's stable insertion sort driving the real less closure
// verif:outside as O2
// verif:tier thorough
func VerifH_C06_O2_sortindices_three() {
	nullsMax := verif.Bool("nullsMax")
	c := NewComparator(nullsMax, SortEvaluator{&This{}, order.Which(verif.Bool("desc"))})
	kinds := []int{vC06Uint64, vC06Int64}
	vals := make([]zed.Value, 3)
	for i, name := range []string{"a", "b", "c"} {
		vals[i] = vC06Sym(name, kinds[verif.Choose(name+".kind", len(kinds))], true).val
	}
	idx := c.sortStableIndices(vals)
	vC06CheckSorted(c, vals, idx)
	sorted := append([]zed.Value(nil), vals...)
	c.SortStable(sorted)
	for i := range sorted {
		verif.Assert(sorted[i] == vals[idx[i]], "sortstable-applies-indices")
	}
	verif.Observe("idx0", int(idx[0]))
	verif.Observe("idx1", int(idx[1]))
	verif.Reach("end")
}

// ---------------------------------------------------------------------------
// O3: strings, bytes, arrays
// ---------------------------------------------------------------------------

// vC06Lex is the specification: lexicographic comparison of byte strings.
func vC06Lex(a, b []byte) int {
	for i := 0; i < len(a) && i < len(b); i++ {
		if a[i] != b[i] {
			if a[i] < b[i] {
				return -1
			}
			return 1
		}
	}
	if len(a) < len(b) {
		return -1
	}
	if len(a) > len(b) {
		return 1
	}
	return 0
}

func vC06Sgn(c int) int {
	if c < 0 {
		return -1
	}
	if c > 0 {
		return 1
	}
	return 0
}

// verif:desc C06-O3 compareValues on two strings / two bytes values equals the byte-wise lexicographic order (shorter prefix first); string vs bytes is ordered by type id.
// verif:bounds strings of 0..2 symbolic bytes, bytes values of 1..2 symbolic bytes; nullsMax symbolic (irrelevant: no nulls here), ascending
// verif:outside longer strings (bytes.Compare / string < are engine primitives on cells), Unicode collation (none is specified), empty bytes values
func VerifH_C06_O3_strings_bytes() {
	cmp := NewValueCompareFn(order.Asc, verif.Bool("nullsMax"))
	var a, b []byte
	var va, vb zed.Value
	ka, kb := verif.Choose("a.kind", 2), verif.Choose("b.kind", 2)
	if ka == 0 {
		a = verif.Bytes("a", 2)
		va = zed.NewString(string(a))
	} else {
		a = verif.BytesN("a", 1+verif.Choose("a.len1", 2))
		va = zed.NewBytes(a)
	}
	if kb == 0 {
		b = verif.Bytes("b", 2)
		vb = zed.NewString(string(b))
	} else {
		b = verif.BytesN("b", 1+verif.Choose("b.len1", 2))
		vb = zed.NewBytes(b)
	}
	got := cmp(va, vb)
	verif.Observe("got", got)
	if ka != kb {
		// bytes (id 24) sorts before string (id 25)
		want := 1
		if ka == 1 {
			want = -1
		}
		verif.Assert(vC06Sgn(got) == want, "string-vs-bytes-by-type")
		verif.Reach("cross-type")
		return
	}
	verif.Assert(vC06Sgn(got) == vC06Lex(a, b), "lexicographic")
	verif.Reach("end")
}

// an array element: null or a small int64
type vC06Elem struct {
	null bool
	v    int64
}

func vC06Array(name string, typ zed.Type) ([]vC06Elem, zed.Value) {
	n := verif.Choose(name+".len", 3)
	elems := make([]vC06Elem, n)
	body := []byte{}
	for i := range elems {
		if verif.Bool(name + ".elem.null") {
			elems[i].null = true
			body = zcode.Append(body, nil)
			continue
		}
		elems[i].v = int64(verif.Int8(name + ".elem"))
		body = zcode.Append(body, zed.EncodeInt(elems[i].v))
	}
	return elems, zed.NewValue(typ, body)
}

// verif:desc C06-O3b compareValues on two arrays of int64 (container path: zcode iteration, byte-decoded elements, null elements): equals the lexicographic order over elements, a null element ordered by nullsMax, a proper prefix first.
// verif:bounds two [int64] arrays of 0..2 elements, each element null or any value in -128..127 (ZNG-encoded, 0..2 bytes); nullsMax symbolic
// verif:outside sets, records, maps, unions, nested containers, null arrays (covered as nulls by O1)
func VerifH_C06_O3_arrays() {
	nullsMax := verif.Bool("nullsMax")
	typ := zed.NewTypeArray(zed.IDTypeComplex, zed.TypeInt64)
	ea, va := vC06Array("a", typ)
	eb, vb := vC06Array("b", typ)
	got := compareValues(va, vb, nullsMax)
	verif.Observe("got", got)
	want := 0
	for i := 0; want == 0 && i < len(ea) && i < len(eb); i++ {
		x, y := ea[i], eb[i]
		switch {
		case x.null && y.null:
		case x.null:
			want = -1
			if nullsMax {
				want = 1
			}
		case y.null:
			want = 1
			if nullsMax {
				want = -1
			}
		case x.v < y.v:
			want = -1
		case x.v > y.v:
			want = 1
		}
	}
	if want == 0 {
		if len(ea) < len(eb) {
			want = -1
		} else if len(ea) > len(eb) {
			want = 1
		}
	}
	verif.Assert(vC06Sgn(got) == want, "array-lexicographic")
	verif.Reach("end")
}
