//go:build verif

package expr

import (
	"encoding/binary"

	"github.com/brimdata/super"
	"github.com/brimdata/super/internal/verif"
	"github.com/brimdata/super/zcode"
)

// Non-forking specification helpers (gosym maps them to single terms, see
// engine/gosym/intrinsics_c04.go; natively these bodies run).
func vC04Ite(c bool, a, b int) int {
	if c {
		return a
	}
	return b
}
func vC04And(a, b bool) bool { return a && b }
func vC04Or(a, b bool) bool  { return a || b }

func vC04ASCIIN(name string, n int) string {
	s := verif.StringN(name, n)
	for i := 0; i < len(s); i++ {
		verif.Assume(s[i] < 0x80)
	}
	return s
}

// vC04Lower is ASCII case folding, written without branches on the data.
func vC04Lower(c byte) byte {
	return byte(vC04Ite(vC04And('A' <= c, c <= 'Z'), int(c)+'a'-'A', int(c)))
}

// vC04FoldContains is the specification of the evaluator's predicate on
// ASCII: some window of text equals pattern up to ASCII case.
func vC04FoldContains(text, pattern string) bool {
	found := false
	for i := 0; i+len(pattern) <= len(text); i++ {
		eq := true
		for j := 0; j < len(pattern); j++ {
			eq = vC04And(eq, vC04Lower(text[i+j]) == vC04Lower(pattern[j]))
		}
		found = vC04Or(found, eq)
	}
	return found
}

// verif:desc C04-O2a the evaluator's string predicate expr.stringSearch (real strings.EqualFold) coincides on ASCII with "some window equals the pattern up to ASCII case" (vC04FoldContains), which O2b uses as its left-hand side.
// verif:bounds pattern length 1..2, text length 0..3, all bytes symbolic and < 0x80
// verif:outside non-ASCII text or pattern (unicode.SimpleFold tables; for a non-ASCII pattern no case-insensitive buffer filter is built at all, see O2c)
// verif:solver z3-new
func VerifH_C04_O2a_stringsearch_ascii() {
	pn := 1 + verif.Choose("plen", 2)
	pattern := vC04ASCIIN("pattern", pn)
	tn := verif.Choose("tlen", 4)
	text := vC04ASCIIN("text", tn)
	got := stringSearch(text, pattern)
	verif.Assert(got == vC04FoldContains(text, pattern), "stringsearch-is-ascii-fold-contains")
	if got {
		verif.Reach("match")
	}
	verif.Reach("end")
}

func vC04CaseFinder(plo, phi, tmax int) {
	pn := plo + verif.Choose("plen", phi-plo+1)
	pattern := vC04ASCIIN("pattern", pn)
	tn := verif.Choose("tlen", tmax+1)
	text := vC04ASCIIN("text", tn)
	// the value sits somewhere in a frame buffer: arbitrary neighbours
	pre := verif.Bytes("pre", 1)
	post := verif.Bytes("post", 1)
	buf := append(append(append([]byte{}, pre...), text...), post...)

	bf := NewBufferFilterForStringCase(pattern)
	verif.Assert(bf != nil, "ascii-pattern-has-no-filter") // not a soundness matter, but then the harness would be vacuous
	if bf == nil {
		return
	}
	pass := bf.Eval(nil, buf)
	// evaluator matches the string value  =>  the buffer passes the filter
	verif.Assert(!vC04FoldContains(text, pattern) || pass, "casefinder-drops-matching-value")
	if pass {
		verif.Reach("pass")
	} else {
		verif.Reach("drop")
	}
	verif.Reach("end")
}

// verif:desc C04-O2b expr.NewBufferFilterForStringCase(pattern) / stringsearch.NewCaseFinder / CaseFinder.Next (real strings.ToLower, tables built over the symbolic pattern): whenever the evaluator's predicate (ASCII fold-contains, tied to expr.stringSearch by O2a) holds for a string value, every buffer that contains the value's bytes passes BufferFilter.Eval.
// verif:bounds pattern length 2..3 (shorter patterns get no filter), value length 0..4, both ASCII (bytes symbolic < 0x80); 0..1 arbitrary bytes before and after the value in the buffer
// verif:outside non-ASCII values (Unicode folding such as U+212A is not examined); longer patterns
// verif:unwind 32
// verif:solver z3-new
func VerifH_C04_O2b_casefinder() {
	vC04CaseFinder(2, 3, 4)
}

// verif:desc C04-O2c a search pattern containing any byte >= 0x80 gets no case-insensitive buffer filter (CaseFinder folds ASCII only, the evaluator folds Unicode), and a pattern shorter than 2 bytes gets none either.
// verif:bounds pattern length 0..3, all bytes symbolic
// verif:outside -
// verif:solver z3-new
func VerifH_C04_O2c_nonascii_refused() {
	pattern := verif.String("pattern", 3)
	nonASCII := false
	for i := 0; i < len(pattern); i++ {
		nonASCII = vC04Or(nonASCII, pattern[i] >= 0x80)
	}
	bf := NewBufferFilterForStringCase(pattern)
	if bf != nil {
		verif.Assert(!nonASCII, "nonascii-pattern-gets-casefinder")
		verif.Assert(len(pattern) >= 2, "short-pattern-gets-filter")
		verif.Reach("filter")
	} else {
		verif.Reach("no-filter")
	}
	verif.Reach("end")
}

// ---------------------------------------------------------------------------
// C04-O5 field-name reachability
// ---------------------------------------------------------------------------

// vC04Name: a field name of 1..2 letters over {a,A,b}.
func vC04Name(name string) string {
	n := 1 + verif.Choose(name+".len", 2)
	b := make([]byte, n)
	for i := range b {
		c := verif.Byte(name)
		verif.Assume(c == 'a' || c == 'A' || c == 'b')
		b[i] = c
	}
	return string(b)
}

const (
	vC04Flat = iota
	vC04Nested
	vC04InArray
	vC04InSet
	vC04InMap
	vC04InUnion
	vC04InError
	vC04Named
	vC04NTemplates
)

// vC04Value builds one value of the chosen type template with field names
// na, nb and returns its type and body.  T is int64 (value 1), so only field
// names can make the search match.
func vC04Value(zctx *zed.Context, k int, na, nb string) (zed.Type, zcode.Bytes) {
	one := zed.EncodeInt(1)
	inner := zctx.MustLookupTypeRecord([]zed.Field{{Name: nb, Type: zed.TypeInt64}}) // {b:T}
	var b zcode.Builder
	rec := func() { // {b:1}
		b.BeginContainer()
		b.Append(one)
		b.EndContainer()
	}
	var ft zed.Type
	switch k {
	case vC04Flat: // {a:T}
		ft = zed.TypeInt64
		b.Append(one)
	case vC04Nested: // {a:{b:T}}
		ft = inner
		rec()
	case vC04InArray: // {a:[{b:T}]}
		ft = zctx.LookupTypeArray(inner)
		b.BeginContainer()
		rec()
		b.EndContainer()
	case vC04InSet: // {a:|[{b:T}]|}
		ft = zctx.LookupTypeSet(inner)
		b.BeginContainer()
		rec()
		b.EndContainer()
	case vC04InMap: // {a:|{int64:{b:T}}|}
		ft = zctx.LookupTypeMap(zed.TypeInt64, inner)
		b.BeginContainer()
		b.Append(one)
		rec()
		b.EndContainer()
	case vC04InUnion: // {a:(int64,{b:T})} holding the record
		u := zctx.LookupTypeUnion([]zed.Type{zed.TypeInt64, inner})
		ft = u
		b.BeginContainer()
		b.Append(zed.EncodeInt(int64(u.TagOf(inner))))
		rec()
		b.EndContainer()
	case vC04InError: // {a:error({b:T})}
		ft = zctx.LookupTypeError(inner)
		rec()
	case vC04Named: // n={a:{b:T}}
		ft = inner
		rec()
	}
	var typ zed.Type = zctx.MustLookupTypeRecord([]zed.Field{{Name: na, Type: ft}})
	if k == vC04Named {
		named, err := zctx.LookupTypeNamed("n", typ)
		if err != nil {
			panic(err)
		}
		typ = named
	}
	return typ, b.Bytes()
}

func vC04FieldNames(k int) {
	na, nb := vC04Name("na"), vC04Name("nb")
	// the search term: 2 characters over {a,A,b,.} (a fully qualified name
	// is "a.b", so a term may straddle the dot)
	pb := make([]byte, 2)
	for i := range pb {
		c := verif.Byte("term")
		verif.Assume(c == 'a' || c == 'A' || c == 'b' || c == '.')
		pb[i] = c
	}
	term := string(pb)

	zctx := zed.NewContext()
	typ, body := vC04Value(zctx, k, na, nb)
	val := zed.NewValue(typ, body)

	// the evaluator of `search <term>` (kernel.Builder.compileSearch)
	match := NewSearchString(term, nil).Eval(nil, val).Bool()

	// the buffer filter of `search <term>` (kernel.CompileBufferFilter, *dag.Search, string case)
	left := NewBufferFilterForStringCase(term)
	verif.Assert(left != nil, "no-filter-built")
	if left == nil {
		return
	}
	bf := NewOrBufferFilter(left, NewBufferFilterForFieldName(term))
	// one value as zngio.Writer lays it out in a values frame
	buf := binary.AppendUvarint(nil, uint64(zed.TypeID(typ)))
	buf = zcode.Append(buf, body)
	pass := bf.Eval(zctx, buf)

	if match {
		if k == vC04Flat || k == vC04Nested || k == vC04Named {
			verif.Assert(pass, "filter-drops-matching-record")
		} else {
			// region split (rule 7): the matching record type is only
			// reachable through a non-record container
			verif.Assert(pass, "filter-drops-matching-record/record-inside-container")
		}
		verif.Reach("match")
	}
	verif.Observe("match", match)
	verif.Observe("pass", pass)
	verif.Reach("end")
}

// verif:desc C04-O5 field-name reachability: for `search <term>` the evaluator expr.searchString.Eval (searchType + FieldNameIter along the real zed.Walk of the value) is compared with the buffer filter kernel.CompileBufferFilter builds for it, or(NewBufferFilterForStringCase(term), NewBufferFilterForFieldName(term)), evaluated by BufferFilter.Eval / FieldNameFinder.Find on a one-value buffer: evaluator true => buffer passes.  Type templates {a:T}, {a:{b:T}}, n={a:{b:T}} (assert id filter-drops-matching-record) and {a:[{b:T}]}, {a:|[{b:T}]|}, {a:|{int64:{b:T}}|}, {a:(int64,{b:T})}, {a:error({b:T})} (assert id .../record-inside-container).
// verif:bounds field names a,b: 1..2 letters over {a,A,b}; term: 2 characters over {a,A,b,.}; T=int64 (value 1); containers hold one element
// verif:outside string values (C04-O2), other terms, deeper nesting, several values per buffer (checkedIDs cache)
// verif:unwind 48
// verif:solver z3-new
func VerifH_C04_O5_fieldnames() {
	vC04FieldNames(verif.Choose("template", vC04NTemplates))
}
