//go:build verif

package expr

import (
	"encoding/binary"

	"github.com/brimdata/super"
	"github.com/brimdata/super/internal/verif"
	"github.com/brimdata/super/zcode"
)

// Non-forking specification helpers (gosym maps them to single terms, see
// engine/gosym/intrinsics_c04.go; natively these bodies run).
func vC04Ite(c bool, a, b int) int {
	if c {
		return a
	}
	return b
}
func vC04And(a, b bool) bool { return a && b }
func vC04Or(a, b bool) bool  { return a || b }

func vC04ASCIIN(name string, n int) string {
	s := verif.StringN(name, n)
	for i := 0; i < len(s); i++ {
		verif.Assume(s[i] < 0x80)
	}
	return s
}

// vC04Lower is ASCII case folding, written without branches on the data.
func vC04Lower(c byte) byte {
	return byte(vC04Ite(vC04And('A' <= c, c <= 'Z'), int(c)+'a'-'A', int(c)))
}

// vC04FoldContains is the specification of the evaluator's predicate on
// ASCII: some window of text equals pattern up to ASCII case.
func vC04FoldContains(text, pattern string) bool {
	found := false
	for i := 0; i+len(pattern) <= len(text); i++ {
		eq := true
		for j := 0; j < len(pattern); j++ {
			eq = vC04And(eq, vC04Lower(text[i+j]) == vC04Lower(pattern[j]))
		}
		found = vC04Or(found, eq)
	}
	return found
}

// verif:desc C04-O2a the evaluator's string predicate expr.stringSearch (real strings.EqualFold) coincides on ASCII with "some window equals the pattern up to ASCII case" (vC04FoldContains), which O2b uses as its left-hand side.
// verif:bounds pattern length 1..2, text length 0..3, all bytes symbolic and < 0x80
// verif:outside non-ASCII text or pattern (unicode.SimpleFold tables; for a non-ASCII pattern no case-insensitive buffer filter is built at all, see O2c)
// verif:solver z3-new
func VerifH_C04_O2a_stringsearch_ascii() {
	pn := 1 + verif.Choose("plen", 2)
	pattern := vC04ASCIIN("pattern", pn)
	tn := verif.Choose("tlen", 4)
	text := vC04ASCIIN("text", tn)
	got := stringSearch(text, pattern)
	verif.Assert(got == vC04FoldContains(text, pattern), "stringsearch-is-ascii-fold-contains")
	if got {
		verif.Reach("match")
	}
	verif.Reach("end")
}

func vC04CaseFinder(plo, phi, bmax int) {
	pn := plo + verif.Choose("plen", phi-plo+1)
	pattern := vC04ASCIIN("pattern", pn)
	// a frame buffer: arbitrary bytes.  A string value that the evaluator
	// matches is a run of ASCII bytes somewhere in it, and then some window
	// of the buffer equals the pattern up to ASCII case.
	buf := verif.Bytes("buf", bmax)

	bf := NewBufferFilterForStringCase(pattern)
	verif.Assert(bf != nil, "ascii-pattern-has-no-filter") // not a soundness matter, but then the harness would be vacuous
	if bf == nil {
		return
	}
	pass := bf.Eval(nil, buf)
	// evaluator matches a string value in the buffer  =>  the buffer passes the filter
	verif.Assert(!vC04FoldContains(string(buf), pattern) || pass, "casefinder-drops-matching-value")
	if pass {
		verif.Reach("pass")
	} else {
		verif.Reach("drop")
	}
	verif.Reach("end")
}

// verif:desc C04-O2b expr.NewBufferFilterForStringCase(pattern) / stringsearch.NewCaseFinder / CaseFinder.Next (real strings.ToLower, tables built over the symbolic pattern): whenever some window of a buffer equals the pattern up to ASCII case -- which is the case when the buffer holds a string value for which the evaluator's predicate holds (tied to expr.stringSearch by O2a) -- the buffer passes BufferFilter.Eval.
// verif:bounds pattern length 2..3 (shorter patterns get no filter), ASCII (bytes symbolic < 0x80); buffer of 0..3 arbitrary bytes
// verif:outside non-ASCII values matched through Unicode folding (e.g. U+212A) are not examined; longer patterns and buffers (thorough harness)
// verif:unwind 32
// verif:solver z3-new
func VerifH_C04_O2b_casefinder() {
	vC04CaseFinder(2, 3, 3)
}

// verif:desc C04-O2b (thorough bound) as VerifH_C04_O2b_casefinder with buffers of 0..5 bytes
// verif:bounds pattern length 2..3 ASCII; buffer of 0..5 arbitrary bytes
// verif:tier thorough
// verif:unwind 40
// verif:solver z3-new
func VerifH_C04_O2b_casefinder_thorough() {
	vC04CaseFinder(2, 3, 5)
}

// verif:desc C04-O2c a search pattern containing any byte >= 0x80 gets no case-insensitive buffer filter (CaseFinder folds ASCII only, the evaluator folds Unicode), and a pattern shorter than 2 bytes gets none either.
// verif:bounds pattern length 0..3, all bytes symbolic
// verif:outside -
// verif:solver z3-new
func VerifH_C04_O2c_nonascii_refused() {
	pattern := verif.String("pattern", 3)
	nonASCII := false
	for i := 0; i < len(pattern); i++ {
		nonASCII = vC04Or(nonASCII, pattern[i] >= 0x80)
	}
	bf := NewBufferFilterForStringCase(pattern)
	if bf != nil {
		verif.Assert(!nonASCII, "nonascii-pattern-gets-casefinder")
		verif.Assert(len(pattern) >= 2, "short-pattern-gets-filter")
		verif.Reach("filter")
	} else {
		verif.Reach("no-filter")
	}
	verif.Reach("end")
}

// ---------------------------------------------------------------------------
// C04-O5 field-name reachability
// ---------------------------------------------------------------------------

// vC04Name: a field name of 1..max letters over {a,A,b}.
func vC04Name(name string, max int) string {
	n := 1 + verif.Choose(name+".len", max)
	b := make([]byte, n)
	for i := range b {
		c := verif.Byte(name)
		verif.Assume(vC04Or(c == 'a', vC04Or(c == 'A', c == 'b')))
		b[i] = c
	}
	return string(b)
}

const (
	vC04Flat = iota
	vC04Nested
	vC04InArray
	vC04InSet
	vC04InMap
	vC04InUnion
	vC04InError
	vC04Named
	vC04NTemplates
)

// vC04Value builds one value of the chosen type template with field names
// na, nb and returns its type and body.  T is int64 (value 1), so only field
// names can make the search match.
func vC04Value(zctx *zed.Context, k int, na, nb string) (zed.Type, zcode.Bytes) {
	one := zed.EncodeInt(1)
	inner := zctx.MustLookupTypeRecord([]zed.Field{{Name: nb, Type: zed.TypeInt64}}) // {b:T}
	var b zcode.Builder
	rec := func() { // {b:1}
		b.BeginContainer()
		b.Append(one)
		b.EndContainer()
	}
	var ft zed.Type
	switch k {
	case vC04Flat: // {a:T}
		ft = zed.TypeInt64
		b.Append(one)
	case vC04Nested: // {a:{b:T}}
		ft = inner
		rec()
	case vC04InArray: // {a:[{b:T}]}
		ft = zctx.LookupTypeArray(inner)
		b.BeginContainer()
		rec()
		b.EndContainer()
	case vC04InSet: // {a:|[{b:T}]|}
		ft = zctx.LookupTypeSet(inner)
		b.BeginContainer()
		rec()
		b.EndContainer()
	case vC04InMap: // {a:|{int64:{b:T}}|}
		ft = zctx.LookupTypeMap(zed.TypeInt64, inner)
		b.BeginContainer()
		b.Append(one)
		rec()
		b.EndContainer()
	case vC04InUnion: // {a:(int64,{b:T})} holding the record
		u := zctx.LookupTypeUnion([]zed.Type{zed.TypeInt64, inner})
		ft = u
		b.BeginContainer()
		b.Append(zed.EncodeInt(int64(u.TagOf(inner))))
		rec()
		b.EndContainer()
	case vC04InError: // {a:error({b:T})}
		ft = zctx.LookupTypeError(inner)
		rec()
	case vC04Named: // n={a:{b:T}}
		ft = inner
		rec()
	}
	var typ zed.Type = zctx.MustLookupTypeRecord([]zed.Field{{Name: na, Type: ft}})
	if k == vC04Named {
		named, err := zctx.LookupTypeNamed("n", typ)
		if err != nil {
			panic(err)
		}
		typ = named
	}
	return typ, b.Bytes()
}

func vC04FieldNames(k int) { vC04FieldNamesN(k, 2, 2) }

func vC04FieldNamesN(k, maxA, maxB int) {
	na, nb := vC04Name("na", maxA), vC04Name("nb", maxB)
	// the search term: 2 characters over {a,A,b,.} (a fully qualified name
	// is "a.b", so a term may straddle the dot)
	pb := make([]byte, 2)
	for i := range pb {
		c := verif.Byte("term")
		verif.Assume(vC04Or(vC04Or(c == 'a', c == 'A'), vC04Or(c == 'b', c == '.')))
		pb[i] = c
	}
	term := string(pb)

	zctx := zed.NewContext()
	typ, body := vC04Value(zctx, k, na, nb)
	val := zed.NewValue(typ, body)

	// the evaluator of `search <term>` (kernel.Builder.compileSearch)
	match := NewSearchString(term, nil).Eval(nil, val).Bool()

	// the buffer filter of `search <term>` (kernel.CompileBufferFilter, *dag.Search, string case)
	left := NewBufferFilterForStringCase(term)
	verif.Assert(left != nil, "no-filter-built")
	if left == nil {
		return
	}
	bf := NewOrBufferFilter(left, NewBufferFilterForFieldName(term))
	// one value as zngio.Writer lays it out in a values frame
	buf := binary.AppendUvarint(nil, uint64(zed.TypeID(typ)))
	buf = zcode.Append(buf, body)
	pass := bf.Eval(zctx, buf)

	if match {
		// region split (rule 7): templates in which the matching record
		// type is only reachable through a non-record container
		switch k {
		case vC04InArray:
			verif.Assert(pass, "filter-drops-matching-record/record-in-array")
		case vC04InSet:
			verif.Assert(pass, "filter-drops-matching-record/record-in-set")
		case vC04InMap:
			verif.Assert(pass, "filter-drops-matching-record/record-in-map")
		case vC04InUnion:
			verif.Assert(pass, "filter-drops-matching-record/record-in-union")
		case vC04InError:
			verif.Assert(pass, "filter-drops-matching-record/record-in-error")
		default:
			verif.Assert(pass, "filter-drops-matching-record")
		}
		verif.Reach("match")
	}
	verif.Observe("match", match)
	verif.Observe("pass", pass)
	verif.Reach("end")
}

// verif:desc C04-O5 field-name reachability: for `search <term>` the evaluator expr.searchString.Eval (searchType + FieldNameIter along the real zed.Walk of the value) is compared with the buffer filter kernel.CompileBufferFilter builds for it, or(NewBufferFilterForStringCase(term), NewBufferFilterForFieldName(term)), evaluated by BufferFilter.Eval / FieldNameFinder.Find on a one-value buffer: evaluator true => buffer passes.  Type templates in which every record is reached through records only: {a:T}, {a:{b:T}}, n={a:{b:T}}.
// verif:bounds field name a: 1..2 letters over {a,A,b}, b: 1 letter; term: 2 characters over {a,A,b,.}; T=int64 (value 1)
// verif:outside string values (C04-O2), other terms, deeper nesting, several values per buffer (checkedIDs cache); records inside other containers: see the _array/_set/_map/_union/_error harnesses
// verif:unwind 48
// verif:solver z3-new
func VerifH_C04_O5_fieldnames_records() {
	vC04FieldNamesN([]int{vC04Flat, vC04Nested, vC04Named}[verif.Choose("template", 3)], 2, 1)
}

// verif:desc C04-O5 (thorough bound) as VerifH_C04_O5_fieldnames_records with both field names of 1..2 letters
// verif:bounds field names a,b: 1..2 letters over {a,A,b}; term: 2 characters over {a,A,b,.}
// verif:tier thorough
// verif:unwind 48
// verif:solver z3-new
func VerifH_C04_O5_fieldnames_records_thorough() {
	vC04FieldNamesN([]int{vC04Flat, vC04Nested, vC04Named}[verif.Choose("template", 3)], 2, 2)
}

// verif:desc C04-O5 as VerifH_C04_O5_fieldnames_records for the template {a:[{b:T}]} (one element): the record type {b:T} is visited by the evaluator's Walk; assert id filter-drops-matching-record/record-in-array
// verif:bounds field names a,b: 1..2 letters over {a,A,b}; term: 2 characters over {a,A,b,.}; T=int64 (value 1); the container holds one element
// verif:unwind 48
// verif:solver z3-new
func VerifH_C04_O5_fieldnames_array() { vC04FieldNames(vC04InArray) }

// verif:desc C04-O5 as _records for the template {a:|[{b:T}]|}; assert id .../record-in-set
// verif:bounds field names a,b: 1..2 letters over {a,A,b}; term: 2 characters over {a,A,b,.}; T=int64 (value 1); the container holds one element
// verif:unwind 48
// verif:solver z3-new
func VerifH_C04_O5_fieldnames_set() { vC04FieldNames(vC04InSet) }

// verif:desc C04-O5 as _records for the template {a:|{int64:{b:T}}|}; assert id .../record-in-map
// verif:bounds field names a,b: 1..2 letters over {a,A,b}; term: 2 characters over {a,A,b,.}; T=int64 (value 1); the container holds one element
// verif:unwind 48
// verif:solver z3-new
func VerifH_C04_O5_fieldnames_map() { vC04FieldNames(vC04InMap) }

// verif:desc C04-O5 as _records for the template {a:(int64,{b:T})} holding the record; assert id .../record-in-union
// verif:bounds field names a,b: 1..2 letters over {a,A,b}; term: 2 characters over {a,A,b,.}; T=int64 (value 1); the container holds one element
// verif:unwind 48
// verif:solver z3-new
func VerifH_C04_O5_fieldnames_union() { vC04FieldNames(vC04InUnion) }

// verif:desc C04-O5 as _records for the template {a:error({b:T})}; assert id .../record-in-error
// verif:bounds field names a,b: 1..2 letters over {a,A,b}; term: 2 characters over {a,A,b,.}; T=int64 (value 1); the container holds one element
// verif:unwind 48
// verif:solver z3-new
func VerifH_C04_O5_fieldnames_error() { vC04FieldNames(vC04InError) }
