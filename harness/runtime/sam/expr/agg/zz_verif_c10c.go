//go:build verif

package agg

import (
	"bytes"

	"github.com/brimdata/super"
	"github.com/brimdata/super/internal/verif"
	"github.com/brimdata/super/zcode"
)

// ---------------------------------------------------------------------------
// C10: container-valued aggregates (union, collect, collect_map) composed
// through partial results.

var v10cTypes = []zed.Type{zed.TypeInt64, zed.TypeString, zed.TypeFloat64}

// v10cElem is one primitive value of type v10cTypes[t] with a one-byte
// symbolic payload p: int64 with the 1-byte counted varint body [p] (p != 0,
// the canonical spelling of a non-zero int of magnitude < 128), string [p],
// float64 with mantissa byte p (2^1 * 1.xx).
func v10cElem(name string, t int) zed.Value {
	p := verif.Byte(name)
	switch t {
	case 0:
		verif.Assume(p != 0)
		return zed.NewValue(zed.TypeInt64, zcode.Bytes{p})
	case 1:
		return zed.NewValue(zed.TypeString, zcode.Bytes{p})
	}
	return zed.NewValue(zed.TypeFloat64, zcode.Bytes{0, 0, 0, 0, 0, p, 0, 0x40})
}

func v10cNew(name string) Function {
	p, err := NewPattern(name, true)
	if err != nil {
		panic(err)
	}
	return p()
}

// v10cMembers lists the (type, bytes) elements of an array or set value,
// un-tagging elements of a union inner type.
func v10cMembers(v zed.Value) (types []zed.Type, bodies []zcode.Bytes, ok bool) {
	inner := zed.InnerType(zed.TypeUnder(v.Type()))
	if inner == nil {
		return nil, nil, false
	}
	for it := v.Iter(); !it.Done(); {
		typ, b := inner, it.Next()
		if u, isUnion := zed.TypeUnder(typ).(*zed.TypeUnion); isUnion {
			typ, b = u.Untag(b)
		}
		types = append(types, typ)
		bodies = append(bodies, b)
	}
	return types, bodies, true
}

func v10cContainerPartials(n int) {
	zctx := zed.NewContext()
	fn := []string{"union", "collect"}[verif.Choose("agg", 2)]
	vals := make([]zed.Value, n)
	group := make([]int, n)
	for i := range vals {
		nm := string(rune('a' + i))
		vals[i] = v10cElem(nm, verif.Choose(nm+".type", len(v10cTypes)))
		group[i] = verif.Choose(nm+".group", 2)
	}
	// the sequence "leg 0's values in input order, then leg 1's"
	var seq []zed.Value
	legs := [2]Function{v10cNew(fn), v10cNew(fn)}
	for g := 0; g < 2; g++ {
		for i, v := range vals {
			if group[i] == g {
				legs[g].Consume(v)
				seq = append(seq, v)
			}
		}
	}
	direct := v10cNew(fn)
	for _, v := range seq {
		direct.Consume(v)
	}
	composed := v10cNew(fn)
	for g := 0; g < 2; g++ {
		// an empty leg hands over null (groupby passes it on, issue #3175)
		composed.ConsumeAsPartial(legs[g].ResultAsPartial(zctx))
	}
	d, c := direct.Result(zctx), composed.Result(zctx)
	verif.Assert(d.Type() == c.Type(), fn+"/composed-type-equals-direct")
	verif.Assert(bytes.Equal(d.Bytes(), c.Bytes()), fn+"/composed-value-equals-direct")
	verif.Assert(d.IsNull() == c.IsNull(), fn+"/composed-null-equals-direct")

	// naive oracle on the composed result
	types, bodies, ok := v10cMembers(c)
	verif.Assert(ok, fn+"/composed-is-container")
	if !ok {
		return
	}
	if fn == "collect" {
		_, isArray := zed.TypeUnder(c.Type()).(*zed.TypeArray)
		verif.Assert(isArray, "collect/composed-is-array")
		verif.Assert(len(types) == len(seq), "collect/composed-length")
		if len(types) == len(seq) {
			for i, v := range seq {
				verif.Assert(types[i] == v.Type() && bytes.Equal(bodies[i], v.Bytes()), "collect/leg-order-and-values-preserved")
			}
		}
	} else {
		_, isSet := zed.TypeUnder(c.Type()).(*zed.TypeSet)
		verif.Assert(isSet, "union/composed-is-set")
		for _, v := range seq {
			found := false
			for i := range types {
				if types[i] == v.Type() && bytes.Equal(bodies[i], v.Bytes()) {
					found = true
				}
			}
			verif.Assert(found, "union/input-value-is-member")
		}
		for i := range types {
			found := false
			for _, v := range seq {
				if types[i] == v.Type() && bytes.Equal(bodies[i], v.Bytes()) {
					found = true
				}
			}
			verif.Assert(found, "union/member-is-input-value")
			for k := 0; k < i; k++ {
				verif.Assert(!(types[i] == types[k] && bytes.Equal(bodies[i], bodies[k])), "union/members-distinct")
			}
		}
	}
	if u, isUnion := zed.InnerType(zed.TypeUnder(c.Type())).(*zed.TypeUnion); isUnion {
		verif.Reach("union-typed-elements")
		if len(u.Types) == 3 {
			verif.Reach("three-element-types")
		}
	}
	if group[0] != group[n-1] {
		verif.Reach("both-legs-non-empty")
	}
	verif.Reach("end")
}

// verif:desc C10-O5 real agg.Union and agg.Collect (Consume, ResultAsPartial, ConsumeAsPartial, Result; zed.BuildUnion/Untag, NormalizeSet, UniqueTypes/LookupTypeUnion) on inputs of MIXED types, so that a partial is a set/array of a union type: for every assignment of the inputs to two partial legs, the result composed from the legs' partials has the same type and the same bytes as the result of consuming the same values directly (leg 0's values then leg 1's), and agrees with the naive reading: collect = exactly that sequence (order within each leg preserved, every element with its own type), union = exactly the set of distinct (type,value) inputs.
// verif:bounds agg in {union, collect}; 2 input values, each of type int64 | string | float64 (Choose) with a one-byte symbolic payload (int64: 1-byte body != 0; float64: one mantissa byte); each value in leg 0 or leg 1 (an empty leg contributes a null partial)
// verif:outside null inputs; container/union/named-typed inputs; MaxValueSize eviction; groupby's routing of partials; spill files
func VerifH_C10_O5_container_partials() {
	v10cContainerPartials(2)
}

// verif:desc C10-O5 as VerifH_C10_O5_container_partials with three inputs (partials of up to three member types, legs of 0..3 values)
// verif:bounds as VerifH_C10_O5_container_partials with 3 input values
// verif:outside as VerifH_C10_O5_container_partials
func VerifH_C10_O5_container_partials3() {
	v10cContainerPartials(3)
}

// ---------------------------------------------------------------------------
// collect_map

type v10cKV struct{ k, v zed.Value }

func v10cSame(a, b zed.Value) bool {
	return a.Type() == b.Type() && bytes.Equal(a.Bytes(), b.Bytes())
}

// v10cMapEntries lists the entries of a map value, un-tagging union-typed
// keys and values.
func v10cMapEntries(m zed.Value) ([]v10cKV, bool) {
	mt, ok := zed.TypeUnder(m.Type()).(*zed.TypeMap)
	if !ok {
		return nil, false
	}
	var out []v10cKV
	for it := m.Iter(); !it.Done(); {
		k := zed.NewValue(mt.KeyType, it.Next()).Under()
		v := zed.NewValue(mt.ValType, it.Next()).Under()
		out = append(out, v10cKV{k, v})
	}
	return out, true
}

func v10cCollectMapPartials(n int) {
	zctx := zed.NewContext()
	rows := make([]v10cKV, n)
	group := make([]int, n)
	for i := range rows {
		nm := string(rune('a' + i))
		rows[i].k = v10cElem(nm+".key", verif.Choose(nm+".keytype", 2))
		vt := 1 // the last input's value is a string
		if i < n-1 {
			vt = verif.Choose(nm+".valtype", 2)
		}
		rows[i].v = v10cElem(nm+".val", vt)
		group[i] = verif.Choose(nm+".group", 2)
	}
	// each input is the one-entry map |{k:v}|
	input := func(r v10cKV) zed.Value {
		var b zcode.Builder
		b.Append(r.k.Bytes())
		b.Append(r.v.Bytes())
		return zed.NewValue(zctx.LookupTypeMap(r.k.Type(), r.v.Type()), b.Bytes())
	}
	var seq []v10cKV
	legs := [2]Function{v10cNew("collect_map"), v10cNew("collect_map")}
	for g := 0; g < 2; g++ {
		for i, r := range rows {
			if group[i] == g {
				legs[g].Consume(input(r))
				seq = append(seq, r)
			}
		}
	}
	direct := v10cNew("collect_map")
	for _, r := range seq {
		direct.Consume(input(r))
	}
	composed := v10cNew("collect_map")
	unionKeyed := false
	for g := 0; g < 2; g++ {
		p := legs[g].ResultAsPartial(zctx)
		if mt, ok := zed.TypeUnder(p.Type()).(*zed.TypeMap); ok {
			if _, isUnion := zed.TypeUnder(mt.KeyType).(*zed.TypeUnion); isUnion {
				unionKeyed = true
			}
		}
		composed.ConsumeAsPartial(p)
	}
	// naive oracle: the distinct keys of seq, each with its last value
	var want []v10cKV
	for _, r := range seq {
		found := false
		for i := range want {
			if v10cSame(want[i].k, r.k) {
				want[i].v = r.v
				found = true
			}
		}
		if !found {
			want = append(want, r)
		}
	}
	// the aggregator's table holds one entry per distinct key: Result relies
	// on it (NormalizeMap drops all but an arbitrary one of equal keys, the
	// survivor depends on Go's map iteration order)
	id := "collect_map/one-table-entry-per-distinct-key"
	if unionKeyed {
		verif.Reach("union-keyed-partial")
		id += "/union-keyed-partial"
	}
	tableOK := len(composed.(*CollectMap).entries) == len(want)
	verif.Assert(tableOK, id)
	verif.Assert(len(direct.(*CollectMap).entries) == len(want), "collect_map/one-table-entry-per-distinct-key/direct")
	if !tableOK {
		return
	}
	d, c := direct.Result(zctx), composed.Result(zctx)
	verif.Assert(d.Type() == c.Type(), "collect_map/composed-type-equals-direct")
	verif.Assert(bytes.Equal(d.Bytes(), c.Bytes()), "collect_map/composed-value-equals-direct")
	got, ok := v10cMapEntries(c)
	verif.Assert(ok, "collect_map/composed-is-map")
	verif.Assert(len(got) == len(want), "collect_map/one-entry-per-distinct-key")
	for _, w := range want {
		found := false
		for _, g := range got {
			if v10cSame(g.k, w.k) && v10cSame(g.v, w.v) {
				found = true
			}
		}
		verif.Assert(found, "collect_map/key-maps-to-last-value")
	}
	if len(want) < len(seq) {
		verif.Reach("key-overwritten")
	}
	verif.Reach("end")
}

// verif:desc C10-O5b real agg.CollectMap (Consume = ConsumeAsPartial, Result = ResultAsPartial, valueUnder, unionOf/appendMapVal, NormalizeMap) through partials whose key and value types are unions: for every assignment of the input maps to two legs, the aggregator's table has one entry per distinct (type,value) key, the composed result has the type and bytes of the direct one, and every distinct key maps to the value of its last occurrence (leg 0's inputs, then leg 1's).
// verif:bounds 3 inputs |{k:v}|, k and v each int64 | string (Choose; the third input's v is a string) with a one-byte symbolic payload; each input in leg 0 or leg 1
// verif:outside input maps with more than one entry or with union-typed keys fed directly (the same code path as a union-keyed partial); Go map iteration order (the table-size assertion is checked first because the result of a table with duplicate keys depends on it); null inputs
func VerifH_C10_O5b_collect_map_partials() {
	v10cCollectMapPartials(3)
}
