//go:build verif

package agg

import (
	"github.com/brimdata/super"
	"github.com/brimdata/super/internal/verif"
	"github.com/brimdata/super/zcode"
)

const v10eNumTypes = 6

// v10eValue: one value of the k-th type of the pool int64, float64, bool,
// string, ip, {a:int64} (the fuse aggregate looks at the type only).
func v10eValue(zctx *zed.Context, k int) zed.Value {
	switch k {
	case 0:
		return zed.NewInt64(1)
	case 1:
		return zed.NewFloat64(1.5)
	case 2:
		return zed.True
	case 3:
		return zed.NewString("s")
	case 4:
		// (built from its bytes: the engine does not interpret the init of net/netip)
		return zed.NewValue(zed.TypeIP, []byte{10, 0, 0, 1})
	}
	typ := zctx.MustLookupTypeRecord([]zed.Field{zed.NewField("a", zed.TypeInt64)})
	return zed.NewValue(typ, zcode.Append(nil, zed.EncodeInt(1)))
}

// v10ePick: n different pool indexes; ordered (every arrangement) or increasing.
func v10ePick(n int, ordered bool) []int {
	var out []int
	if ordered {
		used := make([]bool, v10eNumTypes)
		for i := 0; i < n; i++ {
			c := verif.Choose("t"+string(rune('1'+i)), v10eNumTypes-i)
			for k := 0; k < v10eNumTypes; k++ {
				if used[k] {
					continue
				}
				if c == 0 {
					used[k] = true
					out = append(out, k)
					break
				}
				c--
			}
		}
		return out
	}
	lo := 0
	for i := 0; i < n; i++ {
		// leave room for the remaining picks
		k := lo + verif.Choose("t"+string(rune('1'+i)), v10eNumTypes-(n-1-i)-lo)
		out = append(out, k)
		lo = k + 1
	}
	return out
}

// v10eTypeOf: the type a fuse result (a type value) denotes; nil for null.
func v10eTypeOf(zctx *zed.Context, v zed.Value) (zed.Type, bool) {
	if v.Type() != zed.TypeType {
		return nil, false
	}
	if v.IsNull() {
		return nil, true
	}
	typ, err := zctx.LookupByValue(v.Bytes())
	return typ, err == nil
}

// v10eHasMember: t is m or a member of the union m.
func v10eHasMember(m, t zed.Type) bool {
	if m == t {
		return true
	}
	if u, ok := m.(*zed.TypeUnion); ok {
		for _, x := range u.Types {
			if x == t {
				return true
			}
		}
	}
	return false
}

func v10eFusePartials(n int, ordered bool) {
	zctx := zed.NewContext()
	picks := v10ePick(n, ordered)
	vals := make([]zed.Value, n)
	leg := make([]int, n)
	cnt := [2]int{}
	for i := range vals {
		vals[i] = v10eValue(zctx, picks[i])
		leg[i] = verif.Choose("leg"+string(rune('1'+i)), 2)
		cnt[leg[i]]++
	}
	// direct
	direct := newFuse()
	for _, v := range vals {
		direct.Consume(v)
	}
	dres := direct.Result(zctx)
	dtyp, ok := v10eTypeOf(zctx, dres)
	verif.Assert(ok && dtyp != nil, "fuse/direct-result-is-a-type")
	if !ok || dtyp == nil {
		return
	}
	for _, v := range vals {
		verif.Assert(v10eHasMember(dtyp, v.Type()), "fuse/direct-has-every-input-type")
	}
	// two legs, then the combiner
	legs := [2]*fuse{newFuse(), newFuse()}
	for i, v := range vals {
		legs[leg[i]].Consume(v)
	}
	comb := newFuse()
	for l := 0; l < 2; l++ {
		if cnt[l] == 0 {
			// (the null partial of an empty leg is the subject of O7b)
			continue
		}
		p := legs[l].ResultAsPartial(zctx)
		ptyp, ok := v10eTypeOf(zctx, p)
		verif.Assert(ok && ptyp != nil, "fuse/partial-is-a-type")
		if !ok || ptyp == nil {
			return
		}
		for i, v := range vals {
			if leg[i] == l {
				verif.Assert(v10eHasMember(ptyp, v.Type()), "fuse/partial-has-every-leg-type")
			}
		}
		if zed.IsUnionType(ptyp) {
			verif.Reach("union-partial")
		}
		comb.ConsumeAsPartial(p)
	}
	cres := comb.Result(zctx)
	ctyp, ok := v10eTypeOf(zctx, cres)
	verif.Assert(ok && ctyp != nil, "fuse/composed-result-is-a-type")
	if !ok || ctyp == nil {
		return
	}
	for _, v := range vals {
		verif.Assert(v10eHasMember(ctyp, v.Type()), "fuse/composed-has-every-input-type")
	}
	verif.Assert(vEquiv(ctyp, dtyp), "fuse/composed-equals-direct")
	verif.Assert(vWellFormed(ctyp), "fuse/composed-well-formed")
	if cnt[0] >= 2 && cnt[1] >= 2 {
		verif.Reach("union-with-union")
	}
	if cnt[0] >= 2 && cnt[1] == 1 || cnt[0] == 1 && cnt[1] >= 2 {
		verif.Reach("union-with-single")
	}
	verif.Reach("end")
}

// verif:desc C10-O7 the fuse aggregate composes through partial results: real agg.fuse (Consume, ResultAsPartial = Result, ConsumeAsPartial, Result; Schema.Mixin/merge incl. the union+union and union+member branches, mergeAllRecords, Context.LookupTypeValue/LookupByValue/LookupTypeUnion) over 3 or 4 input values of pairwise DIFFERENT types, split over two legs in every way; each non-empty leg's partial (a type value, a union type as soon as the leg saw two types) is handed to a combiner.  Asserted: every partial and the composed result are type values; each leg's partial has every type of its leg, the composed type has EVERY input type as a member (no member of either union is lost when two unions are merged), is well formed, and equals the type of the direct evaluation up to union member order.
// verif:bounds 3 values: every ordered selection of 3 different types of {int64, float64, bool, string, ip, {a:int64}} (120) x every assignment to 2 legs (8); 4 values: every selection of 4 of the 6 types in pool order (15) x every assignment to 2 legs (16, of which 6 merge a 2-member union with a 2-member union); all concrete (types are pointer structures): the check enumerates, the solver has nothing to decide
// verif:outside equal types consumed twice; null values; two or more record types (C20-O1 covers record merging); more than two legs; the null partial of a leg that saw no value (skipped here: see O7b_fuse_null_partial)
func VerifH_C10_O7_fuse_partials() {
	if verif.Choose("n", 2) == 0 {
		v10eFusePartials(3, true)
	} else {
		v10eFusePartials(4, false)
	}
}

// verif:desc C10-O7 as fuse_partials with 4 values in every arrangement (union member order of the partials varies)
// verif:bounds 4 values: every ordered selection of 4 different types of the 6 (360) x every assignment to 2 legs (16)
// verif:outside as fuse_partials
// verif:tier thorough
func VerifH_C10_O7_fuse_partials4() {
	v10eFusePartials(4, true)
}

// verif:desc C10-O7b a leg whose row saw no value of the aggregate's argument (fuse(x) over records of the group that lack x, or all filtered by "where"): its fuse state is empty, ResultAsPartial is the null type value <null(type)>, which group-by hands to the combiner like any partial (spillTable/readSpills, partials-in).  Asserted: the combiner does not panic, and its Result is the type value of the direct evaluation over the other leg's values (a leg without values contributes nothing).
// verif:bounds 1..2 values of different types of the pool in one leg, none in the other; the null partial is consumed first or last
// verif:outside as fuse_partials
func VerifH_C10_O7b_fuse_null_partial() {
	zctx := zed.NewContext()
	n := 1 + verif.Choose("n", 2)
	picks := v10ePick(n, true)
	full, direct := newFuse(), newFuse()
	for _, k := range picks {
		full.Consume(v10eValue(zctx, k))
		direct.Consume(v10eValue(zctx, k))
	}
	empty := newFuse()
	pe := empty.ResultAsPartial(zctx)
	verif.Assert(pe.Type() == zed.TypeType && pe.IsNull(), "fuse/empty-partial-is-null-type-value")
	pf := full.ResultAsPartial(zctx)
	comb := newFuse()
	if verif.Choose("null-first", 2) == 1 {
		comb.ConsumeAsPartial(pe)
		comb.ConsumeAsPartial(pf)
	} else {
		comb.ConsumeAsPartial(pf)
		comb.ConsumeAsPartial(pe)
	}
	var cres zed.Value
	panicked := func() (p bool) {
		defer func() {
			if recover() != nil {
				p = true
			}
		}()
		cres = comb.Result(zctx)
		return false
	}()
	verif.Assert(!panicked, "fuse/null-partial-composes")
	if panicked {
		return
	}
	dres := direct.Result(zctx)
	verif.Assert(cres.Type() == zed.TypeType && vSameBytes(cres.Bytes(), dres.Bytes()), "fuse/null-partial-is-neutral")
	verif.Reach("end")
}

func vSameBytes(a, b zcode.Bytes) bool {
	if (a == nil) != (b == nil) || len(a) != len(b) {
		return false
	}
	for i := range a {
		if a[i] != b[i] {
			return false
		}
	}
	return true
}

// ---------------------------------------------------------------------------
// C20-O1b

var v20eNames = []string{"int64", "float64", "bool", "string", "ip", "{a:int64}", "{b:string}"}

func v20eType(zctx *zed.Context, k int) zed.Type {
	if k < 5 {
		return v10eValue(zctx, k).Type()
	}
	if k == 5 {
		return zctx.MustLookupTypeRecord([]zed.Field{zed.NewField("a", zed.TypeInt64)})
	}
	return zctx.MustLookupTypeRecord([]zed.Field{zed.NewField("b", zed.TypeString)})
}

// verif:desc C20-O1b agg.Schema.Mixin/merge of two UNION types a=(T1,T2) and b with 2..4 members of which 2 or 3 are absent from a (the union+union branch of merge: appendIfAbsent over b's members, mergeAllRecords): the merged type absorbs every member of a and of b (vContains), is well formed, has exactly the expected number of members (distinct non-record members of both, plus one record if any: records are merged into one), the other Mixin order gives the same type up to member order, and mixing b in again changes nothing.
// verif:bounds members drawn from {int64, float64, bool, string, ip, {a:int64}, {b:string}}: a = 2 members (every increasing pair, 21), b = every subset of the pool of size 2..4 with 2 or 3 members not in a; concrete enumeration
// verif:outside unions of more than 4 members, named unions, nested containers as members (C20-O1 merge_pairs covers the pairwise kinds)
func VerifH_C20_O1b_merge_unions() {
	const np = 7
	zctx := zed.NewContext()
	a1 := verif.Choose("a1", np-1)
	a2 := a1 + 1 + verif.Choose("a2", np-1-a1)
	inA := make([]bool, np)
	inA[a1], inA[a2] = true, true
	var bsel []int
	absent := 0
	for k := 0; k < np; k++ {
		if verif.Choose("b."+v20eNames[k], 2) == 1 {
			bsel = append(bsel, k)
			if !inA[k] {
				absent++
			}
		}
	}
	if len(bsel) < 2 || len(bsel) > 4 || absent < 2 || absent > 3 {
		return
	}
	ta := zctx.LookupTypeUnion([]zed.Type{v20eType(zctx, a1), v20eType(zctx, a2)})
	var bts []zed.Type
	for _, k := range bsel {
		bts = append(bts, v20eType(zctx, k))
	}
	tb := zctx.LookupTypeUnion(bts)
	m := vMixin(zctx, ta, tb)
	// expected members
	want, recs := 0, 0
	for k := 0; k < np; k++ {
		in := inA[k]
		for _, b := range bsel {
			if b == k {
				in = true
			}
		}
		if !in {
			continue
		}
		if k >= 5 {
			recs++
		} else {
			want++
		}
		verif.Assert(vContains(m, v20eType(zctx, k)), "union-merge-absorbs-every-member")
		if k < 5 {
			verif.Assert(v10eHasMember(m, v20eType(zctx, k)), "union-merge-keeps-every-primitive-member")
		}
	}
	if recs > 0 {
		want++
	}
	verif.Assert(vContains(m, ta), "union-merge-contains-first")
	verif.Assert(vContains(m, tb), "union-merge-contains-second")
	verif.Assert(vWellFormed(m), "union-merge-well-formed")
	mu, isUnion := m.(*zed.TypeUnion)
	verif.Assert(isUnion && len(mu.Types) == want, "union-merge-member-count")
	verif.Assert(vEquiv(m, vMixin(zctx, tb, ta)), "union-merge-order-insensitive")
	if recs == 2 {
		// (a record member merged from two records is a new type; mixing the
		// parts in again must still change nothing)
		verif.Reach("two-records-merged")
	}
	verif.Assert(vEquiv(vMixin(zctx, m, tb), m), "union-merge-idempotent")
	verif.Assert(vEquiv(vMixin(zctx, m, ta), m), "union-merge-idempotent")
	if absent == 3 {
		verif.Reach("three-absent")
	}
	if absent == 2 {
		verif.Reach("two-absent")
	}
	if len(bsel) > absent {
		verif.Reach("shared-member")
	}
	verif.Reach("end")
}
