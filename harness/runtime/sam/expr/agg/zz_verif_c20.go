//go:build verif

package agg

import (
	"github.com/brimdata/super"
	"github.com/brimdata/super/internal/verif"
)

// ---------------------------------------------------------------------------
// type templates

var (
	vPrims  = []zed.Type{zed.TypeInt64, zed.TypeString}
	vFNames = []string{"a", "b"}
)

const vNumTemplates = 10

func vPrim(name string) zed.Type { return vPrims[verif.Choose(name, len(vPrims))] }

// vTemplate picks one small type: primitive P, {f:P}, {f:P,g:Q}, {f:{g:P}},
// [P], |[P]|, |{P:Q}|, (int64,string), named n=P, null.  f,g in {a,b}; P,Q in
// {int64,string}.
func vTemplate(zctx *zed.Context, name string) zed.Type {
	switch verif.Choose(name+".tmpl", vNumTemplates) {
	case 0:
		return vPrim(name + ".P")
	case 1:
		f := vFNames[verif.Choose(name+".f", 2)]
		return zctx.MustLookupTypeRecord([]zed.Field{zed.NewField(f, vPrim(name+".P"))})
	case 2:
		i := verif.Choose(name+".f", 2)
		return zctx.MustLookupTypeRecord([]zed.Field{
			zed.NewField(vFNames[i], vPrim(name+".P")),
			zed.NewField(vFNames[1-i], vPrim(name+".Q")),
		})
	case 3:
		f := vFNames[verif.Choose(name+".f", 2)]
		g := vFNames[verif.Choose(name+".g", 2)]
		inner := zctx.MustLookupTypeRecord([]zed.Field{zed.NewField(g, vPrim(name+".P"))})
		return zctx.MustLookupTypeRecord([]zed.Field{zed.NewField(f, inner)})
	case 4:
		return zctx.LookupTypeArray(vPrim(name + ".P"))
	case 5:
		return zctx.LookupTypeSet(vPrim(name + ".P"))
	case 6:
		return zctx.LookupTypeMap(vPrim(name+".P"), vPrim(name+".Q"))
	case 7:
		return zctx.LookupTypeUnion([]zed.Type{zed.TypeInt64, zed.TypeString})
	case 8:
		t, err := zctx.LookupTypeNamed("n", vPrim(name+".P"))
		if err != nil {
			panic(err)
		}
		return t
	}
	return zed.TypeNull
}

// ---------------------------------------------------------------------------
// harness predicates on types

// vContains: every value of type t can be placed in type m without losing
// anything: m is t, or a union with a member containing t, or the same kind of
// container around containing types; records contain records whose fields
// they all have (at the same path) with containing types.
func vContains(m, t zed.Type) bool {
	if m == t {
		return true
	}
	tu := zed.TypeUnder(t)
	if tu == zed.TypeNull {
		return true
	}
	if u, ok := tu.(*zed.TypeUnion); ok {
		for _, member := range u.Types {
			if !vContains(m, member) {
				return false
			}
		}
		return true
	}
	mu := zed.TypeUnder(m)
	if u, ok := mu.(*zed.TypeUnion); ok {
		for _, member := range u.Types {
			if vContains(member, t) {
				return true
			}
		}
		return false
	}
	switch mu := mu.(type) {
	case *zed.TypeRecord:
		tr, ok := tu.(*zed.TypeRecord)
		if !ok {
			return false
		}
		for _, f := range tr.Fields {
			i, ok := mu.IndexOfField(f.Name)
			if !ok || !vContains(mu.Fields[i].Type, f.Type) {
				return false
			}
		}
		return true
	case *zed.TypeArray:
		// an array also takes the elements of a set
		if inner := zed.InnerType(tu); inner != nil {
			return vContains(mu.Type, inner)
		}
		return false
	case *zed.TypeSet:
		if ts, ok := tu.(*zed.TypeSet); ok {
			return vContains(mu.Type, ts.Type)
		}
		return false
	case *zed.TypeMap:
		if tm, ok := tu.(*zed.TypeMap); ok {
			return vContains(mu.KeyType, tm.KeyType) && vContains(mu.ValType, tm.ValType)
		}
		return false
	}
	// primitives: same underlying type (the name may have been merged away)
	return mu == tu
}

// vWellFormed: unions have at least two, pairwise different members and no
// member is itself a union; recursively.
func vWellFormed(t zed.Type) bool {
	switch t := zed.TypeUnder(t).(type) {
	case *zed.TypeUnion:
		if len(t.Types) < 2 {
			return false
		}
		for i, m := range t.Types {
			if zed.IsUnionType(m) || !vWellFormed(m) {
				return false
			}
			for _, o := range t.Types[:i] {
				if o == m {
					return false
				}
			}
		}
	case *zed.TypeRecord:
		for _, f := range t.Fields {
			if !vWellFormed(f.Type) {
				return false
			}
		}
	case *zed.TypeArray:
		return vWellFormed(t.Type)
	case *zed.TypeSet:
		return vWellFormed(t.Type)
	case *zed.TypeMap:
		return vWellFormed(t.KeyType) && vWellFormed(t.ValType)
	}
	return true
}

// vEquiv: equal up to record field order and union member order.
func vEquiv(a, b zed.Type) bool {
	if a == b {
		return true
	}
	switch a := a.(type) {
	case *zed.TypeRecord:
		b, ok := b.(*zed.TypeRecord)
		if !ok || len(a.Fields) != len(b.Fields) {
			return false
		}
		for _, f := range a.Fields {
			i, ok := b.IndexOfField(f.Name)
			if !ok || !vEquiv(f.Type, b.Fields[i].Type) {
				return false
			}
		}
		return true
	case *zed.TypeUnion:
		b, ok := b.(*zed.TypeUnion)
		if !ok || len(a.Types) != len(b.Types) {
			return false
		}
		for _, x := range a.Types {
			found := false
			for _, y := range b.Types {
				if vEquiv(x, y) {
					found = true
				}
			}
			if !found {
				return false
			}
		}
		return true
	case *zed.TypeArray:
		b, ok := b.(*zed.TypeArray)
		return ok && vEquiv(a.Type, b.Type)
	case *zed.TypeSet:
		b, ok := b.(*zed.TypeSet)
		return ok && vEquiv(a.Type, b.Type)
	case *zed.TypeMap:
		b, ok := b.(*zed.TypeMap)
		return ok && vEquiv(a.KeyType, b.KeyType) && vEquiv(a.ValType, b.ValType)
	}
	return false
}

func vMixin(zctx *zed.Context, types ...zed.Type) zed.Type {
	s := NewSchema(zctx)
	for _, t := range types {
		s.Mixin(t)
	}
	return s.Type()
}

// vSharesInner: x and y are containers of the same kind family whose element
// (or map key / map value) types are the same type, so that merging x and y
// merges a type with itself below the top level.
func vSharesInner(x, y zed.Type) bool {
	xu, yu := zed.TypeUnder(x), zed.TypeUnder(y)
	if xi, yi := zed.InnerType(xu), zed.InnerType(yu); xi != nil && yi != nil {
		return xi == yi
	}
	if xm, ok := xu.(*zed.TypeMap); ok {
		if ym, ok := yu.(*zed.TypeMap); ok {
			return xm.KeyType == ym.KeyType || xm.ValType == ym.ValType
		}
	}
	return false
}

func vCheckRemix(zctx *zed.Context, m, t zed.Type, id string) {
	again := vMixin(zctx, m, t)
	switch {
	case m == t && !zed.IsRecordType(m):
		verif.Assert(vEquiv(again, m), id+"/same-type-twice")
	case vSharesInner(m, t):
		verif.Assert(vEquiv(again, m), id+"/same-inner-type")
	default:
		verif.Assert(vEquiv(again, m), id)
	}
}

// verif:desc C20-O1 agg.Schema.Mixin/merge/mergeAllRecords (with the real zed.Context lookups) on every ordered pair of templates: (a) the merged type absorbs both inputs (vContains: each input path is present and its type is contained), (b) it is a well-formed type (no union with duplicate or nested-union members), (c) the other Mixin order gives the same type up to field / member order, (d) mixing an input in again changes nothing.
// verif:bounds 2 types, each one of 34 instances of 10 templates: P, {f:P}, {f:P,g:Q}, {f:{g:P}}, [P], |[P]|, |{P:Q}|, (int64,string), named n=P, null with P,Q in {int64,string}, f,g in {a,b}; everything is a concrete choice (types are pointer structures): the check enumerates 1156 pairs through the interpreter, the solver has nothing to decide
// verif:outside other primitives, deeper nesting, enums, errors, three or more types (see triples)
func VerifH_C20_O1_merge_pairs() {
	zctx := zed.NewContext()
	t1 := vTemplate(zctx, "t1")
	t2 := vTemplate(zctx, "t2")
	m := vMixin(zctx, t1, t2)
	verif.Assert(vContains(m, t1), "merged-contains-first")
	verif.Assert(vContains(m, t2), "merged-contains-second")
	switch {
	case t1 == t2:
		// Fuser and the fuse aggregate mix each distinct type in once (the
		// aggregate's partials excepted)
		verif.Assert(vWellFormed(m), "merged-well-formed/same-type-twice")
		verif.Assert(m == t1, "merge-idempotent/same-type-twice")
		verif.Reach("same")
	case vSharesInner(t1, t2):
		verif.Assert(vWellFormed(m), "merged-well-formed/same-inner-type")
		verif.Reach("same-inner")
	default:
		verif.Assert(vWellFormed(m), "merged-well-formed")
	}
	if t1 != t2 {
		verif.Assert(vEquiv(m, vMixin(zctx, t2, t1)), "merge-order-insensitive")
		vCheckRemix(zctx, m, t1, "merge-idempotent")
		vCheckRemix(zctx, m, t2, "merge-idempotent")
	}
	if zed.IsUnionType(m) {
		verif.Reach("union")
	}
	verif.Reach("end")
}

// verif:desc C20-O1 Mixin of three templates in sequence: the fused type absorbs all three inputs and is well formed.  (Order-insensitivity is not asserted for triples: the property does not state it, and arrays inside a union are deliberately not merged by merge.)
// verif:bounds 3 types, each one of the 34 template instances of merge_pairs (39304 triples, concrete enumeration)
// verif:outside as merge_pairs
// verif:tier thorough
func VerifH_C20_O1_merge_triples() {
	zctx := zed.NewContext()
	t1 := vTemplate(zctx, "t1")
	t2 := vTemplate(zctx, "t2")
	t3 := vTemplate(zctx, "t3")
	m := vMixin(zctx, t1, t2, t3)
	verif.Assert(vContains(m, t1), "merged3-contains-first")
	verif.Assert(vContains(m, t2), "merged3-contains-second")
	verif.Assert(vContains(m, t3), "merged3-contains-third")
	m12 := vMixin(zctx, t1, t2)
	if t1 == t2 || t1 == t3 || t2 == t3 || m12 == t3 {
		verif.Assert(vWellFormed(m), "merged3-well-formed/same-type-twice")
	} else if vSharesInner(t1, t2) || vSharesInner(m12, t3) || !vWellFormed(m12) {
		verif.Assert(vWellFormed(m), "merged3-well-formed/same-inner-type")
	} else {
		verif.Assert(vWellFormed(m), "merged3-well-formed")
	}
	verif.Reach("end")
}
