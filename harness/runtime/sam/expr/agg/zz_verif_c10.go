//go:build verif

package agg

import (
	"math"

	"github.com/brimdata/super"
	"github.com/brimdata/super/internal/verif"
	"github.com/brimdata/super/pkg/nano"
)

// ---------------------------------------------------------------------------
// shared input model

// numeric element types of the math aggregates
const (
	vtInt64 = iota
	vtUint64
	vtFloat64
	vtDuration
	vtTime
	vtNumTypes
)

var vTypes = []zed.Type{zed.TypeInt64, zed.TypeUint64, zed.TypeFloat64, zed.TypeDuration, zed.TypeTime}

// vIn is one aggregate input: a value of type vTypes[t], null or with a
// 64-bit payload (an int64/uint64 bit pattern or a float64).
type vIn struct {
	t    int
	null bool
	bits uint64
	f    float64
}

func (x vIn) val() zed.Value {
	if x.null {
		return zed.NewValue(vTypes[x.t], nil)
	}
	switch x.t {
	case vtInt64:
		return zed.NewInt64(int64(x.bits))
	case vtUint64:
		return zed.NewUint64(x.bits)
	case vtFloat64:
		return zed.NewFloat64(x.f)
	case vtDuration:
		return zed.NewDuration(nano.Duration(x.bits))
	case vtTime:
		return zed.NewTime(nano.Ts(x.bits))
	}
	panic("vIn")
}

// vSymPayload makes the payload of a non-null input of type t symbolic.
func vSymPayload(name string, t int) vIn {
	x := vIn{t: t}
	if t == vtFloat64 {
		x.f = verif.Float64(name)
		// NaN makes min/max order dependent by definition; outside.
		verif.Assume(x.f == x.f)
	} else {
		x.bits = verif.Uint64(name)
	}
	return x
}

var vMathFuncs = []string{"min", "max", "sum"}

func vNewMath(f int) Function {
	p, err := NewPattern(vMathFuncs[f], true)
	if err != nil {
		panic(err)
	}
	return p()
}

// vFold is the naive oracle: the fold of min/max/sum over the non-null inputs,
// all of which have type T.
type vFold struct {
	f    int // index into vMathFuncs
	t    int
	have bool
	i    int64
	u    uint64
	fl   float64
	inf  bool // a float input was +-Inf
}

func (o *vFold) add(x vIn) {
	if x.null {
		return
	}
	switch o.t {
	case vtFloat64:
		if x.f > math.MaxFloat64 || x.f < -math.MaxFloat64 {
			o.inf = true
		}
		switch {
		case o.f == 2:
			// the naive sum starts from 0
			o.fl += x.f
		case !o.have:
			o.fl = x.f
		case o.f == 0 && x.f < o.fl, o.f == 1 && x.f > o.fl:
			o.fl = x.f
		}
	case vtUint64:
		switch {
		case o.f == 2:
			o.u += x.bits
		case !o.have:
			o.u = x.bits
		case o.f == 0 && x.bits < o.u, o.f == 1 && x.bits > o.u:
			o.u = x.bits
		}
	default:
		v := int64(x.bits)
		switch {
		case o.f == 2:
			o.i += v // wrapping, as Go and the language do
		case !o.have:
			o.i = v
		case o.f == 0 && v < o.i, o.f == 1 && v > o.i:
			o.i = v
		}
	}
	o.have = true
}

// agrees reports whether the aggregate result r is the fold: a non-null value
// of T's representation family (float / unsigned / signed incl. duration and
// time) with the same value.
func (o *vFold) agrees(r zed.Value) bool {
	if r.IsNull() {
		return false
	}
	id := r.Type().ID()
	switch o.t {
	case vtFloat64:
		return zed.IsFloat(id) && r.Float() == o.fl
	case vtUint64:
		return zed.IsUnsigned(id) && r.Uint() == o.u
	}
	return zed.IsSigned(id) && r.Int() == o.i
}

// vForeignNullOK: a null of type nt may accompany values of type T without the
// language's promotion rules changing the representation family of the result
// (a float64 or int64 null next to uint64 values, or a float64 null next to
// integers, legitimately promotes the aggregate; those mixes have no naive
// oracle and are outside).
func vForeignNullOK(T, nt int) bool {
	switch T {
	case vtFloat64:
		return true
	case vtUint64:
		return nt == vtUint64
	}
	return nt != vtFloat64
}

// vRunFold drives one min/max/sum instance over n inputs whose non-null members
// all have type T; each null input has its own numeric type.
func vRunFold(n int) {
	f := verif.Choose("func", len(vMathFuncs))
	T := verif.Choose("T", vtNumTypes)
	fn := vNewMath(f)
	o := &vFold{f: f, t: T}
	foreignBefore, foreignAfter, anyNull := false, false, false
	for i := 0; i < n; i++ {
		name := string(rune('a' + i))
		var x vIn
		// 0 = non-null of type T, 1+k = null of type k
		if c := verif.Choose(name+".kind", 1+vtNumTypes); c == 0 {
			x = vSymPayload(name, T)
		} else {
			x = vIn{t: c - 1, null: true}
			if !vForeignNullOK(T, x.t) {
				return
			}
			anyNull = true
			if x.t != T {
				if o.have {
					foreignAfter = true
				} else {
					foreignBefore = true
				}
			}
		}
		fn.Consume(x.val())
		o.add(x)
	}
	r := fn.Result(nil)
	switch {
	case !o.have:
		// no value at all: the result is a null
		verif.Assert(r.IsNull(), "fold-empty-is-null")
		if !foreignBefore && anyNull {
			verif.Assert(r.Type() == vTypes[T], "fold-empty-type")
		}
		verif.Reach("empty")
	case o.inf:
		verif.Assert(o.agrees(r), "fold/inf")
		verif.Reach("inf")
	case foreignBefore:
		// a null of another numeric type arrived before the first value
		verif.Assert(o.agrees(r), "fold/foreign-null-first")
		verif.Reach("foreign-null-first")
	case foreignAfter:
		verif.Assert(o.agrees(r), "fold/foreign-null-later")
		verif.Reach("foreign-null-later")
	default:
		verif.Assert(o.agrees(r), "fold")
		verif.Assert(r.Type() == vTypes[T], "fold-type")
		verif.Reach("pure")
	}
	verif.Reach("end")
}

// verif:desc C10-O1b min/max/sum (agg.mathReducer.Consume/consumeVal/Result with the real coerce.Promote/ToInt/ToUint/ToFloat and anymath functions) over 2 inputs agree with the naive fold over the non-null inputs: same numeric value (same type and bits when every input has the element type), null when there is no non-null input.
// verif:bounds 2 inputs; non-null inputs all of one type T in {int64,uint64,float64,duration,time} with any 64-bit payload (floats: any non-NaN incl. +-Inf, +-0); each null input of any of the 5 types independently; function in {min,max,sum}
// verif:outside NaN; narrower integer/float widths; non-null inputs of mixed types, float64 nulls next to integers and signed/float nulls next to uint64 values (the language's promotion rules then change the representation of the aggregate, no naive oracle); strings; float sum is compared with the left fold from 0 in input order
func VerifH_C10_O1b_fold2() {
	vRunFold(2)
}

// verif:desc C10-O1b as fold2 with 3 inputs (null, null, value and value, null, value orders included)
// verif:bounds as fold2, 3 inputs
// verif:tier thorough
func VerifH_C10_O1b_fold3() {
	vRunFold(3)
}
