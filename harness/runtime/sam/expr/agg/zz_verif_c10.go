//go:build verif

package agg

import (
	"math"

	"github.com/brimdata/super"
	"github.com/brimdata/super/internal/verif"
	"github.com/brimdata/super/pkg/nano"
)

// ---------------------------------------------------------------------------
// shared input model

// numeric element types of the math aggregates
const (
	vtInt64 = iota
	vtUint64
	vtFloat64
	vtDuration
	vtTime
	vtNumTypes
)

var vTypes = []zed.Type{zed.TypeInt64, zed.TypeUint64, zed.TypeFloat64, zed.TypeDuration, zed.TypeTime}

// vIn is one aggregate input: a value of type vTypes[t], null or with a
// 64-bit payload (an int64/uint64 bit pattern or a float64).
type vIn struct {
	t    int
	null bool
	bits uint64
	f    float64
}

func (x vIn) val() zed.Value {
	if x.null {
		return zed.NewValue(vTypes[x.t], nil)
	}
	switch x.t {
	case vtInt64:
		return zed.NewInt64(int64(x.bits))
	case vtUint64:
		return zed.NewUint64(x.bits)
	case vtFloat64:
		return zed.NewFloat64(x.f)
	case vtDuration:
		return zed.NewDuration(nano.Duration(x.bits))
	case vtTime:
		return zed.NewTime(nano.Ts(x.bits))
	}
	panic("vIn")
}

// vSymPayload makes the payload of a non-null input of type t symbolic.
func vSymPayload(name string, t int) vIn {
	x := vIn{t: t}
	if t == vtFloat64 {
		x.f = verif.Float64(name + ".f")
		// NaN makes min/max order dependent by definition; outside.
		verif.Assume(x.f == x.f)
	} else {
		x.bits = verif.Uint64(name + ".u")
	}
	return x
}

var vMathFuncs = []string{"min", "max", "sum"}

func vNewMath(f int) Function {
	p, err := NewPattern(vMathFuncs[f], true)
	if err != nil {
		panic(err)
	}
	return p()
}

// vFold is the naive oracle: the fold of min/max/sum over the non-null inputs,
// all of which have type T.
type vFold struct {
	f    int // index into vMathFuncs
	t    int
	have bool
	i    int64
	u    uint64
	fl   float64
	inf  bool // a float input was +-Inf
}

func (o *vFold) add(x vIn) {
	if x.null {
		return
	}
	switch o.t {
	case vtFloat64:
		if x.f > math.MaxFloat64 || x.f < -math.MaxFloat64 {
			o.inf = true
		}
		switch {
		case o.f == 2:
			// the naive sum starts from 0
			o.fl += x.f
		case !o.have:
			o.fl = x.f
		case o.f == 0 && x.f < o.fl, o.f == 1 && x.f > o.fl:
			o.fl = x.f
		}
	case vtUint64:
		switch {
		case o.f == 2:
			o.u += x.bits
		case !o.have:
			o.u = x.bits
		case o.f == 0 && x.bits < o.u, o.f == 1 && x.bits > o.u:
			o.u = x.bits
		}
	default:
		v := int64(x.bits)
		switch {
		case o.f == 2:
			o.i += v // wrapping, as Go and the language do
		case !o.have:
			o.i = v
		case o.f == 0 && v < o.i, o.f == 1 && v > o.i:
			o.i = v
		}
	}
	o.have = true
}

// agrees reports whether the aggregate result r is the fold: a non-null value
// of T's representation family (float / unsigned / signed incl. duration and
// time) with the same value.
func (o *vFold) agrees(r zed.Value) bool {
	if r.IsNull() {
		return false
	}
	id := r.Type().ID()
	switch o.t {
	case vtFloat64:
		// NaN (e.g. the sum of +Inf and -Inf) agrees with NaN
		return zed.IsFloat(id) && (r.Float() == o.fl || (r.Float() != r.Float() && o.fl != o.fl))
	case vtUint64:
		return zed.IsUnsigned(id) && r.Uint() == o.u
	}
	return zed.IsSigned(id) && r.Int() == o.i
}

// vForeignNullOK: a null of type nt may accompany values of type T without the
// language's promotion rules changing the representation family of the result
// (a float64 or int64 null next to uint64 values, or a float64 null next to
// integers, legitimately promotes the aggregate; those mixes have no naive
// oracle and are outside).
func vForeignNullOK(T, nt int) bool {
	switch T {
	case vtFloat64:
		return true
	case vtUint64:
		return nt == vtUint64
	}
	return nt != vtFloat64
}

// vRunFold drives one min/max/sum instance over n inputs whose non-null members
// all have type T; each null input has its own numeric type.
func vRunFold(n int) {
	f := verif.Choose("func", len(vMathFuncs))
	T := verif.Choose("T", vtNumTypes)
	fn := vNewMath(f)
	o := &vFold{f: f, t: T}
	foreignBefore, foreignAfter, anyNull := false, false, false
	for i := 0; i < n; i++ {
		name := string(rune('a' + i))
		var x vIn
		// 0 = non-null of type T, 1+k = null of type k
		if c := verif.Choose(name+".kind", 1+vtNumTypes); c == 0 {
			x = vSymPayload(name, T)
		} else {
			x = vIn{t: c - 1, null: true}
			if !vForeignNullOK(T, x.t) {
				return
			}
			anyNull = true
			if x.t != T {
				if o.have {
					foreignAfter = true
				} else {
					foreignBefore = true
				}
			}
		}
		fn.Consume(x.val())
		o.add(x)
	}
	r := fn.Result(nil)
	switch {
	case !o.have:
		// no value at all: the result is a null
		verif.Assert(r.IsNull(), "fold-empty-is-null")
		if !foreignBefore && anyNull {
			verif.Assert(r.Type() == vTypes[T], "fold-empty-type")
		}
		verif.Reach("empty")
	case o.inf:
		verif.Assert(o.agrees(r), "fold/inf")
		verif.Reach("inf")
	case foreignBefore:
		// a null of another numeric type arrived before the first value
		verif.Assert(o.agrees(r), "fold/foreign-null-first")
		verif.Reach("foreign-null-first")
	case foreignAfter:
		verif.Assert(o.agrees(r), "fold/foreign-null-later")
		verif.Reach("foreign-null-later")
	default:
		verif.Assert(o.agrees(r), "fold")
		verif.Assert(r.Type() == vTypes[T], "fold-type")
		verif.Reach("pure")
	}
	verif.Reach("end")
}

// verif:desc C10-O1b min/max/sum (agg.mathReducer.Consume/consumeVal/Result with the real coerce.Promote/ToInt/ToUint/ToFloat and anymath functions) over 2 inputs agree with the naive fold over the non-null inputs: same numeric value (same type and bits when every input has the element type), null when there is no non-null input.
// verif:bounds 2 inputs; non-null inputs all of one type T in {int64,uint64,float64,duration,time} with any 64-bit payload (floats: any non-NaN incl. +-Inf, +-0); each null input of any of the 5 types independently; function in {min,max,sum}
// verif:outside NaN; narrower integer/float widths; non-null inputs of mixed types, float64 nulls next to integers and signed/float nulls next to uint64 values (the language's promotion rules then change the representation of the aggregate, no naive oracle); strings; float sum is compared with the left fold from 0 in input order
func VerifH_C10_O1b_fold2() {
	vRunFold(2)
}

// verif:desc C10-O1b as fold2 with 3 inputs (null, null, value and value, null, value orders included)
// verif:bounds as fold2, 3 inputs
// verif:tier thorough
func VerifH_C10_O1b_fold3() {
	vRunFold(3)
}

// ---------------------------------------------------------------------------
// O1: partial results compose

const (
	vkInt = iota
	vkUint
	vkFloat
	vkBool
	vkNullInt
	vkNullUint
	vkNullFloat
	vkNullBool
	vkNull
)

var vComposeFuncs = []string{"count", "sum", "min", "max", "avg", "and", "or"}

// the input kinds offered to each run ("menu")
var (
	vMenuInts   = []int{vkInt, vkUint, vkNullInt, vkNullUint, vkNull, vkBool}
	vMenuFloats = []int{vkFloat, vkNullFloat, vkNull, vkBool}
	vMenuBools  = []int{vkBool, vkNullBool, vkNull, vkInt}
)

type vComposeIn struct {
	val              zed.Value
	signed, unsigned bool
	nan, inf         bool
}

func vSymKind(name string, kind int, small bool) vComposeIn {
	switch kind {
	case vkInt:
		var v int64
		if small {
			// float64 accumulation (avg): concrete payloads, see verif:bounds
			v = []int64{0, 1, -7, 1 << 20}[verif.Choose(name+".ci", 4)]
		} else {
			v = verif.Int64(name + ".i")
		}
		return vComposeIn{val: zed.NewInt64(v), signed: true}
	case vkUint:
		var v uint64
		if small {
			v = []uint64{0, 3, 1 << 20}[verif.Choose(name+".cu", 3)]
		} else {
			v = verif.Uint64(name + ".u")
		}
		return vComposeIn{val: zed.NewUint64(v), unsigned: true}
	case vkFloat:
		v := verif.Float64(name + ".f")
		return vComposeIn{val: zed.NewFloat64(v), nan: v != v, inf: v > math.MaxFloat64 || v < -math.MaxFloat64}
	case vkBool:
		return vComposeIn{val: zed.NewBool(verif.Bool(name + ".b"))}
	case vkNullInt:
		return vComposeIn{val: zed.NullInt64, signed: true}
	case vkNullUint:
		return vComposeIn{val: zed.NullUint64, unsigned: true}
	case vkNullFloat:
		return vComposeIn{val: zed.NullFloat64}
	case vkNullBool:
		return vComposeIn{val: zed.NullBool}
	}
	return vComposeIn{val: zed.Null}
}

// vSameValue: same type and same value (bit pattern of the native
// representation; any NaN equals any NaN).
func vSameValue(a, b zed.Value) bool {
	if a.Type() != b.Type() {
		return false
	}
	if a.IsNull() || b.IsNull() {
		return a.IsNull() && b.IsNull()
	}
	id := a.Type().ID()
	switch {
	case zed.IsFloat(id):
		x, y := a.Float(), b.Float()
		return math.Float64bits(x) == math.Float64bits(y) || (x != x && y != y)
	case zed.IsUnsigned(id):
		return a.Uint() == b.Uint()
	case zed.IsSigned(id):
		return a.Int() == b.Int()
	case id == zed.IDBool:
		return a.Bool() == b.Bool()
	}
	return false
}

func vRunCompose(n int, funcs []string, floats bool) {
	name := funcs[verif.Choose("func", len(funcs))]
	menu := vMenuInts
	switch name {
	case "min", "max":
		if floats {
			menu = vMenuFloats
		}
	case "and", "or", "count":
		menu = vMenuBools
	}
	pat, err := NewPattern(name, name != "count")
	if err != nil {
		panic(err)
	}
	zctx := zed.NewContext()
	split := verif.Choose("split", n+1)
	D, A, B, C := pat(), pat(), pat(), pat()
	signed, unsigned, nan, inf := false, false, false, false
	for i := 0; i < n; i++ {
		x := vSymKind(string(rune('a'+i)), menu[verif.Choose(string(rune('a'+i))+".kind", len(menu))], name == "avg")
		signed = signed || x.signed
		unsigned = unsigned || x.unsigned
		nan = nan || x.nan
		inf = inf || x.inf
		D.Consume(x.val)
		if i < split {
			A.Consume(x.val)
		} else {
			B.Consume(x.val)
		}
	}
	C.ConsumeAsPartial(A.ResultAsPartial(zctx))
	C.ConsumeAsPartial(B.ResultAsPartial(zctx))
	rd, rc := D.Result(zctx), C.Result(zctx)
	same := vSameValue(rd, rc)
	switch {
	case nan:
		// a NaN among the inputs (with or without infinities): the NaN region
		verif.Assert(same, "compose/nan")
		verif.Reach("nan")
	case inf:
		verif.Assert(same, "compose/inf")
		verif.Reach("inf")
	case signed && unsigned:
		verif.Assert(same, "compose/mixed-sign")
		verif.Reach("mixed-sign")
	default:
		verif.Assert(same, "compose")
	}
	if !rd.IsNull() {
		verif.Reach("non-null-result")
	}
	verif.Reach("end")
}

var (
	vFuncsInts   = []string{"count", "sum", "min", "max", "and", "or"}
	vFuncsFloats = []string{"min", "max"}
	vFuncsAvg    = []string{"avg"}
)

// verif:desc C10-O1 partial results compose: for count,sum,min,max,and,or (real agg.Count/mathReducer/And/Or with coerce.Promote/ToInt/ToUint and anymath) the direct Consume x2 + Result equals, in type and value, A.Consume(x[:k]), B.Consume(x[k:]), C.ConsumeAsPartial(A.ResultAsPartial), C.ConsumeAsPartial(B.ResultAsPartial), C.Result for every split k in 0..2 (empty legs included).
// verif:bounds 2 inputs, each independently one of {int64 v, uint64 v, null(int64), null(uint64), null, bool v} (sum, min, max) or {bool v, null(bool), null, int64 v} (and, or, count); payloads any 64-bit value
// verif:outside float sum (float addition is not associative); int/float mixes; the ZNG encode/decode of the partial between the two stages (zcode round trip is C01); any, collect, union, dcount, fuse
func VerifH_C10_O1_compose2_ints() {
	vRunCompose(2, vFuncsInts, false)
}

// verif:desc C10-O1 partial results compose for min,max over float64 inputs (mathReducer + agg.Float64 + anymath Min/Max), splits k in 0..2
// verif:bounds 2 inputs, each one of {float64 v (any bit pattern incl. NaN, +-Inf, +-0), null(float64), null, bool v}
// verif:outside as compose2_ints
func VerifH_C10_O1_compose2_floats() {
	vRunCompose(2, vFuncsFloats, true)
}

// verif:desc C10-O1 partial results compose for avg (agg.Avg Consume/ResultAsPartial/ConsumeAsPartial/Result, partial record {sum:float64,count:uint64} through the real zed.Context and Value.Deref), splits k in 0..2
// verif:bounds 2 inputs, each one of {int64 v in {0,1,-7,2^20}, uint64 v in {0,3,2^20}, null(int64), null(uint64), null, bool v}: payloads are concrete choices (z3 does not decide the float64 add/div queries of symbolic payloads within the time-out), so this obligation enumerates structure (which inputs count, null handling, the partial record, splits) rather than payloads
// verif:outside avg over floats and over arbitrary integers (avg accumulates in float64: not associative beyond 2^53); the rest as compose2_ints
func VerifH_C10_O1_compose2_avg() {
	vRunCompose(2, vFuncsAvg, false)
}

// verif:desc C10-O1 as compose2_ints with 3 inputs and splits k in 0..3
// verif:bounds as compose2_ints, 3 inputs
// verif:tier thorough
func VerifH_C10_O1_compose3_ints() {
	vRunCompose(3, vFuncsInts, false)
}

// verif:desc C10-O1 as compose2_floats with 3 inputs and splits k in 0..3
// verif:bounds as compose2_floats, 3 inputs
// verif:tier thorough
func VerifH_C10_O1_compose3_floats() {
	vRunCompose(3, vFuncsFloats, true)
}
