//go:build verif

package expr

import (
	"encoding/binary"

	"github.com/brimdata/super"
	"github.com/brimdata/super/internal/verif"
	"github.com/brimdata/super/zcode"
)

// ---------------------------------------------------------------------------
// C04-O6 the field-name finder keeps no state across buffers / streams
// ---------------------------------------------------------------------------

// vC04Letters: n letters over {a,b}, or over {a,A,b} if upper.
func vC04Letters(name string, n int, upper bool) string {
	b := make([]byte, n)
	for i := range b {
		c := verif.Byte(name)
		verif.Assume(vC04Or(c == 'a', vC04Or(vC04And(upper, c == 'A'), c == 'b')))
		b[i] = c
	}
	return string(b)
}

// vC04Stream is one ZNG stream as the scanner worker sees it: a local type
// context in which id 30 is {n30:int64} and id 31 is {n31:string} (the order
// of declaration fixes the ids), and the values-frame encoding of one value of
// each.
type vC04Stream struct {
	zctx  *zed.Context
	names [2]string
	vals  [2][]byte // <uvarint type id><tagged body> of a value of id 30 / 31
}

func vC04NewStream(n30, n31 string) *vC04Stream {
	s := &vC04Stream{zctx: zed.NewContext(), names: [2]string{n30, n31}}
	t30 := s.zctx.MustLookupTypeRecord([]zed.Field{{Name: n30, Type: zed.TypeInt64}})
	t31 := s.zctx.MustLookupTypeRecord([]zed.Field{{Name: n31, Type: zed.TypeString}})
	// the harness' own precondition
	verif.Assume(zed.TypeID(t30) == zed.IDTypeComplex && zed.TypeID(t31) == zed.IDTypeComplex+1)
	var b zcode.Builder
	b.Append(zed.EncodeInt(1))
	s.vals[0] = zcode.Append(binary.AppendUvarint(nil, zed.IDTypeComplex), b.Bytes())
	b.Reset()
	b.Append([]byte("s"))
	s.vals[1] = zcode.Append(binary.AppendUvarint(nil, zed.IDTypeComplex+1), b.Bytes())
	return s
}

// vC04Layouts: which values (0 = the one of id 30, 1 = the one of id 31) a
// buffer holds, in order.
var vC04Layouts = [][]int{
	{0, 1},
	{1, 0},
	{0, 0, 1},
	{1},
}

// vC04FirstLayouts: what the earlier buffer held.
var vC04FirstLayouts = [][]int{
	{},
	{0, 1},
	{1, 0},
}

func (s *vC04Stream) buffer(layout []int) []byte {
	var buf []byte
	for _, k := range layout {
		buf = append(buf, s.vals[k]...)
	}
	return buf
}

// specMatch: some record type occurring in the buffer has a field whose name
// contains the pattern up to ASCII case (the records are flat, so the fully
// qualified names are the field names; this is what the evaluator's
// searchString.searchType decides for these types, tied to it by C04-O5).
func (s *vC04Stream) specMatch(layout []int, pattern string) bool {
	m := false
	for _, k := range layout {
		m = vC04Or(m, vC04FoldContains(s.names[k], pattern))
	}
	return m
}

// verif:desc C04-O6 ONE expr.FieldNameFinder (the reused scanner worker owns one inside its BufferFilter) is asked Find(zctx1, buf1) and then Find(zctx2, buf2), where zctx2 is the fresh local type context of the next ZNG stream in which the same type ids 30 and 31 denote DIFFERENT record types: the second answer depends only on (zctx2, buf2): if a record type occurring in buf2 (under zctx2) has a field name containing the pattern up to ASCII case, Find returns true whatever buf1 was (id finder-drops-matching-type/second-buffer), and, the finder being exact for flat record types, it equals the specification evaluated on (zctx2, buf2) alone (id finder-answer-depends-on-earlier-buffer).  buf2 may hold several values of different types and repeated types within the one call: the per-buffer checkedIDs bitset must not suppress a later, different type (same ids), nor may FieldNameIter's reused buffers leak a name.
// verif:bounds pattern: 2 letters over {a,A,b}; field names over {a,b}: stream 1: id 30 = {n:int64} with n 1..2 letters, id 31 = {b:string}; stream 2: id 30 = {m:int64} with m 2 letters, id 31 = {k:string} with k 1..2 letters; buf1 one of the value sequences [], [30,31], [31,30]; buf2 one of [30,31], [31,30], [30,30,31], [31]
// verif:outside upper-case letters in field names (case folding: C04-O2, O2d, O5); nested records and records inside containers (C04-O5); string-value matching (C04-O2); more than two types per stream; concurrent workers
// verif:unwind 48
// verif:solver z3-new
func VerifH_C04_O6_fieldnamefinder_across_streams() {
	pattern := vC04Letters("pattern", 2, true)
	n := vC04Letters("n", 1+verif.Choose("n.len", 2), false)
	s1 := vC04NewStream(n, "b")
	m := vC04Letters("m", 2, false)
	k := vC04Letters("k", 1+verif.Choose("k.len", 2), false)
	s2 := vC04NewStream(m, k)

	lay1 := vC04FirstLayouts[verif.Choose("buf1", len(vC04FirstLayouts))]
	buf1 := s1.buffer(lay1)
	lay2 := vC04Layouts[verif.Choose("buf2", len(vC04Layouts))]
	buf2 := s2.buffer(lay2)

	f := NewFieldNameFinder(pattern)
	got1 := f.Find(s1.zctx, buf1)
	verif.Assert(!s1.specMatch(lay1, pattern) || got1, "finder-drops-matching-type/first-buffer")
	got2 := f.Find(s2.zctx, buf2)
	want2 := s2.specMatch(lay2, pattern)
	verif.Assert(!want2 || got2, "finder-drops-matching-type/second-buffer")
	// for these flat record types the finder is exact, so its answer is a
	// function of (zctx2, buf2, pattern) alone: the specification's
	verif.Assert(got2 == want2, "finder-answer-depends-on-earlier-buffer")
	verif.Observe("got1", got1)
	verif.Observe("got2", got2)
	if got2 {
		verif.Reach("second-true")
		if !got1 {
			verif.Reach("first-false-second-true")
		}
	} else {
		verif.Reach("second-false")
		if got1 {
			verif.Reach("first-true-second-false")
		}
	}
	verif.Reach("end")
}
