//go:build verif

package zed

import (
	"github.com/brimdata/super/internal/verif"
)

// ---------------------------------------------------------------------------
// C05-O5: a type id means what the CURRENT stream declared for it
// ---------------------------------------------------------------------------

// vC05Stream models what the ZNG reader does for one stream (zngio
// localctx / Decoder.readTypeDef + Mapper.Enter): the stream's type
// definitions are decoded into a fresh local context (ids 30, 31, ... in order
// of declaration) and each is entered into a fresh per-stream Mapper, which
// translates it into the shared output context.
type vC05Stream struct {
	local    *Context
	declared []Type // by id-IDTypeComplex, types of the local context
	mapper   *Mapper
}

func vC05NewStream(out *Context, declare func(local *Context) []Type) *vC05Stream {
	s := &vC05Stream{local: NewContext(), mapper: NewMapper(out)}
	s.declared = declare(s.local)
	for k, t := range s.declared {
		// the harness' own precondition: the k-th declaration has id 30+k
		verif.Assume(TypeID(t) == IDTypeComplex+k)
		got, err := s.mapper.Enter(t)
		verif.Assert(err == nil && got != nil, "mapper-enter-failed")
	}
	return s
}

// verif:desc C05-O5 zed.MapperLookupCache / zed.Mapper (mapper.go), the id -> shared-context-type table of the ZNG scanner worker: two streams each declare their types in a fresh local context (ids 30..) and enter them with the real Mapper.Enter (Context.TranslateType into the shared context).  One MapperLookupCache is used for stream 1 (arbitrary lookups), then Reset(mapper of stream 2); afterwards, for every id and in whatever order ids are looked up (a higher id first, then a lower one, or the same id twice), cache.Lookup(id) equals mapper2.Lookup(id), and (the C05 statement) the type obtained for (stream 2, id) is a type of the shared context that is structurally equal to the type stream 2 declared under that id - never the one stream 1 declared; an id stream 2 did not declare gives nil even if stream 1 declared it.
// verif:bounds two streams; stream 1 declares ids 30,31,32 = {a:int64}, [int64], enum(a,b); stream 2 declares n2 in 0..3 ids: 30={y:string} with y an arbitrary letter of {a,b,c}, 31=|[string]|, 32=error(string); 2 lookups before the Reset and 2 after, each with an arbitrary id in 29..33 (a primitive id, the declared ids, an undeclared id)
// verif:outside concurrent use of Mapper (its mutex); ids beyond 33; more than one Reset; types nested more than one level
// verif:unwind 24
func VerifH_C05_O5_mapper_cache_reset() {
	out := NewContext()
	// something unrelated already lives in the shared context, so that shared
	// ids differ from stream ids
	out.LookupTypeArray(TypeString)

	s1 := vC05NewStream(out, func(l *Context) []Type {
		return []Type{
			l.MustLookupTypeRecord([]Field{{"a", TypeInt64}}),
			l.LookupTypeArray(TypeInt64),
			l.LookupTypeEnum([]string{"a", "b"}),
		}
	})
	n2 := verif.Choose("n2", 4)
	s2 := vC05NewStream(out, func(l *Context) []Type {
		all := []Type{
			l.MustLookupTypeRecord([]Field{{vSymName("y"), TypeString}}),
			l.LookupTypeSet(TypeString),
			l.LookupTypeError(TypeString),
		}
		return all[:n2]
	})

	var cache MapperLookupCache
	cache.Reset(s1.mapper)
	for i := 0; i < 2; i++ {
		id := IDTypeComplex - 1 + verif.Choose("id1", 5)
		got := cache.Lookup(id)
		verif.Assert(got == s1.mapper.Lookup(id), "cache-agrees-with-mapper/first-stream")
		if k := id - IDTypeComplex; k >= 0 && k < len(s1.declared) {
			verif.Assert(got != nil && vSameStructure(got, s1.declared[k]), "type-of-id-is-what-the-stream-declared/first-stream")
		}
	}
	cache.Reset(s2.mapper)
	for i := 0; i < 2; i++ {
		id := IDTypeComplex - 1 + verif.Choose("id2", 5)
		got := cache.Lookup(id)
		verif.Assert(got == s2.mapper.Lookup(id), "cache-agrees-with-mapper/after-reset")
		k := id - IDTypeComplex
		switch {
		case k < 0:
			// a primitive id denotes the primitive in every stream
			prim, _ := LookupPrimitiveByID(id)
			verif.Assert(got == prim, "primitive-id")
		case k < len(s2.declared):
			verif.Assert(got != nil, "declared-id-unknown/after-reset")
			if got != nil {
				verif.Assert(vSameStructure(got, s2.declared[k]), "type-of-id-is-what-the-stream-declared/after-reset")
				// and it is a canonical type of the shared context
				again, err := out.LookupType(TypeID(got))
				verif.Assert(err == nil && again == got, "type-not-of-shared-context")
				tr, err := out.TranslateType(s2.declared[k])
				verif.Assert(err == nil && tr == got, "type-not-canonical-in-shared-context")
			}
			verif.Reach("declared-after-reset")
		default:
			verif.Assert(got == nil, "undeclared-id-has-a-type/after-reset")
			if k < len(s1.declared) {
				verif.Reach("id-of-previous-stream-only")
			}
		}
	}
	verif.Reach("end")
}
