//go:build verif

package lake

import (
	"context"
	"io"
	"sync"

	"github.com/brimdata/super/internal/verif"
	"github.com/brimdata/super/lake/branches"
	"github.com/brimdata/super/lake/commits"
	"github.com/brimdata/super/pkg/storage"
	"github.com/segmentio/ksuid"
)

// v12sEngine makes the model object store usable from several goroutines: one
// storage call at a time (every call is atomic, as on an object store), and -
// under verif.Schedules - every call is a preemption point.
type v12sEngine struct {
	mu sync.Mutex
	e  *vEngine
}

type v12sWriter struct {
	s *v12sEngine
	w io.WriteCloser
}

func (w *v12sWriter) Write(p []byte) (int, error) { return w.w.Write(p) } // buffered locally (atomic put)
func (w *v12sWriter) Close() error {
	w.s.mu.Lock()
	defer w.s.mu.Unlock()
	return w.w.Close()
}

func (s *v12sEngine) Get(ctx context.Context, u *storage.URI) (storage.Reader, error) {
	s.mu.Lock()
	defer s.mu.Unlock()
	return s.e.Get(ctx, u)
}
func (s *v12sEngine) Put(ctx context.Context, u *storage.URI) (io.WriteCloser, error) {
	s.mu.Lock()
	defer s.mu.Unlock()
	w, err := s.e.Put(ctx, u)
	if err != nil {
		return nil, err
	}
	return &v12sWriter{s, w}, nil
}
func (s *v12sEngine) PutIfNotExists(ctx context.Context, u *storage.URI, b []byte) error {
	s.mu.Lock()
	defer s.mu.Unlock()
	return s.e.PutIfNotExists(ctx, u, b)
}
func (s *v12sEngine) Delete(ctx context.Context, u *storage.URI) error {
	s.mu.Lock()
	defer s.mu.Unlock()
	return s.e.Delete(ctx, u)
}
func (s *v12sEngine) DeleteByPrefix(ctx context.Context, u *storage.URI) error {
	s.mu.Lock()
	defer s.mu.Unlock()
	return s.e.DeleteByPrefix(ctx, u)
}
func (s *v12sEngine) Exists(ctx context.Context, u *storage.URI) (bool, error) {
	s.mu.Lock()
	defer s.mu.Unlock()
	return s.e.Exists(ctx, u)
}
func (s *v12sEngine) Size(ctx context.Context, u *storage.URI) (int64, error) {
	s.mu.Lock()
	defer s.mu.Unlock()
	return s.e.Size(ctx, u)
}
func (s *v12sEngine) List(ctx context.Context, u *storage.URI) ([]storage.Info, error) {
	s.mu.Lock()
	defer s.mu.Unlock()
	return s.e.List(ctx, u)
}

var _ storage.Engine = (*v12sEngine)(nil)

func v12sOpenClient(ctx context.Context, eng storage.Engine, id int) (*vHandle, error) {
	root, err := Open(ctx, eng, nil, vLakePath())
	if err != nil {
		return nil, err
	}
	pool, err := vOpenPoolByName(ctx, root, vPoolName)
	if err != nil {
		return nil, err
	}
	branch, err := pool.OpenBranchByName(ctx, "main")
	if err != nil {
		return nil, err
	}
	return &vHandle{id: id, root: root, pool: pool, branch: branch}, nil
}

// verif:desc C12-O8s two clients with separate handles run Branch.commit (load of object 2 / load of object 3, or load / delete of object 0) on the same branch as two GOROUTINES over one model object store, every storage call of either client being a preemption point, under every schedule with at most 1 (thorough: 2) preemptions - so that BOTH clients can be interrupted in the middle of their lookup / commit-object put / journal commit / HEAD write / retry sequences (the hook-based C12-O2/O3 obligations interrupt A once and run B's operation whole).  Asserted after both finished, through a fresh handle: the chain is the earlier history plus exactly the acknowledged commits, each acknowledged operation was valid on the tip it replaced, contents are the one-at-a-time result, earlier commits unchanged, refused attempts leave no commit object and no journal entry.
// verif:bounds 2 clients x 1 operation; history 1 or 2 commits; B = load or delete; atomic-put storage; preemption bound 1 (thorough: 2; 35 726 schedules); natively 40 repetitions
// verif:outside more than the bound's preemptions; 3+ clients; create-then-fill storage (C12-O2/O3 _fill); real file system
func VerifH_C12_O8s_two_clients_interleaved() {
	k := 1
	if verif.Thorough() {
		k = 2
	}
	verif.Schedules(k)
	verif.Races(true)
	hist := 1 + verif.Choose("history", 2)
	bDeletes := verif.Choose("b-deletes", 2) == 1
	rounds := verif.NativeRounds(40)
	for r := 0; r < rounds; r++ {
		ctx := context.Background()
		base := vNewEngine(false)
		s := vSetupLake(ctx, base, hist, 0)
		shared := &v12sEngine{e: base}
		ha, err := v12sOpenClient(ctx, shared, 1)
		verif.Assert(err == nil, "open-a")
		hb, err := v12sOpenClient(ctx, shared, 2)
		verif.Assert(err == nil, "open-b")
		if ha == nil || hb == nil {
			return
		}
		a := &vOp{kind: vOpLoad, obj: 2, h: ha}
		b := &vOp{kind: vOpLoad, obj: 3, h: hb}
		if bDeletes {
			b = &vOp{kind: vOpDelete, obj: 1, h: hb}
		}
		run := func(o *vOp) {
			if o.kind == vOpLoad {
				o.id, o.err = o.h.branch.commit(ctx, func(parent *branches.Config, retries int) (*commits.Object, error) {
					return vLoadObject(parent.Commit, retries, o.obj), nil
				})
			} else {
				o.id, o.err = o.h.branch.Delete(ctx, []ksuid.KSUID{vObjID(o.obj)}, "author", "message")
			}
			o.done = true
		}
		var wg sync.WaitGroup
		wg.Add(2)
		go func() { defer wg.Done(); run(a) }()
		go func() { defer wg.Done(); run(b) }()
		wg.Wait()
		vCheckLinearized(ctx, base, s, []*vOp{a, b})
		if r == 0 {
			if a.err == nil && b.err == nil {
				verif.Reach("both-acknowledged")
			}
		}
	}
	verif.Reach("end")
}
