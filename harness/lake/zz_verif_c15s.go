//go:build verif

package lake

import (
	"context"
	"sync"

	"github.com/brimdata/super/internal/verif"
	"github.com/brimdata/super/lake/branches"
	"github.com/brimdata/super/lake/commits"
	"github.com/segmentio/ksuid"
)

// v15sRun runs one operation of a client that lives in its own goroutine (the
// cases of vOp.run that do not touch the model engine's bookkeeping fields).
func v15sRun(ctx context.Context, o *vOp) {
	switch o.kind {
	case vOpLoad:
		o.id, o.err = o.h.branch.commit(ctx, func(parent *branches.Config, retries int) (*commits.Object, error) {
			return vLoadObject(parent.Commit, retries, o.obj), nil
		})
	case vOpDelete:
		o.id, o.err = o.h.branch.Delete(ctx, []ksuid.KSUID{vObjID(o.obj)}, "author", "message")
	case vOpMerge:
		child, err := o.h.pool.OpenBranchByName(ctx, "child")
		if err != nil {
			o.err = err
			break
		}
		parent, err := o.h.pool.OpenBranchByName(ctx, "main")
		if err != nil {
			o.err = err
			break
		}
		o.id, o.err = child.mergeInto(ctx, parent, "author", "message")
	}
	o.done = true
}

// verif:desc C15-O5s a merge racing with a commit on the parent, both clients as GOROUTINES over one model object store (every storage call a preemption point, at most 1 preemption - thorough 2 - so that either client can be interrupted between its snapshot of the parent, its patch, its commit-object put and its branch update): client A merges branch child (one commit adding object 4, or deleting object 0) into main while client B loads object 3 into main or deletes object 0 from main.  Asserted through a fresh handle afterwards: the chain is the earlier history plus exactly the acknowledged commits; every acknowledged operation was valid on the tip it replaced (a merge whose delete lost against B's delete of the same object must be REFUSED, not acknowledged); contents are the one-at-a-time result; refused attempts leave no commit object and no journal entry.
// verif:bounds main = 2 commits (add {0,1}, delete {0}) or 1 commit; child adds {4} or deletes {0}; B = load 3 or delete 0/1; atomic-put storage; preemption bound 1 (thorough: 2, about 80 minutes on 7 workers); natively 40 repetitions
// verif:outside more preemptions; 3+ clients; create-then-fill storage; merges in both directions and repeated merges (C15-O1/O3, sequential)
func VerifH_C15_O5s_merge_races_with_commit() {
	k := 1
	if verif.Thorough() {
		k = 2
	}
	verif.Schedules(k)
	verif.Races(true)
	childKind := 1 + verif.Choose("child", 2) // 1: child adds {4}; 2: child deletes {0}
	bKind := verif.Choose("b", 2)             // 0: load 3; 1: delete 0
	rounds := verif.NativeRounds(40)
	for r := 0; r < rounds; r++ {
		ctx := context.Background()
		base := vNewEngine(false)
		s := vSetupLake(ctx, base, 1, childKind)
		shared := &v12sEngine{e: base}
		ha, err := v12sOpenClient(ctx, shared, 1)
		verif.Assert(err == nil, "open-a")
		hb, err := v12sOpenClient(ctx, shared, 2)
		verif.Assert(err == nil, "open-b")
		if ha == nil || hb == nil {
			return
		}
		a := &vOp{kind: vOpMerge, adds: s.childAdds, dels: s.childDels, h: ha}
		b := &vOp{kind: vOpLoad, obj: 3, h: hb}
		if bKind == 1 {
			b = &vOp{kind: vOpDelete, obj: 0, h: hb}
		}
		var wg sync.WaitGroup
		wg.Add(2)
		go func() { defer wg.Done(); v15sRun(ctx, a) }()
		go func() { defer wg.Done(); v15sRun(ctx, b) }()
		wg.Wait()
		// (the child branch's own commit is part of the set-up history)
		vCheckLinearized(ctx, base, s, []*vOp{a, b})
		if r == 0 {
			if a.err == nil && b.err == nil {
				verif.Reach("both-acknowledged")
			}
			if a.err != nil {
				verif.Reach("merge-refused")
			}
		}
	}
	verif.Reach("end")
}

// verif:desc C13-O9s readers are isolated from a concurrent writer, as goroutines: while client W commits a load (or a delete) on main, client R - its own handles, cold caches - reads the snapshot of the EARLIER commit c1 and of the tip it resolved when it started, twice each, under every schedule with at most 1 preemption (thorough 2) at the storage calls of either client: every read of a commit id gives that commit's contents (the same both times), whatever the writer has done in between; the tip R resolved is c1's successor state or the writer's new commit, never anything else.
// verif:bounds main = 2 commits; writer: load 3 or delete 1; reader: 2 x (Snapshot(c1), Snapshot(resolved tip)); atomic-put storage; preemption bound 1 (thorough: 2 = 52 291 schedules, about 45 minutes on 7 workers); natively 40 repetitions
// verif:outside create-then-fill storage (C13-O6, incl. its known snap-truncated region); warm caches of a long-lived reader (C13-O1/O5); queries through the compiler
func VerifH_C13_O9s_reader_isolated_from_writer() {
	k := 1
	if verif.Thorough() {
		k = 2
	}
	verif.Schedules(k)
	verif.Races(true)
	wKind := verif.Choose("writer", 2)
	rounds := verif.NativeRounds(40)
	for r := 0; r < rounds; r++ {
		ctx := context.Background()
		base := vNewEngine(false)
		s := vSetupLake(ctx, base, 2, 0)
		shared := &v12sEngine{e: base}
		hw, err := v12sOpenClient(ctx, shared, 1)
		verif.Assert(err == nil, "open-writer")
		if hw == nil {
			return
		}
		w := &vOp{kind: vOpLoad, obj: 3, h: hw}
		if wKind == 1 {
			w = &vOp{kind: vOpDelete, obj: 1, h: hw}
		}
		okOld, okTip, opened := true, true, true
		var wg sync.WaitGroup
		wg.Add(2)
		go func() { defer wg.Done(); v15sRun(ctx, w) }()
		go func() {
			defer wg.Done()
			hr, err := v12sOpenClient(ctx, shared, 2)
			if err != nil {
				opened = false
				return
			}
			tip := hr.branch.Commit
			for i := 0; i < 2; i++ {
				snap, err := hr.pool.commits.Snapshot(ctx, s.chain[0])
				if err != nil || !vSameSnap(snap, s.states[0]) {
					okOld = false
				}
				snap, err = hr.pool.commits.Snapshot(ctx, tip)
				if err != nil {
					okTip = false
					continue
				}
				if tip == s.chain[1] {
					if !vSameSnap(snap, s.states[1]) {
						okTip = false
					}
				} else {
					// the writer's commit: the one-at-a-time result
					st := s.state
					if !w.apply(&st) || !vSameSnap(snap, st) {
						okTip = false
					}
				}
			}
		}()
		wg.Wait()
		verif.Assert(opened, "reader-opens")
		verif.Assert(okOld, "earlier-commit-reads-the-same-throughout")
		verif.Assert(okTip, "resolved-tip-reads-as-one-commit")
		verif.Assert(w.err == nil, "writer-acknowledged")
	}
	verif.Reach("end")
}
