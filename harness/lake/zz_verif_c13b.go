//go:build verif

package lake

// C13-O5: name -> commit resolution through a second lake handle right after
// a commit was acknowledged through the first, and immutability of the old
// tip's contents as seen by a warm handle.  Uses the client/lake model of
// zz_verif_branch.go (real Root/Pool/Branch, journal.Store, branches.Store,
// pools.Store, commits.Store over the model storage of zz_verif_model.go).

import (
	"context"

	"github.com/brimdata/super/internal/verif"
	"github.com/brimdata/super/lake/commits"
	"github.com/segmentio/ksuid"
)

// v13bCommitObject is Root.CommitObject with Root.OpenPool's two lines
// written out (Root.OpenPool itself is mapped to an environment model by the
// engine for the compiler harnesses).  This is how the semantic analyzer pins
// "pool@branch" to a commit id when a query starts.
func v13bCommitObject(ctx context.Context, r *Root, poolID ksuid.KSUID, branchName string) (ksuid.KSUID, error) {
	config, err := r.pools.LookupByID(ctx, poolID)
	if err != nil {
		return ksuid.Nil, err
	}
	pool, err := r.openPool(ctx, config)
	if err != nil {
		return ksuid.Nil, err
	}
	branchRef, err := pool.LookupBranchByName(ctx, branchName)
	if err != nil {
		return ksuid.Nil, err
	}
	return branchRef.Commit, nil
}

func v13bSnapshotIs(ctx context.Context, p *Pool, id ksuid.KSUID, st vObjSet) bool {
	view, err := p.Snapshot(ctx, id)
	if err != nil || view == nil {
		return false
	}
	snap, ok := view.(*commits.Snapshot)
	return ok && vSameSnap(snap, st)
}

// v13bResolves: every way handle h has of resolving pool name / branch name
// to a commit gives tip, and the contents at tip are st.
func v13bResolves(ctx context.Context, h *vHandle, who string, poolName string, poolID ksuid.KSUID, branch string, tip ksuid.KSUID, st vObjSet) {
	// pool name -> id (what a query's "from <pool>" does first)
	id, err := h.root.PoolID(ctx, poolName)
	verif.Assert(err == nil && id == poolID, who+"-pool-name-resolves")
	// Root.CommitObject(pool id, branch)
	c, err := v13bCommitObject(ctx, h.root, poolID, branch)
	verif.Assert(err == nil && c == tip, who+"-commit-object-sees-acknowledged-commit")
	// through the Pool handle opened before the commit
	c, err = h.pool.ResolveRevision(ctx, branch)
	verif.Assert(err == nil && c == tip, who+"-resolve-revision-sees-acknowledged-commit")
	config, err := h.pool.LookupBranchByName(ctx, branch)
	verif.Assert(err == nil && config != nil && config.Commit == tip, who+"-lookup-branch-sees-acknowledged-commit")
	b, err := h.pool.OpenBranchByName(ctx, branch)
	verif.Assert(err == nil && b != nil && b.Commit == tip, who+"-open-branch-sees-acknowledged-commit")
	list, err := h.pool.ListBranches(ctx)
	found := false
	for _, bc := range list {
		if bc.Name == branch {
			found = bc.Commit == tip
		}
	}
	verif.Assert(err == nil && found, who+"-list-branches-sees-acknowledged-commit")
	if tip != ksuid.Nil {
		verif.Assert(v13bSnapshotIs(ctx, h.pool, tip, st), who+"-tip-contents-are-the-committed-ones")
	}
}

func v13bVisibleAcrossHandles() {
	ctx := context.Background()
	eng := vNewEngine(false)
	hist := verif.Choose("history", 3)
	s := vSetupLake(ctx, eng, hist, 0)
	poolID := s.h0.pool.ID
	ha, err := vOpenClient(ctx, eng, 1)
	verif.Assert(err == nil, "open-a")
	hb, err := vOpenClient(ctx, eng, 2)
	verif.Assert(err == nil, "open-b")
	if ha == nil || hb == nil {
		return
	}
	oldTip, oldState := s.tip(), s.state
	// A may be a reader that has already resolved main and read its contents
	// (warm journal tables, warm commit/snapshot caches).
	if verif.Choose("warmA", 2) == 1 {
		v13bResolves(ctx, ha, "before", vPoolName, poolID, "main", oldTip, oldState)
	}

	// B commits and is acknowledged.
	poolName, branch := vPoolName, "main"
	tip, st := oldTip, oldState
	switch verif.Choose("op", 4) {
	case 0: // load one object
		op := &vOp{kind: vOpLoad, obj: 2, h: hb}
		op.run(ctx, eng)
		verif.Assert(op.err == nil, "commit-acknowledged")
		tip = op.id
		st[2] = true
	case 1: // delete object 1 (present iff there is history)
		op := &vOp{kind: vOpDelete, obj: 1, h: hb}
		op.run(ctx, eng)
		verif.Assert((op.err == nil) == oldState[1], "commit-acknowledged")
		if op.err != nil {
			verif.Reach("refused")
		} else {
			tip = op.id
			st[1] = false
		}
	case 2: // new branch at main's tip
		_, err := hb.root.CreateBranch(ctx, poolID, "dev", oldTip)
		verif.Assert(err == nil, "commit-acknowledged")
		branch = "dev"
	case 3: // pool rename
		verif.Assert(hb.root.RenamePool(ctx, poolID, "q") == nil, "commit-acknowledged")
		poolName = "q"
		_, err := ha.root.PoolID(ctx, vPoolName)
		verif.Assert(err != nil, "other-handle-old-pool-name-gone")
	}
	if tip != oldTip {
		verif.Reach("tip-moved")
	}

	// Reads that start now, through the other handle and through the
	// committer's own; twice (two queries that start after the acknowledgement).
	v13bResolves(ctx, ha, "other-handle", poolName, poolID, branch, tip, st)
	v13bResolves(ctx, hb, "own-handle", poolName, poolID, branch, tip, st)
	v13bResolves(ctx, ha, "other-handle", poolName, poolID, branch, tip, st)
	// main is where it was unless main itself was committed to
	if branch != "main" {
		v13bResolves(ctx, ha, "other-handle", poolName, poolID, "main", oldTip, oldState)
	}
	// The commit that was main's tip before still reads as before, through
	// the warm handle, the committer's and a new one (a query pinned to the
	// old commit id keeps its data).
	if oldTip != ksuid.Nil {
		verif.Assert(v13bSnapshotIs(ctx, ha.pool, oldTip, oldState), "earlier-commit-unchanged")
		verif.Assert(v13bSnapshotIs(ctx, hb.pool, oldTip, oldState), "earlier-commit-unchanged")
		for i, id := range s.chain {
			verif.Assert(v13bSnapshotIs(ctx, ha.pool, id, s.states[i]), "earlier-commit-unchanged")
		}
	}
	hc, err := vOpenClientByPoolName(ctx, eng, 3, poolName)
	verif.Assert(err == nil && hc != nil, "fresh-handle-opens")
	if err == nil && hc != nil {
		v13bResolves(ctx, hc, "fresh-handle", poolName, poolID, branch, tip, st)
		if oldTip != ksuid.Nil {
			verif.Assert(v13bSnapshotIs(ctx, hc.pool, oldTip, oldState), "earlier-commit-unchanged")
		}
	}
	verif.Reach("end")
}

// vOpenClientByPoolName is vOpenClient for a pool that may have been renamed.
func vOpenClientByPoolName(ctx context.Context, eng *vEngine, id int, poolName string) (*vHandle, error) {
	root, err := Open(ctx, eng, nil, vLakePath())
	if err != nil {
		return nil, err
	}
	pool, err := vOpenPoolByName(ctx, root, poolName)
	if err != nil {
		return nil, err
	}
	branch, err := pool.OpenBranchByName(ctx, "main")
	if err != nil {
		return nil, err
	}
	return &vHandle{id: id, root: root, pool: pool, branch: branch}, nil
}

// verif:desc C13-O5 acknowledged commit visible through another lake handle: a lake with one pool (main with 0..2 commits) on a model object store; clients A and B with their own real lake.Root/Pool/Branch handles (own pools/branches journal tables, own commit and snapshot caches); A optionally resolves main and reads its contents first (warm); B performs Branch.commit of a load, Branch.Delete, Root.CreateBranch or Root.RenamePool and is acknowledged. Immediately afterwards, through A, through B and through a handle opened afterwards: Root.PoolID, Root.CommitObject (OpenPool written out), Pool.ResolveRevision, Pool.LookupBranchByName, Pool.OpenBranchByName, Pool.ListBranches resolve the (possibly new) pool/branch name to the acknowledged tip, twice; Pool.Snapshot of the tip is history + the change; Pool.Snapshot of every earlier commit id is what it was before (also through the warm handle).
// verif:bounds history 0..2 commits on main (add {0,1}; delete {0}); A warm or cold; 1 operation by B out of 4; 6 objects with fixed metadata; no storage failures, atomic puts; operations in quick succession (constant clock)
// verif:outside reads concurrent with the commit (C12-O2/O3), pulls of a started query (lister/sequence operators), vacuum, compaction, merges/reverts as the later operation (C15-O5/O6 assert earlier-commits-unchanged for them), the semantic analyzer itself, Root.OpenPool's two lines transcribed
func VerifH_C13_O5_acknowledged_commit_visible_across_lake_handles() { v13bVisibleAcrossHandles() }
