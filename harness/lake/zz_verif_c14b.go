//go:build verif

package lake

// verif:desc C14-O9 predicate delete commits what it deleted: the body of VerifH_C12_O6_delete_where_race under property C14 — real Branch.DeleteWhere over the model storage and a model runtime.Compiler whose delete query for commit X deletes all of object 0 iff X holds it (so no surviving values are rewritten): the operation is acknowledged iff it removed something, the deleted object is gone from the new tip (a delete-where that empties every object it touches must still be committed, not refused as an empty transaction), the query is compiled against the tip of that attempt, and one-at-a-time consistency with a concurrent delete/load.
// verif:bounds as VerifH_C12_O6_delete_where_race: four two-client scenarios, one preemption at any storage call
// verif:outside the real query compiler and meta.Deleter (which values a predicate selects: C14-O5, C16-O3); rewriting surviving values through lake.Writer (goroutines)
func VerifH_C14_O9_delete_where_commits() { vDeleteWhereRace() }
