//go:build verif

package lake

import (
	"github.com/brimdata/super/internal/verif"
	"github.com/segmentio/ksuid"
)

func vLakeCommitID(k int) ksuid.KSUID {
	var id ksuid.KSUID
	id[0] = 0x30
	id[19] = byte(k + 1)
	return id
}

// verif:desc C15-O4 lake.commonAncestor (the merge base used by Branch.buildMergeObject) on the leaf-to-root paths of two branches of a commit tree: the result is the nearest common commit (the tip of the shared trunk) for either argument order, and ksuid.Nil when the paths share nothing.
// verif:bounds trunk of 0..3 commits, parent branch 0..2 and child branch 0..2 further commits (distinct concrete ids), both argument orders
// verif:outside how the paths are obtained (C15-O3 covers Store.Path), trees with more than two branches
func VerifH_C15_O4_common_ancestor() {
	nt := verif.Choose("trunk", 4)
	np := verif.Choose("parent", 3)
	nc := verif.Choose("child", 3)
	next := 0
	var trunk []ksuid.KSUID // root first
	for i := 0; i < nt; i++ {
		trunk = append(trunk, vLakeCommitID(next))
		next++
	}
	mk := func(n int) []ksuid.KSUID { // leaf-to-root path of a branch with n own commits
		var own []ksuid.KSUID
		for i := 0; i < n; i++ {
			own = append(own, vLakeCommitID(next))
			next++
		}
		var path []ksuid.KSUID
		for i := len(own) - 1; i >= 0; i-- {
			path = append(path, own[i])
		}
		for i := len(trunk) - 1; i >= 0; i-- {
			path = append(path, trunk[i])
		}
		return path
	}
	parentPath, childPath := mk(np), mk(nc)
	want := ksuid.Nil
	if nt > 0 {
		want = trunk[nt-1]
		verif.Reach("has-ancestor")
	} else {
		verif.Reach("disjoint")
	}
	verif.Assert(commonAncestor(parentPath, childPath) == want, "nearest-common-ancestor")
	verif.Assert(commonAncestor(childPath, parentPath) == want, "nearest-common-ancestor-swapped")
	verif.Reach("end")
}
