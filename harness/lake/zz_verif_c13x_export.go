//go:build verif

package lake

import (
	"context"

	"github.com/brimdata/super/pkg/storage"
	"github.com/segmentio/ksuid"
)

// VerifModelLake is the harness lake for packages that sit above package lake
// (compiler/semantic): over the model storage engine, one pool whose main has
// the two commits c1 (add objects {0,1}) and c2 (delete {0}); when
// branchNamedLikeC1 a further branch whose NAME is the text of commit id c1
// and whose tip is c2 (branch names are not validated by the lake).
func VerifModelLake(ctx context.Context, branchNamedLikeC1 bool) (root *Root, engine storage.Engine, pool string, c1, c2 ksuid.KSUID, ok bool) {
	eng := vNewEngine(false)
	s := vSetupLake(ctx, eng, 2, 0)
	if len(s.chain) != 2 {
		return nil, nil, "", ksuid.Nil, ksuid.Nil, false
	}
	c1, c2 = s.chain[0], s.chain[1]
	if branchNamedLikeC1 {
		if _, err := s.h0.root.CreateBranch(ctx, s.h0.pool.ID, c1.String(), c2); err != nil {
			return nil, nil, "", ksuid.Nil, ksuid.Nil, false
		}
	}
	return s.h0.root, eng, vPoolName, c1, c2, true
}
