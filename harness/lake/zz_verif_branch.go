//go:build verif

package lake

// lake.Branch / lake.Root level obligations (C12, C13, C14, C15, C17): the real
// Branch.commit retry loop, Branch.Delete/Revert/mergeInto, Root.CreatePool/
// RenamePool/RemovePool, journal.Store, branches.Store, pools.Store and
// commits.Store run unmodified over the model storage engine of
// zz_verif_model.go.  Reflection-driven (un)marshaling of metadata is the
// engine's byte-token model (intrinsics_zz_marshal.go); in the native replay
// the real marshaler runs.
//
// Concurrency is a context-bounded sequentialization: client A's operation is
// preempted at most once, at any of its storage calls, by client B's whole
// operation; both clients have their own Root/Pool/Branch handles (own journal
// tables, own commit/snapshot caches), opened before either operation starts.

import (
	"context"
	"errors"
	"strings"

	"github.com/brimdata/super"
	"github.com/brimdata/super/compiler/ast"
	"github.com/brimdata/super/compiler/parser"
	"github.com/brimdata/super/internal/verif"
	"github.com/brimdata/super/lake/branches"
	"github.com/brimdata/super/lake/commits"
	"github.com/brimdata/super/lake/data"
	"github.com/brimdata/super/lake/pools"
	"github.com/brimdata/super/lakeparse"
	"github.com/brimdata/super/runtime"
	"github.com/brimdata/super/zbuf"
	"github.com/brimdata/super/zio"
	"github.com/segmentio/ksuid"
)

const (
	vNObjs    = 6
	vPoolName = "p"
)

type vObjSet [vNObjs]bool

func vObjID(k int) ksuid.KSUID {
	var id ksuid.KSUID
	id[0] = 0x10
	id[19] = byte(k + 1)
	return id
}

func vDataObject(k int) data.Object {
	return data.Object{ID: vObjID(k), Min: zed.Null, Max: zed.Null, Count: uint64(k + 1), Size: int64(10 * (k + 1))}
}

// vHandle is one client: its own lake.Root / Pool / Branch handles over the
// shared model storage.
type vHandle struct {
	id     int
	root   *Root
	pool   *Pool
	branch *Branch
}

// vOpenPoolByName is Root.OpenPool for a pool name (Root.OpenPool itself is
// mapped to an environment model by the engine for the compiler harnesses;
// its body is LookupByID + openPool).
func vOpenPoolByName(ctx context.Context, r *Root, name string) (*Pool, error) {
	config := r.pools.LookupByName(ctx, name)
	if config == nil {
		return nil, pools.ErrNotFound
	}
	return r.openPool(ctx, config)
}

// vOpenClient opens fresh handles (cold caches) on the lake.
func vOpenClient(ctx context.Context, eng *vEngine, id int) (*vHandle, error) {
	root, err := Open(ctx, eng, nil, vLakePath())
	if err != nil {
		return nil, err
	}
	pool, err := vOpenPoolByName(ctx, root, vPoolName)
	if err != nil {
		return nil, err
	}
	branch, err := pool.OpenBranchByName(ctx, "main")
	if err != nil {
		return nil, err
	}
	return &vHandle{id: id, root: root, pool: pool, branch: branch}, nil
}

// ---------------------------------------------------------------------------
// setup: a lake with one pool whose main branch has a short history
// ---------------------------------------------------------------------------

type vSetup struct {
	h0        *vHandle
	chain     []ksuid.KSUID // commits of main, root first
	states    []vObjSet     // contents after each commit of chain
	state     vObjSet       // contents of main's tip
	entries   int           // entries of the pool's branches journal
	commits   int           // commit objects written (all branches)
	childAdds []int         // what the child branch did since it was created
	childDels []int
}

func (s *vSetup) tip() ksuid.KSUID {
	if len(s.chain) == 0 {
		return ksuid.Nil
	}
	return s.chain[len(s.chain)-1]
}

func vLoadObject(parent ksuid.KSUID, retries int, k int) *commits.Object {
	// what Branch.Load hands to Branch.commit once the data objects are written
	return commits.NewAddsObject(parent, retries, "author", "message", zed.Null, []data.Object{vDataObject(k)})
}

// vSetupLake: hist = number of commits on main (0: none; 1: add {0,1}; 2: then
// delete {0}); child = 0 none, 1 a branch "child" off main's tip with one
// commit adding {4}, 2 the same with one commit deleting {0}.
func vSetupLake(ctx context.Context, eng *vEngine, hist, child int) *vSetup {
	s := &vSetup{}
	root, err := Create(ctx, eng, nil, vLakePath())
	verif.Assert(err == nil, "setup-create-lake")
	pool, err := root.CreatePool(ctx, vPoolName, nil, 0, 0)
	verif.Assert(err == nil, "setup-create-pool")
	branch, err := pool.OpenBranchByName(ctx, "main")
	verif.Assert(err == nil, "setup-open-main")
	s.h0 = &vHandle{root: root, pool: pool, branch: branch}
	s.entries = 1 // add main
	if hist >= 1 {
		id, err := branch.commit(ctx, func(parent *branches.Config, retries int) (*commits.Object, error) {
			return commits.NewAddsObject(parent.Commit, retries, "author", "message", zed.Null, []data.Object{vDataObject(0), vDataObject(1)}), nil
		})
		verif.Assert(err == nil, "setup-commit")
		s.state[0], s.state[1] = true, true
		s.chain = append(s.chain, id)
		s.states = append(s.states, s.state)
		s.entries++
		s.commits++
	}
	if hist >= 2 {
		id, err := branch.Delete(ctx, []ksuid.KSUID{vObjID(0)}, "author", "message")
		verif.Assert(err == nil, "setup-delete")
		s.state[0] = false
		s.chain = append(s.chain, id)
		s.states = append(s.states, s.state)
		s.entries++
		s.commits++
	}
	if child != 0 {
		_, err := root.CreateBranch(ctx, pool.ID, "child", s.tip())
		verif.Assert(err == nil, "setup-create-branch")
		s.entries++
		cb, err := pool.OpenBranchByName(ctx, "child")
		verif.Assert(err == nil, "setup-open-child")
		if child == 1 {
			_, err = cb.commit(ctx, func(parent *branches.Config, retries int) (*commits.Object, error) {
				return vLoadObject(parent.Commit, retries, 4), nil
			})
			s.childAdds = []int{4}
		} else {
			_, err = cb.Delete(ctx, []ksuid.KSUID{vObjID(0)}, "author", "message")
			s.childDels = []int{0}
		}
		verif.Assert(err == nil, "setup-child-commit")
		s.entries++
		s.commits++
	}
	return s
}

// ---------------------------------------------------------------------------
// operations on main and their sequential model
// ---------------------------------------------------------------------------

const (
	vOpLoad = iota
	vOpDelete
	vOpRevert
	vOpMerge
	vOpCompact
	vOpDeleteWhere
)

type vOp struct {
	kind   int
	obj    int         // load, delete
	commit ksuid.KSUID // revert: the commit to revert ...
	adds   []int       // ... which added these objects (merge: the child's adds)
	dels   []int       // ... and deleted these (merge: the child's deletes)
	h      *vHandle

	done     bool
	id       ksuid.KSUID
	err      error
	seen     []string      // delete-where: the commit the query was compiled against, per invocation
	parents  []ksuid.KSUID // load: parent handed to the create callback, per invocation
	attempts []ksuid.KSUID // load: commit object built by each invocation
	retries  []int
}

func (o *vOp) run(ctx context.Context, eng *vEngine) {
	saved := eng.client
	eng.client = o.h.id
	b := o.h.branch
	switch o.kind {
	case vOpLoad:
		o.id, o.err = b.commit(ctx, func(parent *branches.Config, retries int) (*commits.Object, error) {
			object := vLoadObject(parent.Commit, retries, o.obj)
			o.parents = append(o.parents, parent.Commit)
			o.retries = append(o.retries, retries)
			o.attempts = append(o.attempts, object.Commit)
			return object, nil
		})
	case vOpDelete:
		o.id, o.err = b.Delete(ctx, []ksuid.KSUID{vObjID(o.obj)}, "author", "message")
	case vOpRevert:
		o.id, o.err = b.Revert(ctx, o.commit, "author", "message")
	case vOpMerge:
		// Root.MergeBranch after its OpenPool call
		child, err := o.h.pool.OpenBranchByName(ctx, "child")
		if err != nil {
			o.err = err
			break
		}
		parent, err := o.h.pool.OpenBranchByName(ctx, "main")
		if err != nil {
			o.err = err
			break
		}
		o.id, o.err = child.mergeInto(ctx, parent, "author", "message")
	case vOpCompact:
		// exec.Compact hands the source objects and the rollup it has written to CommitCompact
		var src, rollup []*data.Object
		for _, i := range o.dels {
			obj := vDataObject(i)
			src = append(src, &obj)
		}
		for _, i := range o.adds {
			obj := vDataObject(i)
			rollup = append(rollup, &obj)
		}
		o.id, o.err = b.CommitCompact(ctx, src, rollup, nil, "author", "message", "")
	case vOpDeleteWhere:
		o.id, o.err = b.DeleteWhere(ctx, &vCompiler{op: o}, nil, "author", "message", "")
	}
	o.done = true
	eng.client = saved
}

// apply is the one-at-a-time meaning of the operation on contents st; it
// reports whether the operation is valid there (an invalid one must fail).
func (o *vOp) apply(st *vObjSet) bool {
	switch o.kind {
	case vOpLoad:
		if st[o.obj] {
			return false
		}
		st[o.obj] = true
		return true
	case vOpDelete, vOpDeleteWhere:
		if !st[o.obj] {
			return false
		}
		st[o.obj] = false
		return true
	case vOpRevert:
		// removes what the commit added if still present, restores what it
		// deleted if still absent; nothing to do => refused
		changed := false
		for _, i := range o.adds {
			if st[i] {
				st[i] = false
				changed = true
			}
		}
		for _, i := range o.dels {
			if !st[i] {
				st[i] = true
				changed = true
			}
		}
		return changed
	case vOpMerge, vOpCompact:
		for _, i := range o.dels {
			if !st[i] {
				return false // delete conflict / source object gone
			}
		}
		for _, i := range o.adds {
			if st[i] {
				return false
			}
		}
		for _, i := range o.dels {
			st[i] = false
		}
		for _, i := range o.adds {
			st[i] = true
		}
		return len(o.adds)+len(o.dels) > 0
	}
	return false
}

func vSameSnap(snap *commits.Snapshot, st vObjSet) bool {
	if snap == nil {
		return false
	}
	n := 0
	for i, in := range st {
		o, err := snap.Lookup(vObjID(i))
		if (err == nil) != in {
			return false
		}
		if in {
			n++
			if o == nil || o.ID != vObjID(i) || o.Count != uint64(i+1) {
				return false
			}
		}
	}
	return len(snap.SelectAll()) == n
}

func vPoolDir(p *Pool, tag string) string {
	return p.Path.JoinPath(tag).Path + "/"
}

// vCountFiles counts the files under dir for which keep(base name) holds.
func vCountFiles(eng *vEngine, dir string, keep func(string) bool) int {
	n := 0
	for k := range eng.files {
		if strings.HasPrefix(k, dir) && keep(k[len(dir):]) {
			n++
		}
	}
	return n
}

func vIsCommitObject(name string) bool {
	return strings.HasSuffix(name, ".zng") && !strings.HasSuffix(name, ".snap.zng")
}

func vIsJournalEntry(name string) bool {
	return name != "HEAD" && name != "TAIL" && name != "snap.zng"
}

// vChain walks main's parent chain from its tip with the handle's commit
// store; it returns the commits root first and whether every object named on
// the way exists and decodes.
func vChain(ctx context.Context, h *vHandle) (chain []ksuid.KSUID, tip ksuid.KSUID, ok bool) {
	config, err := h.pool.branches.LookupByName(ctx, "main")
	if err != nil {
		return nil, ksuid.Nil, false
	}
	var rev []ksuid.KSUID
	for at := config.Commit; at != ksuid.Nil; {
		if len(rev) > 8 {
			return nil, config.Commit, false
		}
		o, err := h.pool.commits.Get(ctx, at)
		if err != nil || o == nil || o.Commit != at {
			return nil, config.Commit, false
		}
		rev = append(rev, at)
		at = o.Parent
	}
	for i := len(rev) - 1; i >= 0; i-- {
		chain = append(chain, rev[i])
	}
	return chain, config.Commit, true
}

// vCheckLinearized: with fresh handles, main's parent chain is the setup
// history followed by the acknowledged commits, each exactly once; replaying
// the acknowledged operations one at a time in chain order is valid at every
// step and yields the contents the real Store.Snapshot of the tip reports; no
// commit object and no journal entry exists beyond those.  It returns the
// position (in ops) of the operations in chain order.
func vCheckLinearized(ctx context.Context, eng *vEngine, s *vSetup, ops []*vOp) []int {
	f, err := vOpenClient(ctx, eng, 9)
	verif.Assert(err == nil, "reopens")
	if err != nil {
		return nil
	}
	chain, tip, ok := vChain(ctx, f)
	verif.Assert(ok, "tip-names-readable-commit-chain")
	if !ok {
		return nil
	}
	acked := 0
	for _, o := range ops {
		if o.err == nil {
			acked++
		}
	}
	intact := len(chain) >= len(s.chain)
	for i := 0; intact && i < len(s.chain); i++ {
		intact = chain[i] == s.chain[i]
	}
	verif.Assert(intact, "earlier-history-intact")
	if !intact {
		return nil
	}
	verif.Assert(len(chain) == len(s.chain)+acked, "chain-is-history-plus-acknowledged-commits")
	st := s.state
	var order []int
	var used [2]bool
	for _, id := range chain[len(s.chain):] {
		which := -1
		for k, o := range ops {
			if o.err == nil && o.id == id && !used[k] {
				which = k
			}
		}
		verif.Assert(which >= 0, "chain-holds-only-acknowledged-commits")
		if which < 0 {
			return nil
		}
		used[which] = true
		order = append(order, which)
		verif.Assert(ops[which].apply(&st), "acknowledged-operation-valid-on-the-tip-it-replaced")
	}
	for k, o := range ops {
		verif.Assert(o.err != nil || used[k], "acknowledged-commit-in-chain")
	}
	snap, err := f.pool.commits.Snapshot(ctx, tip)
	verif.Assert(err == nil, "branch-readable")
	if err == nil {
		verif.Assert(vSameSnap(snap, st), "contents-are-the-one-at-a-time-result")
	}
	// earlier commits read as before (immutable)
	for i, id := range s.chain {
		snap, err := f.pool.commits.Snapshot(ctx, id)
		verif.Assert(err == nil && vSameSnap(snap, s.states[i]), "earlier-commits-unchanged")
	}
	verif.Assert(vCountFiles(eng, vPoolDir(f.pool, CommitsTag), vIsCommitObject) == s.commits+acked, "refused-commit-object-removed")
	verif.Assert(vCountFiles(eng, vPoolDir(f.pool, BranchesTag), vIsJournalEntry) == s.entries+acked, "failed-operation-leaves-no-journal-entry")
	return order
}

// vRunPair runs A with one preemption by B at any storage call of A (or B
// after A) and reports whether B ran inside A.
func vRunPair(ctx context.Context, eng *vEngine, a, b *vOp) (preempted bool, callsBefore int) {
	return vRunPairObserving(ctx, eng, a, b, func() {})
}

func vOutcomeOf(o *vOp) int {
	if o.err == nil {
		return 0
	}
	return 1
}

// ---------------------------------------------------------------------------
// C12-O2 Branch.commit retry
// ---------------------------------------------------------------------------

func vCommitRetry(fill bool) {
	ctx := context.Background()
	eng := vNewEngine(fill)
	hist := verif.Choose("history", 2)
	s := vSetupLake(ctx, eng, hist, 0)
	ha, err := vOpenClient(ctx, eng, 1)
	verif.Assert(err == nil, "open-a")
	hb, err := vOpenClient(ctx, eng, 2)
	verif.Assert(err == nil, "open-b")
	a := &vOp{kind: vOpLoad, obj: 2, h: ha}
	b := &vOp{kind: vOpLoad, obj: 3, h: hb}
	var createdBefore int
	preempted, at := vRunPairObserving(ctx, eng, a, b, func() { createdBefore = len(a.parents) })
	verif.Observe("preempted", preempted)
	verif.Observe("at", at)
	verif.Observe("outcomeA", vOutcomeOf(a))
	verif.Observe("outcomeB", vOutcomeOf(b))
	verif.Observe("createA", len(a.parents))
	verif.Observe("createB", len(b.parents))
	ops := []*vOp{a, b}
	order := vCheckLinearized(ctx, eng, s, ops)
	f, err := vOpenClient(ctx, eng, 8)
	if err != nil {
		return
	}
	for _, o := range ops {
		n := len(o.parents)
		for i, r := range o.retries {
			verif.Assert(r == i, "retry-count-passed-to-create")
		}
		if o.err == nil {
			verif.Assert(n >= 1 && o.id == o.attempts[n-1], "acknowledged-id-is-the-last-attempt")
			obj, err := f.pool.commits.Get(ctx, o.id)
			verif.Assert(err == nil && obj != nil && obj.Parent == o.parents[n-1], "commit-parent-is-the-tip-handed-to-create")
			n--
		}
		// every refused attempt's commit object is gone
		for i := 0; i < n; i++ {
			verif.Assert(eng.files[vPoolDir(f.pool, CommitsTag)+o.attempts[i].String()+".zng"] == nil, "refused-attempt-object-removed")
		}
	}
	if a.err == nil && b.err == nil && len(order) == 2 {
		verif.Reach("both-acknowledged")
		if order[0] == 1 && preempted && createdBefore >= 1 {
			// B moved the tip between A's lookup and A's update
			verif.Reach("tip-moved-under-a")
			n := len(a.parents)
			verif.Assert(n == createdBefore+1, "create-re-run-once-after-refusal")
			verif.Assert(a.parents[0] == s.tip(), "first-attempt-on-old-tip")
			verif.Assert(a.parents[n-1] == b.id, "retry-built-on-the-new-tip")
		}
	}
	if a.err != nil || b.err != nil {
		verif.Reach("one-failed")
	}
	verif.Reach("end")
}

// vRunPairObserving is vRunPair with a callback just before B runs inside A.
func vRunPairObserving(ctx context.Context, eng *vEngine, a, b *vOp, before func()) (preempted bool, callsBefore int) {
	calls := 0
	eng.hook = func() {
		if b.done {
			return
		}
		calls++
		if verif.Choose("preempt", 2) == 1 {
			preempted = true
			callsBefore = calls
			before()
			b.run(ctx, eng)
		}
	}
	a.run(ctx, eng)
	eng.hook = nil
	if !b.done {
		callsBefore = calls + 1
		b.run(ctx, eng)
	}
	return preempted, callsBefore
}

// verif:desc C12-O2 real lake.Branch.commit (and through it branches.Store.LookupByName/Update, journal.Store.commit/load with the parentCheck constraint, Queue.CommitAt, commits.Store.Put/Remove) for client A, preempted once at any of its storage calls by client B's whole Branch.commit (separate Root/Pool/Branch handles opened earlier, so B's journal table is stale); both add one data object (the create callback of Branch.Load). Asserted with fresh handles: main's parent chain = earlier history + every acknowledged commit exactly once; each acknowledged commit's parent is the tip handed to the create invocation that built it; if B moved the tip between A's lookup and A's update, A's create callback was re-run exactly once, first on the old tip then on B's commit; retries are numbered 0,1,..; the commit object of every refused attempt is deleted; commit objects and journal entries exist only for acknowledged commits; the tip's snapshot replays and holds history + acknowledged objects; earlier commits read as before.
// verif:bounds history 0..1 commits on main; 2 clients, 1 operation each, <= 1 preemption of A (at every storage call A makes, or B after A); atomic-put storage (object store)
// verif:outside > 1 preemption, >= 3 clients; lake.Writer (data object files); journal snapshot files (written only after > 10 entries); create-then-fill puts (see the _fill harness); Root.OpenPool's two lines are transcribed (vOpenPoolByName)
func VerifH_C12_O2_branch_commit_retry() { vCommitRetry(false) }

// verif:desc C12-O2 (file engine) as VerifH_C12_O2_branch_commit_retry over create-then-fill storage: B can observe A's journal entry, HEAD and commit object created but still empty
// verif:bounds as VerifH_C12_O2_branch_commit_retry; the truncate/write halves of Put and the create/fill halves of PutIfNotExists are separate preemption points
// verif:outside as VerifH_C12_O2_branch_commit_retry; torn writes inside one write call
// verif:tier thorough
func VerifH_C12_O2_branch_commit_retry_fill() { vCommitRetry(true) }

// ---------------------------------------------------------------------------
// C12-O3 / C15 two concurrent operations built on Branch.commit
// ---------------------------------------------------------------------------

func vTwoOps(fill bool, hist, child int, mk func(s *vSetup, ha, hb *vHandle) (a, b *vOp)) (s *vSetup, a, b *vOp, order []int, eng *vEngine) {
	ctx := context.Background()
	eng = vNewEngine(fill)
	s = vSetupLake(ctx, eng, hist, child)
	ha, err := vOpenClient(ctx, eng, 1)
	verif.Assert(err == nil, "open-a")
	hb, err := vOpenClient(ctx, eng, 2)
	verif.Assert(err == nil, "open-b")
	a, b = mk(s, ha, hb)
	preempted, at := vRunPair(ctx, eng, a, b)
	verif.Observe("preempted", preempted)
	verif.Observe("at", at)
	verif.Observe("outcomeA", vOutcomeOf(a))
	verif.Observe("outcomeB", vOutcomeOf(b))
	order = vCheckLinearized(ctx, eng, s, []*vOp{a, b})
	if a.err == nil && b.err == nil {
		verif.Reach("both-acknowledged")
	}
	if (a.err == nil) != (b.err == nil) {
		verif.Reach("one-refused")
	}
	if preempted {
		verif.Reach("preempted")
	}
	return s, a, b, order, eng
}

// verif:desc C12-O3 real lake.Branch.Delete (ids looked up in commits.Store.Snapshot of the tip the commit will be parented on; Snapshot incl. getSnapshot/putSnapshot files; Branch.commit retry loop) for client A, preempted once at any storage call by client B's whole operation (separate handles). Scenarios: both delete the same object; different objects; delete vs a load; load vs delete; Branch.CommitCompact of {0,1} into a new object vs delete of 0; delete of 1 vs that compaction. Asserted with fresh handles: the acknowledged operations, replayed one at a time in the order of main's parent chain, are each valid on the tip they replaced (so the same object is never deleted twice) and give exactly the contents of the real tip snapshot, which replays without error; chain = history + acknowledged commits once each; no commit object / journal entry of a failed operation remains; earlier commits read as before.
// verif:bounds main = one commit adding objects {0,1}; 6 scenarios; 2 clients, 1 operation each, <= 1 preemption of A at every storage call; atomic-put storage
// verif:outside > 1 preemption; DeleteWhere (needs the query compiler and lake.Writer goroutines: not reachable); create-then-fill puts (thorough _fill variant)
func VerifH_C12_O3_concurrent_delete() { vConcurrentDelete(false) }

// verif:desc C12-O3 (file engine) as VerifH_C12_O3_concurrent_delete over create-then-fill storage, where B may read a commit snapshot file that A has created but not yet filled
// verif:bounds as VerifH_C12_O3_concurrent_delete
// verif:outside as VerifH_C12_O3_concurrent_delete
// verif:tier thorough
func VerifH_C12_O3_concurrent_delete_fill() { vConcurrentDelete(true) }

func vConcurrentDelete(fill bool) {
	sc := verif.Choose("scenario", 6)
	_, a, b, _, _ := vTwoOps(fill, 1, 0, func(s *vSetup, ha, hb *vHandle) (*vOp, *vOp) {
		switch sc {
		case 4:
			return &vOp{kind: vOpCompact, dels: []int{0, 1}, adds: []int{2}, h: ha}, &vOp{kind: vOpDelete, obj: 0, h: hb}
		case 5:
			return &vOp{kind: vOpDelete, obj: 1, h: ha}, &vOp{kind: vOpCompact, dels: []int{0, 1}, adds: []int{3}, h: hb}
		case 0:
			return &vOp{kind: vOpDelete, obj: 0, h: ha}, &vOp{kind: vOpDelete, obj: 0, h: hb}
		case 1:
			return &vOp{kind: vOpDelete, obj: 0, h: ha}, &vOp{kind: vOpDelete, obj: 1, h: hb}
		case 2:
			return &vOp{kind: vOpDelete, obj: 0, h: ha}, &vOp{kind: vOpLoad, obj: 3, h: hb}
		}
		return &vOp{kind: vOpLoad, obj: 2, h: ha}, &vOp{kind: vOpDelete, obj: 0, h: hb}
	})
	if sc == 0 {
		verif.Assert(a.err != nil || b.err != nil, "same-object-deleted-once")
		if !fill {
			verif.Assert(a.err == nil || b.err == nil, "one-of-two-deletes-succeeds")
		}
	}
	verif.Reach("end")
}

// verif:desc C15-O5 real lake.Branch.Revert (commits.Store.PatchOfCommit of the reverted commit, Store.Snapshot of the tip the revert will be parented on, Patch.Revert, Branch.commit retry loop) racing with Branch.Delete / another Revert from a second client (<= 1 preemption at any storage call). The inverse actions must be filtered by the snapshot of the CURRENT tip of that attempt: asserted via the one-at-a-time replay of the acknowledged operations in chain order (revert removes what the commit added if still present, restores what it deleted if still absent, is refused if nothing is left to do) against the real tip snapshot, which must replay without error.
// verif:bounds main = c1 adding {0,1} (scenarios 0-2) or c1, c2 deleting {0} (scenarios 3-4); pairs: revert c1 / delete 0, delete 0 / revert c1, revert c1 / revert c1, revert c2 / revert c2, revert c1 / revert c2; <= 1 preemption of A; atomic-put storage
// verif:outside vectors; reverting merge commits; > 1 preemption
func VerifH_C15_O5_branch_revert_race() {
	sc := verif.Choose("scenario", 5)
	hist := 1
	if sc >= 3 {
		hist = 2
	}
	vTwoOps(false, hist, 0, func(s *vSetup, ha, hb *vHandle) (*vOp, *vOp) {
		revC1 := func(h *vHandle) *vOp { return &vOp{kind: vOpRevert, commit: s.chain[0], adds: []int{0, 1}, h: h} }
		switch sc {
		case 0:
			return revC1(ha), &vOp{kind: vOpDelete, obj: 0, h: hb}
		case 1:
			return &vOp{kind: vOpDelete, obj: 0, h: ha}, revC1(hb)
		case 2:
			return revC1(ha), revC1(hb)
		case 3:
			return &vOp{kind: vOpRevert, commit: s.chain[1], dels: []int{0}, h: ha}, &vOp{kind: vOpRevert, commit: s.chain[1], dels: []int{0}, h: hb}
		}
		return revC1(ha), &vOp{kind: vOpRevert, commit: s.chain[1], dels: []int{0}, h: hb}
	})
	verif.Reach("end")
}

// verif:desc C15-O6 real lake.Branch.mergeInto/buildMergeObject (commits.Store.Path/PathRange, commonAncestor, Store.Snapshot of the base, PatchOfPath x2, commits.Diff, NewCommitObject, Branch.commit retry loop on the parent) for a child branch with one commit, racing with a second client's commit on the parent (<= 1 preemption at any storage call). The merge commit must be built against the parent tip of THAT attempt: a commit landing on the parent between opening the branches and publishing the merge is kept (it stays in the parent's chain and its effect in the parent's snapshot), and a concurrent delete on the parent of the object the child deletes turns the merge into a conflict instead of an unreadable branch. Asserted via the one-at-a-time replay in chain order against the real, replayable tip snapshot; the child branch still reads as before.
// verif:bounds main = c1 adding {0,1}; child branched at c1 with one commit (adds {4}: scenarios 0-1; deletes {0}: scenarios 2-4); pairs: merge / load, load / merge, merge / delete 0, delete 0 / merge, merge / merge; <= 1 preemption of A; atomic-put storage
// verif:outside Root.MergeBranch's OpenPool call (transcribed: its remaining lines are run as they are); child commits arriving during the merge; nested branches; vectors
func VerifH_C15_O6_merge_race() {
	sc := verif.Choose("scenario", 5)
	child := 1
	if sc >= 2 {
		child = 2
	}
	s, _, _, _, eng := vTwoOps(false, 1, child, func(s *vSetup, ha, hb *vHandle) (*vOp, *vOp) {
		merge := func(h *vHandle) *vOp { return &vOp{kind: vOpMerge, adds: s.childAdds, dels: s.childDels, h: h} }
		switch sc {
		case 0:
			return merge(ha), &vOp{kind: vOpLoad, obj: 3, h: hb}
		case 1:
			return &vOp{kind: vOpLoad, obj: 2, h: ha}, merge(hb)
		case 2:
			return merge(ha), &vOp{kind: vOpDelete, obj: 0, h: hb}
		case 3:
			return &vOp{kind: vOpDelete, obj: 0, h: ha}, merge(hb)
		}
		return merge(ha), merge(hb)
	})
	// the child branch remains readable and unchanged
	ctx := context.Background()
	if f, err := vOpenClient(ctx, eng, 7); err == nil {
		config, err := f.pool.branches.LookupByName(ctx, "child")
		verif.Assert(err == nil, "child-branch-listed")
		if err == nil {
			want := s.state
			for _, i := range s.childAdds {
				want[i] = true
			}
			for _, i := range s.childDels {
				want[i] = false
			}
			snap, err := f.pool.commits.Snapshot(ctx, config.Commit)
			verif.Assert(err == nil && vSameSnap(snap, want), "child-branch-readable-and-unchanged")
		}
	}
	verif.Reach("end")
}

// verif:desc C15-O7 one client, sequentially: Branch.Revert of a commit, Revert of the same commit again (must be refused or a no-op: nothing left to revert), Revert of the revert commit (restores the prior contents), on the real Branch/commits.Store over model storage; after every step the tip snapshot read by fresh handles replays and equals the model.
// verif:bounds main = c1 adding {0,1}, optionally c2 deleting {0}; the reverted commit is c1 or c2
// verif:outside concurrency (see C15-O5), vectors
func VerifH_C15_O7_branch_revert_twice() {
	ctx := context.Background()
	eng := vNewEngine(false)
	hist := 1 + verif.Choose("history", 2)
	which := verif.Choose("revert", hist)
	s := vSetupLake(ctx, eng, hist, 0)
	h, err := vOpenClient(ctx, eng, 1)
	verif.Assert(err == nil, "open")
	target := &vOp{kind: vOpRevert, commit: s.chain[which], h: h}
	if which == 0 {
		target.adds = []int{0, 1}
	} else {
		target.dels = []int{0}
	}
	before := s.state
	st := s.state
	verif.Assert(target.apply(&st), "model-revert-valid")
	target.run(ctx, eng)
	verif.Assert(target.err == nil, "revert-accepted")
	if target.err != nil {
		return
	}
	read := func(id string, want vObjSet) {
		f, err := vOpenClient(ctx, eng, 9)
		verif.Assert(err == nil, "reopens")
		if err != nil {
			return
		}
		_, tip, ok := vChain(ctx, f)
		verif.Assert(ok, "tip-names-readable-commit-chain")
		snap, err := f.pool.commits.Snapshot(ctx, tip)
		verif.Assert(err == nil, "branch-readable")
		verif.Assert(err != nil || vSameSnap(snap, want), id)
	}
	read("revert-result", st)
	// the same commit again: nothing left to do
	again := &vOp{kind: vOpRevert, commit: target.commit, adds: target.adds, dels: target.dels, h: h}
	again.run(ctx, eng)
	verif.Observe("second-revert-refused", again.err != nil)
	read("second-revert-is-refused-or-no-op", st)
	if again.err == nil {
		verif.Reach("second-revert-accepted")
	}
	// revert of the revert: what the revert commit added/deleted
	rr := &vOp{kind: vOpRevert, commit: target.id, h: h}
	for i := range st {
		if st[i] && !before[i] {
			rr.adds = append(rr.adds, i)
		}
		if !st[i] && before[i] {
			rr.dels = append(rr.dels, i)
		}
	}
	rr.run(ctx, eng)
	verif.Assert(rr.err == nil, "revert-of-revert-accepted")
	read("revert-of-revert-restores-contents", before)
	verif.Reach("end")
}

// ---------------------------------------------------------------------------
// C17-O2 crash inside Branch.commit
// ---------------------------------------------------------------------------

func vBranchCrash(fill bool) {
	ctx := context.Background()
	eng := vNewEngine(fill)
	sc := verif.Choose("scenario", 4)
	hist := 1
	if sc == 0 {
		hist = 0
	}
	s := vSetupLake(ctx, eng, hist, 0)
	h, err := vOpenClient(ctx, eng, 1)
	verif.Assert(err == nil, "open")
	var op *vOp
	switch sc {
	case 0, 1:
		op = &vOp{kind: vOpLoad, obj: 2, h: h}
	case 2:
		op = &vOp{kind: vOpDelete, obj: 0, h: h}
	default:
		op = &vOp{kind: vOpRevert, commit: s.chain[0], adds: []int{0, 1}, h: h}
	}
	vMaxCrashSteps := 5
	if fill {
		vMaxCrashSteps = 10
	}
	k := verif.Choose("crashAt", vMaxCrashSteps+1)
	before := eng.steps
	if k > 0 {
		eng.crashAt = before + k
	}
	op.run(ctx, eng)
	crashed := eng.crashed
	verif.Observe("crashed", crashed)
	verif.Observe("failed", op.err != nil)
	if !crashed {
		verif.Assert(op.err == nil, "commit-without-crash")
		verif.Assert(eng.steps-before <= vMaxCrashSteps, "crash-range-covers-all-steps")
		// a crash step beyond the operation's last step is the same run as no crash
		verif.Assume(k == 0)
		verif.Reach("no-crash")
	} else {
		verif.Assert(op.err != nil, "crashed-commit-not-acknowledged")
	}
	cut := eng.crashOp
	eng.reboot()
	headTruncated := strings.HasPrefix(cut, "put-write:HEAD")
	snapTruncated := strings.HasPrefix(cut, "put-write:") && strings.HasSuffix(cut, ".snap.zng")
	region := ""
	if snapTruncated {
		// the file engine truncated <commit>.snap.zng and the crash came before its contents
		verif.Reach("crash-snapshot-truncated")
		region = "/snap-truncated"
	}

	f, err := vOpenClient(ctx, eng, 2)
	if headTruncated {
		verif.Reach("crash-head-truncated")
		verif.Assert(err == nil, "reopens/head-truncated")
	} else {
		verif.Assert(err == nil, "reopens")
	}
	if err != nil {
		return
	}
	chain, tip, ok := vChain(ctx, f)
	verif.Assert(ok, "tip-names-readable-commit-object")
	if !ok {
		return
	}
	intact := len(chain) >= len(s.chain)
	for i := 0; intact && i < len(s.chain); i++ {
		intact = chain[i] == s.chain[i]
	}
	verif.Assert(intact, "earlier-history-intact")
	extra := len(chain) - len(s.chain)
	verif.Assert(extra == 0 || extra == 1, "all-or-nothing")
	if !intact || extra < 0 || extra > 1 {
		return
	}
	want := s.state
	if extra == 1 {
		verif.Reach("interrupted-commit-landed")
		verif.Assert(op.apply(&want), "landed-commit-valid")
	} else {
		verif.Assert(crashed, "acknowledged-commit-visible")
	}
	if !crashed {
		verif.Assert(extra == 1 && chain[len(chain)-1] == op.id, "acknowledged-commit-is-the-tip")
	}
	snap, err := f.pool.commits.Snapshot(ctx, tip)
	verif.Assert(err == nil, "branch-readable"+region)
	if err == nil {
		verif.Assert(vSameSnap(snap, want), "contents-all-or-nothing"+region)
	}
	for i, id := range s.chain {
		snap, err := f.pool.commits.Snapshot(ctx, id)
		verif.Assert(err == nil && vSameSnap(snap, s.states[i]), "earlier-commits-intact"+region)
	}
	// a follow-up commit on the same branch succeeds and is visible
	entryLanded := vCountFiles(eng, vPoolDir(f.pool, BranchesTag), vIsJournalEntry) > s.entries
	next := &vOp{kind: vOpLoad, obj: 5, h: f}
	next.run(ctx, eng)
	if crashed && entryLanded && extra == 0 {
		// the journal entry exists but HEAD still names its predecessor
		verif.Reach("crash-head-lags")
		verif.Assert(next.err == nil, "follow-up-commit/head-lags")
	} else {
		verif.Assert(next.err == nil, "follow-up-commit")
	}
	if next.err != nil {
		return
	}
	g, err := vOpenClient(ctx, eng, 3)
	verif.Assert(err == nil, "reopens-after-follow-up")
	if err != nil {
		return
	}
	chain2, tip2, ok := vChain(ctx, g)
	verif.Assert(ok && len(chain2) == len(chain)+1 && tip2 == next.id, "follow-up-commit-is-the-tip")
	want[5] = true
	snap, err = g.pool.commits.Snapshot(ctx, tip2)
	verif.Assert(err == nil, "branch-readable-after-follow-up"+region)
	if err == nil {
		verif.Assert(vSameSnap(snap, want), "follow-up-visible"+region)
	}
	verif.Reach("end")
}

// verif:desc C17-O2 real lake.Branch.commit (via the Load constructor, Branch.Delete and Branch.Revert) over the model storage, cut off by a crash at storage mutation step k (fail-stop: step k and all later ones do not happen); then fresh handles (lake.Open, pool, branch: cold caches) on the surviving state: the lake re-opens; main's tip names an existing, decodable commit object whose parent chain is the earlier history plus at most the interrupted commit (all-or-nothing; an orphan commit object is invisible); an acknowledged commit is the tip; the tip snapshot replays and holds exactly the before- or after-contents; earlier commits read as before; a follow-up commit succeeds and is visible to yet another fresh handle. Known regions split off: HEAD lags the landed journal entry (/head-lags), file-engine HEAD truncated (/head-truncated); new region: file-engine commit snapshot file truncated (/snap-truncated).
// verif:bounds scenarios: load on an empty main, load / delete {0} / revert c1 on main = c1 adding {0,1}; crash step k in 1..10 of the operation (asserted to cover every step) or none; atomic puts
// verif:outside crash during setup or during the follow-up (double crash); torn writes inside one write call; data object files (lake.Writer); create-then-fill puts (see the _fill harness)
func VerifH_C17_O2_branch_commit_crash() { vBranchCrash(false) }

// verif:desc C17-O2 (file engine) as VerifH_C17_O2_branch_commit_crash over create-then-fill storage: Put = truncate/create step then write step, PutIfNotExists = create step then fill step, each a crash point
// verif:bounds as VerifH_C17_O2_branch_commit_crash
// verif:outside as VerifH_C17_O2_branch_commit_crash
func VerifH_C17_O2_branch_commit_crash_fill() { vBranchCrash(true) }

// ---------------------------------------------------------------------------
// C12-O4 pool name table
// ---------------------------------------------------------------------------

const (
	vPoolCreate = iota
	vPoolRename
	vPoolRemove
)

type vPoolOp struct {
	kind int
	name string // create: the name; rename: the new name
	root *Root
	who  int

	done bool
	err  error
	id   ksuid.KSUID // create: the new pool's id
}

// vNames is the model registry: name -> pool tag (0 = the setup pool, 1/2 =
// the pool created by client 1/2).
type vNames struct {
	names []string
	tags  []int
}

func (t *vNames) find(name string) int {
	for i, n := range t.names {
		if n == name {
			return i
		}
	}
	return -1
}

func (t *vNames) findTag(tag int) int {
	for i, g := range t.tags {
		if g == tag {
			return i
		}
	}
	return -1
}

func (t vNames) copy() vNames {
	return vNames{names: append([]string(nil), t.names...), tags: append([]int(nil), t.tags...)}
}

func (o *vPoolOp) apply(t *vNames) bool {
	switch o.kind {
	case vPoolCreate:
		if t.find(o.name) >= 0 {
			return false
		}
		t.names = append(t.names, o.name)
		t.tags = append(t.tags, o.who)
		return true
	case vPoolRename:
		i := t.findTag(0)
		if i < 0 || t.find(o.name) >= 0 {
			return false
		}
		t.names[i] = o.name
		return true
	case vPoolRemove:
		i := t.findTag(0)
		if i < 0 {
			return false
		}
		t.names = append(t.names[:i], t.names[i+1:]...)
		t.tags = append(t.tags[:i], t.tags[i+1:]...)
		return true
	}
	return false
}

func (o *vPoolOp) run(ctx context.Context, eng *vEngine, setupPool ksuid.KSUID) {
	saved := eng.client
	eng.client = o.who
	switch o.kind {
	case vPoolCreate:
		pool, err := o.root.CreatePool(ctx, o.name, nil, 0, 0)
		o.err = err
		if err == nil {
			o.id = pool.ID
		}
	case vPoolRename:
		o.err = o.root.RenamePool(ctx, setupPool, o.name)
	case vPoolRemove:
		o.err = o.root.RemovePool(ctx, setupPool)
	}
	o.done = true
	eng.client = saved
}

// vTopDirs counts the distinct first path elements under the lake root other
// than the pools journal and the magic file: the pool directories.
func vTopDirs(eng *vEngine) int {
	prefix := vLakePath().Path + "/"
	var seen []string
	for k := range eng.files {
		if !strings.HasPrefix(k, prefix) {
			continue
		}
		rest := k[len(prefix):]
		i := strings.IndexByte(rest, '/')
		if i < 0 {
			continue // lake.zng
		}
		top := rest[:i]
		if top == PoolsTag {
			continue
		}
		dup := false
		for _, s := range seen {
			dup = dup || s == top
		}
		if !dup {
			seen = append(seen, top)
		}
	}
	return len(seen)
}

// verif:desc C12-O4 real lake.Root.CreatePool / RenamePool / RemovePool (pools.Store.Add/Rename/Remove, journal.Store.Insert/Move/Delete with their constraints, lake.CreatePool/OpenPool/RemovePool) for client A preempted once at any storage call by client B's whole operation (separate lake.Root handles). Asserted on a fresh Root: listed names are unique and ids are unique; there is an order of the acknowledged operations in which each is valid one at a time (create: name free; rename: pool exists, new name free; remove: pool exists) and whose result is exactly the listed name -> pool table (B after A: that order only); every listed pool can be opened together with its main branch (so RemovePool never deletes the data of a pool whose registry entry it could not remove, and a lost CreatePool race removes only its own directory); pool directories on storage = listed pools (a failed create leaves nothing behind).
// verif:bounds lake with one pool "p"; pairs: create q / create q, create q / rename p->q, rename p->q / create q, rename p->q / remove p, remove p / rename p->q, remove p / remove p, rename p->q / rename p->r, create q / remove p; <= 1 preemption of A at every storage call; atomic-put storage
// verif:outside > 1 preemption; pool cache of long-lived Roots (handles are opened before the operations, used once); journal snapshot files; create-then-fill puts
func VerifH_C12_O4_pool_names() {
	ctx := context.Background()
	eng := vNewEngine(false)
	sc := verif.Choose("scenario", 8)
	root, err := Create(ctx, eng, nil, vLakePath())
	verif.Assert(err == nil, "setup-create-lake")
	pool, err := root.CreatePool(ctx, vPoolName, nil, 0, 0)
	verif.Assert(err == nil, "setup-create-pool")
	setupID := pool.ID
	ra, err := Open(ctx, eng, nil, vLakePath())
	verif.Assert(err == nil, "open-a")
	rb, err := Open(ctx, eng, nil, vLakePath())
	verif.Assert(err == nil, "open-b")
	a, b := &vPoolOp{root: ra, who: 1}, &vPoolOp{root: rb, who: 2}
	set := func(o *vPoolOp, kind int, name string) { o.kind, o.name = kind, name }
	switch sc {
	case 0:
		set(a, vPoolCreate, "q")
		set(b, vPoolCreate, "q")
	case 1:
		set(a, vPoolCreate, "q")
		set(b, vPoolRename, "q")
	case 2:
		set(a, vPoolRename, "q")
		set(b, vPoolCreate, "q")
	case 3:
		set(a, vPoolRename, "q")
		set(b, vPoolRemove, "")
	case 4:
		set(a, vPoolRemove, "")
		set(b, vPoolRename, "q")
	case 5:
		set(a, vPoolRemove, "")
		set(b, vPoolRemove, "")
	case 6:
		set(a, vPoolRename, "q")
		set(b, vPoolRename, "r")
	default:
		set(a, vPoolCreate, "q")
		set(b, vPoolRemove, "")
	}
	preempted := false
	eng.hook = func() {
		if b.done {
			return
		}
		if verif.Choose("preempt", 2) == 1 {
			preempted = true
			b.run(ctx, eng, setupID)
		}
	}
	a.run(ctx, eng, setupID)
	eng.hook = nil
	if !b.done {
		b.run(ctx, eng, setupID)
	}
	verif.Observe("preempted", preempted)
	verif.Observe("outcomeA", a.err == nil)
	verif.Observe("outcomeB", b.err == nil)

	f, err := Open(ctx, eng, nil, vLakePath())
	verif.Assert(err == nil, "reopens")
	if err != nil {
		return
	}
	list, err := f.ListPools(ctx)
	verif.Assert(err == nil, "pools-listed")
	if err != nil {
		return
	}
	verif.Observe("listed", len(list))
	for i := range list {
		for j := 0; j < i; j++ {
			verif.Assert(list[i].Name != list[j].Name, "names-unique")
			verif.Assert(list[i].ID != list[j].ID, "ids-unique")
		}
	}
	tagOf := func(id ksuid.KSUID) int {
		switch {
		case id == setupID:
			return 0
		case a.kind == vPoolCreate && a.err == nil && id == a.id:
			return 1
		case b.kind == vPoolCreate && b.err == nil && id == b.id:
			return 2
		}
		return -1
	}
	matches := func(t vNames) bool {
		if len(t.names) != len(list) {
			return false
		}
		for _, c := range list {
			i := t.find(c.Name)
			if i < 0 || t.tags[i] != tagOf(c.ID) {
				return false
			}
		}
		return true
	}
	try := func(first, second *vPoolOp) bool {
		t := vNames{names: []string{vPoolName}, tags: []int{0}}
		for _, o := range []*vPoolOp{first, second} {
			if o.err == nil && !o.apply(&t) {
				return false
			}
		}
		return matches(t)
	}
	linear := try(a, b)
	if preempted {
		linear = linear || try(b, a)
	}
	verif.Assert(linear, "as-if-one-at-a-time")
	for i := range list {
		p, err := f.openPool(ctx, &list[i])
		verif.Assert(err == nil, "listed-pool-opens")
		if err == nil {
			_, err := p.OpenBranchByName(ctx, "main")
			verif.Assert(err == nil, "listed-pool-has-main-branch")
		}
	}
	verif.Assert(vTopDirs(eng) == len(list), "pool-directories-are-the-listed-pools")
	if a.err == nil && b.err == nil {
		verif.Reach("both-acknowledged")
	}
	if (a.err == nil) != (b.err == nil) {
		verif.Reach("one-refused")
	}
	if preempted {
		verif.Reach("preempted")
	}
	verif.Reach("end")
}

// ---------------------------------------------------------------------------
// C12-O5 branch name table
// ---------------------------------------------------------------------------

const (
	vBranchCreate = iota // create branch "child" at main's tip
	vBranchRemove        // remove branch "child"
	vBranchCommit        // commit (load of one object) on "child"
)

type vBranchOp struct {
	kind int
	obj  int
	h    *vHandle
	at   ksuid.KSUID // create: parent commit

	done bool
	err  error
	id   ksuid.KSUID // commit: the new commit
}

func (o *vBranchOp) run(ctx context.Context, eng *vEngine) {
	saved := eng.client
	eng.client = o.h.id
	switch o.kind {
	case vBranchCreate:
		_, o.err = o.h.root.CreateBranch(ctx, o.h.pool.ID, "child", o.at)
	case vBranchRemove:
		// Root.RemoveBranch after its OpenPool call
		o.err = o.h.pool.removeBranch(ctx, "child")
	case vBranchCommit:
		cb, err := o.h.pool.OpenBranchByName(ctx, "child")
		if err != nil {
			o.err = err
			break
		}
		o.id, o.err = cb.commit(ctx, func(parent *branches.Config, retries int) (*commits.Object, error) {
			return vLoadObject(parent.Commit, retries, o.obj), nil
		})
	}
	o.done = true
	eng.client = saved
}

// vChildModel: whether "child" exists and the commits (beyond main's tip) on it.
type vChildModel struct {
	exists bool
	tip    ksuid.KSUID
	objs   vObjSet
}

func (o *vBranchOp) apply(m *vChildModel) bool {
	switch o.kind {
	case vBranchCreate:
		if m.exists {
			return false
		}
		m.exists, m.tip = true, o.at
		return true
	case vBranchRemove:
		if !m.exists {
			return false
		}
		m.exists = false
		return true
	case vBranchCommit:
		if !m.exists || m.objs[o.obj] {
			return false
		}
		m.tip = o.id
		m.objs[o.obj] = true
		return true
	}
	return false
}

// verif:desc C12-O5 real lake.Root.CreateBranch / lake.CreateBranch (branches.Store.Add), Pool.removeBranch (branches.Store.Remove with its "tip unchanged" constraint) and Branch.commit on the same branch name from two clients with separate handles, <= 1 preemption of A at any storage call. Asserted with fresh handles: branch names are unique; there is an order of the acknowledged operations in which each is valid one at a time (create: name free; remove: branch exists; commit: branch exists) and that yields exactly the listed branches and their tips (B after A: that order only); every listed branch's tip names a readable commit object whose snapshot replays and holds the expected objects; main is untouched; a failed operation leaves neither a journal entry nor a commit object.
// verif:bounds pool with main = c1 adding {0,1}; scenarios: create child / create child (no child before); with child existing (one commit adding {4}): remove / commit, commit / remove, remove / remove, commit / commit; <= 1 preemption of A; atomic-put storage
// verif:outside Root.RemoveBranch's OpenPool call (transcribed); > 1 preemption; removal refusing a branch that moved is allowed (a failed operation leaves no trace)
func VerifH_C12_O5_branch_names() {
	ctx := context.Background()
	eng := vNewEngine(false)
	sc := verif.Choose("scenario", 5)
	child := 1
	if sc == 0 {
		child = 0
	}
	s := vSetupLake(ctx, eng, 1, child)
	ha, err := vOpenClient(ctx, eng, 1)
	verif.Assert(err == nil, "open-a")
	hb, err := vOpenClient(ctx, eng, 2)
	verif.Assert(err == nil, "open-b")
	model := vChildModel{objs: s.state}
	if child != 0 {
		cfg, err := s.h0.pool.branches.LookupByName(ctx, "child")
		verif.Assert(err == nil, "setup-child-listed")
		if err != nil {
			return
		}
		model.exists, model.tip = true, cfg.Commit
		model.objs[4] = true
	}
	a, b := &vBranchOp{h: ha, at: s.tip()}, &vBranchOp{h: hb, at: s.tip()}
	switch sc {
	case 0:
		a.kind, b.kind = vBranchCreate, vBranchCreate
	case 1:
		a.kind, b.kind, b.obj = vBranchRemove, vBranchCommit, 3
	case 2:
		a.kind, a.obj, b.kind = vBranchCommit, 2, vBranchRemove
	case 3:
		a.kind, b.kind = vBranchRemove, vBranchRemove
	default:
		a.kind, a.obj, b.kind, b.obj = vBranchCommit, 2, vBranchCommit, 3
	}
	preempted := false
	eng.hook = func() {
		if b.done {
			return
		}
		if verif.Choose("preempt", 2) == 1 {
			preempted = true
			b.run(ctx, eng)
		}
	}
	a.run(ctx, eng)
	eng.hook = nil
	if !b.done {
		b.run(ctx, eng)
	}
	verif.Observe("preempted", preempted)
	verif.Observe("outcomeA", a.err == nil)
	verif.Observe("outcomeB", b.err == nil)

	f, err := vOpenClient(ctx, eng, 9)
	verif.Assert(err == nil, "reopens")
	if err != nil {
		return
	}
	list, err := f.pool.ListBranches(ctx)
	verif.Assert(err == nil, "branches-listed")
	if err != nil {
		return
	}
	var childCfg *branches.Config
	for i := range list {
		for j := 0; j < i; j++ {
			verif.Assert(list[i].Name != list[j].Name, "names-unique")
		}
		if list[i].Name == "child" {
			childCfg = &list[i]
		}
		if list[i].Name == "main" {
			verif.Assert(list[i].Commit == s.tip(), "main-untouched")
		}
	}
	try := func(first, second *vBranchOp) (vChildModel, bool) {
		m := model
		for _, o := range []*vBranchOp{first, second} {
			if o.err == nil && !o.apply(&m) {
				return m, false
			}
		}
		if m.exists != (childCfg != nil) {
			return m, false
		}
		return m, !m.exists || m.tip == childCfg.Commit
	}
	m, linear := try(a, b)
	if !linear && preempted {
		m, linear = try(b, a)
	}
	verif.Assert(linear, "as-if-one-at-a-time")
	verif.Assert(len(list) == 1 || (len(list) == 2 && childCfg != nil), "only-main-and-child-listed")
	acked, ackedCommits := 0, 0
	for _, o := range []*vBranchOp{a, b} {
		if o.err == nil {
			acked++
			if o.kind == vBranchCommit {
				ackedCommits++
			}
		}
	}
	if linear && childCfg != nil {
		snap, err := f.pool.commits.Snapshot(ctx, childCfg.Commit)
		verif.Assert(err == nil, "listed-branch-readable")
		verif.Assert(err != nil || vSameSnap(snap, m.objs), "listed-branch-contents")
	}
	snap, err := f.pool.commits.Snapshot(ctx, s.tip())
	verif.Assert(err == nil && vSameSnap(snap, s.state), "main-readable-and-unchanged")
	verif.Assert(vCountFiles(eng, vPoolDir(f.pool, CommitsTag), vIsCommitObject) == s.commits+ackedCommits, "refused-commit-object-removed")
	verif.Assert(vCountFiles(eng, vPoolDir(f.pool, BranchesTag), vIsJournalEntry) == s.entries+acked, "failed-operation-leaves-no-journal-entry")
	if a.err == nil && b.err == nil {
		verif.Reach("both-acknowledged")
	}
	if (a.err == nil) != (b.err == nil) {
		verif.Reach("one-refused")
	}
	if preempted {
		verif.Reach("preempted")
	}
	verif.Reach("end")
}

// ---------------------------------------------------------------------------
// C13-O6 commit snapshot files read while / after they are written
// ---------------------------------------------------------------------------

// verif:desc C13-O6 real commits.Store.Snapshot (LRU, getSnapshot/putSnapshot of <commit>.snap.zng, fold of the commit chain) for the same commit from two clients with cold caches, client B's read running at any storage call of client A's read (A writes the persisted snapshot file), then a third cold client: every reader sees exactly the commit's contents, during and after the write of the derived file. Region split off: B reads while the file engine has created/truncated the snapshot file but not yet written it (/snap-truncated).
// verif:bounds main = c1 adding {0,1}, optionally c2 deleting {0}; the commit read is the tip; atomic puts or create-then-fill puts; <= 1 preemption of A at every storage call
// verif:outside torn writes inside one write call; queries (only the snapshot the scanner is built from)
func VerifH_C13_O6_snapshot_read_during_write() {
	ctx := context.Background()
	fill := verif.Choose("fill", 2) == 1
	eng := vNewEngine(fill)
	hist := 1 + verif.Choose("history", 2)
	s := vSetupLake(ctx, eng, hist, 0)
	tip := s.tip()
	// the setup's Delete has already persisted the snapshot of c1, not of the tip
	ha, err := vOpenClient(ctx, eng, 1)
	verif.Assert(err == nil, "open-a")
	hb, err := vOpenClient(ctx, eng, 2)
	verif.Assert(err == nil, "open-b")
	bDone, inWindow, preempted := false, false, false
	var snapB *commits.Snapshot
	var errB error
	readB := func() {
		bDone = true
		snapB, errB = hb.pool.commits.Snapshot(ctx, tip)
	}
	eng.hook = func() {
		if bDone {
			return
		}
		if verif.Choose("preempt", 2) == 1 {
			preempted = true
			inWindow = strings.HasPrefix(eng.lastOp, "put-trunc:") && strings.HasSuffix(eng.lastOp, ".snap.zng")
			readB()
		}
	}
	snapA, errA := ha.pool.commits.Snapshot(ctx, tip)
	eng.hook = nil
	if !bDone {
		readB()
	}
	verif.Observe("preempted", preempted)
	verif.Observe("in-window", inWindow)
	verif.Assert(errA == nil && vSameSnap(snapA, s.state), "writer-sees-commit-contents")
	if inWindow {
		verif.Reach("read-inside-truncate-write-window")
		verif.Assert(errB == nil && vSameSnap(snapB, s.state), "reader-sees-commit-contents/snap-truncated")
	} else {
		verif.Assert(errB == nil && vSameSnap(snapB, s.state), "reader-sees-commit-contents")
	}
	// B again with its warm cache, and a cold third client
	snapB2, err := hb.pool.commits.Snapshot(ctx, tip)
	if inWindow {
		verif.Assert(err == nil && vSameSnap(snapB2, s.state), "reader-sees-commit-contents-again/snap-truncated")
	} else {
		verif.Assert(err == nil && vSameSnap(snapB2, s.state), "reader-sees-commit-contents-again")
	}
	hc, err := vOpenClient(ctx, eng, 3)
	verif.Assert(err == nil, "open-c")
	if err == nil {
		snapC, err := hc.pool.commits.Snapshot(ctx, tip)
		verif.Assert(err == nil && vSameSnap(snapC, s.state), "later-reader-sees-commit-contents")
	}
	verif.Assert(eng.files[vPoolDir(ha.pool, CommitsTag)+tip.String()+".snap.zng"] != nil, "snapshot-file-persisted")
	verif.Reach("end")
}

// ---------------------------------------------------------------------------
// C14-O7 branch histories against the loaded-minus-deleted model
// ---------------------------------------------------------------------------

func vBranchHistory(n int) {
	ctx := context.Background()
	eng := vNewEngine(false)
	s := vSetupLake(ctx, eng, 1, 0)
	h, err := vOpenClient(ctx, eng, 1)
	verif.Assert(err == nil, "open")
	chain := append([]ksuid.KSUID(nil), s.chain...)
	states := append([]vObjSet(nil), s.states...)
	st := s.state
	fresh := 2
	for step := 0; step < n; step++ {
		var op *vOp
		switch k := verif.Choose("op", 6); k {
		case 0:
			op = &vOp{kind: vOpLoad, obj: fresh, h: h}
			fresh++
		case 1, 2:
			op = &vOp{kind: vOpDelete, obj: k - 1, h: h}
		case 3:
			op = &vOp{kind: vOpCompact, dels: []int{0, 1}, adds: []int{5}, h: h}
		default:
			// revert the first (k == 4) or the latest (k == 5) commit
			i := 0
			if k == 5 {
				i = len(chain) - 1
			}
			op = &vOp{kind: vOpRevert, commit: chain[i], h: h}
			var before vObjSet
			if i > 0 {
				before = states[i-1]
			}
			for j := range before {
				if states[i][j] && !before[j] {
					op.adds = append(op.adds, j)
				}
				if !states[i][j] && before[j] {
					op.dels = append(op.dels, j)
				}
			}
		}
		next := st
		valid := op.apply(&next)
		op.run(ctx, eng)
		verif.Assert(valid || op.err != nil, "invalid-operation-refused")
		verif.Assert(!valid || op.err == nil, "valid-operation-accepted")
		if op.err == nil {
			st = next
			chain = append(chain, op.id)
			states = append(states, st)
		} else {
			verif.Reach("refused")
		}
		// the branch as seen by the writer's warm handle and by a cold one
		f, err := vOpenClient(ctx, eng, 9)
		verif.Assert(err == nil, "reopens")
		if err != nil {
			return
		}
		for _, r := range []*vHandle{h, f} {
			got, tip, ok := vChain(ctx, r)
			verif.Assert(ok && len(got) == len(chain) && tip == chain[len(chain)-1], "tip-is-the-last-acknowledged-commit")
			snap, err := r.pool.commits.Snapshot(ctx, tip)
			verif.Assert(err == nil, "branch-readable")
			verif.Assert(err != nil || vSameSnap(snap, st), "contents-are-loaded-minus-deleted")
			// every earlier commit still reads as it did (C13)
			for i, id := range chain {
				snap, err := r.pool.commits.Snapshot(ctx, id)
				verif.Assert(err == nil && vSameSnap(snap, states[i]), "earlier-commits-unchanged")
			}
		}
	}
	verif.Reach("end")
}

// verif:desc C14-O7 histories through the real lake.Branch API over model storage (one client): after c1 = load of {0,1}, a sequence of operations from {load of a new object, delete 0, delete 1, CommitCompact {0,1}->{5}, revert of the first commit, revert of the latest commit}; after every step the branch contents read through commits.Store.Snapshot by the writer's warm handle and by a fresh cold handle (reading the persisted snapshot files) equal the model (loaded minus deleted; revert/compact per their definition), an operation is accepted iff it is valid on the current contents (delete/compact of an absent object, revert with nothing to revert are refused and change nothing), and every earlier commit id still reads as it did.
// verif:bounds 2 operations after c1 (36 histories); object metadata fixed; atomic-put storage, no failures
// verif:outside data object files and the scanner (lake.Writer, meta.Lister: goroutine driven), DeleteWhere (query compiler), vectors, vacuum
func VerifH_C14_O7_branch_history() { vBranchHistory(2) }

// verif:desc C14-O7 (deeper) as VerifH_C14_O7_branch_history with 3 operations
// verif:bounds 3 operations after c1 (216 histories)
// verif:outside as VerifH_C14_O7_branch_history
// verif:tier thorough
func VerifH_C14_O7_branch_history_deep() { vBranchHistory(3) }

// ---------------------------------------------------------------------------
// C12-O6 Branch.DeleteWhere over a model compiler
// ---------------------------------------------------------------------------

// vCompiler is the environment of Branch.DeleteWhere: a runtime.Compiler whose
// delete query, compiled against the commit named by the commitish, selects
// every value of data object op.obj (so the object is in the deletion set iff
// it is in that commit's snapshot, and no value is left to rewrite).
type vCompiler struct {
	op *vOp
}

type vDeleteQuery struct {
	deleted []ksuid.KSUID
}

func (q *vDeleteQuery) Pull(bool) (zbuf.Batch, error) { return nil, nil }
func (q *vDeleteQuery) Close() error                  { return nil }
func (q *vDeleteQuery) Progress() zbuf.Progress       { return zbuf.Progress{} }
func (q *vDeleteQuery) Meter() zbuf.Meter             { return &zbuf.Progress{} }
func (q *vDeleteQuery) DeletionSet() []ksuid.KSUID    { return q.deleted }

func (c *vCompiler) NewQuery(*runtime.Context, ast.Seq, []zio.Reader) (runtime.Query, error) {
	return nil, errors.New("verif: not modelled")
}

func (c *vCompiler) NewLakeQuery(*runtime.Context, ast.Seq, int, *lakeparse.Commitish) (runtime.Query, error) {
	return nil, errors.New("verif: not modelled")
}

func (c *vCompiler) Parse(string, ...string) (ast.Seq, *parser.SourceSet, error) {
	return nil, nil, errors.New("verif: not modelled")
}

func (c *vCompiler) NewLakeDeleteQuery(rctx *runtime.Context, _ ast.Seq, commitish *lakeparse.Commitish) (runtime.DeleteQuery, error) {
	c.op.seen = append(c.op.seen, commitish.Branch)
	id, err := lakeparse.ParseID(commitish.Branch)
	if err != nil {
		return nil, err
	}
	snap, err := c.op.h.pool.commits.Snapshot(rctx.Context, id)
	if err != nil {
		return nil, err
	}
	q := &vDeleteQuery{}
	if snap.Exists(vObjID(c.op.obj)) {
		q.deleted = []ksuid.KSUID{vObjID(c.op.obj)}
	}
	return q, nil
}

// verif:desc C12-O6 real lake.Branch.DeleteWhere (runtime.NewContext, lake.NewWriter/Close with nothing to rewrite, Store.Snapshot of the parent, patch from the query's deletion set, Patch.NewCommitObject, Branch.commit retry loop) over a MODEL runtime.Compiler (environment: the delete query compiled for commit X deletes all of data object 0 iff X's snapshot holds it), racing with a second client's Branch.Delete of the same object (<= 1 preemption at any storage call). Asserted: the query is compiled against the tip of THAT attempt (the commitish handed to the compiler names the commit the acknowledged commit is parented on); the acknowledged operations replayed one at a time in chain order are valid and give the real, replayable tip snapshot (object 0 is never deleted twice); failed operations leave no trace.
// verif:bounds main = c1 adding {0,1}; pairs: delete-where(object 0) / delete 0, delete 0 / delete-where(object 0), delete-where / delete-where, delete-where(object 0) / delete 1; <= 1 preemption of A; atomic-put storage
// verif:outside the real compiler, optimizer and meta.Deleter (which values a predicate selects: C14-O5, C16-O3); rewritten objects (lake.Writer goroutines are not reached: the query returns no values); > 1 preemption
func VerifH_C12_O6_delete_where_race() { vDeleteWhereRace() }

func vDeleteWhereRace() {
	sc := verif.Choose("scenario", 4)
	_, a, b, _, eng := vTwoOps(false, 1, 0, func(s *vSetup, ha, hb *vHandle) (*vOp, *vOp) {
		switch sc {
		case 0:
			return &vOp{kind: vOpDeleteWhere, obj: 0, h: ha}, &vOp{kind: vOpDelete, obj: 0, h: hb}
		case 1:
			return &vOp{kind: vOpDelete, obj: 0, h: ha}, &vOp{kind: vOpDeleteWhere, obj: 0, h: hb}
		case 2:
			return &vOp{kind: vOpDeleteWhere, obj: 0, h: ha}, &vOp{kind: vOpDeleteWhere, obj: 0, h: hb}
		}
		return &vOp{kind: vOpDeleteWhere, obj: 0, h: ha}, &vOp{kind: vOpDelete, obj: 1, h: hb}
	})
	if sc != 3 {
		verif.Assert(a.err != nil || b.err != nil, "same-object-deleted-once")
		verif.Assert(a.err == nil || b.err == nil, "one-of-two-deletes-succeeds")
	}
	if a.kind == vOpDeleteWhere && a.err != nil && len(a.seen) > 1 {
		verif.Reach("delete-where-retried-and-refused")
	}
	ctx := context.Background()
	if f, err := vOpenClient(ctx, eng, 7); err == nil {
		for _, o := range []*vOp{a, b} {
			if o.kind == vOpDeleteWhere && o.err == nil {
				obj, err := f.pool.commits.Get(ctx, o.id)
				verif.Assert(err == nil && obj != nil && len(o.seen) > 0 && o.seen[len(o.seen)-1] == obj.Parent.String(), "query-compiled-against-the-tip-of-that-attempt")
				if len(o.seen) > 1 {
					verif.Reach("delete-where-retried")
				}
			}
		}
	}
	verif.Reach("end")
}

// ---------------------------------------------------------------------------
// C17-O4 crash inside pool create / rename / remove
// ---------------------------------------------------------------------------

func vPoolCrash(fill bool) {
	ctx := context.Background()
	eng := vNewEngine(fill)
	sc := verif.Choose("scenario", 3)
	s := vSetupLake(ctx, eng, 1, 0)
	setupID := s.h0.pool.ID
	root, err := Open(ctx, eng, nil, vLakePath())
	verif.Assert(err == nil, "open")
	op := &vPoolOp{root: root, who: 1}
	switch sc {
	case 0:
		op.kind, op.name = vPoolCreate, "q"
	case 1:
		op.kind, op.name = vPoolRename, "q"
	default:
		op.kind = vPoolRemove
	}
	maxSteps := 7
	if fill {
		maxSteps = 13
	}
	k := verif.Choose("crashAt", maxSteps+1)
	before := eng.steps
	if k > 0 {
		eng.crashAt = before + k
	}
	op.run(ctx, eng, setupID)
	crashed := eng.crashed
	verif.Observe("crashed", crashed)
	verif.Observe("failed", op.err != nil)
	if !crashed {
		verif.Assert(op.err == nil, "operation-without-crash")
		verif.Assert(eng.steps-before <= maxSteps, "crash-range-covers-all-steps")
		// a crash step beyond the operation's last step is the same run as no crash
		verif.Assume(k == 0)
		verif.Reach("no-crash")
	} else {
		verif.Assert(op.err != nil, "crashed-operation-not-acknowledged")
	}
	eng.reboot()
	poolsDir := vLakePath().JoinPath(PoolsTag)
	head := eng.vFileAt(poolsDir, "HEAD")
	f, err := Open(ctx, eng, nil, vLakePath())
	if head != nil && len(head.data) == 0 {
		// file engine: the pools journal HEAD was truncated and the crash came before its contents
		verif.Reach("crash-head-truncated")
		verif.Assert(err == nil, "reopens/head-truncated")
	} else {
		verif.Assert(err == nil, "reopens")
	}
	if err != nil {
		return
	}
	list, err := f.ListPools(ctx)
	verif.Assert(err == nil, "pools-listed")
	if err != nil {
		return
	}
	was := vNames{names: []string{vPoolName}, tags: []int{0}}
	now := was.copy()
	verif.Assert(op.apply(&now), "model-operation-valid")
	tagOf := func(c *pools.Config) int {
		if c.ID == setupID {
			return 0
		}
		return 1 // the pool the interrupted create made (its id is only known when acknowledged)
	}
	matches := func(t vNames) bool {
		if len(t.names) != len(list) {
			return false
		}
		for i := range list {
			j := t.find(list[i].Name)
			if j < 0 || t.tags[j] != tagOf(&list[i]) {
				return false
			}
		}
		return true
	}
	none, all := matches(was), matches(now)
	verif.Assert(none || all, "all-or-nothing")
	verif.Assert(crashed || all, "acknowledged-operation-visible")
	if all {
		verif.Reach("interrupted-operation-landed")
	}
	for i := range list {
		p, err := f.openPool(ctx, &list[i])
		verif.Assert(err == nil, "listed-pool-opens")
		if err != nil {
			continue
		}
		b, err := p.OpenBranchByName(ctx, "main")
		verif.Assert(err == nil, "listed-pool-has-main-branch")
		if err == nil && list[i].ID == setupID {
			snap, err := p.commits.Snapshot(ctx, b.Commit)
			verif.Assert(err == nil && b.Commit == s.tip() && vSameSnap(snap, s.state), "acknowledged-data-intact")
		}
	}
	// a follow-up pool creation succeeds and is visible
	entries := vCountFiles(eng, poolsDir.Path+"/", vIsJournalEntry)
	applied := 1 // the setup pool's entry
	if all {
		applied = 2
	}
	next := &vPoolOp{kind: vPoolCreate, name: "z", root: f, who: 2}
	next.run(ctx, eng, setupID)
	if crashed && entries > applied {
		// the pools journal entry exists but HEAD still names its predecessor
		verif.Reach("crash-head-lags")
		verif.Assert(next.err == nil, "follow-up-create/head-lags")
	} else {
		verif.Assert(next.err == nil, "follow-up-create")
	}
	if next.err != nil {
		return
	}
	g, err := Open(ctx, eng, nil, vLakePath())
	verif.Assert(err == nil, "reopens-after-follow-up")
	if err != nil {
		return
	}
	cfg := g.pools.LookupByName(ctx, "z")
	verif.Assert(cfg != nil && cfg.ID == next.id, "follow-up-pool-listed")
	if cfg != nil {
		p, err := g.openPool(ctx, cfg)
		verif.Assert(err == nil, "follow-up-pool-opens")
		if err == nil {
			_, err := p.OpenBranchByName(ctx, "main")
			verif.Assert(err == nil, "follow-up-pool-has-main-branch")
		}
	}
	verif.Reach("end")
}

// verif:desc C17-O4 real lake.Root.CreatePool (lake.CreatePool: branches journal + main branch; registry entry last), RenamePool and RemovePool (registry entry first, data second) cut off by a crash at storage mutation step k; then lake.Open on the surviving state: the lake re-opens; the pool list is the one before or the one after the operation (all-or-nothing), after if acknowledged; every listed pool opens together with its main branch (a half-created or half-removed pool is never listed); the data of the existing pool is intact while it is listed; a follow-up CreatePool succeeds and is visible. Known regions split off: pools journal HEAD lags its last entry (/head-lags), file-engine HEAD truncated (/head-truncated).
// verif:bounds lake with one pool "p" (main = c1 adding {0,1}); operation = create "q" | rename p->q | remove p; crash step k in 1..7 (asserted to cover every step) or none; atomic puts
// verif:outside orphaned pool directories (invisible garbage is allowed); double crashes; torn writes inside one write call; create-then-fill puts (see the _fill harness)
func VerifH_C17_O4_pool_ops_crash() { vPoolCrash(false) }

// verif:desc C17-O4 (file engine) as VerifH_C17_O4_pool_ops_crash over create-then-fill storage
// verif:bounds as VerifH_C17_O4_pool_ops_crash with crash step k in 1..13
// verif:outside as VerifH_C17_O4_pool_ops_crash
func VerifH_C17_O4_pool_ops_crash_fill() { vPoolCrash(true) }
