//go:build verif

package lake

// C17-O6 vector add under crash: the real lake.Branch.AddVectors ->
// data.CreateVector (zngio reader over the data object, vng/vngio writer,
// bufwriter, VectorWriter.Abort) -> Branch.commit over the model storage of
// zz_verif_model.go, with the vector object written create-then-fill and the
// crashed write torn (a prefix of it reaches the file).

import (
	"bytes"
	"context"
	"io"
	"strings"

	"github.com/brimdata/super"
	"github.com/brimdata/super/internal/verif"
	"github.com/brimdata/super/lake/data"
	"github.com/brimdata/super/order"
	"github.com/brimdata/super/pkg/field"
	"github.com/brimdata/super/pkg/storage"
	"github.com/brimdata/super/zcode"
	"github.com/brimdata/super/zio/vngio"
	"github.com/segmentio/ksuid"
)

// v17eEngine is the model engine with the file engine's put for *.vng objects
// (create/truncate step, then one step per write call; the write cut off by
// the crash leaves a prefix of its bytes) and atomic puts for everything else
// (the metadata paths under both kinds of put are C17-O2's subject).
type v17eEngine struct {
	*vEngine
	torn     int // bytes of the crashed write that reached the file
	tornOf   int // length of that write
	tornSeen bool
	vngDone  bool // a *.vng put ran to its Close
}

type v17eWriter struct {
	e   *v17eEngine
	w   *vWriter
	vng bool
}

func (e *v17eEngine) Put(ctx context.Context, u *storage.URI) (io.WriteCloser, error) {
	isVNG := strings.HasSuffix(u.Path, ".vng")
	e.vEngine.fill = isVNG
	w, err := e.vEngine.Put(ctx, u)
	e.vEngine.fill = false
	if err != nil {
		return nil, err
	}
	return &v17eWriter{e: e, w: w.(*vWriter), vng: isVNG}, nil
}

func (w *v17eWriter) Write(p []byte) (int, error) {
	ve := w.e.vEngine
	ve.fill = w.vng
	defer func() { ve.fill = false }()
	if w.vng && !ve.crashed && !w.w.dead && ve.steps+1 == ve.crashAt && len(p) > 0 {
		// this write is the one the crash cuts off
		n := len(p)
		cut := 0
		switch verif.Choose("torn", 5) {
		case 1:
			cut = 1
		case 2:
			cut = 24 // exactly the VNG header
		case 3:
			cut = n / 2
		case 4:
			cut = n - 1
		}
		if cut > n-1 {
			cut = n - 1
		}
		f := ve.files[w.w.path]
		f.data = append(f.data, p[:cut]...)
		w.e.torn, w.e.tornOf, w.e.tornSeen = cut, n, true
	}
	return w.w.Write(p)
}

func (w *v17eWriter) Close() error {
	ve := w.e.vEngine
	ve.fill = w.vng
	defer func() { ve.fill = false }()
	err := w.w.Close()
	if w.vng && err == nil {
		w.e.vngDone = true
	}
	return err
}

func v17eOpen(ctx context.Context, eng storage.Engine, id int) (*vHandle, error) {
	root, err := Open(ctx, eng, nil, vLakePath())
	if err != nil {
		return nil, err
	}
	pool, err := vOpenPoolByName(ctx, root, vPoolName)
	if err != nil {
		return nil, err
	}
	branch, err := pool.OpenBranchByName(ctx, "main")
	if err != nil {
		return nil, err
	}
	return &vHandle{id: id, root: root, pool: pool, branch: branch}, nil
}

func v17eValues(zctx *zed.Context, n int) []zed.Value {
	typ := zctx.MustLookupTypeRecord([]zed.Field{zed.NewField("k", zed.TypeInt64), zed.NewField("s", zed.TypeString)})
	vals := []zed.Value{zed.NewValue(typ, zcode.Append(zcode.Append(nil, zed.EncodeInt(1)), []byte("a")))}
	if n > 1 {
		// a second top-level type: the vector object then carries a tags vector too
		vals = append(vals, zed.NewString("zz"))
	}
	return vals
}

// v17eWriteDataObject writes data object k with the real data.Writer.
func v17eWriteDataObject(ctx context.Context, eng storage.Engine, path *storage.URI, k int, vals []zed.Value) bool {
	o := vDataObject(k)
	w, err := o.NewWriter(ctx, eng, path, order.NewSortKey(order.Asc, field.Path{"k"}), 0)
	if err != nil {
		return false
	}
	for _, v := range vals {
		if err := w.Write(v); err != nil {
			return false
		}
	}
	return w.Close(ctx) == nil
}

func v17eSameBytes(a, b []byte) bool {
	if len(a) != len(b) {
		return false
	}
	for i := range a {
		if a[i] != b[i] {
			return false
		}
	}
	return true
}

// v17eReadsBack: the real vngio/vng reader over the bytes gives back vals.
func v17eReadsBack(b []byte, vals []zed.Value) bool {
	r, err := vngio.NewReader(zed.NewContext(), bytes.NewReader(b), nil)
	if err != nil {
		return false
	}
	for _, want := range vals {
		got, err := r.Read()
		if err != nil || got == nil {
			return false
		}
		if got.Type().Kind() != want.Type().Kind() || got.IsNull() != want.IsNull() || !v17eSameBytes(got.Bytes(), want.Bytes()) {
			return false
		}
	}
	got, err := r.Read()
	return err == nil && got == nil
}

type v17eState struct {
	ok       bool
	listed   bool
	complete bool
	present  bool
}

// v17eLook: cold handles; is the vector listed in main's snapshot, and is the
// vector object on storage the complete one.
func v17eLook(ctx context.Context, eng *v17eEngine, id ksuid.KSUID, ref []byte, tag string) (v17eState, *vHandle) {
	var st v17eState
	h, err := v17eOpen(ctx, eng, 9)
	verif.Assert(err == nil, "reopens"+tag)
	if err != nil {
		return st, nil
	}
	snap, err := h.pool.commits.Snapshot(ctx, h.branch.Commit)
	verif.Assert(err == nil, "branch-readable"+tag)
	if err != nil {
		return st, nil
	}
	verif.Assert(snap.Exists(id), "data-object-still-listed"+tag)
	st.listed = snap.HasVector(id)
	f := eng.files[data.VectorURI(h.pool.DataPath, id).Path]
	st.present = f != nil
	st.complete = f != nil && v17eSameBytes(f.data, ref)
	st.ok = true
	return st, h
}

const v17eMaxSteps = 7

func v17eVectorAdd(readd bool) {
	ctx := context.Background()
	nvals := 1 + verif.Choose("nvals", 2)
	vals := v17eValues(zed.NewContext(), nvals)
	id := vObjID(0)

	// the crash-free reference: same data object, same real CreateVector
	refEng := vNewEngine(false)
	refPath := &storage.URI{Scheme: "file", Path: "/ref/data"}
	verif.Assert(v17eWriteDataObject(ctx, refEng, refPath, 0, vals), "reference-run-clean")
	verif.Assert(data.CreateVector(ctx, refEng, refPath, id) == nil, "reference-run-clean")
	refFile := refEng.files[data.VectorURI(refPath, id).Path]
	verif.Assert(refFile != nil && len(refFile.data) > 24, "reference-run-clean")
	if refFile == nil {
		return
	}
	ref := refFile.data
	// (the object's size is not an observable: the metadata section is a marshal token in the engine)
	verif.Assert(v17eReadsBack(ref, vals), "reference-vector-reads-back-the-values")

	// the lake: main = c1 adding data objects {0,1}; object 0's file is written
	base := vNewEngine(false)
	s := vSetupLake(ctx, base, 1, 0)
	eng := &v17eEngine{vEngine: base}
	dataPath := s.h0.pool.DataPath
	verif.Assert(v17eWriteDataObject(ctx, eng, dataPath, 0, vals), "setup-data-object")
	seq := base.files[data.SequenceURI(dataPath, id).Path]
	refSeq := refEng.files[data.SequenceURI(refPath, id).Path]
	verif.Assert(seq != nil && refSeq != nil && v17eSameBytes(seq.data, refSeq.data), "setup-data-object")
	ids := []ksuid.KSUID{id}
	if readd {
		// the vector was added (and acknowledged) earlier
		h0, err := v17eOpen(ctx, eng, 1)
		verif.Assert(err == nil, "setup-open")
		if err != nil {
			return
		}
		_, err = h0.branch.AddVectors(ctx, ids, "author", "")
		verif.Assert(err == nil, "setup-first-vector-add")
		st, _ := v17eLook(ctx, eng, id, ref, "/setup")
		verif.Assert(st.ok && st.listed && st.complete, "setup-first-vector-add")
	}

	h, err := v17eOpen(ctx, eng, 2)
	verif.Assert(err == nil, "open")
	if err != nil {
		return
	}
	k := verif.Choose("crashAt", v17eMaxSteps+1)
	before := base.steps
	if k > 0 {
		base.crashAt = before + k
	}
	_, opErr := h.branch.AddVectors(ctx, ids, "author", "")
	crashed := base.crashed
	verif.Observe("crashed", crashed)
	verif.Observe("failed", opErr != nil)
	if !crashed {
		verif.Assert(base.steps-before <= v17eMaxSteps, "crash-range-covers-all-steps")
		// a crash step beyond the operation's last step is the same run as no crash
		verif.Assume(k == 0)
		if readd {
			verif.Assert(opErr != nil, "second-vector-add-refused")
		} else {
			verif.Assert(opErr == nil, "vector-add-without-crash")
		}
		verif.Reach("no-crash")
	} else {
		verif.Assert(opErr != nil, "crashed-vector-add-not-acknowledged")
	}
	cut := base.crashOp
	inVector := crashed && strings.HasSuffix(cut, ".vng")
	verif.Observe("crash-in-vector-object", inVector)
	if eng.tornSeen {
		if eng.torn > 0 {
			verif.Reach("partial-vector-file-left-behind")
		}
	}
	base.reboot()

	// after the crash, before any retry
	region := ""
	if readd {
		region = "/re-add-of-listed-vector"
	}
	st, f := v17eLook(ctx, eng, id, ref, "")
	if !st.ok {
		return
	}
	// a listed vector is one a query may open: it must be the complete object
	verif.Assert(!st.listed || st.complete, "listed-vector-object-is-complete"+region)
	if readd {
		verif.Assert(st.listed, "acknowledged-vector-still-listed")
	} else {
		if inVector {
			verif.Reach("crash-in-vector-object")
			verif.Assert(!st.listed, "interrupted-vector-add-not-listed")
		}
		if crashed && !inVector && !eng.vngDone {
			// (a snapshot file written by the look at the tip before the vector is created)
			verif.Reach("crash-before-vector-object")
			verif.Assert(!st.listed, "interrupted-vector-add-not-listed")
		}
		if crashed && !inVector && eng.vngDone {
			verif.Reach("crash-in-commit")
			// CreateVector had returned: the object is complete whether or not the commit landed
			verif.Assert(st.complete, "vector-object-complete-before-commit")
		}
		if !crashed {
			verif.Assert(st.listed && st.complete, "acknowledged-vector-listed-and-complete")
		}
	}
	if readd || !crashed {
		verif.Reach("end")
		return
	}

	// the retry, with the fresh handles
	_, retryErr := f.branch.AddVectors(ctx, ids, "author", "")
	verif.Observe("retry-failed", retryErr != nil)
	if inVector {
		// (a crash inside Branch.commit: whether the follow-up commit succeeds is
		// C17-O2 - the landed-entry/lagging-HEAD case is a known finding there)
		verif.Assert(retryErr == nil, "retry-succeeds")
	}
	st2, _ := v17eLook(ctx, eng, id, ref, "/after-retry")
	if !st2.ok {
		return
	}
	verif.Assert(!st2.listed || st2.complete, "listed-vector-object-is-complete/after-retry")
	if retryErr == nil {
		verif.Reach("retried")
		// the leftover of the crashed attempt is not trusted: the object is rewritten in full
		verif.Assert(st2.complete, "vector-object-complete-after-retry")
		verif.Assert(st2.listed, "vector-listed-after-retry")
		vf := base.files[data.VectorURI(dataPath, id).Path]
		verif.Assert(vf != nil && v17eReadsBack(vf.data, vals), "vector-object-reads-back-the-values")
	}
	verif.Reach("end")
}

// verif:desc C17-O6 real lake.Branch.AddVectors = data.CreateVector (engine.Get of the data object written by the real data.Writer, zngio.Reader, vng.Writer via vngio.NewWriter over bufwriter over engine.Put, VectorWriter.Abort) + Branch.commit of the AddVector action, cut off by a crash at storage mutation step k (fail-stop). The vector object is written create-then-fill: the crash before the create leaves no file, the crash in the write leaves a PREFIX of the file (0 bytes, 1 byte, exactly the 24-byte header, half, all but one byte). After reboot, with fresh handles: the lake re-opens and main replays; main's snapshot lists the vector ONLY IF the vector object on storage is byte-identical to the one a crash-free run of the same real code writes (reference run in the same harness); a crash inside the vector write leaves the vector unlisted; a crash after CreateVector returned leaves a complete object. Then the operation is retried (AddVectors again): after a crash inside the vector write the retry must succeed, and after any successful retry the vector object is complete (byte-identical to the reference: the leftover partial file is not trusted but rewritten), is read back by the real vngio/vng reader as exactly the data object's values, and is listed by yet another fresh handle.
// verif:bounds data object of 1 value {k:1,s:"a"} or 2 values (+ a string: two top-level types, tags vector); crash step k in 1..7 of AddVectors (asserted to cover every step) or none; 5 prefix lengths for the torn write; *.vng puts create-then-fill, all other puts atomic
// verif:outside metadata paths on create-then-fill storage and the follow-up commit after a crash inside Branch.commit (C17-O2, incl. its known findings head-lags / head-truncated); double crashes; torn writes of other files; vector objects larger than one bufio buffer (several write calls); the metadata section's text (zson marshal is an identity token in the engine, real in the replay); lz4 (stub: incompressible); re-adding a vector that is already listed (see VerifH_C17_O6_vector_readd_crash)
func VerifH_C17_O6_vector_add_crash() { v17eVectorAdd(false) }

// verif:desc C17-O6b the same crash points for a SECOND Branch.AddVectors of a data object whose vector is already listed (an acknowledged earlier vector add): the second add is refused without a crash ("vector exists"); with a crash, after reboot the acknowledged vector must still be listed and - id listed-vector-object-is-complete/re-add-of-listed-vector - the listed vector object must still be the complete one (AddVectors used to run data.CreateVector, which truncates and rewrites the live object, BEFORE it looked at the snapshot; fixed).
// verif:bounds as VerifH_C17_O6_vector_add_crash
// verif:outside as VerifH_C17_O6_vector_add_crash; no retry
func VerifH_C17_O6_vector_readd_crash() { v17eVectorAdd(true) }
