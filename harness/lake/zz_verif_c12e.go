//go:build verif

package lake

// C12-O7 "at every moment the action log of every branch can be replayed
// without error": an independent reader with cold handles looks at branch main
// at every storage call of ONE operation of client A, and after an operation
// that failed on a storage error.  Client, setup and model helpers are those of
// zz_verif_branch.go / zz_verif_model.go.

import (
	"context"

	"github.com/brimdata/super/internal/verif"
	"github.com/segmentio/ksuid"
)

type v12eView struct {
	ok   bool
	tip  ksuid.KSUID
	pre  bool
	post bool
}

// v12eRead is the reader: fresh Root/Pool/Branch handles (cold journal table,
// cold commit and snapshot caches); main -> tip -> commit object -> snapshot.
func v12eRead(ctx context.Context, eng *vEngine, pre, post vObjSet) v12eView {
	var v v12eView
	h, err := vOpenClient(ctx, eng, 9)
	verif.Assert(err == nil, "reader-opens-lake-pool-and-branch")
	if err != nil {
		return v
	}
	v.tip = h.branch.Commit
	if v.tip != ksuid.Nil {
		o, err := h.pool.commits.Get(ctx, v.tip)
		verif.Assert(err == nil && o != nil && o.Commit == v.tip, "tip-names-a-written-commit-object")
		if err != nil || o == nil {
			return v
		}
	}
	snap, err := h.pool.commits.Snapshot(ctx, v.tip)
	verif.Assert(err == nil, "branch-readable")
	if err != nil {
		return v
	}
	v.pre, v.post = vSameSnap(snap, pre), vSameSnap(snap, post)
	verif.Assert(v.pre || v.post, "reader-sees-pre-state-or-post-state")
	v.ok = true
	return v
}

const v12eMaxSteps = 6

// verif:desc C12-O7 real lake.Branch.commit (as Branch.Load's constructor), Branch.Delete and Branch.Revert of client A over the model storage, observed by an independent READER with its own fresh lake.Open / pool / OpenBranchByName handles (cold journal table, cold commit/snapshot caches) that runs at ANY storage call of A (before the call; after A's last call = after the operation) and resolves main to its tip, loads that commit object (commits.Store.Get) and folds commits.Store.Snapshot(tip). Asserted: the reader always succeeds - the tip never names a commit object that is not yet written or that was removed, the snapshot replays without error - and it sees exactly the pre-state or the post-state of A's operation; a reader that saw the post-state saw the commit A is acknowledged for, one that saw the pre-state saw the old tip; afterwards another cold reader sees the post-state with tip = the acknowledged id. Second mode: ONE storage mutation of A (put of the commit object / snapshot file / HEAD at its close, put-if-absent of the journal entry, delete) FAILS with an error and storage works again from the next call on: if A reports failure the branch is readable afterwards and shows the pre-state with the old tip; if A still succeeds (a failed write of a derived snapshot file is tolerated) the post-state.
// verif:bounds main with 0 commits (load) or 1 commit adding {0,1} (load of object 2, delete of {0}, revert of c1); 1 reader run per path, placed before every storage call A makes or after A; failure at mutation step k in 1..6 of A (asserted to cover all steps) or none; atomic-put storage (object store)
// verif:outside create-then-fill puts (journal.readID retries a half-written HEAD with sleeps, which a sequentialized reader cannot model: it would run entirely inside the window); several readers per run; a failing Put OPEN call or a failing read; whether a later WRITER can commit after A's failed HEAD write (the journal entry stays behind a lagging HEAD: C17-O2 .../head-lags); concurrency of two writers (C12-O2..O6)
func VerifH_C12_O7_branch_readable_at_every_moment() {
	ctx := context.Background()
	eng := vNewEngine(false)
	sc := verif.Choose("scenario", 4)
	hist := 1
	if sc == 0 {
		hist = 0
	}
	s := vSetupLake(ctx, eng, hist, 0)
	ha, err := vOpenClient(ctx, eng, 1)
	verif.Assert(err == nil, "open-a")
	if err != nil {
		return
	}
	var a *vOp
	switch sc {
	case 0, 1:
		a = &vOp{kind: vOpLoad, obj: 2, h: ha}
	case 2:
		a = &vOp{kind: vOpDelete, obj: 0, h: ha}
	default:
		a = &vOp{kind: vOpRevert, commit: s.chain[0], adds: []int{0, 1}, h: ha}
	}
	pre, post := s.state, s.state
	verif.Assert(a.apply(&post), "model-operation-valid")
	preTip := s.tip()

	failing := verif.Choose("mode", 2) == 1
	k := 0
	before := eng.steps
	if failing {
		k = 1 + verif.Choose("failAt", v12eMaxSteps)
		eng.crashAt = before + k
	}
	calls, readAt, injected := 0, 0, false
	var seen v12eView
	read := false
	eng.hook = func() {
		if eng.crashed {
			// the one failed mutation is over: storage works again
			eng.reboot()
			injected = true
		}
		calls++
		if failing || read {
			return
		}
		if verif.Choose("read-here", 2) == 1 {
			read = true
			readAt = calls
			seen = v12eRead(ctx, eng, pre, post)
		}
	}
	a.run(ctx, eng)
	eng.hook = nil
	if eng.crashed {
		eng.reboot()
		injected = true
	}
	eng.crashAt = 0
	// (the number of storage calls before the reader is not an observable: commits.Store.Snapshot
	// fetches the commit object in a goroutine, which the engine runs at its spawn point)
	_ = readAt
	verif.Observe("outcomeA", vOutcomeOf(a))
	verif.Observe("injected", injected)
	if !injected {
		verif.Assert(a.err == nil, "operation-without-failure-succeeds")
		verif.Assert(eng.steps-before <= v12eMaxSteps, "failure-range-covers-all-steps")
		// a failure step beyond the operation's last step is the run without failure
		verif.Assume(k == 0)
	}
	if read {
		verif.Reach("read-during-operation")
		if !seen.ok {
			return
		}
		if seen.post {
			// (atomic puts: A makes no storage call after the HEAD put that
			// publishes the commit, so only the reader after A gets here)
			verif.Assert(a.err == nil && seen.tip == a.id, "visible-commit-is-the-acknowledged-one")
		} else {
			verif.Reach("reader-saw-pre-state")
			verif.Assert(seen.tip == preTip, "pre-state-seen-at-the-old-tip")
		}
	}
	// afterwards
	after := v12eRead(ctx, eng, pre, post)
	if !after.ok {
		return
	}
	if a.err == nil {
		verif.Assert(after.post && after.tip == a.id, "acknowledged-operation-visible-afterwards")
	} else {
		verif.Reach("operation-failed")
		verif.Assert(after.pre && after.tip == preTip, "failed-operation-shows-pre-state")
		// for the report: the failed HEAD write leaves the journal entry behind
		if vCountFiles(eng, vPoolDir(ha.pool, BranchesTag), vIsJournalEntry) > s.entries {
			verif.Reach("failed-operation-left-journal-entry-behind-lagging-head")
		}
	}
	if injected && a.err == nil {
		verif.Reach("operation-tolerated-the-failure")
	}
	verif.Reach("end")
}
