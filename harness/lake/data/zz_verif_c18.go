//go:build verif

package data

import (
	"context"
	"errors"
	"io"

	"github.com/brimdata/super"
	"github.com/brimdata/super/internal/verif"
	"github.com/brimdata/super/order"
	"github.com/brimdata/super/pkg/field"
	"github.com/brimdata/super/pkg/storage"
	"github.com/brimdata/super/zcode"
)

var v18ErrSink = errors.New("verif: sink failure")

// v18Sink is the model io.WriteCloser: its failAt-th Write fails (0 = never),
// delivering nothing (partial=false) or half of the bytes (partial=true)
// together with the error; sticky sinks keep failing afterwards; Close may
// fail too.  phase is set by the harness to the index of the writer call in
// progress, so the first failure can be attributed to it.
type v18Sink struct {
	failAt    int
	sticky    bool
	partial   bool
	closeFail bool
	calls     int
	errored   bool
	phase     int
	errPhase  int
	data      []byte
	closed    bool
}

func (s *v18Sink) fail() {
	if !s.errored {
		s.errored = true
		s.errPhase = s.phase
	}
}

func (s *v18Sink) Write(p []byte) (int, error) {
	s.calls++
	if s.failAt > 0 && (s.calls == s.failAt || (s.sticky && s.calls > s.failAt)) {
		s.fail()
		if s.partial {
			s.data = append(s.data, p[:len(p)/2]...)
			return len(p) / 2, v18ErrSink
		}
		return 0, v18ErrSink
	}
	s.data = append(s.data, p...)
	return len(p), nil
}

func (s *v18Sink) Close() error {
	s.closed = true
	if s.closeFail {
		s.fail()
		return v18ErrSink
	}
	return nil
}

func v18NewSink(maxFail int) *v18Sink {
	return &v18Sink{
		failAt:    verif.Range("failAt", 0, maxFail),
		sticky:    verif.Bool("sticky"),
		partial:   verif.Bool("partial"),
		closeFail: verif.Bool("closeFail"),
	}
}

func v18Same(a, b []byte) bool {
	if len(a) != len(b) {
		return false
	}
	for i := range a {
		if a[i] != b[i] {
			return false
		}
	}
	return true
}

func v18Rec(zctx *zed.Context, name, val string) zed.Value {
	typ := zctx.MustLookupTypeRecord([]zed.Field{zed.NewField(name, zed.TypeString)})
	return zed.NewValue(typ, zcode.Append(nil, []byte(val)))
}

const v18ClosePhase = 100

type v18Writer interface {
	Write(zed.Value) error
	Close() error
}

// v18Drive runs the workload once over a fault-free sink (reference) and once
// over the failing sink and checks the C18 statement.
func v18Drive(mk func(*v18Sink) v18Writer, vals []zed.Value, maxFail int, observe bool) {
	ref := &v18Sink{}
	rw := mk(ref)
	for _, v := range vals {
		verif.Assert(rw.Write(v) == nil, "reference-run-clean")
	}
	verif.Assert(rw.Close() == nil, "reference-run-clean")
	verif.Assert(ref.calls <= maxFail, "failure-positions-cover-all-sink-writes")
	if observe {
		// engine and native run must produce the same amount of output
		verif.Observe("refbytes", len(ref.data))
		verif.Observe("refcalls", ref.calls)
	}

	sink := v18NewSink(maxFail)
	w := mk(sink)
	anyErr := false
	for i, v := range vals {
		sink.phase = i
		if err := w.Write(v); err != nil {
			anyErr = true
		}
	}
	sink.phase = v18ClosePhase
	if err := w.Close(); err != nil {
		anyErr = true
	}
	if !anyErr {
		if sink.errored && sink.errPhase == v18ClosePhase {
			verif.Assert(false, "sink-failure-reported/during-close")
		} else {
			verif.Assert(!sink.errored, "sink-failure-reported/during-write")
		}
		if !sink.errored {
			verif.Assert(sink.closed, "sink-closed")
			verif.Assert(v18Same(sink.data, ref.data), "all-bytes-delivered")
		}
	}
	if sink.errored {
		verif.Reach("failed")
	} else {
		verif.Assert(!anyErr, "no-spurious-error")
		verif.Reach("clean")
	}
}

// v18Engine is the model storage engine behind Object.NewWriter: the first
// Put is the data (sequence) object, the second the seek index.  Either Put
// may fail; each returns its own model sink.
type v18Engine struct {
	storage.Engine // every other method: nil-interface panic (never called by the writer)
	sinks   []*v18Sink
	putFail int // Put call that fails (0 = never)
	puts    int
}

var v18ErrPut = errors.New("verif: put failure")

func (e *v18Engine) Put(ctx context.Context, u *storage.URI) (io.WriteCloser, error) {
	e.puts++
	if e.puts == e.putFail {
		return nil, v18ErrPut
	}
	return e.sinks[e.puts-1], nil
}

func v18KeyRec(zctx *zed.Context, k int64, big bool) zed.Value {
	typ := zctx.MustLookupTypeRecord([]zed.Field{zed.NewField("k", zed.TypeInt64), zed.NewField("s", zed.TypeString)})
	n := 1
	if big {
		n = 5000
	}
	return zed.NewValue(typ, zcode.Append(zcode.Append(nil, zed.EncodeInt(k)), make([]byte, n)))
}

// v18RunObject writes vals through a real data.Writer created by the real
// Object.NewWriter over the engine; it reports whether any call failed.
func v18RunObject(e *v18Engine, vals []zed.Value, stride int) (anyErr bool) {
	o := NewObject()
	sortKey := order.NewSortKey(order.Asc, field.Path{"k"})
	w, err := o.NewWriter(context.Background(), e, &storage.URI{Scheme: "file", Path: "/pool"}, sortKey, stride)
	if err != nil {
		return true
	}
	for i, v := range vals {
		for _, s := range e.sinks {
			s.phase = i
		}
		if err := w.Write(v); err != nil {
			anyErr = true
		}
	}
	for _, s := range e.sinks {
		s.phase = v18ClosePhase
	}
	if anyErr {
		// the documented protocol: after a write error the caller aborts
		w.Abort()
		return true
	}
	if err := w.Close(context.Background()); err != nil {
		anyErr = true
	}
	return anyErr
}

// verif:desc C18-O6 lake/data.Writer created by Object.NewWriter over a failing model storage engine (data object through zngio.Writer + writeCounter + bufwriter; seek index through seekindex.Writer + zngio.Writer + bufwriter): if NewWriter, every Write and Close returned nil then neither sink returned an error from Write or Close, both were closed and both hold exactly the bytes of a fault-free run; if nothing fails every call returns nil.
// verif:bounds 1..2 records {k:int64,s:string} with s of 1 or 5000 bytes (the latter crosses bufio's 4096-byte buffer so that sink writes happen inside Write); seek index stride in {1 (an end-of-stream + index entry per value), default}; the faulty sink is the data object or the seek index (the other never fails); it fails at write call k in 0..5 (symbolic; 0=never), one-shot or sticky, 0 or half of the bytes delivered; its Close may fail; alternatively the 1st or 2nd engine.Put fails; zson marshal of the index entry and lz4 CompressBlock are engine intrinsics
// verif:outside contents of the seek index (C14); Abort after a failed Close; both sinks failing at once
func VerifH_C18_O6_datawriter() {
	zctx := zed.NewContext()
	n := verif.Choose("nvals", 2) + 1
	var vals []zed.Value
	for i := 0; i < n; i++ {
		vals = append(vals, v18KeyRec(zctx, int64(i), verif.Choose("big", 2) == 1))
	}
	stride := []int{1, 0}[verif.Choose("stride", 2)]

	ref := &v18Engine{sinks: []*v18Sink{{}, {}}}
	verif.Assert(!v18RunObject(ref, vals, stride), "reference-run-clean")
	verif.Assert(ref.sinks[0].calls <= 5 && ref.sinks[1].calls <= 5, "failure-positions-cover-all-sink-writes")

	e := &v18Engine{sinks: []*v18Sink{{}, {}}}
	switch which := verif.Choose("faulty", 3); which {
	case 0, 1:
		e.sinks[which] = v18NewSink(5)
	case 2:
		e.putFail = verif.Choose("putFail", 2) + 1
	}
	anyErr := v18RunObject(e, vals, stride)
	errored := e.sinks[0].errored || e.sinks[1].errored || e.putFail != 0
	if !anyErr {
		for i, s := range e.sinks {
			if s.errored && s.errPhase == v18ClosePhase {
				verif.Assert(false, "sink-failure-reported/during-close")
			} else {
				verif.Assert(!s.errored, "sink-failure-reported/during-write")
			}
			if !errored {
				verif.Assert(s.closed, "sink-closed")
				verif.Assert(v18Same(s.data, ref.sinks[i].data), "all-bytes-delivered")
			}
		}
		verif.Assert(e.putFail == 0, "put-failure-reported")
	}
	if errored {
		verif.Reach("failed")
	} else {
		verif.Assert(!anyErr, "no-spurious-error")
		verif.Reach("clean")
	}
}
