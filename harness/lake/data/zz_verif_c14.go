//go:build verif

package data

import (
	"context"

	"github.com/brimdata/super"
	"github.com/brimdata/super/internal/verif"
	"github.com/brimdata/super/lake/seekindex"
	"github.com/brimdata/super/order"
	"github.com/brimdata/super/pkg/bufwriter"
	"github.com/brimdata/super/pkg/field"
	"github.com/brimdata/super/zcode"
	"github.com/brimdata/super/zio/zngio"
	"github.com/brimdata/super/zson"
)

// v14ByteSink is the model storage object: it keeps every byte it is given.
type v14ByteSink struct {
	buf    []byte
	closed bool
}

func (s *v14ByteSink) Write(p []byte) (int, error) {
	s.buf = append(s.buf, p...)
	return len(p), nil
}

func (s *v14ByteSink) Close() error {
	s.closed = true
	return nil
}

// v14EntrySink is the model zio.WriteCloser behind the seek index writer; it
// turns every value back into a seekindex.Entry (zson marshal/unmarshal is an
// identity intrinsic under gosym and the real code natively).
type v14EntrySink struct {
	entries []seekindex.Entry
	bad     bool
	closed  bool
}

func (s *v14EntrySink) Write(val zed.Value) error {
	var e seekindex.Entry
	if err := zson.UnmarshalZNG(val, &e); err != nil {
		s.bad = true
		return err
	}
	s.entries = append(s.entries, e)
	return nil
}

func (s *v14EntrySink) Close() error {
	s.closed = true
	return nil
}

// v14Key is the specification-side view of a pool key: null or an int64.
type v14Key struct {
	null bool
	k    int64
}

func (a v14Key) same(v zed.Value) bool {
	if a.null {
		return v.IsNull()
	}
	return !v.IsNull() && v.Type().ID() == zed.IDInt64 && v.Int() == a.k
}

// v14LE reports a <= b in ascending pool-key terms (null is the largest key).
func v14LE(a, b v14Key) bool {
	if b.null {
		return true
	}
	if a.null {
		return false
	}
	return a.k <= b.k
}

// v14Marker is the body of the i-th value written: three bytes that occur
// nowhere else in the object (frame headers and type ids are small numbers).
func v14Marker(i int) []byte { return []byte{0xee, byte(0xa0 + i), 0xee} }

func v14Find(buf []byte, i int) int {
	m := v14Marker(i)
	for p := 0; p+3 <= len(buf); p++ {
		if buf[p] == m[0] && buf[p+1] == m[1] && buf[p+2] == m[2] {
			return p
		}
	}
	return -1
}

// v14NewWriter mirrors Object.NewWriter with model sinks: the data stream goes
// through the real bufwriter, writeCounter and zngio.Writer (uncompressed, so
// that the written values can be located in the bytes), the seek index
// through the real seekindex.Writer into the entry sink.
func v14NewWriter(o *Object, data *v14ByteSink, seek *v14EntrySink, sortKey order.SortKey, stride int) *Writer {
	counter := &writeCounter{bufwriter.New(data), 0}
	w := &Writer{
		object:      o,
		byteCounter: counter,
		writer:      zngio.NewWriterWithOpts(counter, zngio.WriterOpts{FrameThresh: zngio.DefaultFrameThresh}),
		sortKey:     sortKey,
		first:       true,
	}
	if stride == 0 {
		stride = DefaultSeekStride
	}
	w.seekIndexStride = stride
	w.seekIndex = seekindex.NewWriter(seek)
	return w
}

// v14ObjectAndSeekBounds is the O3 template.  nkinds selects the key
// representations (2: bytes-backed int64 and null, which is what
// Value.DerefPath(key).MissingAsNull() hands to the writer; 4: also int64
// held natively and null(int64)); int64 keys range over klo..khi; viaWrite drives Writer.Write with
// records instead of WriteWithKey; 1..maxN values.
func v14ObjectAndSeekBounds(nkinds int, klo, khi int64, viaWrite bool, maxN int) {
	desc := verif.Choose("desc", 2) == 1
	sortKey := order.NewSortKey(order.Asc, field.Path{"k"})
	if desc {
		sortKey = order.NewSortKey(order.Desc, field.Path{"k"})
	}
	stride := verif.Range("stride", 0, 8)
	n := verif.Choose("n", maxN) + 1
	keys := make([]v14Key, n)
	vals := make([]zed.Value, n)
	var zctx *zed.Context
	if viaWrite {
		zctx = zed.NewContext()
	}
	for i := range keys {
		if viaWrite {
			// a record {k:K,m:marker}, {k:null,m:marker} or {m:marker}: the
			// writer derives the key itself
			var b zcode.Builder
			fields := []zed.Field{zed.NewField("k", zed.TypeInt64), zed.NewField("m", zed.TypeBytes)}
			switch verif.Choose("kind", 3) {
			case 0:
				keys[i] = v14Key{k: verif.Int64("k")}
				b.Append(zed.EncodeInt(keys[i].k))
			case 1:
				keys[i] = v14Key{null: true}
				b.Append(nil)
			case 2:
				keys[i] = v14Key{null: true}
				fields = fields[1:]
			}
			b.Append(v14Marker(i))
			vals[i] = zed.NewValue(zctx.MustLookupTypeRecord(fields), b.Bytes())
		} else {
			keys[i], vals[i] = v14SymKey(nkinds)
		}
		if !keys[i].null {
			verif.Assume(keys[i].k >= klo && keys[i].k <= khi)
		}
		if i > 0 {
			if desc {
				verif.Assume(v14LE(keys[i], keys[i-1]))
			} else {
				verif.Assume(v14LE(keys[i-1], keys[i]))
			}
		}
	}
	var obj Object
	data, seek := &v14ByteSink{}, &v14EntrySink{}
	w := v14NewWriter(&obj, data, seek, sortKey, stride)
	for i := range keys {
		var err error
		if viaWrite {
			err = w.Write(vals[i])
		} else {
			err = w.WriteWithKey(vals[i], zed.NewBytes(v14Marker(i)))
		}
		verif.Assert(err == nil, "write-no-error")
	}
	v14CheckObject(w, data, seek, keys, desc)
}

// v14SymKey is one key as a caller of WriteWithKey hands it over.
func v14SymKey(nkinds int) (v14Key, zed.Value) {
	switch verif.Choose("kind", nkinds) {
	case 0:
		k := verif.Int64("k")
		return v14Key{k: k}, zed.NewValue(zed.TypeInt64, zed.EncodeInt(k))
	case 1:
		return v14Key{null: true}, zed.Null
	case 2:
		k := verif.Int64("k")
		return v14Key{k: k}, zed.NewInt64(k)
	}
	return v14Key{null: true}, zed.NullInt64
}

func v14CheckObject(w *Writer, data *v14ByteSink, seek *v14EntrySink, keys []v14Key, desc bool) {
	n := len(keys)
	verif.Assert(w.Close(context.Background()) == nil, "close-no-error")
	verif.Assert(data.closed && seek.closed && !seek.bad, "sinks-closed")

	// object metadata
	o := w.Object()
	verif.Assert(o.Count == uint64(n) && w.RecordsWritten() == uint64(n), "object-count")
	verif.Assert(o.Size == int64(len(data.buf)) && w.BytesWritten() == int64(len(data.buf)), "object-size")
	lo, hi := keys[0], keys[n-1]
	if desc {
		lo, hi = hi, lo
	}
	verif.Assert(lo.same(o.Min), "object-min")
	verif.Assert(hi.same(o.Max), "object-max")

	// seek index
	entries := seek.entries
	verif.Assert(len(entries) >= 1, "seek-index-not-empty")
	var valEnd, offEnd uint64
	for _, e := range entries {
		verif.Assert(e.ValOff == valEnd, "entry-valoff-contiguous")
		verif.Assert(e.Offset == offEnd, "entry-offset-contiguous")
		verif.Assert(e.ValCnt >= 1, "entry-not-empty")
		valEnd, offEnd = e.ValOff+e.ValCnt, e.Offset+e.Length
		if e.ValCnt < 1 || valEnd > uint64(n) {
			verif.Assert(false, "entry-values-within-object")
			return
		}
		first, last := keys[e.ValOff], keys[valEnd-1]
		if desc {
			first, last = last, first
		}
		verif.Assert(first.same(e.Min), "entry-min")
		verif.Assert(last.same(e.Max), "entry-max")
		for i := e.ValOff; i < valEnd; i++ {
			p := v14Find(data.buf, int(i))
			verif.Assert(p >= 0 && uint64(p) >= e.Offset && uint64(p)+3 <= e.Offset+e.Length, "value-bytes-inside-entry")
		}
	}
	verif.Assert(valEnd == uint64(n), "entries-cover-all-values")
	verif.Assert(offEnd == uint64(o.Size), "entries-cover-all-bytes")
	verif.Observe("n", n)
	verif.Observe("entries", len(entries))
	verif.Observe("size", o.Size)
	if len(entries) > 1 {
		verif.Reach("several-entries")
	}
	if len(entries) < n {
		verif.Reach("entry-with-several-values")
	}
	if desc {
		verif.Reach("desc")
	}
	verif.Reach("end")
}

// verif:desc C14-O3 data.Writer.{WriteWithKey,writeIndex,flushSeekIndex,Close} with the real seekindex.Writer and zngio.Writer: after writing 1..3 values whose keys are in pool order (asc or desc, nulls largest) and closing, the object's Count is the number of values, Size is the number of bytes stored, Min/Max are the smallest/largest key written (ascending terms, null largest); the seek entries tile the values (ValOff/ValCnt contiguous from 0, each >= 1 value, sum = Count) and the bytes (Offset/Length contiguous from 0 to Size); each entry's Min/Max are the smallest/largest key of exactly the values ValOff..ValOff+ValCnt-1, and the bytes of each of those values lie inside [Offset, Offset+Length).
// verif:bounds 1..3 values; each key either an int64 held as bytes or null (the two forms Value.DerefPath(key).MissingAsNull() yields); int64 keys any value in 0..300 (1- and 2-byte encodings) in pool order; order asc or desc; seek stride any value in 0..8 (0 = default 64KiB; the accumulated key bytes never exceed 6, so larger strides behave like 7)
// verif:outside failing storage; compression of the data stream (struct-literal construction mirrors Object.NewWriter but the zngio.Writer is uncompressed and the seek index sink is the model); the zson reflection marshaler (identity intrinsic under gosym, real code in the native replay); non-integer keys
func VerifH_C14_O3_object_and_seek_bounds() {
	v14ObjectAndSeekBounds(2, 0, 300, false, 3)
}

// verif:desc C14-O3t as C14-O3 with negative keys and two more key representations: int64 held natively and the typed null null(int64).
// verif:bounds as C14-O3 but keys in -20000..20000 and four key kinds
// verif:outside as C14-O3
// verif:tier thorough
func VerifH_C14_O3t_object_and_seek_bounds_wide() {
	v14ObjectAndSeekBounds(4, -20000, 20000, false, 3)
}

// verif:desc C14-O3b as C14-O3 through data.Writer.Write (the entry point of a load: lake.Writer.writeObject copies the sorted values into it), which derives the key itself with val.DerefPath(key).MissingAsNull(): object and seek-entry Min/Max/Count/offsets are those of the keys of the records written, a record without the key field or with a null key counting as the largest key.
// verif:bounds 1..2 records {k:K,m:bytes}, {k:null(int64),m:bytes} or {m:bytes}; K any int64 in 0..300 in pool order; order asc or desc; seek stride 0..8
// verif:outside as C14-O3
func VerifH_C14_O3b_object_bounds_via_write() {
	v14ObjectAndSeekBounds(3, 0, 300, true, 2)
}

// verif:desc C14-O3bt as C14-O3b with up to 3 records.
// verif:bounds as C14-O3b, 1..3 records
// verif:outside as C14-O3
// verif:tier thorough
func VerifH_C14_O3bt_object_bounds_via_write_3() {
	v14ObjectAndSeekBounds(3, 0, 300, true, 3)
}
