//go:build verif

package lake

import (
	"context"
	"errors"

	"github.com/brimdata/super/internal/verif"
	"github.com/brimdata/super/lake/journal"
	"github.com/brimdata/super/lake/pools"
	"github.com/brimdata/super/pkg/storage"
	"go.uber.org/zap"
)

func vLakePath() *storage.URI {
	return &storage.URI{Scheme: "file", Path: "/lake"}
}

// vOpen runs the real lake.Open and reports an escaped panic separately, so
// that the assertion id can name the region.
func vOpen(ctx context.Context, eng *vEngine) (r *Root, err error, panicked bool) {
	defer func() {
		if recover() != nil {
			panicked = true
		}
	}()
	r, err = Open(ctx, eng, nil, vLakePath())
	return r, err, false
}

func vCreate(ctx context.Context, eng *vEngine) (r *Root, err error, panicked bool) {
	defer func() {
		if recover() != nil {
			panicked = true
		}
	}()
	r, err = Create(ctx, eng, nil, vLakePath())
	return r, err, false
}

// vPoolsUsable: the pools journal of the lake opens cold, its boundaries
// (HEAD and TAIL) parse, and it lists zero pools.
func vPoolsUsable(ctx context.Context, eng *vEngine) bool {
	path := vLakePath().JoinPath(PoolsTag)
	q, err := journal.Open(ctx, eng, path)
	if err != nil {
		return false
	}
	head, tail, err := q.Boundaries(ctx)
	if err != nil || head != journal.Nil || tail != 1 {
		return false
	}
	store, err := pools.OpenStore(ctx, eng, zap.NewNop(), path)
	if err != nil {
		return false
	}
	list, err := store.All(ctx)
	return err == nil && len(list) == 0
}

// verif:desc C17-O3 lake.Create (Root.createConfig -> pools.CreateStore -> journal.Create, Root.writeLakeMagic last) cut off by a crash at storage step k; on the surviving state: no magic file => lake.Open reports "does not exist" and a second lake.Create succeeds and yields a usable pools journal; magic file present => the pools journal is complete (opens, HEAD=0, TAIL=1, lists no pools); lake.Open/Create never panic.
// verif:bounds crash step k in 1..6 (atomic puts: 3 steps, create-then-fill puts: 6 steps) or no crash; storage with atomic puts or create-then-fill puts
// verif:outside the contents of the magic file (reflection-based marshaling is an identity intrinsic in the engine; lake.Open is therefore not run when the magic file is complete - its journal half, pools.OpenStore, is run directly); torn writes inside one write call; double crashes
func VerifH_C17_O3_lake_create_crash() {
	ctx := context.Background()
	eng := vNewEngine(verif.Bool("fill"))
	eng.crashAt = verif.Range("crashAt", 0, 6)
	_, err, panicked := vCreate(ctx, eng)
	verif.Assert(!panicked, "create-panics")
	crashed := eng.crashed
	if !crashed {
		verif.Assert(err == nil, "create-without-crash")
		verif.Assert(eng.steps <= 6, "crash-range-covers-all-steps")
		verif.Reach("no-crash")
	} else {
		verif.Assert(err != nil, "crashed-create-not-acknowledged")
	}
	eng.reboot()
	magic := eng.vFileAt(vLakePath(), LakeMagicFile)
	switch {
	case magic == nil:
		verif.Reach("no-magic")
		verif.Assert(crashed, "acknowledged-create-has-magic")
		_, err, panicked := vOpen(ctx, eng)
		verif.Assert(!panicked, "open-panics")
		verif.Assert(errors.Is(err, ErrNotExist), "no-magic-means-no-lake")
		_, err, panicked = vCreate(ctx, eng)
		verif.Assert(!panicked, "create-again-panics")
		verif.Assert(err == nil, "create-again-succeeds")
		verif.Assert(eng.vFileAt(vLakePath(), LakeMagicFile) != nil, "create-again-writes-magic")
		verif.Assert(vPoolsUsable(ctx, eng), "pools-journal-usable-after-create-again")
	case len(magic.data) == 0:
		// file engine: lake.zng was created and the crash came before its contents
		verif.Reach("magic-empty")
		// the crashed create must be "no lake" (Open refuses, Create can be
		// repeated) - it cannot be a complete lake, its magic file is empty
		if verif.Choose("followup", 2) == 0 {
			_, err, panicked := vOpen(ctx, eng)
			verif.Observe("open-panicked", panicked)
			verif.Assert(!panicked, "open-panics/magic-empty")
			verif.Assert(err != nil, "empty-magic-is-not-a-lake")
		} else {
			_, err, panicked := vCreate(ctx, eng)
			verif.Observe("create-panicked", panicked)
			verif.Assert(!panicked, "create-again-panics/magic-empty")
			verif.Assert(err == nil, "create-again-succeeds/magic-empty")
		}
	default:
		verif.Reach("magic-complete")
		verif.Assert(vPoolsUsable(ctx, eng), "magic-implies-pools-journal-complete")
	}
	verif.Reach("end")
}
