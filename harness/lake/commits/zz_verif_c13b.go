//go:build verif

package commits

import (
	"bytes"
	"context"
	"fmt"
	"io"
	"io/fs"
	"strconv"
	"strings"

	"github.com/brimdata/super"
	"github.com/brimdata/super/internal/verif"
	"github.com/brimdata/super/pkg/storage"
	"github.com/segmentio/ksuid"
	"go.uber.org/zap"
)

// ---------------------------------------------------------------------------
// Environment model for C13-O3: a path -> bytes object store with atomic puts
// (the bytes become visible at Close).  Unlike the vEngine of zz_verif_c13.go
// it keeps what is written, so that commit objects written by Store.Put and
// snapshots written by putSnapshot are read back by *other* Store handles
// through Store.Get/DecodeObject and getSnapshot/decodeSnapshot.
// ---------------------------------------------------------------------------

type v13bEngine struct {
	files map[string][]byte
	gets  []string // base names of the files asked for, in order
	hits  []string // ... and of those that existed
	puts  []string
}

var _ storage.Engine = (*v13bEngine)(nil)

func v13bBase(u *storage.URI) string {
	p := u.Path
	if i := strings.LastIndexByte(p, '/'); i >= 0 {
		p = p[i+1:]
	}
	return p
}

type v13bReader struct{ *bytes.Reader }

func (v13bReader) Close() error { return nil }

func (e *v13bEngine) Get(_ context.Context, u *storage.URI) (storage.Reader, error) {
	e.gets = append(e.gets, v13bBase(u))
	b, ok := e.files[u.Path]
	if !ok {
		return nil, fmt.Errorf("%s: %w", u.Path, fs.ErrNotExist)
	}
	e.hits = append(e.hits, v13bBase(u))
	return v13bReader{bytes.NewReader(b)}, nil
}

type v13bWriter struct {
	e   *v13bEngine
	u   *storage.URI
	buf []byte
}

func (w *v13bWriter) Write(p []byte) (int, error) {
	w.buf = append(w.buf, p...)
	return len(p), nil
}

func (w *v13bWriter) Close() error {
	w.e.files[w.u.Path] = w.buf
	w.e.puts = append(w.e.puts, v13bBase(w.u))
	return nil
}

func (e *v13bEngine) Put(_ context.Context, u *storage.URI) (io.WriteCloser, error) {
	return &v13bWriter{e: e, u: u}, nil
}

func (e *v13bEngine) PutIfNotExists(context.Context, *storage.URI, []byte) error {
	return storage.ErrNotSupported
}
func (e *v13bEngine) Delete(_ context.Context, u *storage.URI) error {
	delete(e.files, u.Path)
	return nil
}
func (e *v13bEngine) DeleteByPrefix(context.Context, *storage.URI) error { return nil }
func (e *v13bEngine) Exists(_ context.Context, u *storage.URI) (bool, error) {
	_, ok := e.files[u.Path]
	return ok, nil
}
func (e *v13bEngine) Size(_ context.Context, u *storage.URI) (int64, error) {
	b, ok := e.files[u.Path]
	if !ok {
		return 0, fs.ErrNotExist
	}
	return int64(len(b)), nil
}
func (e *v13bEngine) List(context.Context, *storage.URI) ([]storage.Info, error) { return nil, nil }

func v13bCount(names []string, name string) int {
	n := 0
	for _, s := range names {
		if s == name {
			n++
		}
	}
	return n
}

// v13bOpen is a fresh lake handle on the pool's commit store: cold object,
// path and snapshot caches.
func v13bOpen(eng *v13bEngine) *Store {
	s, err := OpenStore(eng, zap.NewNop(), &storage.URI{Scheme: "file", Path: "/lake/pool/commits"})
	if err != nil {
		panic("verif: OpenStore failed")
	}
	return s
}

// v13bCommit writes commit k (0..maxAct valid actions on distinct slots
// applied to *st) on top of parent through the real Store.Put.  With sorted,
// the actions are on increasing slots (one representative per set of actions
// instead of every order).
func v13bCommit(ctx context.Context, w *Store, u *vUniverse, st *vState, k int, parent ksuid.KSUID, minAct, maxAct int, sorted bool) ksuid.KSUID {
	id := vCommitID(k)
	o := &Object{Commit: id, Parent: parent}
	o.append(&Commit{ID: id, Parent: parent, Author: "a", Message: "m", Meta: zed.Null})
	name := "commit" + strconv.Itoa(k)
	na := minAct + verif.Choose(name+".n", maxAct-minAct+1)
	var used [vNObj + vNVec]bool
	for j := 0; j < na; j++ {
		a := verif.Choose(name+"["+strconv.Itoa(j)+"]", vNObj+vNVec)
		verif.Assume(!used[a])
		if sorted {
			for b := a + 1; b < len(used); b++ {
				verif.Assume(!used[b])
			}
		}
		used[a] = true
		act := u.step(st, a)
		// as the constructors of commits.Object do: every action names its commit
		switch act := act.(type) {
		case *Add:
			act.Commit = id
		case *Delete:
			act.Commit = id
		case *AddVector:
			act.Commit = id
		case *DeleteVector:
			act.Commit = id
		}
		o.append(act)
	}
	verif.Assert(w.Put(ctx, o) == nil, "commit-object-written")
	return id
}

func v13bSnapshotIs(ctx context.Context, s *Store, u *vUniverse, id ksuid.KSUID, st vState, assertion string) *Snapshot {
	snap, err := s.Snapshot(ctx, id)
	verif.Assert(err == nil && snap != nil, "snapshot-computed")
	if err != nil || snap == nil {
		return nil
	}
	verif.Assert(u.sameState(snap, st), assertion)
	return snap
}

// v13bPersisted: X <- [M <-] Y written by a writer handle; handle 1 reads X
// (persisting X.snap.zng); handle 2 (cold) reads Y and X in either order;
// handle 3 (cold) reads both again from what handle 2 persisted.
func v13bPersisted(maxX, maxY, maxMid int, withRoot, sorted bool) {
	ctx := context.Background()
	u := vNewUniverse()
	eng := &v13bEngine{files: map[string][]byte{}}
	w := v13bOpen(eng)

	// history
	var st vState
	k := 0
	parent := ksuid.Nil
	if withRoot && verif.Choose("root", 2) == 1 {
		// X is not the first commit of the branch
		parent = v13bCommit(ctx, w, u, &st, k, parent, 1, 1, sorted)
		k++
	}
	x := v13bCommit(ctx, w, u, &st, k, parent, 0, maxX, sorted)
	k++
	xst := st
	tip := x
	mids := verif.Choose("mids", maxMid+1) // commits strictly between X and Y
	for i := 0; i < mids; i++ {
		tip = v13bCommit(ctx, w, u, &st, k, tip, 1, 1, sorted)
		k++
	}
	y := v13bCommit(ctx, w, u, &st, k, tip, 0, maxY, sorted)
	yst := st
	xSnapName := x.String() + ".snap.zng"
	ySnapName := y.String() + ".snap.zng"
	xObjName := x.String() + ".zng"

	// Handle 1: a reader of commit X.  The real putSnapshot persists its fold.
	h1 := v13bOpen(eng)
	sx1 := v13bSnapshotIs(ctx, h1, u, x, xst, "snapshot-is-fold-of-its-chain")
	if sx1 == nil {
		return
	}
	if v13bCount(eng.puts, xSnapName) == 1 {
		verif.Reach("x-snapshot-persisted")
	}

	// Handle 2: another process, cold caches, same storage.
	h2 := v13bOpen(eng)
	eng.gets, eng.hits = nil, nil
	yFirst := verif.Choose("order", 2) == 0
	var sx2, sy2 *Snapshot
	if yFirst {
		sy2 = v13bSnapshotIs(ctx, h2, u, y, yst, "snapshot-is-fold-of-its-chain")
		if v13bCount(eng.hits, xSnapName) == 1 && v13bCount(eng.puts, xSnapName) == 1 {
			// Y was replayed on top of X's persisted snapshot, decoded by the
			// real getSnapshot/decodeSnapshot (X's commit object is fetched
			// concurrently by Store.Snapshot but not used: had X been folded
			// by this handle it would have been persisted a second time).
			verif.Reach("y-replayed-on-persisted-x")
		}
		sx2 = v13bSnapshotIs(ctx, h2, u, x, xst, "persisted-ancestor-snapshot-isolated")
	} else {
		sx2 = v13bSnapshotIs(ctx, h2, u, x, xst, "snapshot-is-fold-of-its-chain")
		if v13bCount(eng.hits, xSnapName) >= 1 && v13bCount(eng.gets, xObjName) == 0 {
			verif.Reach("x-read-from-persisted")
		}
		sy2 = v13bSnapshotIs(ctx, h2, u, y, yst, "snapshot-is-fold-of-its-chain")
	}
	if sx2 == nil || sy2 == nil {
		return
	}
	// neither reader's view of X moved when Y was computed from it
	verif.Assert(u.sameState(sx2, xst), "earlier-snapshot-unchanged")
	verif.Assert(u.sameState(sx1, xst), "earlier-snapshot-unchanged")
	verif.Assert(u.sameState(sy2, yst), "earlier-snapshot-unchanged")
	// asking again gives equal contents
	v13bSnapshotIs(ctx, h2, u, x, xst, "repeated-snapshot-equal")
	v13bSnapshotIs(ctx, h2, u, y, yst, "repeated-snapshot-equal")
	v13bSnapshotIs(ctx, h1, u, x, xst, "repeated-snapshot-equal")
	// handle 1 (X cached in memory) now reads Y
	v13bSnapshotIs(ctx, h1, u, y, yst, "snapshot-is-fold-of-its-chain")
	verif.Assert(u.sameState(sx1, xst), "earlier-snapshot-unchanged")

	// Handle 3: both snapshots now come from storage as handle 2 left them.
	h3 := v13bOpen(eng)
	eng.gets, eng.hits = nil, nil
	v13bSnapshotIs(ctx, h3, u, y, yst, "persisted-snapshot-is-fold-of-its-chain")
	if v13bCount(eng.hits, ySnapName) >= 1 {
		verif.Reach("y-read-from-persisted")
	}
	v13bSnapshotIs(ctx, h3, u, x, xst, "persisted-snapshot-is-fold-of-its-chain")
	verif.Reach("end")
}

// verif:desc C13-O3 persisted snapshot isolation: commit chain X <- [M <-] Y written with the real commits.Store.Put (Object.Serialize) to a model object store that keeps the bytes; handle 1 (fresh Store) computes Snapshot(X), the real putSnapshot persists X.snap.zng; handle 2 (fresh Store, cold LRUs, same storage) computes Snapshot(Y) - finding X's persisted snapshot through the real getSnapshot/decodeSnapshot and replaying Y's chain (Store.Get/DecodeObject from storage) on a Copy of it - and then Snapshot(X), or X then Y; handle 1 (X cached) then reads Y; handle 3 (fresh) reads both from what the others persisted. Asserted: every Snapshot(c) equals the fold of c's own chain (object set, object metadata, vectors) - in particular X's never contains Y's changes -, snapshots handed out earlier are unchanged afterwards, repeated calls return equal contents.
// verif:bounds X = first commit with 0..2 valid actions on distinct slots (in increasing slot order) over 3 objects (symbolic Count) + 1 vector; 0..1 one-action commits between X and Y; Y 0..1 valid action; read order Y-then-X or X-then-Y on handle 2; storage without failures, atomic puts
// verif:outside the serialised form (marshal/unmarshal = byte-token identity model in the engine; the real marshaler runs in the native replay), storage failures and torn snapshot files (C17), LRU eviction, readers concurrent with the writer of the snapshot file, the other goroutine schedule of Store.Get vs getSnapshot
func VerifH_C13_O3_persisted_snapshot_isolation() { v13bPersisted(2, 1, 1, false, true) }

// verif:desc C13-O3 (two actions in Y) as VerifH_C13_O3_persisted_snapshot_isolation with up to 2 actions in Y and the actions of a commit in any order
// verif:bounds X 0..2 actions (any order); 0..1 one-action commits between X and Y; Y 0..2 actions; both read orders
// verif:outside as VerifH_C13_O3_persisted_snapshot_isolation
// verif:tier thorough
func VerifH_C13_O3_persisted_snapshot_isolation_y2() { v13bPersisted(2, 2, 1, false, false) }

// verif:desc C13-O3 (Y three commits above X) as VerifH_C13_O3_persisted_snapshot_isolation with up to 2 commits between X and Y
// verif:bounds X 0..1 actions; 0..2 one-action commits between X and Y; Y 0..1 actions; both read orders
// verif:outside as VerifH_C13_O3_persisted_snapshot_isolation
// verif:tier thorough
func VerifH_C13_O3_persisted_snapshot_isolation_mid2() { v13bPersisted(1, 1, 2, false, false) }

// verif:desc C13-O3 (X not the first commit) as VerifH_C13_O3_persisted_snapshot_isolation with an optional one-action commit below X (X's persisted snapshot is itself a fold of two commits)
// verif:bounds optional one-action root commit below X; X 0..1 actions; 0..1 one-action commits between X and Y; Y 0..1 actions; both read orders
// verif:outside as VerifH_C13_O3_persisted_snapshot_isolation
// verif:tier thorough
func VerifH_C13_O3_persisted_snapshot_isolation_root() { v13bPersisted(1, 1, 1, true, false) }
