//go:build verif

package commits

import (
	"context"
	"errors"
	"io"
	"io/fs"
	"strconv"

	"github.com/brimdata/super/internal/verif"
	"github.com/brimdata/super/lake/data"
	"github.com/brimdata/super/pkg/storage"
	"github.com/segmentio/ksuid"
	"go.uber.org/zap"
)

// ---------------------------------------------------------------------------
// Environment model: a storage engine that holds no persisted snapshot
// (*.snap.zng reads fail with fs.ErrNotExist or, in mode getErr, with another
// I/O error) and no commit object files (commit objects are served from the
// Store's own object cache, which the harness warms through the real LRU);
// writes succeed or fail (mode putErr).  Persisted bytes are not modelled:
// decoding them is reflection driven (outside).
// ---------------------------------------------------------------------------

type vEngine struct {
	getErr bool // Get fails with an error other than "not exist"
	putErr bool // Put/Close fail
	gets   int
	puts   int
}

var _ storage.Engine = (*vEngine)(nil)

var vErrIO = errors.New("verif: model I/O error")

type vSink struct{ fail bool }

func (s *vSink) Write(p []byte) (int, error) {
	if s.fail {
		return 0, vErrIO
	}
	return len(p), nil
}

func (s *vSink) Close() error {
	if s.fail {
		return vErrIO
	}
	return nil
}

func (e *vEngine) Get(context.Context, *storage.URI) (storage.Reader, error) {
	e.gets++
	if e.getErr {
		return nil, vErrIO
	}
	return nil, fs.ErrNotExist
}

func (e *vEngine) Put(context.Context, *storage.URI) (io.WriteCloser, error) {
	e.puts++
	return &vSink{fail: e.putErr}, nil
}

func (e *vEngine) PutIfNotExists(context.Context, *storage.URI, []byte) error {
	return storage.ErrNotSupported
}
func (e *vEngine) Delete(context.Context, *storage.URI) error         { return nil }
func (e *vEngine) DeleteByPrefix(context.Context, *storage.URI) error { return nil }
func (e *vEngine) Exists(context.Context, *storage.URI) (bool, error) { return false, nil }
func (e *vEngine) Size(context.Context, *storage.URI) (int64, error) {
	return 0, fs.ErrNotExist
}
func (e *vEngine) List(context.Context, *storage.URI) ([]storage.Info, error) { return nil, nil }

func vNewStore(env *vEngine) *Store {
	s, err := OpenStore(env, zap.NewNop(), &storage.URI{Scheme: "file", Path: "/lake/pool/commits"})
	if err != nil {
		panic("verif: OpenStore failed")
	}
	return s
}

// vSymEnv picks the environment's failure mode (one path per mode).
func vSymEnv(modes int) *vEngine {
	switch verif.Choose("env", modes) {
	case 1:
		return &vEngine{putErr: true}
	case 2:
		return &vEngine{getErr: true}
	case 3:
		return &vEngine{getErr: true, putErr: true}
	}
	return &vEngine{}
}

// ---------------------------------------------------------------------------
// Commit chains over objects and vectors.
// ---------------------------------------------------------------------------

const vNVec = 1 // vectors exist for objects 0..vNVec-1

// vState is the model of a snapshot: object set and vector set.
type vState struct {
	objs vSet
	vecs [vNVec]bool
}

// step returns the one valid action on "slot" a in state st (objects first,
// then vectors) and applies it to the model.
func (u *vUniverse) step(st *vState, a int) Action {
	if a < vNObj {
		return u.toggle(&st.objs, a)
	}
	v := a - vNObj
	if st.vecs[v] {
		st.vecs[v] = false
		return &DeleteVector{ID: u.ids[v]}
	}
	st.vecs[v] = true
	return &AddVector{ID: u.ids[v]}
}

func (u *vUniverse) sameState(s *Snapshot, st vState) bool {
	if !u.same(s, st.objs) {
		return false
	}
	n := 0
	for v, in := range st.vecs {
		if s.HasVector(u.ids[v]) != in {
			return false
		}
		if in {
			n++
		}
	}
	return len(s.vectors) == n
}

func vCommitID(k int) ksuid.KSUID {
	var id ksuid.KSUID
	id[0] = 0x20
	id[19] = byte(k + 1)
	return id
}

// vChain is a linear history root=0 .. n-1 held in the store's object cache.
type vChain struct {
	n      int
	ids    []ksuid.KSUID
	states []vState // states[k] = contents at commit k
}

// chain builds n commits (n chosen in 1..maxN), commit k holding 0..maxAct
// valid actions on distinct slots, and puts the commit objects in the
// store's object cache (as Store.Get does after reading them).
func (u *vUniverse) chain(s *Store, maxN, maxAct int) *vChain {
	c := &vChain{n: 1 + verif.Choose("chain.n", maxN)}
	var st vState
	parent := ksuid.Nil
	for k := 0; k < c.n; k++ {
		id := vCommitID(k)
		o := &Object{Commit: id, Parent: parent}
		o.append(&Commit{ID: id, Parent: parent, Author: "a", Message: "m"})
		name := "commit" + strconv.Itoa(k)
		na := verif.Choose(name+".n", maxAct+1)
		var used [vNObj + vNVec]bool
		for j := 0; j < na; j++ {
			a := verif.Choose(name+"["+strconv.Itoa(j)+"]", vNObj+vNVec)
			verif.Assume(!used[a])
			used[a] = true
			o.append(u.step(&st, a))
		}
		s.cache.Add(id, o)
		c.ids = append(c.ids, id)
		c.states = append(c.states, st)
		parent = id
	}
	return c
}

// ---------------------------------------------------------------------------
// C13-O1 fold isolation
// ---------------------------------------------------------------------------

func vFoldIsolation(maxN, maxAct, envModes int) {
	u := vNewUniverse()
	env := vSymEnv(envModes)
	s := vNewStore(env)
	c := u.chain(s, maxN, maxAct)
	ctx := context.Background()
	leaf := c.n - 1
	early := verif.Choose("early", c.n) // an ancestor of the leaf, or the leaf
	first, second := early, leaf
	if early != leaf && verif.Choose("order", 2) == 1 {
		first, second = leaf, early
	}

	s1, err := s.Snapshot(ctx, c.ids[first])
	verif.Assert(err == nil && s1 != nil, "snapshot-computed")
	if err != nil || s1 == nil {
		return
	}
	verif.Assert(u.sameState(s1, c.states[first]), "snapshot-is-fold-of-its-chain")

	// A later snapshot computed while the first one sits in the cache (as
	// base of the fold when first is an ancestor of second).
	s2, err := s.Snapshot(ctx, c.ids[second])
	verif.Assert(err == nil && s2 != nil, "snapshot-computed")
	if err != nil || s2 == nil {
		return
	}
	verif.Assert(u.sameState(s2, c.states[second]), "snapshot-is-fold-of-its-chain")
	// The commit's snapshot seen by earlier readers has not changed.
	verif.Assert(u.sameState(s1, c.states[first]), "earlier-snapshot-unchanged")
	if first < second {
		verif.Reach("folded-from-cached-ancestor")
	}

	// Asking again gives the same contents for both.
	s1b, err := s.Snapshot(ctx, c.ids[first])
	verif.Assert(err == nil && s1b != nil && u.sameState(s1b, c.states[first]), "repeated-snapshot-equal")
	s2b, err := s.Snapshot(ctx, c.ids[second])
	verif.Assert(err == nil && s2b != nil && u.sameState(s2b, c.states[second]), "repeated-snapshot-equal")

	// A writer building the next commit on a Copy of a cached snapshot (what
	// the fold itself does) cannot disturb it.
	cp := s2.Copy()
	next := c.states[second]
	for a := 0; a < vNObj+vNVec; a++ {
		verif.Assert(PlayAction(cp, u.step(&next, a)) == nil, "copy-accepts-valid-actions")
	}
	verif.Assert(u.sameState(cp, next), "copy-is-fold")
	verif.Assert(u.sameState(s2, c.states[second]), "copy-is-isolated")
	verif.Assert(env.gets > 0 && env.puts > 0, "environment-was-consulted")
	verif.Reach("end")
}

// verif:desc C13-O1 fold isolation: real commits.Store.Snapshot (with Store.Get served by the store's real LRU object cache, getSnapshot/putSnapshot against a model storage engine, the go/Wait pair inlined at the spawn point), PlayAction, Snapshot.Copy. For a chain of commits: the snapshot of a commit equals the fold of its chain; computing the snapshot of a later (or earlier) commit afterwards, with the first still cached and used as base, leaves the first unchanged; repeated calls agree; mutating a Copy leaves the original unchanged.
// verif:bounds chain of 1..3 commits, each with 0..1 valid action over 3 objects (symbolic Count) + 1 vector; first/second commit any ancestor pair in either order; environment: persisted snapshots absent, snapshot writes succeed or fail (2 modes)
// verif:outside persisted snapshot decoding (reflection; the model engine never returns one), marshalled bytes (marshal intrinsic = identity token), cross-process caches, readers concurrent with writers, LRU eviction (caches hold >= 32 entries), the other goroutine schedule of Store.Get vs getSnapshot
func VerifH_C13_O1_fold_isolation() { vFoldIsolation(3, 1, 2) }

// verif:desc C13-O1 (deeper) same as VerifH_C13_O1_fold_isolation with up to 2 actions per commit and all 4 environment modes (snapshot reads failing with a non-ENOENT error)
// verif:bounds chain of 1..2 commits, each 0..2 valid actions on distinct slots over 3 objects + 1 vector; 4 environment modes (snapshot read error x snapshot write error)
// verif:outside as VerifH_C13_O1_fold_isolation
// verif:tier thorough
func VerifH_C13_O1_fold_isolation_deep() { vFoldIsolation(2, 2, 4) }

// ---------------------------------------------------------------------------
// C13-O2 vacuum only removes unreferenced objects
// ---------------------------------------------------------------------------

func vVacuum(maxN, maxAct int) {
	u := vNewUniverse()
	env := &vEngine{}
	s := vNewStore(env)
	c := u.chain(s, maxN, maxAct)
	ctx := context.Background()
	at := verif.Choose("at", c.n) // vacuum at any commit of the chain
	out := make(chan *data.Object, 16)
	err := s.Vacuumable(ctx, c.ids[at], out)
	verif.Assert(err == nil, "vacuumable-no-error")
	close(out)
	snap, err := s.Snapshot(ctx, c.ids[at])
	verif.Assert(err == nil && snap != nil && u.sameState(snap, c.states[at]), "snapshot-is-fold-of-its-chain")
	if err != nil || snap == nil {
		return
	}
	var sent vSet
	n := 0
	for o := range out {
		n++
		verif.Assert(o != nil, "vacuumable-object-non-nil")
		if o == nil {
			continue
		}
		verif.Assert(!snap.Exists(o.ID), "vacuumed-object-not-in-snapshot")
		known := false
		for i := range u.ids {
			if o.ID == u.ids[i] {
				known = true
				sent[i] = true
				verif.Assert(!c.states[at].objs[i], "vacuumed-object-not-referenced")
			}
		}
		verif.Assert(known, "vacuumed-object-was-added-in-history")
	}
	if n > 0 {
		verif.Reach("vacuumed-some")
	}
	verif.Reach("end")
}

// verif:desc C13-O2 vacuum safety: real commits.Store.Vacuumable over a commit chain (Store.Get from the real LRU object cache, Store.Snapshot as in O1, buffered channel): every object reported as vacuumable at commit c is absent from Snapshot(c) (so vacuuming never removes data visible at the commit that was vacuumed).
// verif:bounds chain of 1..3 commits each with 0..1 valid action over 3 objects + 1 vector (all 5+25+125 chains), vacuum at any commit of the chain; channel buffered (16)
// verif:outside completeness of vacuum, objects referenced only by other branches or by earlier commits (vacuum is per commit by design), Pool.Vacuum's goroutines and storage deletes, context cancellation
func VerifH_C13_O2_vacuumable() { vVacuum(3, 1) }

// verif:desc C13-O2 (deeper) same as VerifH_C13_O2_vacuumable with up to 2 actions per commit
// verif:bounds chain of 1..3 commits each 0..2 valid actions on distinct slots over 3 objects + 1 vector, vacuum at any commit
// verif:outside as VerifH_C13_O2_vacuumable
// verif:tier thorough
func VerifH_C13_O2_vacuumable_deep() { vVacuum(3, 2) }
