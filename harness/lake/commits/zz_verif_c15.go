//go:build verif

package commits

import (
	"strconv"

	"github.com/brimdata/super"
	"github.com/brimdata/super/internal/verif"
	"github.com/brimdata/super/lake/data"
	"github.com/segmentio/ksuid"
)

// ---------------------------------------------------------------------------
// Shared model for the C13/C15 harnesses of this package.
//
// Universe: vNObj data objects with fixed, distinct ids and symbolic metadata
// (Count).  A branch history is a list of actions; since a commit can only
// add an object that is absent and delete one that is present (every other
// action makes the branch unreadable and is refused when the commit is built),
// the only valid action on object i in a given state is "toggle i".  A history
// is therefore a list of object indexes, and the model state is a bit set.
// ---------------------------------------------------------------------------

const vNObj = 3

type vSet [vNObj]bool

type vUniverse struct {
	ids  [vNObj]ksuid.KSUID
	objs [vNObj]*data.Object
}

// vCounterRand makes ksuid.New deterministic and collision free (public
// ksuid.SetRand API): commit ids are the environment, not the subject.
type vCounterRand struct{ n *byte }

func (r vCounterRand) Read(p []byte) (int, error) {
	*r.n++
	for i := range p {
		p[i] = 0xC0
	}
	if len(p) > 0 {
		p[len(p)-1] = *r.n
	}
	return len(p), nil
}

func vNewUniverse() *vUniverse {
	ksuid.SetRand(vCounterRand{n: new(byte)})
	u := &vUniverse{}
	for i := 0; i < vNObj; i++ {
		u.ids[i][0] = 0x10
		u.ids[i][19] = byte(i + 1)
		u.objs[i] = &data.Object{ID: u.ids[i], Count: verif.Uint64("count" + strconv.Itoa(i))}
	}
	return u
}

// vSymSet returns an arbitrary subset of the universe (one path per subset:
// snapshots are concrete shapes, so a symbolic membership bit would be forked
// at the first map operation anyway).
func vSymSet(name string) vSet {
	var s vSet
	b := verif.Choose(name, 1<<vNObj)
	for i := range s {
		s[i] = b&(1<<i) != 0
	}
	return s
}

// snap builds the real snapshot holding exactly the objects of st.
func (u *vUniverse) snap(st vSet) *Snapshot {
	s := NewSnapshot()
	for i, in := range st {
		if in {
			if err := s.AddDataObject(u.objs[i]); err != nil {
				panic("verif: model snapshot construction failed")
			}
		}
	}
	return s
}

// toggle returns the one valid action on object i in state st and applies it
// to the model state.
func (u *vUniverse) toggle(st *vSet, i int) Action {
	if st[i] {
		st[i] = false
		return &Delete{ID: u.ids[i]}
	}
	st[i] = true
	return &Add{Object: *u.objs[i]}
}

// history returns 0..max valid actions starting in state *st (updated).
// With distinct set, no object is touched twice (the shape of a single commit
// object: every constructor in lake.Branch emits at most one action per
// data object).
func (u *vUniverse) history(name string, max int, st *vSet, distinct bool) []Action {
	n := verif.Choose(name+".n", max+1)
	var as []Action
	var used vSet
	for k := 0; k < n; k++ {
		i := verif.Choose(name+"["+strconv.Itoa(k)+"]", vNObj)
		verif.Assume(!(distinct && used[i]))
		used[i] = true
		as = append(as, u.toggle(st, i))
	}
	return as
}

// same: the real snapshot holds exactly the objects of st, each with the
// metadata of the universe's object of that id, and nothing else.
func (u *vUniverse) same(s *Snapshot, st vSet) bool {
	n := 0
	for i, in := range st {
		o, err := s.Lookup(u.ids[i])
		if (err == nil) != in {
			return false
		}
		if in {
			n++
			if o == nil || o.ID != u.ids[i] || o.Count != u.objs[i].Count {
				return false
			}
		}
	}
	return len(s.objects) == n && len(s.SelectAll()) == n
}

func vPlayAll(w Writeable, as []Action) error {
	for _, a := range as {
		if err := PlayAction(w, a); err != nil {
			return err
		}
	}
	return nil
}

// ---------------------------------------------------------------------------
// C15-O1 merge
// ---------------------------------------------------------------------------

func vMerge(maxP, maxC int, arbitraryOrder bool) {
	u := vNewUniverse()
	base := vSymSet("base")
	B := u.snap(base)
	pst, cst := base, base
	P := u.history("P", maxP, &pst, false)
	C := u.history("C", maxC, &cst, false)
	verif.ArbitraryMapOrder(arbitraryOrder)

	// The parent's tip is the real fold of its history over the base.
	T := B.Copy()
	verif.Assert(vPlayAll(T, P) == nil, "valid-history-replays")
	verif.Assert(u.same(T, pst), "fold-matches-model")

	// What Branch.buildMergeObject does: two patches over the common
	// ancestor's snapshot (Store.PatchOfPath = NewPatch + PlayAction), Diff,
	// NewCommitObject on the parent's tip.
	parentPatch, childPatch := NewPatch(B), NewPatch(B)
	if vPlayAll(childPatch, C) != nil || vPlayAll(parentPatch, P) != nil {
		// PatchOfPath fails: the merge is refused with an error.
		verif.Reach("patch-refused")
		verif.Assert(u.same(T, pst) && u.same(B, base), "refused-merge-leaves-parent-untouched")
		return
	}
	diff, err := Diff(parentPatch, childPatch)
	if err != nil {
		verif.Reach("diff-refused")
		verif.Assert(u.same(T, pst) && u.same(B, base), "refused-merge-leaves-parent-untouched")
		return
	}
	var tipID ksuid.KSUID
	tipID[0] = 0x77
	o := diff.NewCommitObject(tipID, 0, "author", "message", zed.Null)
	verif.Assert(o.Parent == tipID && len(o.Actions) >= 2, "merge-commit-shape")

	// The merge commit becomes the parent's new tip: reading the branch is
	// replaying it on the tip snapshot (Store.Snapshot).
	R := T.Copy()
	err = Play(R, o)
	bothDelete := false
	for i := range base {
		if base[i] && !pst[i] && !cst[i] {
			bothDelete = true
		}
	}
	if bothDelete {
		verif.Reach("both-sides-delete")
		verif.Assert(err == nil, "merged-branch-readable/both-sides-delete-same-object")
	} else {
		verif.Assert(err == nil, "merged-branch-readable")
	}
	if err != nil {
		return
	}
	// parent := parent + (child - base) - (base - child)
	var want vSet
	for i := range want {
		want[i] = (pst[i] || (cst[i] && !base[i])) && !(base[i] && !cst[i])
	}
	verif.Assert(u.same(R, want), "merge-result")
	verif.Assert(u.same(T, pst) && u.same(B, base), "merge-does-not-mutate-inputs")
	verif.Reach("merged")
	verif.Reach("end")
}

// verif:desc C15-O1 merge kernel of Branch.buildMergeObject: real commits.NewPatch/PlayAction (as Store.PatchOfPath), commits.Diff, Patch.NewCommitObject, commits.Play on the parent's tip snapshot. Asserts: a merge that is not refused yields a commit that replays on the parent's tip (branch stays readable) and the result is tip + (child adds since base) - (child deletes since base), object metadata included; a refused merge leaves tip and base untouched.
// verif:bounds 3 data objects (fixed ids, symbolic Count), base = any subset (8), parent history 0..2 and child history 0..2 valid add/delete actions (each action = any object; kind determined by presence), all 8*13*13 combinations; map iteration in insertion order
// verif:outside vectors (Diff ignores them), common-ancestor computation and commit retry loop in lake.Branch, histories longer than 2, more than 3 objects, serialization of the commit object
func VerifH_C15_O1_merge() { vMerge(2, 2, false) }

// verif:desc C15-O1 (map order) same as VerifH_C15_O1_merge with Go map iteration order of the snapshots (Patch.SelectAll in Diff, diff.objects in NewCommitObject) arbitrary
// verif:bounds 3 objects, base any subset, parent 0..1 and child 0..2 actions, every map range of <= 4 entries in any order
// verif:outside as VerifH_C15_O1_merge
// verif:tier thorough
func VerifH_C15_O1_merge_maporder() { vMerge(1, 2, true) }

// verif:desc C15-O1 (deeper) same as VerifH_C15_O1_merge with histories up to 3+3
// verif:bounds 3 objects, base any subset, parent 0..3 and child 0..3 actions (8*40*40 combinations)
// verif:outside as VerifH_C15_O1_merge
// verif:tier thorough
func VerifH_C15_O1_merge_deep() { vMerge(3, 3, false) }

// ---------------------------------------------------------------------------
// C15-O2 revert
// ---------------------------------------------------------------------------

// vRevertOnce does what Branch.Revert's constructor does for commit K whose
// parent snapshot is before and whose actions are K, against tip (model
// tipSt): Store.PatchOfCommit (NewPatch(parent snapshot) + PlayAction), then
// Patch.Revert(tip, ...).  It returns the revert commit object (nil if
// refused) and the expected contents after the revert.
func (u *vUniverse) revertOnce(before *Snapshot, beforeSt vSet, K []Action, afterSt vSet, tip *Snapshot, tipSt vSet, tipID ksuid.KSUID, tag string) (*Object, vSet) {
	// expected: added by K and still present -> gone; deleted by K and still
	// absent -> back; everything else unchanged.
	want := tipSt
	changes := false
	for i := range want {
		added := !beforeSt[i] && afterSt[i]
		deleted := beforeSt[i] && !afterSt[i]
		if added && tipSt[i] {
			want[i] = false
			changes = true
		}
		if deleted && !tipSt[i] {
			want[i] = true
			changes = true
		}
	}
	patch := NewPatch(before)
	if err := vPlayAll(patch, K); err != nil {
		// PatchOfCommit fails => Branch.Revert reports "commit not found".
		// A readable commit's actions replayed on its own parent snapshot...
		verif.Reach(tag + "patch-refused")
		verif.Assert(!changes, tag+"revert-refused-only-when-nothing-to-revert")
		return nil, want
	}
	var commitID ksuid.KSUID
	commitID[0] = 0x55
	o, err := patch.Revert(tip, commitID, tipID, 0, "author", "message")
	if err != nil {
		verif.Reach(tag + "revert-refused")
		verif.Assert(o == nil, tag+"revert-error-has-no-object")
		verif.Assert(!changes, tag+"revert-refused-only-when-nothing-to-revert")
		return nil, want
	}
	verif.Assert(o != nil && o.Parent == tipID && len(o.Actions) >= 2, tag+"revert-commit-shape")
	verif.Assert(changes, tag+"revert-commit-not-empty")
	return o, want
}

func vRevert(maxK, maxL int, arbitraryOrder bool) {
	u := vNewUniverse()
	base := vSymSet("base")
	B := u.snap(base)
	kst := base
	K := u.history("K", maxK, &kst, true)
	tst := kst
	L := u.history("L", maxL, &tst, false)
	verif.ArbitraryMapOrder(arbitraryOrder)

	T := B.Copy()
	verif.Assert(vPlayAll(T, K) == nil && vPlayAll(T, L) == nil, "valid-history-replays")
	verif.Assert(u.same(T, tst), "fold-matches-model")

	var tipID ksuid.KSUID
	tipID[0] = 0x77
	o, want := u.revertOnce(B, base, K, kst, T, tst, tipID, "")
	if o == nil {
		verif.Assert(u.same(T, tst) && u.same(B, base), "refused-revert-leaves-branch-untouched")
		return
	}
	R := T.Copy()
	err := Play(R, o)
	verif.Assert(err == nil, "reverted-branch-readable")
	if err != nil {
		return
	}
	verif.Assert(u.same(R, want), "revert-result")
	verif.Assert(u.same(T, tst) && u.same(B, base), "revert-does-not-mutate-inputs")
	verif.Reach("reverted")

	// Revert of the revert: the revert commit o has parent snapshot T and
	// produces R; the tip is R.
	o2, want2 := u.revertOnce(T, tst, o.Actions, want, R, want, o.Commit, "rr-")
	verif.Assert(want2 == tst, "model-revert-of-revert-is-identity")
	verif.Assert(o2 != nil, "revert-of-revert-accepted")
	if o2 == nil {
		return
	}
	R2 := R.Copy()
	err = Play(R2, o2)
	verif.Assert(err == nil, "rr-reverted-branch-readable")
	if err != nil {
		return
	}
	verif.Assert(u.same(R2, tst), "revert-of-revert-restores-tip")
	verif.Reach("reverted-twice")
	verif.Reach("end")
}

// verif:desc C15-O2 revert kernel of Branch.Revert: real NewPatch/PlayAction (as Store.PatchOfCommit) for a commit K over its parent's snapshot, later history L on top, Patch.Revert against the tip snapshot, commits.Play of the revert commit on the tip. Asserts: the revert commit replays (branch readable); objects added by K and still present are gone, objects deleted by K and still absent are back (with their metadata), everything else unchanged; Revert refuses only when there is nothing to revert; reverting the revert commit restores the tip.
// verif:bounds 3 data objects (fixed ids, symbolic Count), parent snapshot of K = any subset (8), K = one commit of 0..2 valid actions on distinct objects, L = 0..2 valid actions, all combinations; map iteration in insertion order
// verif:outside which snapshot Branch.Revert passes as tip (lake package), vectors, histories longer than 2, later history between the revert and the revert of the revert
func VerifH_C15_O2_revert() { vRevert(2, 2, false) }

// verif:desc C15-O2 (map order) same as VerifH_C15_O2_revert with Go map iteration order arbitrary
// verif:bounds 3 objects, K 0..2, L 0..1 actions, every map range of <= 4 entries in any order
// verif:outside as VerifH_C15_O2_revert
// verif:tier thorough
func VerifH_C15_O2_revert_maporder() { vRevert(2, 1, true) }

// verif:desc C15-O2 (deeper) same as VerifH_C15_O2_revert with K up to 3 and L up to 3 actions
// verif:bounds 3 objects, K 0..3, L 0..3 actions
// verif:outside as VerifH_C15_O2_revert
// verif:tier thorough
func VerifH_C15_O2_revert_deep() { vRevert(3, 3, false) }
