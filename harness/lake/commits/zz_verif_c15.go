//go:build verif

package commits

import (
	"context"
	"strconv"

	"github.com/brimdata/super"
	"github.com/brimdata/super/internal/verif"
	"github.com/brimdata/super/lake/data"
	"github.com/segmentio/ksuid"
)

// ---------------------------------------------------------------------------
// Shared model for the C13/C15 harnesses of this package.
//
// Universe: vNObj data objects with fixed, distinct ids and symbolic metadata
// (Count).  A branch history is a list of actions; since a commit can only
// add an object that is absent and delete one that is present (every other
// action makes the branch unreadable and is refused when the commit is built),
// the only valid action on object i in a given state is "toggle i".  A history
// is therefore a list of object indexes, and the model state is a bit set.
// ---------------------------------------------------------------------------

const vNObj = 3

type vSet [vNObj]bool

type vUniverse struct {
	ids  [vNObj]ksuid.KSUID
	objs [vNObj]*data.Object

	arbitraryOrder bool // map-order harnesses: see revertOnce
}

// vCounterRand makes ksuid.New deterministic and collision free (public
// ksuid.SetRand API): commit ids are the environment, not the subject.
type vCounterRand struct{ n *byte }

func (r vCounterRand) Read(p []byte) (int, error) {
	*r.n++
	for i := range p {
		p[i] = 0xC0
	}
	if len(p) > 0 {
		p[len(p)-1] = *r.n
	}
	return len(p), nil
}

func vNewUniverse() *vUniverse {
	ksuid.SetRand(vCounterRand{n: new(byte)})
	u := &vUniverse{}
	for i := 0; i < vNObj; i++ {
		u.ids[i][0] = 0x10
		u.ids[i][19] = byte(i + 1)
		u.objs[i] = &data.Object{ID: u.ids[i], Min: zed.Null, Max: zed.Null, Count: verif.Uint64("count" + strconv.Itoa(i))}
	}
	return u
}

// vSymSet returns an arbitrary subset of the universe (one path per subset:
// snapshots are concrete shapes, so a symbolic membership bit would be forked
// at the first map operation anyway).
func vSymSet(name string) vSet {
	var s vSet
	b := verif.Choose(name, 1<<vNObj)
	for i := range s {
		s[i] = b&(1<<i) != 0
	}
	return s
}

// snap builds the real snapshot holding exactly the objects of st.
func (u *vUniverse) snap(st vSet) *Snapshot {
	s := NewSnapshot()
	for i, in := range st {
		if in {
			if err := s.AddDataObject(u.objs[i]); err != nil {
				panic("verif: model snapshot construction failed")
			}
		}
	}
	return s
}

// toggle returns the one valid action on object i in state st and applies it
// to the model state.
func (u *vUniverse) toggle(st *vSet, i int) Action {
	if st[i] {
		st[i] = false
		return &Delete{ID: u.ids[i]}
	}
	st[i] = true
	return &Add{Object: *u.objs[i]}
}

// history returns 0..max valid actions starting in state *st (updated).
// With distinct set, no object is touched twice (the shape of a single commit
// object: every constructor in lake.Branch emits at most one action per
// data object).
func (u *vUniverse) history(name string, max int, st *vSet, distinct bool) []Action {
	n := verif.Choose(name+".n", max+1)
	var as []Action
	var used vSet
	for k := 0; k < n; k++ {
		i := verif.Choose(name+"["+strconv.Itoa(k)+"]", vNObj)
		verif.Assume(!(distinct && used[i]))
		used[i] = true
		as = append(as, u.toggle(st, i))
	}
	return as
}

// same: the real snapshot holds exactly the objects of st, each with the
// metadata of the universe's object of that id, and nothing else.
func (u *vUniverse) same(s *Snapshot, st vSet) bool {
	n := 0
	for i, in := range st {
		o, err := s.Lookup(u.ids[i])
		if (err == nil) != in {
			return false
		}
		if in {
			n++
			if o == nil || o.ID != u.ids[i] || o.Count != u.objs[i].Count {
				return false
			}
		}
	}
	return len(s.objects) == n && len(s.SelectAll()) == n
}

func vPlayAll(w Writeable, as []Action) error {
	for _, a := range as {
		if err := PlayAction(w, a); err != nil {
			return err
		}
	}
	return nil
}

// ---------------------------------------------------------------------------
// C15-O1 merge
// ---------------------------------------------------------------------------

func vMerge(maxP, maxC int, arbitraryOrder bool) {
	u := vNewUniverse()
	base := vSymSet("base")
	B := u.snap(base)
	pst, cst := base, base
	P := u.history("P", maxP, &pst, false)
	C := u.history("C", maxC, &cst, false)

	// The parent's tip is the real fold of its history over the base.
	T := B.Copy()
	verif.Assert(vPlayAll(T, P) == nil, "valid-history-replays")
	verif.Assert(u.same(T, pst), "fold-matches-model")

	// What Branch.buildMergeObject does: two patches over the common
	// ancestor's snapshot (Store.PatchOfPath = NewPatch + PlayAction), Diff,
	// NewCommitObject on the parent's tip.
	parentPatch, childPatch := NewPatch(B), NewPatch(B)
	if vPlayAll(childPatch, C) != nil || vPlayAll(parentPatch, P) != nil {
		// PatchOfPath fails: the merge is refused with an error.
		verif.Reach("patch-refused")
		verif.Assert(u.same(T, pst) && u.same(B, base), "refused-merge-leaves-parent-untouched")
		return
	}
	// Go map iteration order (Patch.SelectAll in Diff, diff.objects in
	// NewCommitObject) is arbitrary in the map-order harness.
	verif.ArbitraryMapOrder(arbitraryOrder)
	diff, err := Diff(parentPatch, childPatch)
	if err != nil {
		verif.ArbitraryMapOrder(false)
		verif.Reach("diff-refused")
		verif.Assert(u.same(T, pst) && u.same(B, base), "refused-merge-leaves-parent-untouched")
		return
	}
	var tipID ksuid.KSUID
	tipID[0] = 0x77
	o := diff.NewCommitObject(tipID, 0, "author", "message", zed.Null)
	verif.ArbitraryMapOrder(false)
	verif.Assert(o.Parent == tipID && len(o.Actions) >= 2, "merge-commit-shape")

	// The merge commit becomes the parent's new tip: reading the branch is
	// replaying it on the tip snapshot (Store.Snapshot).
	R := T.Copy()
	err = Play(R, o)
	bothDelete := false
	for i := range base {
		if base[i] && !pst[i] && !cst[i] {
			bothDelete = true
		}
	}
	if bothDelete {
		verif.Reach("both-sides-delete")
		verif.Assert(err == nil, "merged-branch-readable/both-sides-delete-same-object")
	} else {
		verif.Assert(err == nil, "merged-branch-readable")
	}
	if err != nil {
		return
	}
	// parent := parent + (child - base) - (base - child)
	var want vSet
	for i := range want {
		want[i] = (pst[i] || (cst[i] && !base[i])) && !(base[i] && !cst[i])
	}
	verif.Assert(u.same(R, want), "merge-result")
	verif.Assert(u.same(T, pst) && u.same(B, base), "merge-does-not-mutate-inputs")
	verif.Reach("merged")
	verif.Reach("end")
}

// verif:desc C15-O1 merge kernel of Branch.buildMergeObject: real commits.NewPatch/PlayAction (as Store.PatchOfPath), commits.Diff, Patch.NewCommitObject, commits.Play on the parent's tip snapshot. Asserts: a merge that is not refused yields a commit that replays on the parent's tip (branch stays readable) and the result is tip + (child adds since base) - (child deletes since base), object metadata included; a refused merge leaves tip and base untouched.
// verif:bounds 3 data objects (fixed ids, symbolic Count), base = any subset (8), parent history 0..2 and child history 0..2 valid add/delete actions (each action = any object; kind determined by presence), all 8*13*13 combinations; map iteration in insertion order
// verif:outside vectors (Diff ignores them), common-ancestor computation and commit retry loop in lake.Branch, histories longer than 2, more than 3 objects, serialization of the commit object
func VerifH_C15_O1_merge() { vMerge(2, 2, false) }

// verif:desc C15-O1 (map order) same as VerifH_C15_O1_merge with Go map iteration order of the snapshots (Patch.SelectAll in Diff, diff.objects in NewCommitObject) arbitrary
// verif:bounds 3 objects, base any subset, parent 0..1 and child 0..2 actions, every map range inside Diff/NewCommitObject (Patch.Revert) in any order
// verif:outside as VerifH_C15_O1_merge
// verif:tier thorough
func VerifH_C15_O1_merge_maporder() { vMerge(1, 2, true) }

// verif:desc C15-O1 (deeper) same as VerifH_C15_O1_merge with histories up to 3+3
// verif:bounds 3 objects, base any subset, parent 0..3 and child 0..3 actions (8*40*40 combinations)
// verif:outside as VerifH_C15_O1_merge
// verif:tier thorough
func VerifH_C15_O1_merge_deep() { vMerge(3, 3, false) }

// ---------------------------------------------------------------------------
// C15-O2 revert
// ---------------------------------------------------------------------------

// vRevertOnce does what Branch.Revert's constructor does for commit K whose
// parent snapshot is before and whose actions are K, against tip (model
// tipSt): Store.PatchOfCommit (NewPatch(parent snapshot) + PlayAction), then
// Patch.Revert(tip, ...).  It returns the revert commit object (nil if
// refused) and the expected contents after the revert.
func (u *vUniverse) revertOnce(before *Snapshot, beforeSt vSet, K []Action, afterSt vSet, tip *Snapshot, tipSt vSet, tipID ksuid.KSUID, tag string) (*Object, vSet) {
	// expected: added by K and still present -> gone; deleted by K and still
	// absent -> back; everything else unchanged.
	want := tipSt
	changes := false
	for i := range want {
		added := !beforeSt[i] && afterSt[i]
		deleted := beforeSt[i] && !afterSt[i]
		if added && tipSt[i] {
			want[i] = false
			changes = true
		}
		if deleted && !tipSt[i] {
			want[i] = true
			changes = true
		}
	}
	patch := NewPatch(before)
	if err := vPlayAll(patch, K); err != nil {
		// PatchOfCommit fails => Branch.Revert reports "commit not found".
		// A readable commit's actions replayed on its own parent snapshot...
		verif.Reach(tag + "patch-refused")
		verif.Assert(!changes, tag+"revert-refused-only-when-nothing-to-revert")
		return nil, want
	}
	var commitID ksuid.KSUID
	commitID[0] = 0x55
	verif.ArbitraryMapOrder(u.arbitraryOrder) // range over the patch's diff in Revert
	o, err := patch.Revert(tip, commitID, tipID, 0, "author", "message")
	verif.ArbitraryMapOrder(false)
	if err != nil {
		verif.Reach(tag + "revert-refused")
		verif.Assert(o == nil, tag+"revert-error-has-no-object")
		verif.Assert(!changes, tag+"revert-refused-only-when-nothing-to-revert")
		return nil, want
	}
	verif.Assert(o != nil && o.Parent == tipID && len(o.Actions) >= 2, tag+"revert-commit-shape")
	verif.Assert(changes, tag+"revert-commit-not-empty")
	return o, want
}

func vRevert(maxK, maxL int, arbitraryOrder bool) {
	u := vNewUniverse()
	base := vSymSet("base")
	B := u.snap(base)
	kst := base
	K := u.history("K", maxK, &kst, true)
	tst := kst
	L := u.history("L", maxL, &tst, false)
	u.arbitraryOrder = arbitraryOrder

	T := B.Copy()
	verif.Assert(vPlayAll(T, K) == nil && vPlayAll(T, L) == nil, "valid-history-replays")
	verif.Assert(u.same(T, tst), "fold-matches-model")

	var tipID ksuid.KSUID
	tipID[0] = 0x77
	o, want := u.revertOnce(B, base, K, kst, T, tst, tipID, "")
	if o == nil {
		verif.Assert(u.same(T, tst) && u.same(B, base), "refused-revert-leaves-branch-untouched")
		return
	}
	R := T.Copy()
	err := Play(R, o)
	verif.Assert(err == nil, "reverted-branch-readable")
	if err != nil {
		return
	}
	verif.Assert(u.same(R, want), "revert-result")
	verif.Assert(u.same(T, tst) && u.same(B, base), "revert-does-not-mutate-inputs")
	verif.Reach("reverted")

	// Revert of the revert: the revert commit o has parent snapshot T and
	// produces R; the tip is R.
	o2, want2 := u.revertOnce(T, tst, o.Actions, want, R, want, o.Commit, "rr-")
	verif.Assert(want2 == tst, "model-revert-of-revert-is-identity")
	verif.Assert(o2 != nil, "revert-of-revert-accepted")
	if o2 == nil {
		return
	}
	R2 := R.Copy()
	err = Play(R2, o2)
	verif.Assert(err == nil, "rr-reverted-branch-readable")
	if err != nil {
		return
	}
	verif.Assert(u.same(R2, tst), "revert-of-revert-restores-tip")
	verif.Reach("reverted-twice")
	verif.Reach("end")
}

// verif:desc C15-O2 revert kernel of Branch.Revert: real NewPatch/PlayAction (as Store.PatchOfCommit) for a commit K over its parent's snapshot, later history L on top, Patch.Revert against the tip snapshot, commits.Play of the revert commit on the tip. Asserts: the revert commit replays (branch readable); objects added by K and still present are gone, objects deleted by K and still absent are back (with their metadata), everything else unchanged; Revert refuses only when there is nothing to revert; reverting the revert commit restores the tip.
// verif:bounds 3 data objects (fixed ids, symbolic Count), parent snapshot of K = any subset (8), K = one commit of 0..2 valid actions on distinct objects, L = 0..2 valid actions, all combinations; map iteration in insertion order
// verif:outside which snapshot Branch.Revert passes as tip (lake package), vectors, histories longer than 2, later history between the revert and the revert of the revert
func VerifH_C15_O2_revert() { vRevert(2, 2, false) }

// verif:desc C15-O2 (map order) same as VerifH_C15_O2_revert with Go map iteration order arbitrary
// verif:bounds 3 objects, K 0..2, L 0..1 actions, every map range inside Diff/NewCommitObject (Patch.Revert) in any order
// verif:outside as VerifH_C15_O2_revert
// verif:tier thorough
func VerifH_C15_O2_revert_maporder() { vRevert(2, 1, true) }

// verif:desc C15-O2 (deeper) same as VerifH_C15_O2_revert with K up to 3 and L up to 3 actions
// verif:bounds 3 objects, K 0..3, L 0..3 actions
// verif:outside as VerifH_C15_O2_revert
// verif:tier thorough
func VerifH_C15_O2_revert_deep() { vRevert(3, 3, false) }

// ---------------------------------------------------------------------------
// C15-O3 merge and revert through the Store's path plumbing
// ---------------------------------------------------------------------------

// vTree is a commit tree held in the store's object cache: a trunk ending in
// the common ancestor, then a parent branch and a child branch.
type vTree struct {
	u      *vUniverse
	s      *Store
	next   int
	states map[ksuid.KSUID]vSet
	paths  map[ksuid.KSUID][]ksuid.KSUID // leaf-to-root
}

// commit appends a commit with the given toggles after parent.
func (t *vTree) commit(parent ksuid.KSUID, toggles []int) ksuid.KSUID {
	id := vCommitID(t.next)
	t.next++
	st := t.states[parent] // zero set for ksuid.Nil
	o := &Object{Commit: id, Parent: parent}
	o.append(&Commit{ID: id, Parent: parent, Author: "a", Message: "m"})
	for _, i := range toggles {
		o.append(t.u.toggle(&st, i))
	}
	t.s.cache.Add(id, o)
	t.states[id] = st
	t.paths[id] = append([]ksuid.KSUID{id}, t.paths[parent]...)
	return id
}

// branch appends 0..max commits of one action each and returns the tip.
func (t *vTree) branch(name string, from ksuid.KSUID, max int) ksuid.KSUID {
	n := verif.Choose(name+".n", max+1)
	tip := from
	for k := 0; k < n; k++ {
		tip = t.commit(tip, []int{verif.Choose(name+"["+strconv.Itoa(k)+"]", vNObj)})
	}
	return tip
}

func vSamePath(a, b []ksuid.KSUID) bool {
	if len(a) != len(b) {
		return false
	}
	for i := range a {
		if a[i] != b[i] {
			return false
		}
	}
	return true
}

// vCommonAncestor is lake.commonAncestor (transcribed; package lake is not
// loaded by this harness).
func vCommonAncestor(a, b []ksuid.KSUID) ksuid.KSUID {
	m := make(map[ksuid.KSUID]struct{})
	for _, id := range a {
		m[id] = struct{}{}
	}
	for _, id := range b {
		if _, ok := m[id]; ok {
			return id
		}
	}
	return ksuid.Nil
}

func vStoreMerge(maxP, maxC int) {
	u := vNewUniverse()
	s := vNewStore(&vEngine{})
	ctx := context.Background()
	t := &vTree{u: u, s: s, states: map[ksuid.KSUID]vSet{}, paths: map[ksuid.KSUID][]ksuid.KSUID{}}
	// trunk: an optional empty first commit, then a commit adding any subset.
	root := ksuid.Nil
	if verif.Choose("trunk2", 2) == 1 {
		root = t.commit(root, nil)
	}
	var adds []int
	for i, in := range vSymSet("base") {
		if in {
			adds = append(adds, i)
		}
	}
	baseID := t.commit(root, adds)
	base := t.states[baseID]
	parentTip := t.branch("P", baseID, maxP)
	childTip := t.branch("C", baseID, maxC)
	pst, cst := t.states[parentTip], t.states[childTip]

	// Branch.buildMergeObject, statement by statement, on the real Store.
	childPath, err := s.Path(ctx, childTip)
	verif.Assert(err == nil && vSamePath(childPath, t.paths[childTip]), "path-is-leaf-to-root")
	parentPath, err := s.Path(ctx, parentTip)
	verif.Assert(err == nil && vSamePath(parentPath, t.paths[parentTip]), "path-is-leaf-to-root")
	anc := vCommonAncestor(parentPath, childPath)
	verif.Assert(anc == baseID, "common-ancestor")
	baseSnap, err := s.Snapshot(ctx, anc)
	verif.Assert(err == nil && baseSnap != nil && u.same(baseSnap, base), "snapshot-is-fold-of-its-chain")
	if err != nil || baseSnap == nil {
		return
	}
	childPatch, err1 := s.PatchOfPath(ctx, baseSnap, anc, childTip)
	parentPatch, err2 := s.PatchOfPath(ctx, baseSnap, anc, parentTip)
	var o *Object
	if err1 == nil && err2 == nil {
		var diff *Patch
		if diff, err = Diff(parentPatch, childPatch); err == nil {
			o = diff.NewCommitObject(parentTip, 0, "author", "message", zed.Null)
		}
	}
	if o == nil {
		verif.Reach("merge-refused")
	} else {
		// Branch.commit: the object is stored and becomes the parent's tip;
		// reading the parent branch is Store.Snapshot of it.
		verif.Assert(o.Parent == parentTip, "merge-commit-parent-is-tip")
		s.cache.Add(o.Commit, o)
		merged, err := s.Snapshot(ctx, o.Commit)
		bothDelete := false
		for i := range base {
			if base[i] && !pst[i] && !cst[i] {
				bothDelete = true
			}
		}
		if bothDelete {
			verif.Assert(err == nil, "merged-branch-readable/both-sides-delete-same-object")
		} else {
			verif.Assert(err == nil, "merged-branch-readable")
		}
		if err == nil {
			var want vSet
			for i := range want {
				want[i] = (pst[i] || (cst[i] && !base[i])) && !(base[i] && !cst[i])
			}
			verif.Assert(merged != nil && u.same(merged, want), "merge-result")
			verif.Reach("merged")
		}
	}
	// Successful or not: every pre-existing commit reads as before (C13) and
	// both branches remain readable.
	for id, st := range map[ksuid.KSUID]vSet{baseID: base, parentTip: pst, childTip: cst} {
		snap, err := s.Snapshot(ctx, id)
		verif.Assert(err == nil && snap != nil && u.same(snap, st), "existing-commits-unchanged")
	}
	verif.Reach("end")
}

// verif:desc C15-O3 merge through the store plumbing: commit tree (trunk, parent branch, child branch) in the real Store object cache; real Store.Path, Store.PathRange (cold and via the paths LRU), Store.Snapshot, Store.PatchOfPath, Diff, NewCommitObject in the order of Branch.buildMergeObject; the merge commit is added as new parent tip and read back with Store.Snapshot. Asserts: paths are leaf-to-root, ancestor snapshot is the fold, a merge that is not refused reads back as tip + child adds - child deletes, and base/parent/child commits read as before.
// verif:bounds 3 objects, trunk = optional empty commit + commit adding any subset (8), parent 0..1 and child 0..2 commits of one valid action each; model storage without failures
// verif:outside the body of lake.Branch.buildMergeObject/commonAncestor themselves (transcribed in the harness), Branch.commit retry loop and branch pointer update, vectors, storage failures, repeated merges
func VerifH_C15_O3_store_merge() { vStoreMerge(1, 2) }

// verif:desc C15-O3 (deeper) same as VerifH_C15_O3_store_merge with parent 0..2 and child 0..2 commits
// verif:bounds 3 objects, trunk as in the quick harness, parent 0..2 and child 0..2 commits of one action
// verif:outside as VerifH_C15_O3_store_merge
// verif:tier thorough
func VerifH_C15_O3_store_merge_deep() { vStoreMerge(2, 2) }

func vStoreRevert(maxN, maxAct int) {
	u := vNewUniverse()
	s := vNewStore(&vEngine{})
	ctx := context.Background()
	c := u.chain(s, maxN, maxAct)
	k := verif.Choose("revert", c.n) // the commit to revert: any commit of the branch
	tipID := c.ids[c.n-1]
	tst := c.states[c.n-1]
	var before vState
	if k > 0 {
		before = c.states[k-1]
	}
	after := c.states[k]

	// Branch.Revert's constructor on the real Store.
	patch, err := s.PatchOfCommit(ctx, c.ids[k])
	verif.Assert(err == nil && patch != nil, "patch-of-readable-commit")
	if err != nil || patch == nil {
		return
	}
	tip, err := s.Snapshot(ctx, tipID)
	verif.Assert(err == nil && tip != nil && u.sameState(tip, tst), "snapshot-is-fold-of-its-chain")
	if err != nil || tip == nil {
		return
	}
	want := tst
	changes := false
	for i := range want.objs {
		if !before.objs[i] && after.objs[i] && tst.objs[i] {
			want.objs[i] = false
			changes = true
		}
		if before.objs[i] && !after.objs[i] && !tst.objs[i] {
			want.objs[i] = true
			changes = true
		}
	}
	var commitID ksuid.KSUID
	commitID[0] = 0x55
	o, err := patch.Revert(tip, commitID, tipID, 0, "author", "message")
	if err != nil {
		verif.Reach("revert-refused")
		verif.Assert(!changes, "revert-refused-only-when-nothing-to-revert")
	} else {
		verif.Assert(o != nil && o.Parent == tipID, "revert-commit-parent-is-tip")
		s.cache.Add(o.Commit, o)
		r, err := s.Snapshot(ctx, o.Commit)
		verif.Assert(err == nil && r != nil, "reverted-branch-readable")
		if err == nil && r != nil {
			// data objects as the property states; vectors are not touched
			// by Patch.Revert (outside).
			verif.Assert(u.same(r, want.objs), "revert-result")
			verif.Reach("reverted")
		}
	}
	for j := 0; j < c.n; j++ {
		snap, err := s.Snapshot(ctx, c.ids[j])
		verif.Assert(err == nil && snap != nil && u.sameState(snap, c.states[j]), "existing-commits-unchanged")
	}
	verif.Reach("end")
}

// verif:desc C15-O3 revert through the store plumbing: chain of commits in the real Store object cache; real Store.PatchOfCommit (Store.Path, parent = path[1], empty base for the first commit), Store.Snapshot of the tip, Patch.Revert, the revert commit added as new tip and read back with Store.Snapshot. Asserts: objects added by the reverted commit and still present are gone, objects it deleted and still absent are back, others unchanged; refusal only when nothing to revert; all earlier commits read as before.
// verif:bounds chain of 1..3 commits each with 0..1 valid action over 3 objects + 1 vector, revert of any commit of the chain at the tip; model storage without failures
// verif:outside the body of lake.Branch.Revert itself (transcribed), vectors of reverted objects, commits that are not on the branch, storage failures
func VerifH_C15_O3_store_revert() { vStoreRevert(3, 1) }

// verif:desc C15-O3 (deeper) same as VerifH_C15_O3_store_revert with up to 2 actions per commit
// verif:bounds chain of 1..2 commits each 0..2 valid actions on distinct slots over 3 objects + 1 vector, revert of any commit at the tip
// verif:outside as VerifH_C15_O3_store_revert
// verif:tier thorough
func VerifH_C15_O3_store_revert_deep() { vStoreRevert(2, 2) }
