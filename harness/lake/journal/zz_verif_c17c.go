//go:build verif

package journal

// C17 on object-store semantics: Queue.CommitAt's fallback for engines whose
// PutIfNotExists reports storage.ErrNotSupported (storage.S3Engine): the
// entry is written with a plain Put and then HEAD is advanced.  What keeps
// the journal usable is the ORDER: the entry's writer is closed (the object
// is durable and visible) before HEAD names it, and a failed Close is
// returned instead of advancing HEAD.

import (
	"bytes"
	"context"
	"fmt"
	"io"
	"io/fs"
	"strings"

	"github.com/brimdata/super/internal/verif"
	"github.com/brimdata/super/pkg/storage"
)

// vObjStore is a model storage.Engine with S3 semantics (pkg/storage/s3.go,
// pkg/s3io.Writer): PutIfNotExists is unsupported; a Put is an upload whose
// object becomes visible atomically when the writer is Closed -- nothing is
// visible before Close, and an upload whose Close fails or never happens
// leaves nothing behind (an earlier object under the same key is kept).
//
// Every successful Close is one numbered step.  Step failAt (1-based, 0 =
// never) does not happen and reports an error.  If transient is false the
// process is dead from there on (crash: every later mutation fails as
// well); if transient is true only this one upload fails (S3 request error)
// and the process carries on.
type vObjStore struct {
	objects   map[string][]byte
	steps     int
	failAt    int
	transient bool
	crashed   bool   // dead process
	failed    bool   // step failAt was reached
	failOp    string // the step that was cut off
}

var _ storage.Engine = (*vObjStore)(nil)

func vNewObjStore() *vObjStore {
	return &vObjStore{objects: map[string][]byte{}}
}

func (e *vObjStore) step(op string) bool {
	if e.crashed {
		return false
	}
	e.steps++
	if e.steps == e.failAt {
		e.failed = true
		e.failOp = op
		if !e.transient {
			e.crashed = true
		}
		return false
	}
	return true
}

func (e *vObjStore) reboot() {
	e.crashed = false
	e.failAt = 0
}

func (e *vObjStore) Get(_ context.Context, u *storage.URI) (storage.Reader, error) {
	b, ok := e.objects[u.Path]
	if !ok {
		return nil, fmt.Errorf("%s: %w", u.Path, fs.ErrNotExist)
	}
	return vReader{bytes.NewReader(b)}, nil
}

type vObjWriter struct {
	e      *vObjStore
	path   string
	base   string
	buf    []byte
	closed bool
}

func (w *vObjWriter) Write(p []byte) (int, error) {
	if w.closed || w.e.crashed {
		return 0, vErrCrash
	}
	// buffered in the upload; invisible until Close
	w.buf = append(w.buf, p...)
	return len(p), nil
}

func (w *vObjWriter) Close() error {
	if w.closed {
		return vErrCrash
	}
	w.closed = true
	if !w.e.step("put:" + w.base) {
		return vErrCrash
	}
	w.e.objects[w.path] = w.buf
	return nil
}

func (e *vObjStore) Put(_ context.Context, u *storage.URI) (io.WriteCloser, error) {
	if e.crashed {
		return nil, vErrCrash
	}
	return &vObjWriter{e: e, path: u.Path, base: vBase(u)}, nil
}

func (e *vObjStore) PutIfNotExists(context.Context, *storage.URI, []byte) error {
	return storage.ErrNotSupported
}

func (e *vObjStore) Delete(_ context.Context, u *storage.URI) error {
	if e.crashed {
		return vErrCrash
	}
	if !e.step("delete:" + vBase(u)) {
		return vErrCrash
	}
	delete(e.objects, u.Path)
	return nil
}

func (e *vObjStore) DeleteByPrefix(_ context.Context, u *storage.URI) error {
	if e.crashed {
		return vErrCrash
	}
	if !e.step("delete-prefix:" + vBase(u)) {
		return vErrCrash
	}
	for k := range e.objects {
		if strings.HasPrefix(k, u.Path) {
			delete(e.objects, k)
		}
	}
	return nil
}

func (e *vObjStore) Exists(_ context.Context, u *storage.URI) (bool, error) {
	_, ok := e.objects[u.Path]
	return ok, nil
}

func (e *vObjStore) Size(_ context.Context, u *storage.URI) (int64, error) {
	b, ok := e.objects[u.Path]
	if !ok {
		return 0, fmt.Errorf("%s: %w", u.Path, fs.ErrNotExist)
	}
	return int64(len(b)), nil
}

func (e *vObjStore) List(_ context.Context, u *storage.URI) ([]storage.Info, error) {
	var infos []storage.Info
	prefix := u.Path + "/"
	for k, b := range e.objects {
		if strings.HasPrefix(k, prefix) && !strings.Contains(k[len(prefix):], "/") {
			infos = append(infos, storage.Info{Name: k[len(prefix):], Size: int64(len(b))})
		}
	}
	return infos, nil
}

func (e *vObjStore) has(dir *storage.URI, name string) bool {
	_, ok := e.objects[dir.JoinPath(name).Path]
	return ok
}

// verif:desc C17-O5 journal.Create, Queue.Commit/CommitAt (the storage.ErrNotSupported fallback: plain Put of the entry, then HEAD), ReadHead/Open/Load/Reader over a model object store (PutIfNotExists unsupported; a Put is visible atomically at Close, nothing before): after h acknowledged commits one more Commit is cut at storage step k (crash: the process is dead from there on; or a transient failure of that one upload). On the surviving state a fresh Queue (a) opens, (b) HEAD never names a missing entry: every entry 1..HEAD loads, (c) earlier commits are intact, (d) the cut entry is visible entirely or not at all, (e) a commit is acknowledged iff no step failed, and an acknowledged one is visible, (f) one more Commit succeeds and is visible.
// verif:bounds h in 0..2 earlier commits; failing step k in 1..2 of the interrupted Commit (all its steps: entry upload Close, HEAD upload Close) or none; crash or transient failure; 3-byte entry bodies; one writer
// verif:outside concurrent writers on an object store (issue #2686, the fallback is documented as racy), crash inside journal.Create, multipart uploads that leave partial parts, eventual consistency of reads, double failures, TAIL movement
func VerifH_C17_O5_queue_crash_objectstore() {
	ctx := context.Background()
	eng := vNewObjStore()
	path := vJournalPath()
	q, err := Create(ctx, eng, path, Nil)
	verif.Assert(err == nil && q != nil, "create")
	h := verif.Choose("history", 3)
	var want []byte
	for i := 0; i < h; i++ {
		id, err := q.Commit(ctx, vPayload(i))
		verif.Assert(err == nil && id == ID(i+1), "setup-commit")
		want = append(want, vPayload(i)...)
	}
	verif.Assert(!eng.has(path, vEntryName(h+1)), "setup-next-slot-free")
	k := verif.Range("failAt", 0, 2)
	eng.transient = verif.Bool("transient")
	before := eng.steps
	if k > 0 {
		eng.failAt = before + k
	}
	id, err := q.Commit(ctx, vPayload(h))
	failed := eng.failed
	verif.Observe("step-failed", failed)
	verif.Observe("commit-failed", err != nil)
	if !failed {
		verif.Assert(err == nil && id == ID(h+1), "commit-without-failure")
		verif.Assert(eng.steps-before == 2, "fail-range-covers-all-steps")
		verif.Reach("no-failure")
	} else {
		// a failed entry upload or HEAD upload is never acknowledged
		verif.Assert(err != nil, "failed-commit-not-acknowledged")
		if strings.HasPrefix(eng.failOp, "put:HEAD") {
			verif.Reach("cut-at-head")
		} else {
			verif.Reach("cut-at-entry")
		}
	}
	acked := err == nil
	eng.reboot()

	// (a) a fresh handle opens
	q2, err := Open(ctx, eng, path)
	verif.Assert(err == nil, "reopens")
	if err != nil {
		return
	}
	// (b) HEAD never names an entry that does not exist
	head, err := q2.ReadHead(ctx)
	verif.Assert(err == nil, "head-readable")
	verif.Assert(int(head) == h || int(head) == h+1, "head-in-range")
	verif.Observe("head", int(head))
	for i := 1; i <= int(head) && i <= h+1; i++ {
		b, err := q2.Load(ctx, ID(i))
		verif.Assert(err == nil && bytes.Equal(b, vPayload(i-1)), "head-names-existing-entries")
	}
	// (c), (d), (e) contents
	got, err := vReadAll(ctx, q2)
	verif.Assert(err == nil, "readable")
	all := append(append([]byte(nil), want...), vPayload(h)...)
	verif.Assert(bytes.HasPrefix(got, want), "earlier-commits-intact")
	verif.Assert(bytes.Equal(got, want) || bytes.Equal(got, all), "all-or-nothing")
	if acked {
		verif.Assert(bytes.Equal(got, all), "acknowledged-visible")
	}
	seen := len(got) / 3
	verif.Observe("entries-visible", seen)
	// (f) one more commit succeeds and is visible
	entryLanded := eng.has(path, vEntryName(h+1))
	id2, err := q2.Commit(ctx, vPayload(3))
	if entryLanded && !bytes.Equal(got, all) {
		// entry h+1 was uploaded but HEAD still says h
		verif.Reach("head-lags")
		verif.Assert(err == nil && int(id2) == seen+1, "next-commit/head-lags")
	} else {
		verif.Assert(err == nil && int(id2) == seen+1, "next-commit")
	}
	if err != nil {
		return
	}
	got2, err := vReadAll(ctx, q2)
	verif.Assert(err == nil, "readable-after-next")
	ok := len(got2) == 3*(seen+1) && bytes.HasPrefix(got2, got) && bytes.HasSuffix(got2, vPayload(3))
	if entryLanded && !bytes.Equal(got, all) {
		verif.Assert(ok, "next-commit-visible/head-lags")
	} else {
		verif.Assert(ok, "next-commit-visible")
	}
	verif.Reach("end")
}
