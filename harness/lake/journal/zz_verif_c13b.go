//go:build verif

package journal

import (
	"context"

	"github.com/brimdata/super/internal/verif"
	"go.uber.org/zap"
)

// ---------------------------------------------------------------------------
// C13-O4: a commit acknowledged through one handle is seen by every read that
// starts afterwards through another handle.
//
// The name tables of the lake (pools, branches -> tip commit) are
// journal.Stores; a reader resolves a name to a commit through one of the
// Store's read APIs.  Two handles = two processes (or two service instances)
// with their own in-memory tables over one storage.
// ---------------------------------------------------------------------------

// v13bEntry is a minimal journal entry (as branches.Config: a key and a value
// that updates replace).
type v13bEntry struct {
	Name string `zed:"name"`
	Val  uint64 `zed:"val"`
}

func (e *v13bEntry) Key() string { return e.Name }

var v13bKeys = [3]string{"a", "b", "c"}

// v13bTable is the sequential model of the table.
type v13bTable struct {
	in  [3]bool
	val [3]uint64
}

func v13bKeyIndex(k string) int {
	for i, s := range v13bKeys {
		if s == k {
			return i
		}
	}
	return -1
}

func v13bOpenStore(ctx context.Context, eng *vEngine) *Store {
	s, err := OpenStore(ctx, eng, zap.NewNop(), vJournalPath(), v13bEntry{})
	verif.Assert(err == nil && s != nil, "open-store")
	return s
}

func v13bMatches(t *v13bTable, e interface{}, seen *[3]bool) bool {
	p, ok := e.(*v13bEntry)
	if !ok || p == nil {
		return false
	}
	i := v13bKeyIndex(p.Name)
	if i < 0 || !t.in[i] || seen[i] || p.Val != t.val[i] {
		return false
	}
	seen[i] = true
	return true
}

func (t *v13bTable) size() int {
	n := 0
	for _, in := range t.in {
		if in {
			n++
		}
	}
	return n
}

const (
	v13bAll = iota
	v13bValues
	v13bKeysAPI
	v13bLookup
	v13bNAPI
)

// v13bRead performs one read API on s and reports whether it returned exactly
// the model table (for Lookup: the right answer for key k).
func v13bRead(ctx context.Context, s *Store, api int, k int, t *v13bTable) bool {
	var seen [3]bool
	switch api {
	case v13bAll:
		es, err := s.All(ctx)
		if err != nil || len(es) != t.size() {
			return false
		}
		for _, e := range es {
			if !v13bMatches(t, e, &seen) {
				return false
			}
		}
		return true
	case v13bValues:
		vs, err := s.Values(ctx)
		if err != nil || len(vs) != t.size() {
			return false
		}
		for _, v := range vs {
			if !v13bMatches(t, v, &seen) {
				return false
			}
		}
		return true
	case v13bKeysAPI:
		ks, err := s.Keys(ctx, "")
		if err != nil || len(ks) != t.size() {
			return false
		}
		for _, key := range ks {
			i := v13bKeyIndex(key)
			if i < 0 || !t.in[i] || seen[i] {
				return false
			}
			seen[i] = true
		}
		return true
	}
	e, err := s.Lookup(ctx, v13bKeys[k])
	if !t.in[k] {
		return e == nil && err == ErrNoSuchKey
	}
	if err != nil || e == nil {
		return false
	}
	p, ok := e.(*v13bEntry)
	return ok && p != nil && p.Name == v13bKeys[k] && p.Val == t.val[k]
}

var v13bAPIName = [v13bNAPI]string{"all", "values", "keys", "lookup"}

// v13bCheckHandle: the first read after the acknowledgement is API first
// (Lookup: of key firstKey); then every API and key.  Only the first read is
// decisive for a warm handle - any reloading read refreshes the table for the
// later ones - so the first read is what the harness varies.
//
// Store.Lookup has a one-second window in which a key found in the cached
// table is answered from it without looking at storage (Store.stale).  That
// region (first read = Lookup of a key of the cached table) is checked by the
// window harness only, under its own assertion id; the main harness skips that
// one read and the window harness skips all other first reads.
func v13bCheckHandle(ctx context.Context, s *Store, who string, first, firstKey int, t *v13bTable, cachedBefore *v13bTable, window bool) {
	inWindow := first == v13bLookup && cachedBefore != nil && cachedBefore.in[firstKey]
	switch {
	case inWindow && window:
		verif.Reach(who + "-lookup-of-cached-key")
		verif.Assert(v13bRead(ctx, s, v13bLookup, firstKey, t), who+"-lookup-sees-acknowledged-commit/staleness-window")
	case inWindow || window:
		// not this harness's region
	case first == v13bLookup:
		verif.Reach(who + "-lookup-of-uncached-key")
		verif.Assert(v13bRead(ctx, s, v13bLookup, firstKey, t), who+"-lookup-sees-acknowledged-commit")
	default:
		verif.Assert(v13bRead(ctx, s, first, 0, t), who+"-"+v13bAPIName[first]+"-sees-acknowledged-commit")
	}
	// later reads (the first of them reloads the table)
	for api := 0; api < v13bLookup; api++ {
		verif.Assert(v13bRead(ctx, s, api, 0, t), who+"-"+v13bAPIName[api]+"-sees-acknowledged-commit")
	}
	for k := range v13bKeys {
		verif.Assert(v13bRead(ctx, s, v13bLookup, k, t), who+"-lookup-after-reload-sees-acknowledged-commit")
	}
}

func v13bVisible(rounds int, window bool) {
	ctx := context.Background()
	eng := vNewEngine(false)
	setup, err := CreateStore(ctx, eng, zap.NewNop(), vJournalPath(), v13bEntry{})
	verif.Assert(err == nil && setup != nil, "create-store")
	if err != nil || setup == nil {
		return
	}
	var t v13bTable
	// earlier history: nothing, or key a (and b)
	hist := verif.Choose("history", 3)
	if window || rounds > 1 {
		verif.Assume(hist > 0) // the window needs a key that is already cached
	}
	for i := 0; i < hist; i++ {
		v := verif.Uint64("v" + v13bKeys[i])
		verif.Assert(setup.Insert(ctx, &v13bEntry{Name: v13bKeys[i], Val: v}) == nil, "setup-insert")
		t.in[i], t.val[i] = true, v
	}
	a, b := v13bOpenStore(ctx, eng), v13bOpenStore(ctx, eng)
	if a == nil || b == nil {
		return
	}
	// A is a reader that may have looked at the table before (warm cache).
	var cachedA *v13bTable
	nWarm := v13bNAPI + 1
	if rounds > 1 {
		nWarm = 2 // cold, or warmed by All
	}
	if warm := verif.Choose("warmA", nWarm); warm > 0 {
		verif.Assert(v13bRead(ctx, a, warm-1, 0, &t), "read-before-commit")
		c := t
		cachedA = &c
	}
	var cachedB *v13bTable
	if rounds > 1 || verif.Choose("warmB", 2) == 1 {
		verif.Assert(v13bRead(ctx, b, v13bAll, 0, &t), "read-before-commit")
		c := t
		cachedB = &c
	}
	for r := 0; r < rounds; r++ {
		// B commits one change.
		nv := verif.Uint64("new")
		before := t
		var opErr error
		valid := false
		switch verif.Choose("op", 4) {
		case 0: // insert c
			valid = !t.in[2]
			opErr = b.Insert(ctx, &v13bEntry{Name: "c", Val: nv})
			if valid {
				t.in[2], t.val[2] = true, nv
			}
		case 1: // update a (as Branch.commit moves a branch tip)
			valid = t.in[0]
			opErr = b.Update(ctx, &v13bEntry{Name: "a", Val: nv}, nil)
			if valid {
				t.val[0] = nv
			}
		case 2: // delete a
			valid = t.in[0]
			opErr = b.Delete(ctx, "a", nil)
			if valid {
				t.in[0] = false
			}
		case 3: // rename a -> c
			valid = t.in[0] && !t.in[2]
			opErr = b.Move(ctx, "a", &v13bEntry{Name: "c", Val: nv})
			if valid {
				t.in[0] = false
				t.in[2], t.val[2] = true, nv
			}
		}
		verif.Assert((opErr == nil) == valid, "acknowledged-iff-valid")
		if opErr != nil {
			t = before
			verif.Reach("refused")
		} else {
			verif.Reach("acknowledged")
		}
		// B's own handle was (re)loaded by the commit: its cached table is the
		// pre-commit one.
		cb := before
		cachedB = &cb
		// Reads that start now.
		first, firstKey := v13bLookup, 0
		if !window {
			first = verif.Choose("first", v13bNAPI)
		}
		if first == v13bLookup {
			firstKey = verif.Choose("firstKey", 3)
		}
		v13bCheckHandle(ctx, a, "other-handle", first, firstKey, &t, cachedA, window)
		v13bCheckHandle(ctx, b, "own-handle", first, firstKey, &t, cachedB, window)
		ca := t
		cachedA = &ca
		cachedB = &ca
	}
	// and a handle opened afterwards
	c := v13bOpenStore(ctx, eng)
	if c != nil {
		v13bCheckHandle(ctx, c, "fresh-handle", v13bLookup, 0, &t, nil, false)
	}
	verif.Reach("end")
}

// verif:desc C13-O4 acknowledged commit visible to other handles: two journal.Store handles A and B (real OpenStore, own in-memory tables) over one model storage, entries of a harness-defined Entry type written with the real Insert/Update/Delete/Move (Add/Update/Delete journal entries through the real serialiser, Queue.CommitAt) and read back through the real Store.load. A may have read the table before (All/Values/Keys/Lookup); B commits one change and is acknowledged; the next read through A, through B, and through a handle opened afterwards - All, Values, Keys, Lookup of each key, each of them as the first read after the acknowledgement - returns exactly the committed table (keys and values). A refused change (ErrKeyExists/ErrNoSuchKey) is not acknowledged and changes nothing. Not covered here: a first read that is a Lookup of a key present in the handle's cached table (see VerifH_C13_O4b_lookup_staleness_window).
// verif:bounds 3 keys, symbolic uint64 values; earlier history 0..2 inserts; A warm by any of the 4 read APIs or cold, B warm or cold; 1 change by B out of insert c / update a / delete a / rename a->c (valid or not); first read after the acknowledgement = any API (Lookup: any key); operations issued in quick succession (the engine's clock does not advance; natively they take microseconds); atomic-put storage
// verif:outside journal snapshot files (written after > 10 entries), reads concurrent with the commit (C12), storage failures (C17), clock advancing by more than a second between the operations, the serialised form of entries (marshal token model; real marshaler in the native replay)
func VerifH_C13_O4_acknowledged_commit_visible_to_other_handle() { v13bVisible(1, false) }

// NOT AN OBLIGATION.  journal.Store.Lookup skips reloading for one second after
// the last load (Store.stale), so a Lookup of a cached key right after another
// handle's acknowledged Update/Delete returns the old entry.  Lookup has no
// caller in /repo (branches.Store and pools.Store resolve names through All(),
// which always reloads; VerifH_C13_O5 covers that), so the window is not
// observable by any query and asserting on it would demand more than C13
// states.  Kept as a probe, reported in DESIGN.md A8.
func vC13LookupStalenessWindowProbe() { v13bVisible(1, true) }

// verif:desc C13-O4 (two rounds) as VerifH_C13_O4_acknowledged_commit_visible_to_other_handle with two successive changes by B, each followed by the reads
// verif:bounds as the quick harness with 2 rounds, history 1..2, A cold or warmed by All, B warm
// verif:outside as VerifH_C13_O4_acknowledged_commit_visible_to_other_handle
// verif:tier thorough
func VerifH_C13_O4_acknowledged_commit_visible_two_rounds() { v13bVisible(2, false) }
