//go:build verif

package journal

// Model storage engine shared by the C12 and C17 harnesses of this package.
//
// The real code under test only sees the storage.Engine interface; this is
// the environment, and its nondeterminism (crash step, put atomicity, the
// point at which another client runs) is what the obligations quantify over.

import (
	"bytes"
	"context"
	"errors"
	"fmt"
	"io"
	"io/fs"
	"strings"

	"github.com/brimdata/super/pkg/storage"
)

var vErrCrash = errors.New("verif: storage unavailable (crashed)")

type vFile struct {
	data  []byte
	owner int // client that created the file (C12)
}

// vEngine is a path -> bytes store.
//
// Every mutation is a sequence of numbered steps:
//
//	atomic mode (object store):  Put = 1 step at Close; PutIfNotExists = 1 step
//	fill mode (file engine):     Put = truncate/create step, then one step per
//	                             Write; PutIfNotExists = create step, fill step
//
// Step number crashAt (1-based, 0 = never) and every later one does not
// happen and reports vErrCrash: the process is dead from there on.
type vEngine struct {
	files   map[string]*vFile
	fill    bool
	steps   int
	crashAt int
	crashed bool
	client  int
	hook    func() // called at the start of every storage call (C12 preemption)
	inHook  bool
	lastOp  string // last mutation step performed, for region splitting
	crashOp string // the step that was cut off by the crash
}

var _ storage.Engine = (*vEngine)(nil)

func vNewEngine(fill bool) *vEngine {
	return &vEngine{files: map[string]*vFile{}, fill: fill}
}

// step reports whether the next mutation step happens.
func (e *vEngine) step(op string) bool {
	if e.crashed {
		return false
	}
	e.steps++
	if e.steps == e.crashAt {
		e.crashed = true
		e.crashOp = op
		return false
	}
	e.lastOp = op
	return true
}

// reboot models the restart after a crash: storage is available again.
func (e *vEngine) reboot() {
	e.crashed = false
	e.crashAt = 0
}

func (e *vEngine) preempt() {
	if e.hook != nil && !e.inHook {
		e.inHook = true
		e.hook()
		e.inHook = false
	}
}

func vBase(u *storage.URI) string {
	p := u.Path
	if i := strings.LastIndexByte(p, '/'); i >= 0 {
		p = p[i+1:]
	}
	return p
}

type vReader struct {
	*bytes.Reader
}

func (vReader) Close() error { return nil }

func (e *vEngine) Get(_ context.Context, u *storage.URI) (storage.Reader, error) {
	e.preempt()
	f, ok := e.files[u.Path]
	if !ok {
		return nil, fmt.Errorf("%s: %w", u.Path, fs.ErrNotExist)
	}
	return vReader{bytes.NewReader(f.data)}, nil
}

type vWriter struct {
	e    *vEngine
	path string
	base string
	buf  []byte
	dead bool
}

func (w *vWriter) Write(p []byte) (int, error) {
	if w.dead {
		return 0, vErrCrash
	}
	if !w.e.fill {
		w.buf = append(w.buf, p...)
		return len(p), nil
	}
	// another client may run between the truncation and the write
	w.e.preempt()
	if !w.e.step("put-write:" + w.base) {
		w.dead = true
		return 0, vErrCrash
	}
	f := w.e.files[w.path]
	f.data = append(f.data, p...)
	return len(p), nil
}

func (w *vWriter) Close() error {
	if w.dead {
		return vErrCrash
	}
	if w.e.fill {
		return nil
	}
	if !w.e.step("put:" + w.base) {
		w.dead = true
		return vErrCrash
	}
	w.e.files[w.path] = &vFile{data: w.buf, owner: w.e.client}
	return nil
}

func (e *vEngine) Put(_ context.Context, u *storage.URI) (io.WriteCloser, error) {
	e.preempt()
	w := &vWriter{e: e, path: u.Path, base: vBase(u)}
	if e.crashed {
		return nil, vErrCrash
	}
	if e.fill {
		// open(O_CREATE|O_TRUNC): the file exists and is empty from here on
		if !e.step("put-trunc:" + w.base) {
			return nil, vErrCrash
		}
		e.files[u.Path] = &vFile{owner: e.client}
	}
	return w, nil
}

func (e *vEngine) PutIfNotExists(_ context.Context, u *storage.URI, b []byte) error {
	e.preempt()
	if e.crashed {
		return vErrCrash
	}
	if _, ok := e.files[u.Path]; ok {
		return fs.ErrExist
	}
	base := vBase(u)
	data := append([]byte(nil), b...)
	if !e.fill {
		if !e.step("putx:" + base) {
			return vErrCrash
		}
		e.files[u.Path] = &vFile{data: data, owner: e.client}
		return nil
	}
	// open(O_CREATE|O_EXCL), then write
	if !e.step("putx-create:" + base) {
		return vErrCrash
	}
	f := &vFile{owner: e.client}
	e.files[u.Path] = f
	// another client may run between the creation and the write
	e.preempt()
	if !e.step("putx-fill:" + base) {
		return vErrCrash
	}
	f.data = data
	return nil
}

func (e *vEngine) Delete(_ context.Context, u *storage.URI) error {
	e.preempt()
	if e.crashed {
		return vErrCrash
	}
	if _, ok := e.files[u.Path]; !ok {
		return fmt.Errorf("%s: %w", u.Path, fs.ErrNotExist)
	}
	if !e.step("delete:" + vBase(u)) {
		return vErrCrash
	}
	delete(e.files, u.Path)
	return nil
}

func (e *vEngine) DeleteByPrefix(_ context.Context, u *storage.URI) error {
	e.preempt()
	if e.crashed {
		return vErrCrash
	}
	if !e.step("delete-prefix:" + vBase(u)) {
		return vErrCrash
	}
	for k := range e.files {
		if strings.HasPrefix(k, u.Path) {
			delete(e.files, k)
		}
	}
	return nil
}

func (e *vEngine) Exists(_ context.Context, u *storage.URI) (bool, error) {
	e.preempt()
	_, ok := e.files[u.Path]
	return ok, nil
}

func (e *vEngine) Size(_ context.Context, u *storage.URI) (int64, error) {
	e.preempt()
	f, ok := e.files[u.Path]
	if !ok {
		return 0, fmt.Errorf("%s: %w", u.Path, fs.ErrNotExist)
	}
	return int64(len(f.data)), nil
}

func (e *vEngine) List(_ context.Context, u *storage.URI) ([]storage.Info, error) {
	e.preempt()
	var infos []storage.Info
	prefix := u.Path + "/"
	for k, f := range e.files {
		if strings.HasPrefix(k, prefix) && !strings.Contains(k[len(prefix):], "/") {
			infos = append(infos, storage.Info{Name: k[len(prefix):], Size: int64(len(f.data))})
		}
	}
	return infos, nil
}

// vHas reports whether the file with the given base name exists under dir.
func (e *vEngine) vFileAt(dir *storage.URI, name string) *vFile {
	return e.files[dir.JoinPath(name).Path]
}
