//go:build verif

package journal

import (
	"bytes"
	"context"
	"io"
	"strings"

	"github.com/brimdata/super/internal/verif"
	"github.com/brimdata/super/pkg/storage"
)

func vJournalPath() *storage.URI {
	return &storage.URI{Scheme: "file", Path: "/lake/j"}
}

// vPayload is the raw body of the i-th journal entry written by a harness
// (the journal treats entry bodies as opaque bytes).
func vPayload(i int) []byte {
	return []byte{0xa0 + byte(i), 0x50 + byte(i), 0xa0 + byte(i)}
}

// vReadAll reads the whole journal through the real Queue.Open/Reader.
func vReadAll(ctx context.Context, q *Queue) ([]byte, error) {
	r, err := q.Open(ctx, Nil, Nil)
	if err != nil {
		return nil, err
	}
	return io.ReadAll(r)
}

// verif:desc C17-O1 journal.Create, Queue.Commit/CommitAt/ReadHead/Open/Reader over a model storage engine: after h acknowledged commits one more Commit is cut off by a crash at storage step k; on the surviving state a fresh Queue (a) opens, (b) shows all or nothing of the interrupted entry, (c) shows every acknowledged entry, (d) accepts one more Commit which is then visible.
// verif:bounds h in 0..2 earlier commits; crash step k in 1..4 of the interrupted Commit (covers every step: atomic puts = 2 steps, create-then-fill puts = 4 steps) or no crash; storage with atomic puts (object store) or create-then-fill puts (file engine: O_TRUNC/O_EXCL create, then one write); 3-byte entry bodies
// verif:outside crash inside journal.Create (see O1b), torn writes inside one write call, double crashes, TAIL movement, the journal.Store layer (reflection-based entry (de)serialisation cannot be encoded)
func VerifH_C17_O1_queue_crash() {
	ctx := context.Background()
	eng := vNewEngine(verif.Bool("fill"))
	path := vJournalPath()
	q, err := Create(ctx, eng, path, Nil)
	verif.Assert(err == nil && q != nil, "create")
	h := verif.Choose("history", 3)
	var want []byte
	for i := 0; i < h; i++ {
		id, err := q.Commit(ctx, vPayload(i))
		verif.Assert(err == nil && id == ID(i+1), "setup-commit")
		want = append(want, vPayload(i)...)
	}
	k := verif.Range("crashAt", 0, 4)
	before := eng.steps
	if k > 0 {
		eng.crashAt = before + k
	}
	id, err := q.Commit(ctx, vPayload(h))
	crashed := eng.crashed
	verif.Observe("crashed", crashed)
	verif.Observe("commit-failed", err != nil)
	if !crashed {
		// no crash: the commit is acknowledged
		verif.Assert(err == nil && id == ID(h+1), "commit-without-crash")
		verif.Assert(eng.steps-before <= 4, "crash-range-covers-all-steps")
		verif.Reach("no-crash")
	} else {
		verif.Assert(err != nil, "crashed-commit-not-acknowledged")
	}
	cut := eng.crashOp
	eng.reboot()

	// (a) a fresh handle opens
	q2, err := Open(ctx, eng, path)
	if strings.HasPrefix(cut, "put-write:HEAD") {
		// file engine: HEAD was truncated and the crash came before its contents
		verif.Reach("crash-head-truncated")
		verif.Assert(err == nil, "reopens/head-truncated")
	} else {
		verif.Assert(err == nil, "reopens")
	}
	if err != nil {
		return
	}
	// (b), (c) contents: acknowledged prefix, then all or nothing of the cut commit
	got, err := vReadAll(ctx, q2)
	verif.Assert(err == nil, "readable")
	all := append(append([]byte(nil), want...), vPayload(h)...)
	if !crashed {
		verif.Assert(bytes.Equal(got, all), "acknowledged-visible")
	} else {
		verif.Assert(bytes.HasPrefix(got, want), "earlier-commits-intact")
		verif.Assert(bytes.Equal(got, want) || bytes.Equal(got, all), "all-or-nothing")
	}
	seen := len(got) / 3
	verif.Observe("entries-visible", seen)
	// (d) one more commit succeeds and is visible
	entryLanded := eng.vFileAt(path, vEntryName(h+1)) != nil
	_, err = q2.Commit(ctx, vPayload(3))
	if crashed && entryLanded && !bytes.Equal(got, all) {
		// entry h+1 was created but HEAD still says h
		verif.Reach("crash-head-lags")
		verif.Assert(err == nil, "next-commit/head-lags")
	} else {
		verif.Assert(err == nil, "next-commit")
	}
	if err != nil {
		return
	}
	got2, err := vReadAll(ctx, q2)
	verif.Assert(err == nil, "readable-after-next")
	verif.Assert(len(got2) == 3*(seen+1) && bytes.HasPrefix(got2, got) && bytes.HasSuffix(got2, vPayload(3)), "next-commit-visible")
	verif.Reach("end")
}

// verif:desc C17-O1c the same crash experiment one layer up, through the real journal.Store.commit retry loop and Store.load (cold Store after the crash): the journal loads, its position is h or h+1 (h+1 if acknowledged), and one more Store.commit succeeds and advances the position by one.
// verif:bounds h in 0..1 earlier commits; crash step k in 1..4 of the interrupted commit or none; atomic or create-then-fill puts; entry bodies are empty ZNG streams (no entry (de)serialisation)
// verif:outside table contents, zson (un)marshaling, snapshot files, TAIL movement, double crashes
func VerifH_C17_O1c_store_crash() {
	ctx := context.Background()
	eng := vNewEngine(verif.Bool("fill"))
	_, err := Create(ctx, eng, vJournalPath(), Nil)
	verif.Assert(err == nil, "create")
	h := verif.Choose("history", 2)
	c := vNewClient(eng, 1)
	c.limit = 9
	for i := 0; i < h; i++ {
		c.run(ctx, eng)
		verif.Assert(c.err == nil, "setup-commit")
	}
	k := verif.Range("crashAt", 0, 4)
	before := eng.steps
	if k > 0 {
		eng.crashAt = before + k
	}
	c.run(ctx, eng)
	crashed := eng.crashed
	verif.Observe("crashed", crashed)
	verif.Observe("outcome", vOutcome(c.err))
	if !crashed {
		verif.Assert(c.err == nil, "commit-without-crash")
		verif.Assert(eng.steps-before <= 4, "crash-range-covers-all-steps")
		verif.Reach("no-crash")
	} else {
		verif.Assert(c.err != nil, "crashed-commit-not-acknowledged")
	}
	cut := eng.crashOp
	eng.reboot()

	c2 := vNewClient(eng, 2)
	c2.limit = 9
	err = c2.store.load(ctx)
	if strings.HasPrefix(cut, "put-write:HEAD") {
		verif.Reach("crash-head-truncated")
		verif.Assert(err == nil, "loads/head-truncated")
	} else {
		verif.Assert(err == nil, "loads")
	}
	if err != nil {
		return
	}
	at := int(c2.store.at)
	verif.Observe("position", at)
	if !crashed {
		verif.Assert(at == h+1, "acknowledged-visible")
	} else {
		verif.Assert(at == h || at == h+1, "all-or-nothing")
	}
	entryLanded := eng.vFileAt(vJournalPath(), vEntryName(h+1)) != nil
	c2.run(ctx, eng)
	verif.Observe("next-outcome", vOutcome(c2.err))
	if crashed && entryLanded && at == h {
		verif.Reach("crash-head-lags")
		verif.Assert(c2.err == nil, "next-commit/head-lags")
	} else {
		verif.Assert(c2.err == nil, "next-commit")
	}
	if c2.err != nil {
		return
	}
	c3 := vNewClient(eng, 3)
	verif.Assert(c3.store.load(ctx) == nil && int(c3.store.at) == at+1, "next-commit-visible")
	verif.Reach("end")
}

func vEntryName(id int) string {
	return New(nil, vJournalPath()).uri(ID(id)).Path[len("/lake/j/"):]
}
