//go:build verif

package journal

import (
	"context"

	"github.com/brimdata/super/internal/verif"
	"go.uber.org/zap"
)

// vClient is one lake handle: its own journal.Store (own cache) over the
// shared model storage.
type vClient struct {
	id    int
	store *Store
	limit ID  // the client's operation is valid iff the journal position it is applied at is <= limit
	seen  []ID // positions the constraint was evaluated at
	err   error
	done  bool
}

func vNewClient(eng *vEngine, id int) *vClient {
	// keyTypes stays empty: the entry bodies of this harness are empty ZNG
	// streams, so the reflection-driven (un)marshaler is never entered.
	return &vClient{id: id, store: &Store{journal: New(eng, vJournalPath()), logger: zap.NewNop()}}
}

// run performs the client's operation through the real Store.commit retry
// loop.  The constraint plays the part of ErrKeyExists/ErrNoSuchKey/parentCheck:
// it is evaluated by the real code against the state the Store just loaded.
func (c *vClient) run(ctx context.Context, eng *vEngine) {
	saved := eng.client
	eng.client = c.id
	c.err = c.store.commit(ctx, func() error {
		c.seen = append(c.seen, c.store.at)
		if c.store.at > c.limit {
			return ErrConstraint
		}
		return nil
	})
	c.done = true
	eng.client = saved
}

// vEntries returns the owners of entries 1..n and whether 1..n is gap free
// with nothing beyond n.
func vEntries(eng *vEngine, max int) (owners []int, ok bool) {
	ok = true
	ended := false
	for i := 1; i <= max; i++ {
		f := eng.vFileAt(vJournalPath(), vEntryName(i))
		if f == nil {
			ended = true
			continue
		}
		if ended {
			ok = false
		}
		owners = append(owners, f.owner)
	}
	return owners, ok
}

func vOutcome(err error) int {
	switch {
	case err == nil:
		return 0
	case err == ErrConstraint:
		return 1
	case err == ErrRetriesExceeded:
		return 2
	}
	return 3
}

func vOwned(owners []int, id int) (n int, pos ID) {
	for i, o := range owners {
		if o == id {
			n++
			pos = ID(i + 1)
		}
	}
	return n, pos
}

// verif:desc C12-O1 journal.Store.commit retry loop + Store.load + Queue.CommitAt/ReadHead/Reader (all real) for two clients with separate Store handles on one model storage; client B's whole operation runs at a symbolic storage call of client A's operation (<= 1 preemption), B optionally having loaded earlier (stale cache). Asserted: an acknowledged operation owns exactly one entry, its constraint held at the position just before that entry; a failed operation owns no entry; entries are gap free; HEAD never exceeds the last entry (checked at the preemption point and at the end); a later fresh load succeeds.
// verif:bounds h in 0..1 earlier entries; constraint of each client = "position <= limit" with limit symbolic in 0..3; preemption at storage call 1..12 of A (asserted to cover every call A makes before being preempted) or B after A; B preloaded or not; atomic-put storage (object store semantics)
// verif:outside entry bodies are empty ZNG streams, so table contents, zson (un)marshaling and snapshot files are not exercised; > 1 preemption, >= 3 clients, create-then-fill puts (see O1b), in-process sharing of one Store
func VerifH_C12_O1_store_commit_two_clients() {
	vTwoClients(false)
}

// verif:desc C12-O1b as C12-O1 over create-then-fill storage (file engine): the other client can observe an entry that exists but is still empty and a HEAD that is truncated but not yet written.
// verif:bounds as C12-O1 (h in 0..1, limits 0..3, preemption at storage call 1..12 of A where the truncate/write halves of Put and the create/fill halves of PutIfNotExists count as separate calls)
// verif:outside as C12-O1; torn writes inside one write call
func VerifH_C12_O1b_store_commit_two_clients_fill() {
	vTwoClients(true)
}

func vTwoClients(fill bool) {
	ctx := context.Background()
	eng := vNewEngine(fill)
	q, err := Create(ctx, eng, vJournalPath(), Nil)
	verif.Assert(err == nil && q != nil, "create")
	h := verif.Choose("history", 2)
	maxLimit := 3
	for i := 0; i < h; i++ {
		_, err := q.Commit(ctx, nil)
		verif.Assert(err == nil, "setup-commit")
	}
	a, b := vNewClient(eng, 1), vNewClient(eng, 2)
	a.limit = ID(verif.Range("limitA", 0, maxLimit))
	b.limit = ID(verif.Range("limitB", 0, maxLimit))
	if verif.Bool("preloadB") {
		verif.Assert(b.store.load(ctx) == nil, "preload")
	}
	preemptAt := verif.Range("preemptAt", 1, 13)
	calls := 0
	headOK := true
	checkHead := func() {
		// HEAD is a hint that must not run ahead of the entries
		if f := eng.vFileAt(vJournalPath(), "HEAD"); f != nil && len(f.data) > 0 {
			owners, _ := vEntries(eng, h+3)
			if int(f.data[0]-'0') > len(owners) || len(f.data) != 1 {
				headOK = false
			}
		}
	}
	eng.hook = func() {
		calls++
		if calls == preemptAt && !b.done {
			verif.Reach("preempted")
			checkHead()
			b.run(ctx, eng)
			checkHead()
		}
	}
	a.run(ctx, eng)
	eng.hook = nil
	if !b.done {
		// the preemption range covered every storage call A made
		verif.Assert(calls < 13, "preempt-range-covers-all-calls")
		verif.Reach("sequential")
		b.run(ctx, eng)
	}
	checkHead()
	verif.Assert(headOK, "head-not-ahead")

	owners, gapFree := vEntries(eng, h+3)
	verif.Assert(gapFree, "entries-gap-free")
	acked := 0
	for _, c := range []*vClient{a, b} {
		n, pos := vOwned(owners, c.id)
		if c.err == nil {
			acked++
			verif.Assert(n == 1, "acknowledged-exactly-one-entry")
			verif.Assert(n != 1 || pos-1 <= c.limit, "constraint-held-at-commit-point")
			verif.Assert(n != 1 || (len(c.seen) > 0 && c.seen[len(c.seen)-1] == pos-1), "constraint-checked-on-committed-state")
		} else {
			verif.Assert(n == 0, "failed-leaves-no-entry")
			if c.err == ErrConstraint {
				verif.Reach("constraint-refused")
			}
			if c.err == ErrRetriesExceeded {
				verif.Reach("retries-exceeded")
			}
			if c.err != ErrRetriesExceeded && c.err != ErrConstraint {
				verif.Reach("other-error")
			}
		}
	}
	verif.Observe("outcomeA", vOutcome(a.err))
	verif.Observe("outcomeB", vOutcome(b.err))
	verif.Observe("entries", len(owners))
	verif.Observe("callsA", calls)
	verif.Observe("evalsA", len(a.seen))
	verif.Observe("evalsB", len(b.seen))
	verif.Assert(len(owners) == h+acked, "entry-count")
	if acked == 2 {
		verif.Reach("both-acknowledged")
	}
	// a fresh handle sees the whole log
	c := vNewClient(eng, 3)
	err = c.store.load(ctx)
	verif.Assert(err == nil, "fresh-load")
	// every entry is an acknowledged one (entry-count), so a HEAD short of the
	// last entry would hide an acknowledged update
	verif.Assert(err != nil || int(c.store.at) == len(owners), "acknowledged-visible-to-fresh-load")
	verif.Reach("end")
}
