//go:build verif

package lake

import (
	"bytes"
	"context"

	"github.com/brimdata/super"
	"github.com/brimdata/super/internal/verif"
	"github.com/brimdata/super/lake/pools"
	"github.com/brimdata/super/order"
	"github.com/brimdata/super/pkg/field"
	"github.com/brimdata/super/pkg/storage"
	"github.com/brimdata/super/zcode"
	"github.com/brimdata/super/zio/zngio"
)

// v14gLoad loads n values {k:K,m:bytes} through lake.Writer and checks the
// objects it leaves in the model storage.
func v14gLoad(minN, maxN int) { v14gLoadSched(minN, maxN, 0) }

// v14gSchedKeys: concrete key patterns of the schedule variant, as one-byte
// int64 bodies (0 = null): 3,1,2,4 and null,2,2,1
var v14gSchedKeys = [][4]byte{{6, 2, 4, 8}, {0, 4, 4, 2}}

func v14gLoadSched(minN, maxN, sched int) {
	rounds := 1
	if sched > 0 {
		// schedules are the quantifier: concrete keys and thresholds; the
		// native run repeats the load (under the Go scheduler a
		// schedule-dependent counterexample shows up by repetition)
		verif.Schedules(sched)
		verif.Races(true)
		rounds = verif.NativeRounds(200)
	} else {
		verif.Goroutines(true)
	}
	// the configuration is chosen in the first round and kept
	var chosen []int
	for r := 0; r < rounds; r++ {
		i := 0
		choose := func(name string, n int) int {
			if r == 0 {
				chosen = append(chosen, verif.Choose(name, n))
			}
			i++
			return chosen[i-1]
		}
		v14gLoadRun(minN, maxN, sched, choose, r == 0)
	}
}

func v14gLoadRun(minN, maxN, sched int, choose func(string, int) int, first bool) {
	data := 0
	if sched > 0 && sched < 3 {
		data = choose("data", len(v14gSchedKeys))
	}
	zctx := zed.NewContext()
	desc := choose("desc", 2) == 1
	o := order.Asc
	if desc {
		o = order.Desc
	}
	eng := vNewEngine(false)
	pool := &Pool{
		Config: pools.Config{
			SortKeys:   order.SortKeys{order.NewSortKey(o, field.Path{"k"})},
			SeekStride: 2,
			Threshold:  64,
		},
		engine:   eng,
		DataPath: &storage.URI{Scheme: "file", Path: "/pool/data"},
	}
	if sched > 0 {
		// (a value is 5-6 bytes) every value its own object: the loader
		// fills a buffer while the previous one is written and waits for
		// that write before the next flip / two values and two values /
		// three values, then one at Close / all in one object at Close
		nthr := 4
		if sched > 2 {
			nthr = 2
		}
		pool.Threshold = []int64{1, 8, 13, 64}[choose("threshold", nthr)]
	} else {
		pool.Threshold = int64(verif.Range("threshold", 1, 64))
	}
	w, err := NewWriter(context.Background(), zctx, pool)
	verif.Assert(err == nil, "newwriter-no-error")
	typ := zctx.MustLookupTypeRecord([]zed.Field{zed.NewField("k", zed.TypeInt64), zed.NewField("m", zed.TypeBytes)})
	n := choose("n", maxN-minN+1) + minN
	keys := make([]v14Key, n)
	for i := 0; i < n; i++ {
		var b zcode.Builder
		if sched > 0 {
			kb := v14gSchedKeys[data][i]
			if kb == 0 {
				keys[i] = v14Key{null: true}
				b.Append(nil)
			} else {
				keys[i] = v14Key{k: zed.DecodeInt([]byte{kb})}
				b.Append([]byte{kb})
			}
		} else if choose("null", 2) == 1 {
			keys[i] = v14Key{null: true}
			b.Append(nil)
		} else {
			kb := verif.Byte("k")
			verif.Assume(kb != 0)
			keys[i] = v14Key{k: verif.MergeInt64(func() int64 { return zed.DecodeInt([]byte{kb}) })}
			b.Append([]byte{kb})
		}
		// the marker identifies the input value in the stored object
		b.Append([]byte{0xee, byte(0xa0 + i), 0xee})
		verif.Assert(w.Write(zed.NewValue(typ, b.Bytes())) == nil, "write-no-error")
	}
	verif.Assert(w.Close() == nil, "close-no-error")
	objects := w.Objects()
	verif.Assert(len(objects) >= 1 && len(objects) <= n, "between-one-and-n-objects")
	verif.Assert(len(eng.files) == 2*len(objects), "a-data-and-a-seek-file-per-object")
	stats := w.Stats()
	verif.Assert(stats.ObjectsWritten == int64(len(objects)) && stats.RecordsWritten == int64(n), "import-stats")

	// le: a comes no later than b in pool order (null and missing largest)
	le := func(a, b v14Key) bool {
		if desc {
			a, b = b, a
		}
		return b.null || (!a.null && a.k <= b.k)
	}
	seen := make([]bool, n)
	for _, obj := range objects {
		f, ok := eng.files[obj.SequenceURI(pool.DataPath).Path]
		verif.Assert(ok, "object-data-stored")
		if !ok {
			return
		}
		verif.Assert(obj.Size == int64(len(f.data)) && obj.Size > 0, "object-size")
		// read the object back
		r := zngio.NewReaderWithOpts(zed.NewContext(), bytes.NewReader(f.data), zngio.ReaderOpts{Threads: 1, Validate: true})
		var held []int
		for {
			val, err := r.Read()
			verif.Assert(err == nil, "object-readable")
			if err != nil {
				return
			}
			if val == nil {
				break
			}
			rt := zed.TypeRecordOf(val.Type())
			verif.Assert(rt != nil && len(rt.Fields) == 2, "stored-value-is-the-record")
			if rt == nil || len(rt.Fields) != 2 {
				return
			}
			m := val.DerefByColumn(1)
			verif.Assert(m != nil && len(m.Bytes()) == 3, "stored-value-has-its-marker")
			if m == nil || len(m.Bytes()) != 3 {
				return
			}
			idx := int(m.Bytes()[1]) - 0xa0
			verif.Assert(idx >= 0 && idx < n, "stored-value-is-an-input")
			if idx < 0 || idx >= n {
				return
			}
			verif.Assert(!seen[idx], "every-value-in-exactly-one-object")
			seen[idx] = true
			kv := val.DerefByColumn(0)
			// (a null field dereferences to nil)
			if kv == nil {
				verif.Assert(keys[idx].null, "stored-key-is-the-input-key")
			} else {
				verif.Assert(keys[idx].same(*kv), "stored-key-is-the-input-key")
			}
			held = append(held, idx)
		}
		verif.Assert(len(held) > 0, "object-not-empty")
		if len(held) == 0 {
			return
		}
		verif.Assert(obj.Count == uint64(len(held)), "object-count")
		for i := 0; i+1 < len(held); i++ {
			verif.Assert(le(keys[held[i]], keys[held[i+1]]), "object-sorted-by-pool-key-nulls-max")
		}
		// Min/Max in ascending terms (null largest) whatever the pool order
		lo, hi := keys[held[0]], keys[held[len(held)-1]]
		if desc {
			lo, hi = hi, lo
		}
		verif.Assert(lo.same(obj.Min), "object-min")
		verif.Assert(hi.same(obj.Max), "object-max")
	}
	for i := range seen {
		verif.Assert(seen[i], "no-value-lost")
	}
	if first {
		verif.Observe("objects", len(objects))
	}
	if len(objects) > 1 {
		verif.Reach("several-objects")
	}
	if len(objects) < n {
		verif.Reach("object-with-several-values")
	}
	verif.Reach("end")
}

// verif:desc C14-O10 the unsorted loader lake.Writer executed end to end under cooperative goroutines: NewWriter (errgroup.WithContext, buffer channel), Write (copy, threshold), flipBuffers (double buffering through the channel, errgroup.Go leg), writeObject (Comparator.SortStableReader in its own goroutine, data.Object.NewWriter/data.Writer on the model storage, zio.CopyWithContext, Close), Close (errgroup.Wait), with the real ImportComparator (nulls max): no error; every loaded value is stored in exactly one object (each object is read back from the stored bytes with zngio), no object is empty; each object's Count/Size/Min/Max are those of the values it actually holds (Min/Max in ascending terms, null largest); inside an object the values are in pool-key order, asc or desc as configured, null keys as the largest key.
// verif:bounds 2..3 values {k:K,m:bytes}; K null or an int64 with a 1-byte body (-127..127 without 0, or MinInt64), in ANY order; pool order asc or desc; pool threshold any value in 1..64 bytes (every value its own object ... all in one); seek stride 2; model storage atomic puts, never failing
// verif:outside ONE deterministic goroutine schedule (the object write runs when the loader blocks on the buffer channel or in Close; overlap of reading and writing is not explored); failing storage and context cancellation (C18/C17); order of equal keys (C14-O4: byte tie-break); missing key field, non-record values; LZ4 (contract stub: incompressible) and the seek-index marshaler (identity intrinsic) under gosym
// verif:unwind 64
func VerifH_C14_O10_lake_writer() {
	v14gLoad(2, 3)
}

// verif:desc C14-O10t as C14-O10 with 4 values
// verif:bounds as C14-O10, exactly 4 values
// verif:outside as C14-O10
// verif:tier thorough
// verif:unwind 64
func VerifH_C14_O10t_lake_writer_4() {
	v14gLoad(4, 4)
}

// verif:desc C14-O10s the loader lake.Writer, same run and same assertions as VerifH_C14_O10_lake_writer, under EVERY goroutine schedule with at most 2 preemptions (thorough tier: 3) at the channel operations, selects, closes, atomics, map accesses, lock/once/WaitGroup operations and goroutine starts of the real Write/flipBuffers/writeObject/Close code (the loader, the errgroup leg writing an object, its sort goroutine) and of what they run (data.Writer, zngio.Writer, seekindex.Writer, the model storage), with a bounded free choice of which runnable goroutine continues: the loader fills the next buffer WHILE the previous object is being written, so this explores the overlap of reading and writing that the one-schedule harness leaves out; the stored objects (every value in exactly one object, none empty, Count/Size/Min/Max, pool-key order with nulls max) and the import statistics do not depend on the schedule
// verif:bounds 4 values {k:K,m:bytes} with the concrete keys 3,1,2,4 or null,2,2,1 (Choose); pool order asc or desc; pool threshold 1 (an object per value: a flip waits for the write before it), 8 (two and two values), 13 (three values, then one at Close) or 64 (one object at Close); seek stride 2; model storage atomic puts, never failing; the native replay repeats the load 200 times; preemption bound 2 (thorough: 3, there with the keys 3,1,2,4 and the thresholds 1 and 8 only) - the loader is blocked during most of an object write, so a schedule has few decisions
// verif:outside as VerifH_C14_O10_lake_writer except that schedules are explored up to the bound; symbolic keys and thresholds (VerifH_C14_O10_lake_writer); field/slice loads and stores are not preemption points (data-race freedom between sync points is assumed, not checked)
// verif:unwind 64
func VerifH_C14_O10s_lake_writer_schedules() {
	if verif.Thorough() {
		v14gLoadSched(4, 4, 3)
	} else {
		v14gLoadSched(4, 4, 2)
	}
}
