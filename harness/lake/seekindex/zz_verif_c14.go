//go:build verif

package seekindex

import (
	"github.com/brimdata/super"
	"github.com/brimdata/super/internal/verif"
	"github.com/brimdata/super/zson"
)

// vEntrySink is the model zio.WriteCloser behind a seekindex.Writer: it
// decodes every value it is handed back into an Entry (under gosym the
// reflection-driven zson marshal/unmarshal pair is an identity intrinsic,
// natively it is the real code).
type vEntrySink struct {
	entries []Entry
	bad     bool
	closed  bool
}

func (s *vEntrySink) Write(val zed.Value) error {
	var e Entry
	if err := zson.UnmarshalZNG(val, &e); err != nil {
		s.bad = true
		return err
	}
	s.entries = append(s.entries, e)
	return nil
}

func (s *vEntrySink) Close() error {
	s.closed = true
	return nil
}

func vKeyEq(v zed.Value, null bool, k int64) bool {
	if null {
		return v.IsNull()
	}
	return !v.IsNull() && v.Type().ID() == zed.IDInt64 && v.Int() == k
}

func vKeyVal(null bool, k int64) zed.Value {
	if null {
		return zed.NullInt64
	}
	return zed.NewInt64(k)
}

// verif:desc C14-O1 seekindex.NewWriter + Writer.Write called 1..3 times with non-decreasing (valoff, offset): the emitted entries tile the object: entry i is exactly [offset_{i-1}, offset_i) x [valoff_{i-1}, valoff_i) starting at (0,0), Min/Max are the ones passed, every entry is delivered to the underlying writer in order, Close closes it.
// verif:bounds 1..3 writes; valoff, offset any uint64 with valoff_i >= valoff_{i-1}, offset_i >= offset_{i-1}; min/max any int64 or null(int64)
// verif:outside the zson reflection marshaler (identity intrinsic under gosym, real code in the native replay); failing underlying writer
func VerifH_C14_O1_seekindex_writer_tiles() {
	sink := &vEntrySink{}
	w := NewWriter(sink)
	n := verif.Choose("n", 3) + 1
	var prevVal, prevOff uint64
	type call struct {
		minNull, maxNull bool
		min, max         int64
		valoff, offset   uint64
	}
	var calls []call
	for i := 0; i < n; i++ {
		c := call{
			minNull: verif.Bool("min.null"), min: verif.Int64("min"),
			maxNull: verif.Bool("max.null"), max: verif.Int64("max"),
			valoff: verif.Uint64("valoff"), offset: verif.Uint64("offset"),
		}
		verif.Assume(c.valoff >= prevVal && c.offset >= prevOff)
		err := w.Write(vKeyVal(c.minNull, c.min), vKeyVal(c.maxNull, c.max), c.valoff, c.offset)
		verif.Assert(err == nil, "write-no-error")
		prevVal, prevOff = c.valoff, c.offset
		calls = append(calls, c)
	}
	verif.Assert(w.Close() == nil && sink.closed, "closed")
	verif.Assert(!sink.bad && len(sink.entries) == n, "one-entry-per-write")
	if len(sink.entries) != n {
		return
	}
	var valEnd, offEnd uint64
	for i, e := range sink.entries {
		c := calls[i]
		verif.Assert(e.ValOff == valEnd, "valoff-contiguous")
		verif.Assert(e.Offset == offEnd, "offset-contiguous")
		verif.Assert(e.ValOff+e.ValCnt == c.valoff, "valcnt-ends-at-valoff")
		verif.Assert(e.Offset+e.Length == c.offset, "length-ends-at-offset")
		verif.Assert(vKeyEq(e.Min, c.minNull, c.min), "min-passed-through")
		verif.Assert(vKeyEq(e.Max, c.maxNull, c.max), "max-passed-through")
		r := e.Range()
		verif.Assert(uint64(r.Offset) == e.Offset && uint64(r.Length) == e.Length, "range-of-entry")
		valEnd, offEnd = c.valoff, c.offset
	}
	verif.Observe("n", n)
	verif.Observe("lastValEnd", valEnd)
	verif.Reach("end")
}

// verif:desc C14-O2 seekindex.Ranges.Append over 1..4 entries in increasing, non-overlapping offset order (adjacent or with gaps, as a pruned seek index delivers them): a byte offset x lies in some resulting range iff it lies in some appended entry; resulting ranges are non-empty-ordered and separated (no range touches or overlaps the next).
// verif:bounds 1..4 entries; Offset, Length any uint64 < 2^40 with Offset_i >= Offset_{i-1}+Length_{i-1}; probe offset x any int64
// verif:outside offsets beyond 2^40 (int64 conversion overflow), entries out of order
func VerifH_C14_O2_ranges_append_union() {
	n := verif.Choose("n", 4) + 1
	var ranges Ranges
	x := verif.Int64("x")
	inEntry := false
	var end uint64
	gaps := 0
	for i := 0; i < n; i++ {
		e := Entry{Offset: verif.Uint64("offset"), Length: verif.Uint64("length")}
		verif.Assume(e.Offset < 1<<40 && e.Length < 1<<40 && e.Offset >= end)
		if i > 0 && e.Offset > end {
			gaps++
		}
		end = e.Offset + e.Length
		if x >= int64(e.Offset) && x < int64(e.Offset+e.Length) {
			inEntry = true
		}
		ranges.Append(e)
	}
	inRange := false
	for i, r := range ranges {
		if x >= r.Offset && x < r.Offset+r.Length {
			inRange = true
		}
		if i > 0 {
			p := ranges[i-1]
			verif.Assert(p.Offset+p.Length < r.Offset, "ranges-separated")
		}
	}
	verif.Assert(inRange == inEntry, "union-preserved")
	verif.Assert(len(ranges) == gaps+1, "one-range-per-run")
	verif.Observe("nranges", len(ranges))
	if len(ranges) > 1 {
		verif.Reach("gap")
	}
	if len(ranges) < n {
		verif.Reach("coalesced")
	}
	verif.Reach("end")
}
