//go:build verif

package seekindex

import (
	"github.com/brimdata/super"
	"github.com/brimdata/super/internal/verif"
	"github.com/brimdata/super/zson"
)

// v14EntrySink is the model zio.WriteCloser behind a seekindex.Writer: it
// decodes every value it is handed back into an Entry (under gosym the
// reflection-driven zson marshal/unmarshal pair is an identity intrinsic,
// natively it is the real code).
type v14EntrySink struct {
	entries []Entry
	bad     bool
	closed  bool
}

func (s *v14EntrySink) Write(val zed.Value) error {
	var e Entry
	if err := zson.UnmarshalZNG(val, &e); err != nil {
		s.bad = true
		return err
	}
	s.entries = append(s.entries, e)
	return nil
}

func (s *v14EntrySink) Close() error {
	s.closed = true
	return nil
}

func v14KeyEq(v zed.Value, null bool, k int64) bool {
	if null {
		return v.IsNull()
	}
	return !v.IsNull() && v.Type().ID() == zed.IDInt64 && v.Int() == k
}

func v14KeyVal(null bool, k int64) zed.Value {
	if null {
		return zed.NullInt64
	}
	return zed.NewInt64(k)
}

// verif:desc C14-O1 seekindex.NewWriter + Writer.Write called 1..3 times with non-decreasing (valoff, offset): the emitted entries tile the object: entry i is exactly [offset_{i-1}, offset_i) x [valoff_{i-1}, valoff_i) starting at (0,0), Min/Max are the ones passed, every entry is delivered to the underlying writer in order, Close closes it.
// verif:bounds 1..3 writes; valoff, offset any uint64 with valoff_i >= valoff_{i-1}, offset_i >= offset_{i-1}; min/max any int64 or null(int64)
// verif:outside the zson reflection marshaler (identity intrinsic under gosym, real code in the native replay); failing underlying writer
func VerifH_C14_O1_seekindex_writer_tiles() {
	sink := &v14EntrySink{}
	w := NewWriter(sink)
	n := verif.Choose("n", 3) + 1
	var prevVal, prevOff uint64
	type call struct {
		minNull, maxNull bool
		min, max         int64
		valoff, offset   uint64
	}
	var calls []call
	for i := 0; i < n; i++ {
		c := call{
			minNull: verif.Bool("min.null"), min: verif.Int64("min"),
			maxNull: verif.Bool("max.null"), max: verif.Int64("max"),
			valoff: verif.Uint64("valoff"), offset: verif.Uint64("offset"),
		}
		verif.Assume(c.valoff >= prevVal && c.offset >= prevOff)
		err := w.Write(v14KeyVal(c.minNull, c.min), v14KeyVal(c.maxNull, c.max), c.valoff, c.offset)
		verif.Assert(err == nil, "write-no-error")
		prevVal, prevOff = c.valoff, c.offset
		calls = append(calls, c)
	}
	verif.Assert(w.Close() == nil && sink.closed, "closed")
	verif.Assert(!sink.bad && len(sink.entries) == n, "one-entry-per-write")
	if len(sink.entries) != n {
		return
	}
	var valEnd, offEnd uint64
	for i, e := range sink.entries {
		c := calls[i]
		verif.Assert(e.ValOff == valEnd, "valoff-contiguous")
		verif.Assert(e.Offset == offEnd, "offset-contiguous")
		verif.Assert(e.ValOff+e.ValCnt == c.valoff, "valcnt-ends-at-valoff")
		verif.Assert(e.Offset+e.Length == c.offset, "length-ends-at-offset")
		verif.Assert(v14KeyEq(e.Min, c.minNull, c.min), "min-passed-through")
		verif.Assert(v14KeyEq(e.Max, c.maxNull, c.max), "max-passed-through")
		r := e.Range()
		verif.Assert(uint64(r.Offset) == e.Offset && uint64(r.Length) == e.Length, "range-of-entry")
		valEnd, offEnd = c.valoff, c.offset
	}
	verif.Observe("n", n)
	verif.Observe("lastValEnd", valEnd)
	verif.Reach("end")
}

// verif:desc C14-O2 inductive step of seekindex.Ranges.Append: from any Ranges of 0..2 ranges whose last range ends at or before the next entry (entries arrive in increasing, non-overlapping offset order, as a pruned seek index delivers them), Append(e) leaves earlier ranges untouched and either extends the last range by exactly e.Length (e adjacent to it) or adds the range [e.Offset, e.Offset+e.Length) (gap); hence a probe offset x lies in the new ranges iff it lay in the old ones or lies in e, the new last range ends where e ends (the invariant for the next step), and with 0 ranges (constructor case) the result is exactly e's range.
// verif:bounds 0..2 existing ranges, Offset any 32-bit value, Length 0..65535, separated by gaps >= 1; e.Offset = end of last range + gap with gap either 0 (adjacent) or 1..65536, e.Length 0..65535; probe x any int64
// verif:outside offsets near 2^63 (int64 conversion of the uint64 entry fields); entries out of order or overlapping
func VerifH_C14_O2_ranges_append_step() { vRangesAppendStep() }

func vRangesAppendStep() {
	n := verif.Choose("nranges", 3)
	var ranges Ranges
	x := verif.Int64("x")
	var end int64
	inOld := false
	for i := 0; i < n; i++ {
		// each range has its own symbolic start (keeps the sums the solver
		// must compare two additions deep)
		r := Range{Offset: int64(verif.Uint32("r.offset")), Length: int64(verif.Uint16("r.length"))}
		if i > 0 {
			verif.Assume(r.Offset > end) // ranges already present are separated
		}
		end = r.Offset + r.Length
		was := inOld
		inOld = verif.MergeBool(func() bool { return was || (x >= r.Offset && x < r.Offset+r.Length) })
		ranges = append(ranges, r)
	}
	old := append(Ranges(nil), ranges...)
	e := Entry{Offset: uint64(end), Length: uint64(verif.Uint16("e.length"))}
	if n == 0 || verif.Choose("gap", 2) == 1 {
		e.Offset += uint64(verif.Uint16("e.gap"))
		if n > 0 {
			e.Offset++
		}
	}
	inE := verif.MergeBool(func() bool { return x >= int64(e.Offset) && x < int64(e.Offset+e.Length) })

	ranges.Append(e)

	adjacent := n > 0 && e.Offset == uint64(end)
	if adjacent {
		verif.Assert(len(ranges) == n, "adjacent-entry-coalesced")
		verif.Reach("coalesced")
	} else {
		verif.Assert(len(ranges) == n+1, "gap-starts-new-range")
		verif.Reach("new-range")
	}
	if len(ranges) == 0 {
		return
	}
	for i := 0; i < len(ranges)-1 && i < len(old); i++ {
		if i < n-1 || !adjacent {
			verif.Assert(ranges[i] == old[i], "earlier-ranges-untouched")
		}
	}
	last := ranges[len(ranges)-1]
	verif.Assert(uint64(last.Offset+last.Length) == e.Offset+e.Length, "last-range-ends-with-entry")
	if adjacent {
		verif.Assert(last.Offset == old[n-1].Offset, "coalesced-keeps-start")
	} else {
		verif.Assert(uint64(last.Offset) == e.Offset, "new-range-starts-at-entry")
	}
	inNew := false
	for _, r := range ranges {
		was := inNew
		inNew = verif.MergeBool(func() bool { return was || (x >= r.Offset && x < r.Offset+r.Length) })
	}
	verif.Assert(inNew == (inOld || inE), "union-preserved")
	verif.Observe("nranges", len(ranges))
	verif.Reach("end")
}
