//go:build verif

package seekindex

// verif:desc C16-O5 byte ranges read for the seek entries that survive pruning: the Ranges.Append step of VerifH_C14_O2_ranges_append_step under property C16 — skipping parts of an object through the seek index only excludes pruned entries: a kept entry that follows a gap (pruned entries in between) gets its own range, an adjacent one extends the last range by exactly its length, so the bytes read are exactly the bytes of the kept entries.
// verif:bounds as VerifH_C14_O2_ranges_append_step
// verif:outside as VerifH_C14_O2_ranges_append_step
func VerifH_C16_O5_ranges_append() { vRangesAppendStep() }
