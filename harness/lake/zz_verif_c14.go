//go:build verif

package lake

import (
	"bytes"
	"context"
	"io"

	"github.com/brimdata/super"
	"github.com/brimdata/super/internal/verif"
	"github.com/brimdata/super/lake/pools"
	"github.com/brimdata/super/order"
	"github.com/brimdata/super/pkg/field"
	"github.com/brimdata/super/pkg/storage"
	"github.com/brimdata/super/zcode"
)

// ---------------------------------------------------------------------------
// O4: the load/merge comparator

// v14Int is a specification-side int64 together with its canonical ZNG body
// of at most one byte: 0 (empty body) or any value in -127..127 or
// math.MinInt64 (body 0x01).
type v14Int struct {
	body []byte
	val  int64
}

func v14SymInt(name string, mayBeZero bool) v14Int {
	if mayBeZero && verif.Choose(name+".zero", 2) == 0 {
		return v14Int{body: []byte{}, val: 0}
	}
	b := verif.Byte(name)
	verif.Assume(b != 0)
	return v14Int{body: []byte{b}, val: verif.MergeInt64(func() int64 { return zed.DecodeInt([]byte{b}) })}
}

// v14Rec is one value of the comparator template.
type v14Rec struct {
	kind int // 0 {k:int64,v:int64}  1 {k:null(int64),v:int64}  2 {v:int64}  3 {k:int64,v:duration}
	k, v v14Int
	val  zed.Value
}

func (r v14Rec) nullKey() bool { return r.kind == 1 || r.kind == 2 }

func v14SymRec(zctx *zed.Context, name string, nkinds int) v14Rec {
	r := v14Rec{kind: verif.Choose(name+".kind", nkinds)}
	var b zcode.Builder
	var typ zed.Type
	r.v = v14SymInt(name+".v", false)
	switch r.kind {
	case 0, 3:
		r.k = v14SymInt(name+".k", true)
		b.Append(r.k.body)
		b.Append(r.v.body)
		vt := zed.Type(zed.TypeInt64)
		if r.kind == 3 {
			vt = zed.TypeDuration
		}
		typ = zctx.MustLookupTypeRecord([]zed.Field{zed.NewField("k", zed.TypeInt64), zed.NewField("v", vt)})
	case 1:
		b.Append(nil)
		b.Append(r.v.body)
		typ = zctx.MustLookupTypeRecord([]zed.Field{zed.NewField("k", zed.TypeInt64), zed.NewField("v", zed.TypeInt64)})
	case 2:
		b.Append(r.v.body)
		typ = zctx.MustLookupTypeRecord([]zed.Field{zed.NewField("v", zed.TypeInt64)})
	}
	r.val = zed.NewValue(typ, b.Bytes())
	return r
}

func v14Sign(i int) int {
	if i < 0 {
		return -1
	}
	if i > 0 {
		return 1
	}
	return 0
}

// verif:desc C14-O4 lake.ImportComparator / zbuf.NewComparatorNullsMax (the comparator that sorts a load and merges overlapping objects on scan), pool key k asc or desc, on two record values: (a) the key decides first, with null and missing keys equal to each other and larger than every int64 key, the sense reversed for desc; (b) Compare is antisymmetric; (c) Compare returns 0 only for identical values (same type, same bytes) - otherwise the order of key-tied values in a merged scan depends on the order in which the objects are listed (a Go map range).
// verif:bounds a, b each one of {k:int64,v:int64}, {k:null(int64),v:int64}, {v:int64} (k missing), {k:int64,v:duration}; k is 0, any value in -127..127, or MinInt64 (canonical bodies of at most 1 byte), v likewise but not 0; order asc or desc
// verif:outside keys of other types, nested key paths, secondary sort keys; the n-way merge itself (zbuf.Merger) and the load sort (expr.Comparator.SortStable)
func VerifH_C14_O4_import_comparator() {
	zctx := zed.NewContext()
	desc := verif.Choose("desc", 2) == 1
	o := order.Asc
	if desc {
		o = order.Desc
	}
	pool := &Pool{Config: pools.Config{SortKeys: order.SortKeys{order.NewSortKey(o, field.Path{"k"})}}}
	cmp := ImportComparator(zctx, pool)
	a := v14SymRec(zctx, "a", 4)
	b := v14SymRec(zctx, "b", 4)
	cab, cba := cmp.Compare(a.val, b.val), cmp.Compare(b.val, a.val)
	ab := verif.MergeInt(func() int { return v14Sign(cab) })
	ba := verif.MergeInt(func() int { return v14Sign(cba) })
	verif.Observe("ab", ab)
	verif.Assert(ab == -ba, "antisymmetric")

	// (a) key order, nulls and missing largest
	want, tie := 0, false
	switch {
	case a.nullKey() && b.nullKey():
		tie = true
	case a.nullKey():
		want = 1
	case b.nullKey():
		want = -1
	case a.k.val < b.k.val:
		want = -1
	case a.k.val > b.k.val:
		want = 1
	default:
		tie = true
	}
	if desc {
		want = -want
	}
	if !tie {
		verif.Assert(ab == want, "key-order-nulls-max")
		verif.Reach("keys-differ")
	} else {
		// (c) deterministic ties
		same := a.val.Type() == b.val.Type() && bytes.Equal(a.val.Bytes(), b.val.Bytes())
		if same {
			verif.Assert(ab == 0, "identical-values-compare-equal")
			verif.Reach("identical")
		} else if a.val.Type() != b.val.Type() && bytes.Equal(a.val.Bytes(), b.val.Bytes()) {
			verif.Reach("same-bytes-different-type")
			verif.Assert(ab != 0, "tie-broken-for-distinct-values/same-bytes-different-type")
		} else {
			verif.Assert(ab != 0, "tie-broken-for-distinct-values")
			verif.Reach("tie-broken")
		}
	}
	if a.nullKey() != b.nullKey() {
		verif.Reach("null-vs-int")
	}
	verif.Reach("end")
}

// verif:desc C14-O4b the load sort: ImportComparator(...).SortStableReader (expr.Comparator.sortStableIndices with its native int64 fast path, as lake.Writer.writeObject calls it) on 2 record values returns every input value exactly once, in an order in which no value is followed by one that Compare puts strictly before it, and values that Compare calls equal keep their input order.
// verif:bounds 2 values, each one of {k:int64,v:int64} (k 0, -127..127 or MinInt64; v 1-byte body), {k:null(int64),v:int64}, {v:int64} (k missing), {k:uint64} with any 8-byte body whose top byte is non-zero (values >= 2^56, including those above MaxInt64 that the fast path clamps); order asc or desc; sort.SliceStable is the engine's insertion-sort intrinsic driven by the real less closure
// verif:outside more than 2 values (3 in the thorough tier); keys of non-integer types (the non-native path is then the same compareValues that C14-O4 covers); buffering and flipBuffers of lake.Writer (goroutines)
func VerifH_C14_O4b_load_sort() {
	v14LoadSort(2)
}

// verif:desc C14-O4bt as C14-O4b with exactly 3 values.
// verif:bounds as C14-O4b, 3 values
// verif:outside as C14-O4b
// verif:tier thorough
func VerifH_C14_O4bt_load_sort_3() {
	v14LoadSort(3)
}

func v14LoadSort(n int) {
	zctx := zed.NewContext()
	desc := verif.Choose("desc", 2) == 1
	o := order.Asc
	if desc {
		o = order.Desc
	}
	pool := &Pool{Config: pools.Config{SortKeys: order.SortKeys{order.NewSortKey(o, field.Path{"k"})}}}
	cmp := ImportComparator(zctx, pool)
	vals := make([]zed.Value, n)
	for i := range vals {
		if verif.Choose("uint", 2) == 1 {
			body := verif.BytesN("u", 8)
			verif.Assume(body[7] != 0)
			var b zcode.Builder
			b.Append(body)
			typ := zctx.MustLookupTypeRecord([]zed.Field{zed.NewField("k", zed.TypeUint64)})
			vals[i] = zed.NewValue(typ, b.Bytes())
		} else {
			vals[i] = v14SymRec(zctx, "r", 3).val
		}
	}
	in := append([]zed.Value(nil), vals...)
	r := cmp.SortStableReader(vals)
	var out []int
	for {
		val, err := r.Read()
		verif.Assert(err == nil, "read-no-error")
		if val == nil {
			break
		}
		// identify the value by its position in the input slice
		idx := -1
		for j := range vals {
			if val == &vals[j] {
				idx = j
			}
		}
		verif.Assert(idx >= 0, "output-is-an-input-value")
		out = append(out, idx)
		if len(out) > n {
			break
		}
	}
	verif.Assert(len(out) == n, "every-value-once")
	if len(out) != n {
		return
	}
	seen := make([]bool, n)
	for _, idx := range out {
		if idx < 0 {
			return
		}
		verif.Assert(!seen[idx], "every-value-once")
		seen[idx] = true
	}
	for i := 0; i+1 < n; i++ {
		x, y := out[i], out[i+1]
		c := cmp.Compare(in[x], in[y])
		c = verif.MergeInt(func() int { return v14Sign(c) })
		verif.Assert(c <= 0, "output-in-comparator-order")
		if x > y {
			verif.Assert(c != 0, "equal-values-keep-input-order")
		}
	}
	verif.Observe("first", out[0])
	if out[0] != 0 {
		verif.Reach("reordered")
	}
	verif.Reach("end")
}

// ---------------------------------------------------------------------------
// O6: SortedWriter (compaction output)

type v14Sink struct {
	name   string
	buf    []byte
	closed bool
}

func (s *v14Sink) Write(p []byte) (int, error) {
	s.buf = append(s.buf, p...)
	return len(p), nil
}

func (s *v14Sink) Close() error {
	s.closed = true
	return nil
}

// v14Engine is the model storage: every Put creates a new sink, in order.
type v14Engine struct {
	sinks   []*v14Sink
	removed int
}

var _ storage.Engine = (*v14Engine)(nil)

func (e *v14Engine) Put(_ context.Context, u *storage.URI) (io.WriteCloser, error) {
	s := &v14Sink{name: u.Path}
	e.sinks = append(e.sinks, s)
	return s, nil
}
func (e *v14Engine) Get(context.Context, *storage.URI) (storage.Reader, error) {
	return nil, storage.ErrNotSupported
}
func (e *v14Engine) PutIfNotExists(context.Context, *storage.URI, []byte) error {
	return storage.ErrNotSupported
}
func (e *v14Engine) Delete(context.Context, *storage.URI) error { e.removed++; return nil }
func (e *v14Engine) DeleteByPrefix(context.Context, *storage.URI) error {
	e.removed++
	return nil
}
func (e *v14Engine) Exists(context.Context, *storage.URI) (bool, error) { return false, nil }
func (e *v14Engine) Size(context.Context, *storage.URI) (int64, error)  { return 0, nil }
func (e *v14Engine) List(context.Context, *storage.URI) ([]storage.Info, error) {
	return nil, nil
}

type v14Key struct {
	null bool
	k    int64
}

func (a v14Key) same(v zed.Value) bool {
	if a.null {
		return v.IsNull()
	}
	return !v.IsNull() && v.Type().ID() == zed.IDInt64 && v.Int() == a.k
}

// verif:desc C14-O6 lake.NewSortedWriter + SortedWriter.{Write,newWriter,Close} with the real data.Object.NewWriter/data.Writer on model storage: for 2..3 values written in pool order, every value goes to exactly one object (the one open when Write returned; object indices start at 0 and grow by at most one per value), a new object is started only between values with different keys (equal keys never straddle objects), every object was opened with one data and one seek-index Put and both are closed after Close, and each object's Count/Min/Max/Size are the number/smallest key/largest key (ascending terms, null largest) of the values written to it and the bytes stored for it.
// verif:bounds 2..3 values {k:K,m:bytes}; K null (at most a run at the large end) or an int64 with a 1-byte body (-127..127 without 0, or MinInt64) in pool order; order asc or desc; pool threshold any value in 1..64 bytes; seek stride 1 (an end-of-stream, hence a byte count update, after every non-null key) or 2
// verif:outside vector writing; failing storage (Abort); the compaction scan that feeds the writer; LZ4 (contract stub: incompressible) and the zson marshaler of the seek index (identity intrinsic) under gosym
func VerifH_C14_O6_sorted_writer_split() {
	v14SortedWriter(2, 3)
}

// verif:desc C14-O6t as C14-O6 with 4 values.
// verif:bounds as C14-O6, exactly 4 values
// verif:outside as C14-O6
// verif:tier thorough
func VerifH_C14_O6t_sorted_writer_split_4() {
	v14SortedWriter(4, 4)
}

func v14SortedWriter(minN, maxN int) {
	zctx := zed.NewContext()
	desc := verif.Choose("desc", 2) == 1
	o := order.Asc
	if desc {
		o = order.Desc
	}
	eng := &v14Engine{}
	pool := &Pool{
		Config: pools.Config{
			SortKeys:   order.SortKeys{order.NewSortKey(o, field.Path{"k"})},
			SeekStride: verif.Choose("stride", 2) + 1,
			Threshold:  int64(verif.Range("threshold", 1, 64)),
		},
		engine:   eng,
		DataPath: &storage.URI{Scheme: "file", Path: "/pool/data"},
	}
	w := NewSortedWriter(context.Background(), zctx, pool, false)
	typ := zctx.MustLookupTypeRecord([]zed.Field{zed.NewField("k", zed.TypeInt64), zed.NewField("m", zed.TypeBytes)})
	n := verif.Choose("n", maxN-minN+1) + minN
	keys := make([]v14Key, n)
	objOf := make([]int, n)
	for i := 0; i < n; i++ {
		var b zcode.Builder
		if verif.Choose("null", 2) == 1 {
			keys[i] = v14Key{null: true}
			b.Append(nil)
		} else {
			kb := verif.Byte("k")
			verif.Assume(kb != 0)
			keys[i] = v14Key{k: verif.MergeInt64(func() int64 { return zed.DecodeInt([]byte{kb}) })}
			b.Append([]byte{kb})
		}
		b.Append([]byte{0xee, byte(0xa0 + i), 0xee})
		if i > 0 {
			p, c := keys[i-1], keys[i]
			if desc {
				p, c = c, p
			}
			// pool order: p <= c with null largest
			verif.Assume(c.null || (!p.null && p.k <= c.k))
		}
		err := w.Write(zed.NewValue(typ, b.Bytes()))
		verif.Assert(err == nil, "write-no-error")
		objOf[i] = len(w.Objects()) - 1
	}
	verif.Assert(w.Close() == nil, "close-no-error")
	objects := w.Objects()
	verif.Assert(eng.removed == 0, "nothing-removed")
	verif.Assert(len(eng.sinks) == 2*len(objects), "two-puts-per-object")
	if len(eng.sinks) != 2*len(objects) {
		return
	}
	verif.Assert(objOf[0] == 0, "first-value-in-first-object")
	for i := 1; i < n; i++ {
		verif.Assert(objOf[i] == objOf[i-1] || objOf[i] == objOf[i-1]+1, "object-index-monotone")
		if objOf[i] != objOf[i-1] {
			verif.Assert(keys[i] != keys[i-1], "split-only-between-different-keys")
		}
	}
	verif.Assert(objOf[n-1] == len(objects)-1, "no-empty-trailing-object")
	for j, obj := range objects {
		first, last, cnt := -1, -1, 0
		for i := 0; i < n; i++ {
			if objOf[i] == j {
				if first < 0 {
					first = i
				}
				last = i
				cnt++
			}
		}
		verif.Assert(cnt > 0, "object-not-empty")
		if cnt == 0 {
			continue
		}
		verif.Assert(obj.Count == uint64(cnt), "object-count")
		lo, hi := keys[first], keys[last]
		if desc {
			lo, hi = hi, lo
		}
		verif.Assert(lo.same(obj.Min), "object-min")
		verif.Assert(hi.same(obj.Max), "object-max")
		dataSink, seekSink := eng.sinks[2*j], eng.sinks[2*j+1]
		verif.Assert(dataSink.closed && seekSink.closed, "object-files-closed")
		verif.Assert(obj.Size == int64(len(dataSink.buf)) && obj.Size > 0, "object-size")
	}
	verif.Observe("objects", len(objects))
	if len(objects) > 1 {
		verif.Reach("split")
	}
	if len(objects) < n {
		verif.Reach("object-with-several-values")
	}
	verif.Reach("end")
}
