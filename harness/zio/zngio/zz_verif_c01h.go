//go:build verif

package zngio

import (
	"github.com/brimdata/super"
	"github.com/brimdata/super/internal/verif"
	"github.com/brimdata/super/zcode"
)

const v01hNTemplates = 11

// v01hType builds complex type k in zctx.  Every typedef kind of the ZNG type
// encoding occurs with COMPLEX component types (whose ids are context-local).
func v01hType(zctx *zed.Context, k int) zed.Type {
	rec := func(name string, t zed.Type) zed.Type {
		return zctx.MustLookupTypeRecord([]zed.Field{zed.NewField(name, t)})
	}
	ra := rec("a", zed.TypeInt64)
	rb := rec("b", zed.TypeString)
	switch k {
	case 0: // {o:{a:int64},p:{b:string}}
		return zctx.MustLookupTypeRecord([]zed.Field{zed.NewField("o", ra), zed.NewField("p", rb)})
	case 1: // [{a:int64}]
		return zctx.LookupTypeArray(ra)
	case 2: // |[{b:string}]|
		return zctx.LookupTypeSet(rb)
	case 3: // |{{a:int64}:string}|  complex KEY
		return zctx.LookupTypeMap(ra, zed.TypeString)
	case 4: // |{string:{b:string}}|  complex VALUE
		return zctx.LookupTypeMap(zed.TypeString, rb)
	case 5: // |{{b:string}:{a:int64}}|  both complex, created in the other order
		return zctx.LookupTypeMap(rb, ra)
	case 6: // ({a:int64},[{b:string}],int64)
		return zctx.LookupTypeUnion([]zed.Type{ra, zctx.LookupTypeArray(rb), zed.TypeInt64})
	case 7: // error({a:int64})
		return zctx.LookupTypeError(ra)
	case 8: // m=|{{a:int64}:[{a:int64}]}|
		named, _ := zctx.LookupTypeNamed("m", zctx.LookupTypeMap(ra, zctx.LookupTypeArray(ra)))
		return named
	case 9: // enum
		return zctx.LookupTypeEnum([]string{"x", "y"})
	default: // {k:|{{o:{a:int64}}:int64}|}: map keyed by a nested record inside a record
		return rec("k", zctx.LookupTypeMap(rec("o", ra), zed.TypeInt64))
	}
}

// v01hBody: a non-null body for the templates where it is short to build.
func v01hBody(k int, leaf []byte) (zcode.Bytes, bool) {
	switch k {
	case 0:
		return zcode.Append(zcode.Append(nil, zcode.Append(nil, leaf)), zcode.Append(nil, []byte("s"))), true
	case 1:
		return zcode.Append(nil, zcode.Append(nil, leaf)), true
	case 3:
		// one entry: key {a:leaf}, value "v"
		return zcode.Append(zcode.Append(nil, zcode.Append(nil, leaf)), []byte("v")), true
	case 7:
		return zcode.Append(nil, leaf), true
	}
	return nil, false
}

// verif:desc C01-O8 the ZNG type encoding is independent of how the writer's caller numbered its types: 1-2 values of complex types (nested records, array/set of record, maps with a complex KEY / complex VALUE / both, union with complex members, error of record, named map, enum, map keyed by a nested record) are written with zngio.Writer (Encoder.Encode/encodeTypeRecord/Array/Set/Map/Union/Enum/Error/Named - the typedefs must name STREAM-LOCAL ids) from a caller context in which 0-2 unrelated complex types were created first (so caller ids and stream ids differ), optionally with an EndStream between the values (stream ids restart), and read back with the real Reader into a fresh context: the type read back has exactly the type value (zed.EncodeTypeValue: full structure with names) of the type written, null-ness and bytes are preserved, EOF follows.
// verif:bounds 11 type templates x 11 for the second value; 0..2 junk types first in the caller's context; value null, or a one-entry body for 4 templates (1 symbolic int64 leaf byte); separator none/EndStream; Threads=1, Validate on, compression off
// verif:outside types from several caller contexts in one stream; more than two values; LZ4; multi-threaded scanner
func VerifH_C01_O8_typedefs_any_caller_numbering() {
	sink := &v01CapSink{}
	wctx := zed.NewContext()
	junk := verif.Choose("junk", 3)
	for i := 0; i < junk; i++ {
		// unrelated complex types: shift the caller's numbering
		wctx.LookupTypeArray(wctx.MustLookupTypeRecord([]zed.Field{zed.NewField("junk", zed.TypeIP)}))
		if i == 1 {
			wctx.LookupTypeSet(zed.TypeDuration)
		}
	}
	w := NewWriterWithOpts(sink, WriterOpts{})
	nvals := 1 + verif.Choose("nvals", 2)
	type written struct {
		tv   string
		null bool
		body []byte
	}
	var want []written
	for i := 0; i < nvals; i++ {
		if i == 1 && verif.Choose("sep", 2) == 1 {
			verif.Assert(w.EndStream() == nil, "endstream-noerr")
			verif.Reach("endstream")
		}
		k := verif.Choose("tmpl", v01hNTemplates)
		typ := v01hType(wctx, k)
		val := zed.NewValue(typ, nil)
		if body, ok := v01hBody(k, verif.BytesN("leaf", 1)); ok && verif.Choose("null", 2) == 0 {
			val = zed.NewValue(typ, body)
		}
		want = append(want, written{tv: string(zed.EncodeTypeValue(typ)), null: val.IsNull(), body: append([]byte{}, val.Bytes()...)})
		verif.Assert(w.Write(val) == nil, "write-noerr")
	}
	verif.Assert(w.Close() == nil, "close-noerr")
	src := &v01ChunkReader{data: sink.data, chunk: 1 << 20}
	r := NewReaderWithOpts(zed.NewContext(), src, ReaderOpts{Validate: true, Size: 7, Max: 1 << 16, Threads: 1})
	for i := range want {
		val, err := r.Read()
		verif.Assert(err == nil, "read-noerr")
		verif.Assert(val != nil, "read-value-present")
		if err != nil || val == nil {
			return
		}
		verif.Assert(string(zed.EncodeTypeValue(val.Type())) == want[i].tv, "type-preserved")
		verif.Assert(val.IsNull() == want[i].null, "null-preserved")
		verif.Assert(v01Eq(val.Bytes(), want[i].body), "bytes-preserved")
	}
	val, err := r.Read()
	verif.Assert(err == nil && val == nil, "eof-after-last")
	if junk > 0 {
		verif.Reach("caller-ids-differ-from-stream-ids")
	}
	verif.Reach("end")
}
