//go:build verif

package zngio

import (
	"bytes"

	"github.com/brimdata/super"
	"github.com/brimdata/super/internal/verif"
	"github.com/brimdata/super/zcode"
)

// verifLZ4PairModel switches the engine's paired LZ4 contract model on for the
// current path (engine intrinsic, /verif/engine/gosym/intrinsics_lz4pair.go):
// CompressBlock then forks between "incompressible" and a compressed form that
// UncompressBlock inverts.  Natively it does nothing: the real LZ4 runs.
//
//go:noinline
func verifLZ4PairModel() {}

// templates (see v01MkValue) whose types frame and whose one-value values frame
// are longer than 4 bytes, i.e. frames the LZ4 model can compress on their own
//
// template 9 (only here): {aaaaaaaaaaaaaaaaaaaaaaaa:string} holding 2 symbolic
// bytes followed by 30 'x' — both of its frames are compressible for the real
// LZ4 as well, so that a counterexample on a compressed frame reproduces in the
// native replay
var v01dFirst = []int{3, 5, 6, 7, v01dBig}

const v01dBig = 9

const v01dBigName = "aaaaaaaaaaaaaaaaaaaaaaaa"

func v01dMkValue(zctx *zed.Context, name string, k int) zed.Value {
	if k != v01dBig {
		return v01MkValue(zctx, name, k, false)
	}
	typ := zctx.MustLookupTypeRecord([]zed.Field{zed.NewField(v01dBigName, zed.TypeString)})
	s := append(verif.BytesN(name+".big", 2), bytes.Repeat([]byte{'x'}, 30)...)
	return zed.NewValue(typ, zcode.Append(nil, s))
}

func v01dTypeIs(typ zed.Type, k int) bool {
	if k != v01dBig {
		return v01TypeIs(typ, k)
	}
	r, ok := typ.(*zed.TypeRecord)
	return ok && len(r.Fields) == 1 && r.Fields[0].Name == v01dBigName && r.Fields[0].Type == zed.TypeString
}

// second value: a record already defined (no new types frame), a typedef chain
// and a nesting record that refer to a type defined in an earlier — possibly
// compressed — types frame, and a primitive (a 4-byte values frame when it is
// alone in its frame: incompressible, so compressed and plain frames mix)
var v01dSecond = []int{3, 5, 8, 0}

// reader configurations {read size, source chunk, validate}
var v01dReaderCfgs = [][3]int{{1, 1, 0}, {7, 1 << 20, 1}}

// verif:desc C01-O8 stream level with WriterOpts.Compress=true: 1-2 values written with zngio.Writer (Write/flush/writeBlock/compressor.compress/writeCompHeader/EndStream/Close) and read back with NewReaderWithOpts+Read (parser.read/readCompressedFrame, frame.decompress for types frames in the parser and for values frames in scannerSync.Pull, buffer pool reuse, Decoder.decode, worker.scanBatch): whether each of the up to 4 frames comes out compressed or not (every combination), the reader returns the same number of values in the same order with the same null-ness, bytes and (structurally) types; EOF afterwards.  LZ4 itself is the paired contract model of intrinsics_lz4pair.go (compress = either incompressible or a shorter form that uncompress inverts exactly).
// verif:bounds first value from {{a:int64}, nr={a:int64}, [int64] with a null element, {b:string,c:n=string}, {aaaaaaaaaaaaaaaaaaaaaaaa:string} with a 32-byte string of 2 symbolic bytes + 30 'x' (compressible for the real LZ4 too)}, second from {{a:int64}, nr={a:int64}, {o:{a:int64}}, int64}, 2 symbolic leaf bytes per leaf; every types/values frame of more than 4 bytes is independently compressed or left plain (engine Choose), shorter ones are plain; FrameThresh any value in 1..2^20 (symbolic: one frame pair per value, or both values in one frame pair); EndStream between the values optional; reader (read size, source chunk, Validate) in {(1,1,off),(7,unlimited,on)}; Threads=1
// verif:outside the LZ4 codec itself (contract model; the native replay runs the real one, for which these short blocks are incompressible); multi-threaded scanner; more than 2 values; null values; concatenated streams (O6)
// verif:unwind 64
func VerifH_C01_O8_stream_compressed() {
	verifLZ4PairModel()
	sink := &v01CapSink{}
	wctx := zed.NewContext()
	thresh := verif.Range("thresh", 1, 1<<20)
	w := NewWriterWithOpts(sink, WriterOpts{Compress: true, FrameThresh: thresh})
	var want []v01Written
	nvals := verif.Choose("nvals", 2) + 1
	sep := 0
	for i := 0; i < nvals; i++ {
		if i == 1 {
			sep = verif.Choose("sep", 2)
			if sep == 1 {
				verif.Assert(w.EndStream() == nil, "endstream-noerr")
			}
		}
		var k int
		if i == 0 {
			k = v01dFirst[verif.Choose("tmpl", len(v01dFirst))]
		} else {
			k = v01dSecond[verif.Choose("tmpl", len(v01dSecond))]
		}
		val := v01dMkValue(wctx, "v", k)
		want = append(want, v01Written{k: k, null: val.IsNull(), body: bytes.Clone(val.Bytes())})
		verif.Assert(w.Write(val) == nil, "write-noerr")
	}
	verif.Assert(w.Close() == nil, "close-noerr")
	verif.Assert(sink.closed, "sink-closed")
	// a compressed frame carries bit 6 in its first byte; the first frame of
	// the output is the types frame of the first value
	if len(sink.data) > 0 && sink.data[0]&0x40 != 0 {
		verif.Reach("first-frame-compressed")
	}

	rc := v01dReaderCfgs[verif.Choose("readercfg", len(v01dReaderCfgs))]
	rsize, chunk, validate := rc[0], rc[1], rc[2] == 1
	src := &v01ChunkReader{data: sink.data, chunk: chunk}
	r := NewReaderWithOpts(zed.NewContext(), src, ReaderOpts{Validate: validate, Size: rsize, Max: 1 << 16, Threads: 1})
	var gotTypes []zed.Type
	for i := 0; i < len(want); i++ {
		val, err := r.Read()
		verif.Assert(err == nil, "read-noerr")
		verif.Assert(val != nil, "read-value-present")
		if err != nil || val == nil {
			return
		}
		// value bytes are only promised until the next Read: compare now
		verif.Assert(val.IsNull() == want[i].null, "null-preserved")
		verif.Assert(v01Eq(val.Bytes(), want[i].body), "bytes-preserved")
		gotTypes = append(gotTypes, val.Type())
	}
	val, err := r.Read()
	verif.Assert(err == nil && val == nil, "eof-after-last")
	for i, t := range gotTypes {
		verif.Assert(v01dTypeIs(t, want[i].k), "type-preserved")
	}
	if len(want) == 2 && want[0].k == want[1].k && sep == 0 {
		verif.Assert(gotTypes[0] == gotTypes[1], "same-type-same-pointer")
	}
	if sep == 1 {
		verif.Reach("endstream")
	}
	verif.Reach("end")
}
