//go:build verif

package zngio

import (
	"bytes"

	"github.com/brimdata/super"
	"github.com/brimdata/super/internal/verif"
	"github.com/brimdata/super/pkg/peeker"
	"github.com/brimdata/super/zcode"
)

// vWalk touches every byte the way consumers do: iterate containers per type.
func vWalk(val *zed.Value) {
	_ = zed.Walk(val.Type(), val.Bytes(), func(typ zed.Type, body zcode.Bytes) error {
		return nil
	})
}

func vScanAll(data []byte, validate bool, size, max int) {
	r := NewReaderWithOpts(zed.NewContext(), bytes.NewReader(data), ReaderOpts{Validate: validate, Size: size, Max: max, Threads: 1})
	for i := 0; i < 6; i++ {
		val, err := r.Read()
		if err != nil {
			verif.Reach("error")
			return
		}
		if val == nil {
			verif.Reach("eof")
			return
		}
		verif.Reach("value")
		if validate {
			// with validation on, every value handed out must be walkable
			vWalk(val)
		}
	}
}

// verif:desc C11-O1a arbitrary bytes fed to the ZNG reader (parser.read, readFrame, readCompressedFrame, decodeLength, Decoder.decode, worker.scanBatch/decodeVal, peeker) with Threads=1 terminate with values or an error: no panic escapes (implicit assertion of every harness), and with Validate on every value handed out can be walked according to its type.
// verif:bounds input: every byte string of length 0..4 (quick) / 0..6 (thorough); Validate symbolic; read size in {1,8}; max frame size 8
// verif:outside multi-threaded scanner (goroutines/channels); LZ4 payload contents (contract stub: error / full / short); inputs longer than the bound
// verif:unwind 40
func VerifH_C11_O1a_zng_bytes() {
	n := 4
	if verif.Thorough() {
		n = 6
	}
	data := verif.Bytes("data", n)
	size := []int{1, 8}[verif.Choose("size", 2)]
	vScanAll(data, verif.Bool("validate"), size, 8)
	verif.Reach("end")
}

// verif:desc C11-O1b compressed-frame header: for a frame with the compression bit set, any 1-byte length, any format byte and ANY uvarint-encoded uncompressed size (1..10 bytes, including values >= 2^63 that wrap negative), parser.read either returns an error or buffers whose lengths are within [0, maxSize]; no panic escapes.
// verif:bounds code: any byte with bits 7..6 == 01; length byte < 0x80; format any byte; size: any uvarint of up to 10 bytes; up to 1 payload byte; maxSize = read size = 3 (quick) / 8 (thorough) (NewReaderWithOpts clamps the read size to the maximum)
// verif:outside multi-byte frame length (covered up to the input bound by O1a)
// verif:unwind 40
func VerifH_C11_O1b_comp_header() {
	code := verif.Byte("code")
	verif.Assume(code&0xc0 == 0x40)
	// values or control frame (a types frame makes read() loop on to the next frame; see O1a)
	verif.Assume((code>>4)&3 != TypesFrame)
	lenb := verif.Byte("len")
	verif.Assume(lenb < 0x80)
	data := []byte{code, lenb, verif.Byte("fmt")}
	data = append(data, verif.Bytes("size", 10)...)
	data = append(data, verif.Bytes("payload", 1)...)
	max := 3
	if verif.Thorough() {
		max = 8
	}
	p := parser{
		peeker:  peeker.NewReader(bytes.NewReader(data), max, max),
		types:   NewDecoder(zed.NewContext()),
		maxSize: max,
	}
	f, err := p.read()
	if err != nil {
		verif.Reach("error")
		return
	}
	if f.ubuf != nil {
		verif.Assert(len(f.ubuf.data) <= max, "ubuf-within-max")
	}
	if f.zbuf != nil {
		verif.Assert(len(f.zbuf.data) <= max, "zbuf-within-max")
	}
	verif.Reach("frame")
}
