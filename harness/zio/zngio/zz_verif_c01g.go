//go:build verif

package zngio

import (
	"bytes"
	"context"

	"github.com/brimdata/super"
	"github.com/brimdata/super/internal/verif"
	"github.com/brimdata/super/zcode"
	"github.com/brimdata/super/zbuf"
)

// value choices {template, null} (templates: see v01MkValue)
//
// first: int64, {a:int64}, n=int64, nr={a:int64}, {b:string,c:n=string}, null int64
var v01gFirst = [][2]int{{0, 0}, {3, 0}, {4, 0}, {5, 0}, {7, 0}, {0, 1}}

// second: {a:int64} (already defined, or re-defined after an end-of-stream),
// n=int64 / {b:string,c:n=string} (re-bind name n and type id 30), nr and
// {o:{a:int64}} (nest a record type an earlier frame may have defined), null {a:int64}
var v01gSecond = [][2]int{{3, 0}, {4, 0}, {7, 0}, {5, 0}, {8, 0}, {3, 1}}

// four values (two workers: the fourth frame is read after a worker has come
// back and, when the consumer releases its batches, goes into the buffer and
// the batch object of the first): per position two or three choices
var v01gFour = [][][2]int{
	{{3, 0}, {7, 0}},
	{{4, 0}, {8, 0}},
	{{0, 0}, {5, 0}},
	{{3, 0}, {3, 1}, {4, 0}},
}

// reader configurations {threads, read size, source chunk, validate}
var v01gReaderCfgs = [][4]int{{2, 1, 1, 0}, {2, 7, 1 << 20, 1}, {3, 1, 1 << 20, 1}, {3, 7, 2, 0}}

// v01gRun writes nvals values, one values frame (and types frame) per value,
// and reads them back through the threaded scanner.
func v01gRun(nvals int, compress bool) { v01gRunSched(nvals, compress, 0) }

func v01gRunSched(nvals int, compress bool, sched int) {
	combo := 0
	if sched > 0 {
		// schedules are the quantifier: two template combinations, EndStream
		// nowhere or before the third value
		verif.Schedules(sched)
		verif.Races(true)
		combo = verif.Choose("combo", 2)
	} else {
		verif.Goroutines(true)
	}
	if compress {
		verifLZ4PairModel()
	}
	sink := &v01CapSink{}
	wctx := zed.NewContext()
	w := NewWriterWithOpts(sink, WriterOpts{FrameThresh: 1, Compress: compress})
	var want []v01Written
	nsep := 0
	// four values: at most one end-of-stream, at a chosen position
	sepAt := -1
	if nvals == 4 && sched > 1 {
		sepAt = 2
	} else if nvals == 4 && sched > 0 {
		sepAt = 2 * verif.Choose("endstreamat", 2)
	} else if nvals == 4 {
		sepAt = verif.Choose("endstreamat", 4)
	}
	for i := 0; i < nvals; i++ {
		if i > 0 && (nvals == 4 && i == sepAt || nvals != 4 && verif.Choose("endstream", 2) == 1) {
			// a new local type context starts here while the frame before
			// it may still be with a worker
			verif.Assert(w.EndStream() == nil, "endstream-noerr")
			nsep++
		}
		var c [2]int
		switch {
		case compress && i == 0:
			c = [2]int{v01dFirst[verif.Choose("tmpl", len(v01dFirst))], 0}
		case compress:
			c = [2]int{v01dSecond[verif.Choose("tmpl", len(v01dSecond))], 0}
		case nvals == 4 && sched > 0:
			c = v01gFour[i][combo%len(v01gFour[i])]
		case nvals == 4:
			c = v01gFour[i][verif.Choose("tmpl", len(v01gFour[i]))]
		case i == 0:
			c = v01gFirst[verif.Choose("tmpl", len(v01gFirst))]
		default:
			c = v01gSecond[verif.Choose("tmpl", len(v01gSecond))]
		}
		// distinct symbolic leaves per position: a swap of two values of
		// the same type is visible
		name := []string{"v0", "v1", "v2", "v3"}[i]
		var val zed.Value
		if compress {
			val = v01dMkValue(wctx, name, c[0])
		} else {
			val = v01MkValue(wctx, name, c[0], c[1] == 1)
		}
		want = append(want, v01Written{k: c[0], null: val.IsNull(), body: bytes.Clone(val.Bytes())})
		verif.Assert(w.Write(val) == nil, "write-noerr")
	}
	verif.Assert(w.Close() == nil, "close-noerr")

	rcfgs := v01gReaderCfgs
	if nvals == 4 {
		rcfgs = rcfgs[:2] // two workers
	}
	if sched > 1 {
		rcfgs = rcfgs[:1]
	}
	rc := rcfgs[verif.Choose("readercfg", len(rcfgs))]
	threads, rsize, chunk, validate := rc[0], rc[1], rc[2], rc[3] == 1
	src := &v01ChunkReader{data: sink.data, chunk: chunk}
	r := NewReaderWithOpts(zed.NewContext(), src, ReaderOpts{Validate: validate, Size: rsize, Max: 1 << 16, Threads: threads})
	typeIs := v01TypeIs
	if compress {
		typeIs = v01dTypeIs
	}

	var gotTypes []zed.Type
	switch verif.Choose("consumer", 3) {
	case 0:
		// zio.Reader use (Reader.Read over zbuf.PullerReader): a value is
		// promised until the next Read, which releases its batch
		for i := 0; i < len(want); i++ {
			val, err := r.Read()
			verif.Assert(err == nil, "read-noerr")
			verif.Assert(val != nil, "read-value-present")
			if err != nil || val == nil {
				return
			}
			verif.Assert(val.IsNull() == want[i].null, "null-preserved")
			verif.Assert(v01Eq(val.Bytes(), want[i].body), "bytes-preserved")
			gotTypes = append(gotTypes, val.Type())
		}
		val, err := r.Read()
		verif.Assert(err == nil && val == nil, "eof-after-last")
		val, err = r.Read()
		verif.Assert(err == nil && val == nil, "eof-is-sticky")
		verif.Assert(r.Close() == nil, "close-reader")
		verif.Reach("consumer-read")
	case 1:
		// zbuf.Puller use, every batch reference HELD until the end of the
		// input: the zbuf.Batch contract promises the values for as long
		// as the reference is held, whatever the scanner reads, decodes
		// and recycles meanwhile
		sc, err := r.NewScanner(context.Background(), nil)
		verif.Assert(err == nil, "newscanner-noerr")
		var held []zbuf.Batch
		var vals []zed.Value
		for {
			b, err := sc.Pull(false)
			if _, ok := err.(*zbuf.Control); ok {
				continue
			}
			verif.Assert(err == nil, "pull-noerr")
			if b == nil || err != nil {
				break
			}
			// FrameThresh 1: one value per frame, one frame per batch
			verif.Assert(len(b.Values()) == 1, "one-value-per-frame")
			held = append(held, b)
			vals = append(vals, b.Values()...)
		}
		verif.Assert(len(vals) == len(want), "count-preserved")
		if len(vals) != len(want) {
			return
		}
		b, err := sc.Pull(false)
		verif.Assert(b == nil && err == nil, "eof-is-sticky")
		for i, val := range vals {
			verif.Assert(val.IsNull() == want[i].null, "held-null-preserved")
			verif.Assert(v01Eq(val.Bytes(), want[i].body), "held-bytes-intact")
			gotTypes = append(gotTypes, val.Type())
		}
		for _, b := range held {
			b.Unref()
		}
		verif.Reach("consumer-hold")
	case 2:
		// zbuf.Puller use, each batch released before the next Pull (its
		// buffer and batch object go back to the pools and are taken by
		// frames read later); done is signalled after the last value
		sc, err := r.NewScanner(context.Background(), nil)
		verif.Assert(err == nil, "newscanner-noerr")
		for i := 0; i < len(want); i++ {
			var b zbuf.Batch
			for {
				b, err = sc.Pull(false)
				if _, ok := err.(*zbuf.Control); !ok {
					break
				}
			}
			verif.Assert(err == nil, "pull-noerr")
			verif.Assert(b != nil, "batch-present")
			if b == nil || err != nil {
				return
			}
			vals := b.Values()
			verif.Assert(len(vals) == 1, "one-value-per-frame")
			if len(vals) != 1 {
				return
			}
			verif.Assert(vals[0].IsNull() == want[i].null, "null-preserved")
			verif.Assert(v01Eq(vals[0].Bytes(), want[i].body), "bytes-preserved")
			gotTypes = append(gotTypes, vals[0].Type())
			b.Unref()
		}
		b, err := sc.Pull(false)
		verif.Assert(b == nil && err == nil, "eof-after-last")
		b, err = sc.Pull(true)
		verif.Assert(b == nil && err == nil, "done-after-eof")
		verif.Reach("consumer-release")
	}
	// types (names included) must be right after the whole input has gone by
	for i, t := range gotTypes {
		verif.Assert(typeIs(t, want[i].k), "type-preserved")
	}
	for i := range want {
		for j := 0; j < i; j++ {
			if want[i].k == want[j].k {
				// all values are mapped into ONE shared context
				verif.Assert(gotTypes[i] == gotTypes[j], "same-type-same-pointer")
			}
		}
	}
	if nsep > 0 {
		verif.Reach("endstream")
	}
	if threads == 3 {
		verif.Reach("threads3")
	}
	verif.Reach("end")
}

// verif:desc C01-O9 stream level through the THREADED scanner (cooperative goroutines): 2 values written with zngio.Writer, one types+values frame pair per value (FrameThresh 1), optional EndStream between them, read back with NewReaderWithOpts{Threads 2|3} i.e. scanner.Pull/start (the parser goroutine: parser.read, types frames decoded and the local type context reset at end-of-stream while earlier frames are with workers), worker.run/scanBatch/decodeVal (worker goroutines), the ordered result queue resultChCh, sendControl for EOF, buffer and batch recycling through sync.Pool (LIFO): the values come back in write ORDER with the same null-ness, bytes and (structurally) types, mapped into one shared context; EOF afterwards and sticky.  Three consumers: Reader.Read (value compared before the next Read), Puller with every batch reference held to the end of input (all values compared at the END: held values stay intact whatever was read, decoded and recycled meanwhile), Puller releasing each batch before the next Pull then Pull(done).
// verif:bounds first value from {int64, {a:int64}, n=int64, nr={a:int64}, {b:string,c:n=string}, null int64}, second from {{a:int64}, n=int64, {b:string,c:n=string}, nr={a:int64}, {o:{a:int64}}, null {a:int64}} (2 symbolic bytes per leaf, distinct per position); EndStream between them or not; reader (threads, read size, source chunk, Validate) in {(2,1,1,off),(2,7,unlimited,on),(3,1,unlimited,on),(3,7,2,off)}; compression off
// verif:outside ONE deterministic goroutine schedule (a goroutine runs until it blocks, then the first runnable one in FIFO order; select takes the first ready case): no other interleaving of parser, workers and consumer is explored, so data races and orderings that need a different schedule are not covered (the native replay runs the real goroutines on the counterexample / sample inputs only); more than 2 values (O9b: 4), compression (O9c), cancellation in mid-stream
// verif:unwind 64
func VerifH_C01_O9_stream_threads() {
	v01gRun(2, false)
}

// verif:desc C01-O9s the threaded scanner (parser goroutine, 2 decode workers, result queue, consumer) as in O9b - 4 values in 4 frame pairs, buffers and batch objects recycled through the pools - under EVERY goroutine schedule with at most 1 preemption (thorough tier: 2) at the channel operations, selects, closes, atomics, lock operations and goroutine starts of the real scanner/worker/parser code, with a bounded free choice of which runnable goroutine continues: order, null-ness, bytes (also of batches held until EOF), types and EOF do not depend on how parser, workers and consumer interleave
// verif:bounds 4 values, 2 template combinations ({a:int64},n=int64,int64,{a:int64} / {b:string,c:n=string},{o:{a:int64}},nr={a:int64},null {a:int64}); EndStream nowhere or before the 3rd value; reader (threads, read size, source chunk, Validate) in {(2,1,1,off),(2,7,unlimited,on)}; the three consumers of O9; preemption bound 1 (thorough: 2, there with EndStream before the 3rd value and the first reader configuration only)
// verif:outside schedules with more preemptions; field/slice loads and stores are not preemption points (data-race freedom between sync points is assumed, not checked); sync.Pool is a per-path LIFO shared by all goroutines; LZ4; more than 2 workers
// verif:unwind 64
func VerifH_C01_O9s_stream_threads_schedules() {
	if verif.Thorough() {
		v01gRunSched(4, false, 2)
	} else {
		v01gRunSched(4, false, 1)
	}
}

// verif:desc C01-O9b as O9 with 4 values in 4 frame pairs and 2 workers: the fourth frame is read only after a worker has come back, i.e. while results are queued and batches are with the consumer; with the releasing consumers the buffer and the batch object of the first value are taken again (sync.Pool LIFO) by the frames read later, with the holding consumer nothing may be recycled: order, null-ness, bytes and types as in O9
// verif:bounds 4 values: {a:int64}|{b:string,c:n=string}, n=int64|{o:{a:int64}}, int64|nr={a:int64}, {a:int64}|null {a:int64}|n=int64; at most one EndStream, before the 2nd, 3rd or 4th value; reader (threads, read size, source chunk, Validate) in {(2,1,1,off),(2,7,unlimited,on)}; the three consumers of O9
// verif:outside as O9
// verif:unwind 64
func VerifH_C01_O9b_stream_threads_recycle() {
	v01gRun(4, false)
}

// verif:desc C01-O9c as O9 with WriterOpts.Compress: values frames are decompressed by the WORKER goroutines (frame.decompress, zbuf freed to the pool, ubuf handed to the batch), types frames by the parser goroutine; LZ4 is the paired contract model (every frame longer than 4 bytes independently compressed or plain)
// verif:bounds 2 values: first from {{a:int64}, nr={a:int64}, [int64] with a null element, {b:string,c:n=string}, {aaaaaaaaaaaaaaaaaaaaaaaa:string} 32-byte string}, second from {{a:int64}, nr={a:int64}, {o:{a:int64}}, int64}; otherwise as O9
// verif:outside as O9; the LZ4 codec itself (contract model)
// verif:tier thorough
// verif:unwind 64
func VerifH_C01_O9c_stream_threads_compressed() {
	v01gRun(2, true)
}

// verif:desc C01-O9r a values frame LARGER than the default frame threshold through the threaded scanner with happens-before race detection: a 600 KiB string (one uncompressed frame of its own) followed by two small values, read with Threads 2 and the default read size: the parser goroutine goes on reading (and refilling/compacting its read buffer) while a worker decodes the large frame, so the frame's bytes must have been copied out of the read buffer before the frame was handed over.  Asserted: the three values come back in order with their bytes; no two goroutines touch the same memory (read buffer, frame buffers, batches) without an ordering (candidate confirmed with the Go race detector).
// verif:bounds one 600 KiB string (concrete bytes), a 10 KiB string, EndStream, then int64 and {a:int64}; source chunks of 4 KiB; Compress off; FrameThresh default (512 KiB); Threads 2; cooperative goroutines, ONE schedule (race detection is schedule-independent for accesses that are not ordered at all)
// verif:outside other schedules; compressed large frames; several large frames
// verif:tier thorough
func VerifH_C01_O9r_large_frame_threads_races() {
	verif.Schedules(0)
	verif.Races(true)
	sink := &v01CapSink{}
	wctx := zed.NewContext()
	w := NewWriterWithOpts(sink, WriterOpts{})
	big := make([]byte, 600<<10)
	for i := range big {
		big[i] = byte('a' + i%23)
	}
	ra := wctx.MustLookupTypeRecord([]zed.Field{zed.NewField("a", zed.TypeInt64)})
	// (a 10 KiB value follows, so that the parser has to refill its read buffer
	// right after it has handed the large frame to a worker)
	mid := make([]byte, 10<<10)
	for i := range mid {
		mid[i] = byte('A' + i%19)
	}
	vals := []zed.Value{
		zed.NewValue(zed.TypeString, big),
		zed.NewValue(zed.TypeString, mid),
		zed.NewInt64(7),
		zed.NewValue(ra, zcode.Append(nil, zed.EncodeInt(9))),
	}
	for i, v := range vals {
		verif.Assert(w.Write(v) == nil, "write-noerr")
		if i == 1 {
			// the 10 KiB value gets a frame of its own
			verif.Assert(w.EndStream() == nil, "endstream-noerr")
		}
	}
	verif.Assert(w.Close() == nil, "close-noerr")
	// (the source hands out 4 KiB at a time: the read buffer holds little more
	// than the large frame, so the frames after it need a refill)
	src := &v01ChunkReader{data: sink.data, chunk: 4096}
	r := NewReaderWithOpts(zed.NewContext(), src, ReaderOpts{Threads: 2})
	for i := range vals {
		val, err := r.Read()
		verif.Assert(err == nil && val != nil, "read-noerr")
		if err != nil || val == nil {
			return
		}
		verif.Assert(len(val.Bytes()) == len(vals[i].Bytes()), "length-preserved")
		verif.Assert(v01Eq(val.Bytes(), vals[i].Bytes()), "bytes-preserved")
	}
	val, err := r.Read()
	verif.Assert(err == nil && val == nil, "eof-after-last")
	verif.Reach("end")
}
