//go:build verif

package zngio

import (
	"errors"

	"github.com/brimdata/super"
	"github.com/brimdata/super/internal/verif"
)

var vErrSink = errors.New("verif: sink failure")

// vSink is the model io.WriteCloser: its failAt-th Write fails (0 = never);
// sticky sinks keep failing afterwards; Close may fail too.
type vSink struct {
	failAt    int
	sticky    bool
	closeFail bool
	calls     int
	failed    bool
	bytes     int
	closed    bool
}

func (s *vSink) Write(p []byte) (int, error) {
	s.calls++
	if s.failAt > 0 && (s.calls == s.failAt || (s.sticky && s.calls > s.failAt)) {
		s.failed = true
		return 0, vErrSink
	}
	s.bytes += len(p)
	return len(p), nil
}

func (s *vSink) Close() error {
	s.closed = true
	if s.closeFail {
		s.failed = true
		return vErrSink
	}
	return nil
}

func vNewSink() *vSink {
	return &vSink{
		failAt:    verif.Range("failAt", 0, 8),
		sticky:    verif.Bool("sticky"),
		closeFail: verif.Bool("closeFail"),
	}
}

// verif:desc C18-O1 zngio.Writer (uncompressed): if any Write/Close of the sink fails then some Writer.Write, EndStream or Close returns a non-nil error; if none fails all calls return nil and the sink received exactly Position() bytes.
// verif:bounds 1..3 values of type bytes with body length in {0,1,20}; FrameThresh any value in 1..64; sink fails at write call k in 0..8 (0=never), one-shot or sticky, Close may fail; optional EndStream after the first value
// verif:outside LZ4 compression (see O1c), values of other types (contents do not influence the error paths)
func VerifH_C18_O1_zngio_writer() {
	sink := vNewSink()
	w := NewWriterWithOpts(sink, WriterOpts{Compress: false, FrameThresh: verif.Range("thresh", 1, 64)})
	n := verif.Choose("nvals", 3) + 1
	lens := []int{0, 1, 20}
	anyErr := false
	for i := 0; i < n; i++ {
		body := make([]byte, lens[verif.Choose("len", 3)])
		if err := w.Write(zed.NewBytes(body)); err != nil {
			anyErr = true
		}
		if i == 0 && verif.Bool("eos") {
			if err := w.EndStream(); err != nil {
				anyErr = true
			}
		}
	}
	if err := w.Close(); err != nil {
		anyErr = true
	}
	if sink.failed {
		verif.Assert(anyErr, "sink-failure-reported")
		verif.Reach("failed")
	} else {
		verif.Assert(!anyErr, "no-spurious-error")
		verif.Assert(int64(sink.bytes) == w.Position(), "all-bytes-delivered")
		verif.Assert(sink.closed, "sink-closed")
		verif.Reach("clean")
	}
}
