//go:build verif

package zngio

import (
	"bytes"
	"io"

	"github.com/brimdata/super"
	"github.com/brimdata/super/internal/verif"
	"github.com/brimdata/super/pkg/peeker"
	"github.com/brimdata/super/zcode"
)

// v01CapSink is a model sink that keeps every byte it is given (a private copy:
// the writer may reuse its buffers).
type v01CapSink struct {
	data   []byte
	closed bool
}

func (s *v01CapSink) Write(p []byte) (int, error) {
	s.data = append(s.data, p...)
	return len(p), nil
}

func (s *v01CapSink) Close() error {
	s.closed = true
	return nil
}

// v01Eq compares contents; cells that are the same term are decided without
// the solver, a cell that can differ splits the path.
func v01Eq(a, b []byte) bool {
	if len(a) != len(b) {
		return false
	}
	for i := range a {
		if a[i] != b[i] {
			return false
		}
	}
	return true
}

func v01Parser(data []byte, size, max int) *parser {
	return &parser{
		peeker:  peeker.NewReader(bytes.NewReader(data), size, max),
		types:   NewDecoder(zed.NewContext()),
		maxSize: max,
	}
}

// verif:desc C01-O4a uncompressed frame header: for EVERY size in [1,2^31) and frame type in {types,values,control} the bytes Writer.writeHeader hands to the sink have the version and compression bits clear, carry the frame type in bits 5..4, and parser.decodeLength gives back exactly size, consuming exactly the header.
// verif:bounds size: any int in [1, 2^31-1] (symbolic, 64-bit bit-vector; the uvarint loops fork per encoded length 1..4); block type in {0,1,2}; one sentinel byte after the header
// verif:outside sizes >= 2^31 (Max frame size is 1 GiB)
// verif:unwind 16
func VerifH_C01_O4a_header() {
	size := verif.Range("size", 1, 1<<31-1)
	bt := verif.Choose("type", 3)
	sink := &v01CapSink{}
	w := NewWriterWithOpts(sink, WriterOpts{})
	err := w.writeHeader(bt, size)
	verif.Assert(err == nil, "write-noerr")
	hdrLen := len(sink.data)
	verif.Assert(int64(hdrLen) == w.Position(), "position")
	data := append(append([]byte{}, sink.data...), 0xa5)
	p := v01Parser(data, 16, 1<<31)
	code, err := p.peeker.ReadByte()
	verif.Assert(err == nil, "code-noerr")
	verif.Assert(code&0x80 == 0, "version-bit-clear")
	verif.Assert(code&0x40 == 0, "compress-bit-clear")
	verif.Assert(int(code>>4)&3 == bt, "frame-type")
	n, err := p.decodeLength(code)
	verif.Assert(err == nil, "length-noerr")
	verif.Assert(n == size, "length-roundtrip")
	next, err := p.peeker.ReadByte()
	verif.Assert(err == nil && next == 0xa5, "header-consumed-exactly")
	verif.Observe("hdrLen", hdrLen)
	verif.Reach("end")
}

var v01FrameSizes = []int{1, 15, 16, 17, 255, 256, 257, 2047, 2048, 2049}

// verif:desc C01-O4b uncompressed frame: Writer.writeBlock (no compressor) of a payload followed by parser.readFrame returns exactly the payload and leaves the peeker at the next byte; the frame code dispatches to the written type.
// verif:bounds payload length in {1,15,16,17,255,256,257,2047,2048,2049} (low-nibble and uvarint boundaries of the length split), first 2 and last 2 payload bytes symbolic; block type in {0,1,2}; peeker read size in {1, 64}, max 4096
// verif:outside other sizes (the length arithmetic for all sizes is O4a)
// verif:unwind 16
func VerifH_C01_O4b_frame() {
	size := v01FrameSizes[verif.Choose("sizeclass", len(v01FrameSizes))]
	bt := verif.Choose("type", 3)
	payload := make([]byte, size)
	payload[0] = verif.Byte("p0")
	payload[size-1] = verif.Byte("plast")
	if size > 2 {
		payload[1] = verif.Byte("p1")
		payload[size-2] = verif.Byte("plast1")
	}
	sink := &v01CapSink{}
	w := NewWriterWithOpts(sink, WriterOpts{})
	err := w.writeBlock(bt, payload)
	verif.Assert(err == nil, "write-noerr")
	data := append(append([]byte{}, sink.data...), 0xa5)
	rsize := []int{1, 64}[verif.Choose("readsize", 2)]
	p := v01Parser(data, rsize, 4096)
	code, err := p.peeker.ReadByte()
	verif.Assert(err == nil, "code-noerr")
	verif.Assert(code&0xc0 == 0 && int(code>>4)&3 == bt, "frame-code")
	b, err := p.readFrame(code)
	verif.Assert(err == nil, "readframe-noerr")
	verif.Assert(v01Eq(b, payload), "payload-roundtrip")
	next, err := p.peeker.ReadByte()
	verif.Assert(err == nil && next == 0xa5, "frame-consumed-exactly")
	verif.Reach("end")
}

var v01CompSizes = []int{1, 2, 127, 128, 129, 16383, 16384, 2097151, 2097152}
var v01CompZlens = []int{1, 2, 9, 10, 11, 12, 13, 14, 15, 16, 300}

// verif:desc C01-O4c compressed frame header: Writer.writeCompHeader(type,size,zlen) followed by zlen payload bytes, read by parser.readCompressedFrame: format is LZ4, the uncompressed buffer has exactly size bytes, the compressed buffer holds exactly the zlen payload bytes, and the peeker is left at the next byte.
// verif:bounds size in {1,2,127,128,129,16383,16384,2097151,2097152} (uvarint length 1..4 of the size field, which the payload length arithmetic subtracts); zlen in {1,2,9..16,300} (low-nibble carry of the adjusted length); first and last payload byte symbolic; block type in {0,1,2}
// verif:outside sizes whose uvarint needs 5 bytes (>= 2^28: the engine would have to allocate the buffer); LZ4 itself
// verif:unwind 16
func VerifH_C01_O4c_compheader() {
	size := v01CompSizes[verif.Choose("sizeclass", len(v01CompSizes))]
	zlen := v01CompZlens[verif.Choose("zlenclass", len(v01CompZlens))]
	bt := verif.Choose("type", 3)
	payload := make([]byte, zlen)
	payload[0] = verif.Byte("p0")
	payload[zlen-1] = verif.Byte("plast")
	sink := &v01CapSink{}
	w := NewWriterWithOpts(sink, WriterOpts{})
	err := w.writeCompHeader(bt, size, zlen)
	verif.Assert(err == nil, "write-noerr")
	err = w.write(payload)
	verif.Assert(err == nil, "write-payload-noerr")
	data := append(append([]byte{}, sink.data...), 0xa5)
	p := v01Parser(data, 8, 1<<22)
	code, err := p.peeker.ReadByte()
	verif.Assert(err == nil, "code-noerr")
	verif.Assert(code&0x80 == 0 && code&0x40 != 0 && int(code>>4)&3 == bt, "frame-code")
	f, err := p.readCompressedFrame(code)
	verif.Assert(err == nil, "readframe-noerr")
	if err != nil {
		return
	}
	verif.Assert(f.fmt == CompressionFormatLZ4, "format")
	verif.Assert(len(f.ubuf.data) == size, "uncompressed-size")
	verif.Assert(v01Eq(f.zbuf.data, payload), "payload-roundtrip")
	next, err := p.peeker.ReadByte()
	verif.Assert(err == nil && next == 0xa5, "frame-consumed-exactly")
	verif.Reach("end")
}

// ---- O6: stream level ----

// v01ChunkReader hands out at most chunk bytes per Read.
type v01ChunkReader struct {
	data  []byte
	pos   int
	chunk int
}

func (r *v01ChunkReader) Read(p []byte) (int, error) {
	if r.pos >= len(r.data) {
		return 0, io.EOF
	}
	n := len(r.data) - r.pos
	if n > r.chunk {
		n = r.chunk
	}
	if n > len(p) {
		n = len(p)
	}
	copy(p, r.data[r.pos:r.pos+n])
	r.pos += n
	return n, nil
}

const v01NTemplates = 12

// v01MkValue builds a value of template k in the writer-side context.  Leaf
// bytes are symbolic; null selects the null value of the type.
func v01MkValue(zctx *zed.Context, name string, k int, null bool) zed.Value {
	leaf := func(s string) []byte { return verif.BytesN(name+"."+s, 2) }
	recA := func() zed.Type {
		return zctx.MustLookupTypeRecord([]zed.Field{zed.NewField("a", zed.TypeInt64)})
	}
	var typ zed.Type
	var body zcode.Bytes
	switch k {
	case 0:
		typ, body = zed.TypeInt64, leaf("i")
	case 1:
		typ, body = zed.TypeString, leaf("s")
	case 2:
		return zed.NewValue(zed.TypeNull, nil)
	case 3: // {a:int64}
		typ = recA()
		body = zcode.Append(nil, leaf("a"))
	case 4: // n=int64
		typ, _ = zctx.LookupTypeNamed("n", zed.TypeInt64)
		body = leaf("n")
	case 5: // nr={a:int64}: a typedef chain sharing the record of template 3
		typ, _ = zctx.LookupTypeNamed("nr", recA())
		body = zcode.Append(nil, leaf("a"))
	case 6: // [int64] with a null element
		typ = zctx.LookupTypeArray(zed.TypeInt64)
		body = zcode.Append(zcode.Append(nil, leaf("e")), nil)
	case 9: // "" : a present value with a zero-length body (must not read back as null)
		typ, body = zed.TypeString, []byte{}
	case 10: // {} : the empty record, zero-length body
		typ = zctx.MustLookupTypeRecord(nil)
		body = []byte{}
	case 11: // [] of int64: the empty array, zero-length body
		typ = zctx.LookupTypeArray(zed.TypeInt64)
		body = []byte{}
	case 8: // {o:{a:int64}}: nests the record of template 3
		typ = zctx.MustLookupTypeRecord([]zed.Field{zed.NewField("o", recA())})
		body = zcode.Append(nil, zcode.Append(nil, leaf("a")))
	case 7: // {b:string,c:n=string}: id 30 and name n bound differently than in 3/4
		n2, _ := zctx.LookupTypeNamed("n", zed.TypeString)
		typ = zctx.MustLookupTypeRecord([]zed.Field{zed.NewField("b", zed.TypeString), zed.NewField("c", n2)})
		body = zcode.Append(zcode.Append(nil, leaf("b")), []byte{})
	}
	if null {
		return zed.NewValue(typ, nil)
	}
	return zed.NewValue(typ, body)
}

// v01TypeIs checks structurally that typ is template k's type.
func v01TypeIs(typ zed.Type, k int) bool {
	isRecA := func(t zed.Type) bool {
		r, ok := t.(*zed.TypeRecord)
		return ok && len(r.Fields) == 1 && r.Fields[0].Name == "a" && r.Fields[0].Type == zed.TypeInt64
	}
	switch k {
	case 0:
		return typ == zed.TypeInt64
	case 1:
		return typ == zed.TypeString
	case 2:
		return typ == zed.TypeNull
	case 3:
		return isRecA(typ)
	case 4:
		n, ok := typ.(*zed.TypeNamed)
		return ok && n.Name == "n" && n.Type == zed.TypeInt64
	case 5:
		n, ok := typ.(*zed.TypeNamed)
		return ok && n.Name == "nr" && isRecA(n.Type)
	case 6:
		a, ok := typ.(*zed.TypeArray)
		return ok && a.Type == zed.TypeInt64
	case 9:
		return typ == zed.TypeString
	case 10:
		r, ok := typ.(*zed.TypeRecord)
		return ok && len(r.Fields) == 0
	case 11:
		a, ok := typ.(*zed.TypeArray)
		return ok && a.Type == zed.TypeInt64
	case 8:
		r, ok := typ.(*zed.TypeRecord)
		return ok && len(r.Fields) == 1 && r.Fields[0].Name == "o" && isRecA(r.Fields[0].Type)
	case 7:
		r, ok := typ.(*zed.TypeRecord)
		if !ok || len(r.Fields) != 2 || r.Fields[0].Name != "b" || r.Fields[0].Type != zed.TypeString || r.Fields[1].Name != "c" {
			return false
		}
		n, ok := r.Fields[1].Type.(*zed.TypeNamed)
		return ok && n.Name == "n" && n.Type == zed.TypeString
	}
	return false
}

var v01QuickFirst = [][2]int{{0, 0}, {1, 0}, {2, 0}, {3, 0}, {4, 0}, {5, 0}, {6, 0}, {7, 0}, {0, 1}, {5, 1}, {9, 0}, {10, 0}, {11, 0}}
// templates 5 and 8 nest the record type of template 3: when it was defined in an
// earlier frame the reader must still hold its field names intact (they may not
// alias the read buffer, which has been refilled since)
var v01QuickSecond = [][2]int{{0, 0}, {3, 0}, {4, 0}, {7, 0}, {3, 1}, {5, 0}, {8, 0}}

// reader configurations {read size, source chunk, validate}
var v01ReaderCfgs = [][3]int{{1, 1, 0}, {7, 1 << 20, 1}, {1, 1 << 20, 1}, {7, 1, 0}, {3, 2, 1}}

type v01Written struct {
	k    int
	null bool
	body []byte
}

func v01Stream(quick bool) {
	sink := &v01CapSink{}
	wctx := zed.NewContext()
	thresh := verif.Range("thresh", 1, 1<<20)
	w := NewWriterWithOpts(sink, WriterOpts{FrameThresh: thresh})
	var want []v01Written
	nvals := verif.Choose("nvals", 2) + 1
	sep := 0
	for i := 0; i < nvals; i++ {
		if i == 1 {
			// between the values: nothing, an explicit end-of-stream, or a
			// second independently written stream appended to the first
			sep = verif.Choose("sep", 3)
			switch sep {
			case 1:
				verif.Assert(w.EndStream() == nil, "endstream-noerr")
			case 2:
				verif.Assert(w.Close() == nil, "close-noerr")
				wctx = zed.NewContext()
				w = NewWriterWithOpts(sink, WriterOpts{FrameThresh: thresh})
			}
		}
		var k int
		var null bool
		if quick {
			// quick tier: every template non-null plus two null values first;
			// second value from the templates that re-bind type id 30 / name n,
			// a primitive, and a null record
			var c [2]int
			if i == 0 {
				c = v01QuickFirst[verif.Choose("tmpl", len(v01QuickFirst))]
			} else {
				c = v01QuickSecond[verif.Choose("tmpl", len(v01QuickSecond))]
			}
			k, null = c[0], c[1] == 1
		} else {
			k = verif.Choose("tmpl", v01NTemplates)
			null = verif.Choose("null", 2) == 1
		}
		val := v01MkValue(wctx, "v", k, null)
		want = append(want, v01Written{k: k, null: val.IsNull(), body: bytes.Clone(val.Bytes())})
		verif.Assert(w.Write(val) == nil, "write-noerr")
	}
	verif.Assert(w.Close() == nil, "close-noerr")
	verif.Assert(sink.closed, "sink-closed")

	// read back
	rcfgs := v01ReaderCfgs
	if quick {
		rcfgs = rcfgs[:3]
	}
	rc := rcfgs[verif.Choose("readercfg", len(rcfgs))]
	rsize, chunk, validate := rc[0], rc[1], rc[2] == 1
	src := &v01ChunkReader{data: sink.data, chunk: chunk}
	r := NewReaderWithOpts(zed.NewContext(), src, ReaderOpts{Validate: validate, Size: rsize, Max: 1 << 16, Threads: 1})
	var gotTypes []zed.Type
	for i := 0; i < len(want); i++ {
		val, err := r.Read()
		verif.Assert(err == nil, "read-noerr")
		verif.Assert(val != nil, "read-value-present")
		if err != nil || val == nil {
			return
		}
		// value bytes are only promised until the next Read: compare now
		verif.Assert(val.IsNull() == want[i].null, "null-preserved")
		verif.Assert(v01Eq(val.Bytes(), want[i].body), "bytes-preserved")
		gotTypes = append(gotTypes, val.Type())
	}
	val, err := r.Read()
	verif.Assert(err == nil && val == nil, "eof-after-last")
	// types (names included) must still be right after the whole input —
	// and with it every read-buffer refill — has gone by
	for i, t := range gotTypes {
		verif.Assert(v01TypeIs(t, want[i].k), "type-preserved")
	}
	if len(want) == 2 && want[0].k == want[1].k && sep == 0 {
		verif.Assert(gotTypes[0] == gotTypes[1], "same-type-same-pointer")
	}
	if sep == 1 {
		verif.Reach("endstream")
	}
	if sep == 2 {
		verif.Reach("concatenated")
	}
	verif.Observe("len", len(sink.data))
	verif.Reach("end")
}

// verif:desc C01-O6 stream level, Threads=1: 1-2 values written with zngio.Writer (Write/flush/writeBlock/EndStream/Close, Encoder.Encode) and read back with NewReaderWithOpts+Read (scannerSync.Pull, parser.read, Decoder.decode, Mapper, worker.scanBatch/decodeVal, peeker over a chunking source): same number of values, same order, same null-ness and bytes, structurally the same types (field and type names checked after the whole input has passed through the read buffer); EOF afterwards.
// verif:bounds first value from 11 templates (int64, string, null, {a:int64}, n=int64, nr={a:int64}, [int64], {b:string,c:n=string} with 2 symbolic leaf bytes; the zero-length values "", {} and [] — present, not null), or null int64 / null nr; second from {int64,{a:int64},n=int64,{b:string,c:n=string}, null {a:int64}, nr={a:int64}, {o:{a:int64}}} (the last two nest a record type that an earlier frame may have defined); FrameThresh any value in 1..2^20 (symbolic); between the values nothing / EndStream / Close + new writer on the same sink (concatenated streams; type id 30 and name n re-bound); reader (read size, source chunk, Validate) in {(1,1,off),(7,unlimited,on),(1,unlimited,on)}; compression off
// verif:outside LZ4 compression; multi-threaded scanner (goroutines/channels); sync.Pool buffer reuse (Get returns a fresh object in the engine); more than 2 values; other types
// verif:unwind 64
func VerifH_C01_O6_stream() {
	v01Stream(true)
}

// verif:desc C01-O6t as O6 with both values drawn from all 8 templates, each null or not, and two more reader configurations
// verif:bounds as O6, 8 x 8 templates x null/non-null each; reader (read size, source chunk, Validate) additionally (7,1,off),(3,2,on)
// verif:outside as O6
// verif:tier thorough
// verif:unwind 64
func VerifH_C01_O6t_stream_all() {
	v01Stream(false)
}
