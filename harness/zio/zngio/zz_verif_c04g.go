//go:build verif

package zngio

import (
	"bytes"
	"context"

	"github.com/brimdata/super"
	"github.com/brimdata/super/internal/verif"
	"github.com/brimdata/super/pkg/field"
	"github.com/brimdata/super/runtime/sam/expr"
	"github.com/brimdata/super/zbuf"
	"github.com/brimdata/super/zcode"
)

const v04gLit = "ab"

// v04gFilter is the pushed-down filter `s == "ab"` as the compiler hands it to
// a scanner: a fresh evaluator per worker (real expr.Equal over a real field
// reference and literal) and, optionally, the buffer filter the compiler
// derives for a string literal (real expr.NewBufferFilterForString / Finder).
type v04gFilter struct {
	zctx   *zed.Context
	withBF bool
}

func (f *v04gFilter) AsEvaluator() (expr.Evaluator, error) {
	return expr.NewCompareEquality(f.zctx,
		expr.NewDottedExpr(f.zctx, field.Path{"s"}),
		expr.NewLiteral(zed.NewString(v04gLit)), "==")
}

func (f *v04gFilter) AsBufferFilter() (*expr.BufferFilter, error) {
	if !f.withBF {
		return nil, nil
	}
	return expr.NewBufferFilterForString(v04gLit), nil
}

// value templates (strings: first byte 'a' — first value: 'a' or 'b' —, second byte symbolic):
// 0 {s:string}; 1 {t:string} (field s is missing: never matches, but the buffer may hold the
// pattern); 2 {s:string} null; 3 {n:int64,s:string}
func v04gMkValue(zctx *zed.Context, name string, k int) (zed.Value, []byte) {
	str := func(f string) zed.Type {
		return zctx.MustLookupTypeRecord([]zed.Field{zed.NewField(f, zed.TypeString)})
	}
	// first byte 'a' (for the first value: 'a' or 'b', Choose), second byte symbolic
	mk := func() []byte {
		first := byte('a')
		if name == "v0" {
			first = "ab"[verif.Choose(name+".first", 2)]
		}
		return []byte{first, verif.Byte(name + ".second")}
	}
	switch k {
	case 0:
		s := mk()
		return zed.NewValue(str("s"), zcode.Append(nil, s)), s
	case 1:
		s := mk()
		return zed.NewValue(str("t"), zcode.Append(nil, s)), nil
	case 2:
		return zed.NewValue(str("s"), zcode.Append(nil, nil)), nil
	default:
		s := mk()
		typ := zctx.MustLookupTypeRecord([]zed.Field{zed.NewField("n", zed.TypeInt64), zed.NewField("s", zed.TypeString)})
		return zed.NewValue(typ, zcode.Append(zcode.Append(nil, []byte{2}), s)), s
	}
}

func v04gTypeIs(typ zed.Type, k int) bool {
	r, ok := typ.(*zed.TypeRecord)
	if !ok {
		return false
	}
	switch k {
	case 0, 2:
		return len(r.Fields) == 1 && r.Fields[0].Name == "s" && r.Fields[0].Type == zed.TypeString
	case 1:
		return len(r.Fields) == 1 && r.Fields[0].Name == "t" && r.Fields[0].Type == zed.TypeString
	default:
		return len(r.Fields) == 2 && r.Fields[0].Name == "n" && r.Fields[0].Type == zed.TypeInt64 &&
			r.Fields[1].Name == "s" && r.Fields[1].Type == zed.TypeString
	}
}

// the template triples
var v04gTmpl = [][3]int{{0, 0, 0}, {3, 1, 0}, {0, 1, 2}, {3, 0, 2}}

// configurations {FrameThresh, EndStream before the third value, buffer filter}
var v04gCfgs = [][3]int{{1, 0, 1}, {1, 1, 1}, {1 << 20, 0, 1}, {1 << 20, 1, 1}, {1, 0, 0}, {1 << 20, 1, 0}}

type v04gGot struct {
	typ  zed.Type
	body []byte
}

// v04gScan runs a scanner with the filter over data and returns what it
// delivers, in order.
func v04gScan(data []byte, threads int, withBF bool) ([]v04gGot, bool) {
	zctx := zed.NewContext()
	src := &v01ChunkReader{data: data, chunk: 1 << 20}
	r := NewReaderWithOpts(zctx, src, ReaderOpts{Size: 7, Max: 1 << 16, Threads: threads})
	sc, err := r.NewScanner(context.Background(), &v04gFilter{zctx: zctx, withBF: withBF})
	verif.Assert(err == nil, "newscanner-noerr")
	if err != nil {
		return nil, false
	}
	var got []v04gGot
	for {
		b, err := sc.Pull(false)
		verif.Assert(err == nil, "pull-noerr")
		if err != nil {
			return nil, false
		}
		if b == nil {
			break
		}
		verif.Assert(len(b.Values()) > 0, "no-empty-batch")
		for _, val := range b.Values() {
			got = append(got, v04gGot{val.Type(), bytes.Clone(val.Bytes())})
		}
		b.Unref()
	}
	b, err := sc.Pull(false)
	verif.Assert(b == nil && err == nil, "eof-is-sticky")
	return got, true
}

// verif:desc C04-O7 a filter pushed into the ZNG scanner, single-threaded and THREADED (cooperative goroutines): 3 records written with zngio.Writer (one frame per value or all in one frame; optional EndStream before the last) are scanned with Reader.NewScanner(ctx, filter) where filter is `s == "ab"`: AsEvaluator = the real expr.Equal over DottedExpr/Literal (one per worker), AsBufferFilter = none or the real expr.NewBufferFilterForString("ab") (Boyer-Moore Finder over the raw frame, which drops whole frames).  With Threads 1 (scannerSync.Pull) and Threads 2 (scanner.start/worker.run/resultChCh; frames the buffer filter or the evaluator empties produce no batch and their closed result channel is skipped) the scanner returns EXACTLY the values whose field s is the string "ab", in input order, with their types and bytes; the two thread counts agree with each other and with the unfiltered model, with and without the buffer filter.
// verif:bounds 3 values with templates S={s:string}, N={n:int64,s:string}, T={t:string} (no field s; may contain the pattern), 0=null s, in the triples SSS, NTS, ST0, NS0; every string 2 bytes: the first 'a' (first value: 'a' or 'b', Choose), the second symbolic; (FrameThresh [1 = 3 frames, 2^20 = one frame], EndStream before the third value, buffer filter) in {(1,no,yes),(1,yes,yes),(2^20,no,yes),(2^20,yes,yes),(1,no,no),(2^20,yes,no)}; Threads 1 and 2 on the same bytes; read size 7
// verif:outside ONE deterministic goroutine schedule for the threaded scanner (no other interleaving of parser, workers and consumer explored); other predicates and the compiler's derivation of the buffer filter (C04-O3/O4/O5); compression; more than 3 values
// verif:unwind 64
func VerifH_C04_O7_scanner_filter_threads() {
	verif.Goroutines(true)
	sink := &v01CapSink{}
	wctx := zed.NewContext()
	cfg := v04gCfgs[verif.Choose("cfg", len(v04gCfgs))]
	thresh, eos, withBF := cfg[0], cfg[1] == 1, cfg[2] == 1
	tmpl := v04gTmpl[verif.Choose("tmpl", len(v04gTmpl))]
	w := NewWriterWithOpts(sink, WriterOpts{FrameThresh: thresh})
	type in struct {
		k     int
		body  []byte
		match bool
	}
	var ins []in
	for i := 0; i < 3; i++ {
		if i == 2 && eos {
			verif.Assert(w.EndStream() == nil, "endstream-noerr")
		}
		k := tmpl[i]
		val, s := v04gMkValue(wctx, []string{"v0", "v1", "v2"}[i], k)
		// one symbolic Boolean (no short-circuit fork per byte)
		match := s != nil
		if match {
			match = (s[0]^v04gLit[0])|(s[1]^v04gLit[1]) == 0
		}
		ins = append(ins, in{k, bytes.Clone(val.Bytes()), match})
		verif.Assert(w.Write(val) == nil, "write-noerr")
	}
	verif.Assert(w.Close() == nil, "close-noerr")

	got1, ok1 := v04gScan(sink.data, 1, withBF)
	got2, ok2 := v04gScan(sink.data, 2, withBF)
	if !ok1 || !ok2 {
		return
	}
	// against the model: exactly the matching inputs, in order
	for t, got := range [][]v04gGot{got1, got2} {
		j := 0
		for _, x := range ins {
			if !x.match {
				continue
			}
			if t == 0 {
				verif.Assert(j < len(got), "threads1-matching-value-not-dropped")
			} else {
				verif.Assert(j < len(got), "threads2-matching-value-not-dropped")
			}
			if j >= len(got) {
				return
			}
			verif.Assert(v01Eq(got[j].body, x.body), "matching-value-bytes-in-order")
			verif.Assert(v04gTypeIs(got[j].typ, x.k), "matching-value-type")
			j++
		}
		if t == 0 {
			verif.Assert(j == len(got), "threads1-nothing-but-matches")
		} else {
			verif.Assert(j == len(got), "threads2-nothing-but-matches")
		}
		if j > 0 {
			verif.Reach("some-match")
		}
		if j < 3 {
			verif.Reach("some-dropped")
		}
	}
	// the two agree
	verif.Assert(len(got1) == len(got2), "thread-counts-agree-on-count")
	if len(got1) == len(got2) {
		for i := range got1 {
			verif.Assert(v01Eq(got1[i].body, got2[i].body), "thread-counts-agree-on-values")
		}
	}
	verif.Reach("end")
}

var _ zbuf.Filter = (*v04gFilter)(nil)

// v04gKeywordFilter is `s == "ab"` with the buffer filter the compiler derives
// for a KEYWORD search of "ab" (string-case finder OR field-name finder): the
// field-name finder keeps scratch state (checked type ids, a field-name
// iterator), so every worker needs its own.
type v04gKeywordFilter struct{ v04gFilter }

func (f *v04gKeywordFilter) AsBufferFilter() (*expr.BufferFilter, error) {
	return expr.NewOrBufferFilter(expr.NewBufferFilterForStringCase(v04gLit), expr.NewBufferFilterForFieldName(v04gLit)), nil
}

// verif:desc C04-O7s the THREADED scanner with a pushed-down filter whose buffer filter has scratch state (keyword-style: string-case finder OR field-name finder), 5 values in 5 frames read by 2 workers, under every schedule with at most 1 preemption (thorough: 2) at the channel/lock/atomic/map points of scanner.start/worker.run/Pull, WITH happens-before race detection (verif.Races): no two goroutines touch the filter's state, the frame buffers, the batches or the type contexts without an ordering between them (a candidate is confirmed with the Go race detector), and the scanner returns exactly the values with s=="ab", in input order.
// verif:bounds 5 values {s:"zz"},{s:"ab"},{t:"yy"},{n:1,s:"xx"},{n:1,s:"ab"} (concrete; three frames reach the field-name finder), FrameThresh 1 (one frame per value), optional EndStream before the third; Threads 2; preemption bound 1 (thorough: 2); natively 300 repetitions
// verif:outside races in bulk copies (copy/append are not tracked); more than 2 workers; compression; other predicates
// verif:unwind 64
func VerifH_C04_O7s_scanner_filter_schedules_races() {
	k := 1
	if verif.Thorough() {
		k = 2
	}
	verif.Schedules(k)
	verif.Races(true)
	eos := verif.Choose("endstream", 2) == 1
	sink := &v01CapSink{}
	wctx := zed.NewContext()
	w := NewWriterWithOpts(sink, WriterOpts{FrameThresh: 1})
	rs := wctx.MustLookupTypeRecord([]zed.Field{zed.NewField("s", zed.TypeString)})
	rt := wctx.MustLookupTypeRecord([]zed.Field{zed.NewField("t", zed.TypeString)})
	rn := wctx.MustLookupTypeRecord([]zed.Field{zed.NewField("n", zed.TypeInt64), zed.NewField("s", zed.TypeString)})
	// (frames without the string "ab" are the ones that reach the field-name
	// finder: the first, the third and the fourth, handled by different workers)
	vals := []zed.Value{
		zed.NewValue(rs, zcode.Append(nil, []byte("zz"))),
		zed.NewValue(rs, zcode.Append(nil, []byte("ab"))),
		zed.NewValue(rt, zcode.Append(nil, []byte("yy"))),
		zed.NewValue(rn, zcode.Append(zcode.Append(nil, zed.EncodeInt(1)), []byte("xx"))),
		zed.NewValue(rn, zcode.Append(zcode.Append(nil, zed.EncodeInt(1)), []byte("ab"))),
	}
	for i, v := range vals {
		if i == 2 && eos {
			verif.Assert(w.EndStream() == nil, "endstream-noerr")
		}
		verif.Assert(w.Write(v) == nil, "write-noerr")
	}
	verif.Assert(w.Close() == nil, "close-noerr")
	rounds := verif.NativeRounds(300)
	ok := true
	for r := 0; r < rounds; r++ {
		zctx := zed.NewContext()
		src := &v01ChunkReader{data: sink.data, chunk: 1 << 20}
		rd := NewReaderWithOpts(zctx, src, ReaderOpts{Size: 7, Max: 1 << 16, Threads: 2})
		sc, err := rd.NewScanner(context.Background(), &v04gKeywordFilter{v04gFilter{zctx: zctx, withBF: true}})
		if err != nil {
			ok = false
			break
		}
		var got [][]byte
		for {
			b, err := sc.Pull(false)
			if err != nil {
				ok = false
				break
			}
			if b == nil {
				break
			}
			for _, val := range b.Values() {
				got = append(got, bytes.Clone(val.Bytes()))
			}
			b.Unref()
		}
		if len(got) != 2 || !v01Eq(got[0], vals[1].Bytes()) || !v01Eq(got[1], vals[4].Bytes()) {
			ok = false
		}
	}
	verif.Assert(ok, "exactly-the-matching-values-in-order")
	verif.Reach("end")
}
