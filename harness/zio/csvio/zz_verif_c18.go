//go:build verif

package csvio

import (
	"errors"
	"strings"

	"github.com/brimdata/super"
	"github.com/brimdata/super/internal/verif"
	"github.com/brimdata/super/zcode"
)

var v18ErrSink = errors.New("verif: sink failure")

// v18Sink is the model io.WriteCloser: its failAt-th Write fails (0 = never),
// delivering nothing (partial=false) or half of the bytes (partial=true)
// together with the error; sticky sinks keep failing afterwards; Close may
// fail too.  phase is set by the harness to the index of the writer call in
// progress, so the first failure can be attributed to it.
type v18Sink struct {
	failAt    int
	sticky    bool
	partial   bool
	closeFail bool
	calls     int
	errored   bool
	phase     int
	errPhase  int
	data      []byte
	closed    bool
}

func (s *v18Sink) fail() {
	if !s.errored {
		s.errored = true
		s.errPhase = s.phase
	}
}

func (s *v18Sink) Write(p []byte) (int, error) {
	s.calls++
	if s.failAt > 0 && (s.calls == s.failAt || (s.sticky && s.calls > s.failAt)) {
		s.fail()
		if s.partial {
			s.data = append(s.data, p[:len(p)/2]...)
			return len(p) / 2, v18ErrSink
		}
		return 0, v18ErrSink
	}
	s.data = append(s.data, p...)
	return len(p), nil
}

func (s *v18Sink) Close() error {
	s.closed = true
	if s.closeFail {
		s.fail()
		return v18ErrSink
	}
	return nil
}

func v18NewSink(maxFail int) *v18Sink {
	return &v18Sink{
		failAt:    verif.Range("failAt", 0, maxFail),
		sticky:    verif.Bool("sticky"),
		partial:   verif.Bool("partial"),
		closeFail: verif.Bool("closeFail"),
	}
}

func v18Same(a, b []byte) bool {
	if len(a) != len(b) {
		return false
	}
	for i := range a {
		if a[i] != b[i] {
			return false
		}
	}
	return true
}

func v18Rec(zctx *zed.Context, name, val string) zed.Value {
	typ := zctx.MustLookupTypeRecord([]zed.Field{zed.NewField(name, zed.TypeString)})
	return zed.NewValue(typ, zcode.Append(nil, []byte(val)))
}

const v18ClosePhase = 100

// verif:desc C18-O3 csvio.Writer (real encoding/csv + bufio, real flattener): if Write x n and Close all return nil then no Write/Close of the sink returned an error, the sink was closed and it holds exactly the bytes a fault-free run produces; if the sink never fails every call returns nil.  Assertion ids are split by where the first sink failure happened (during a Write / during Close).
// verif:bounds 1..2 records {a:string} with the string of length 1 or 5000 (the second crosses bufio's 4096-byte buffer, so sink writes also happen inside Write); sink fails at write call k in 0..4 (symbolic; 0=never), one-shot or sticky, with 0 or half of the bytes delivered; Close may fail
// verif:outside value formatting of non-string fields (zson.FormatValue); Flush(); non-record and non-uniform inputs (rejected before any output)
func VerifH_C18_O3_csvio() {
	zctx := zed.NewContext()
	n := verif.Choose("nvals", 2) + 1
	var vals []zed.Value
	for i := 0; i < n; i++ {
		if verif.Choose("big", 2) == 1 {
			vals = append(vals, v18Rec(zctx, "a", strings.Repeat("x", 5000)))
		} else {
			vals = append(vals, v18Rec(zctx, "a", "x"))
		}
	}
	// fault-free reference run
	ref := &v18Sink{}
	rw := NewWriter(ref, WriterOpts{})
	for _, v := range vals {
		verif.Assert(rw.Write(v) == nil, "reference-run-clean")
	}
	verif.Assert(rw.Close() == nil, "reference-run-clean")
	verif.Assert(ref.calls <= 4, "failure-positions-cover-all-sink-writes")
	// engine and native run must produce the same amount of output
	verif.Observe("refbytes", len(ref.data))
	verif.Observe("refcalls", ref.calls)

	sink := v18NewSink(4)
	w := NewWriter(sink, WriterOpts{})
	anyErr := false
	for i, v := range vals {
		sink.phase = i
		if err := w.Write(v); err != nil {
			anyErr = true
		}
	}
	sink.phase = v18ClosePhase
	if err := w.Close(); err != nil {
		anyErr = true
	}
	if !anyErr {
		if sink.errored && sink.errPhase == v18ClosePhase {
			verif.Assert(false, "sink-failure-reported/during-close")
		} else {
			verif.Assert(!sink.errored, "sink-failure-reported/during-write")
		}
		if !sink.errored {
			verif.Assert(sink.closed, "sink-closed")
			verif.Assert(v18Same(sink.data, ref.data), "all-bytes-delivered")
		}
	}
	if sink.errored {
		verif.Reach("failed")
	} else {
		verif.Assert(!anyErr, "no-spurious-error")
		verif.Reach("clean")
	}
}
