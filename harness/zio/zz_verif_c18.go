//go:build verif

package zio

import (
	"context"
	"errors"

	"github.com/brimdata/super"
	"github.com/brimdata/super/internal/verif"
)

var v18ErrWrite = errors.New("verif: writer failure")
var v18ErrRead = errors.New("verif: reader failure")

// v18FailWriter is a model zio.Writer whose failAt-th Write fails (0 = never);
// one-shot: later writes would succeed again, so a copy loop that carried on
// after the error would end with a nil error.
type v18FailWriter struct {
	failAt int
	calls  int
	failed bool
	got    []int64
}

func (w *v18FailWriter) Write(val zed.Value) error {
	w.calls++
	if w.calls == w.failAt {
		w.failed = true
		return v18ErrWrite
	}
	w.got = append(w.got, val.Int())
	return nil
}

// v18Reader yields n values 0..n-1, then EOS; its errAt-th Read fails (0 = never).
type v18Reader struct {
	n     int
	errAt int
	calls int
	val   zed.Value
}

func (r *v18Reader) Read() (*zed.Value, error) {
	r.calls++
	if r.calls == r.errAt {
		return nil, v18ErrRead
	}
	if r.calls > r.n {
		return nil, nil
	}
	r.val = zed.NewInt64(int64(r.calls - 1))
	return &r.val, nil
}

// verif:desc C18-O7 zio.Copy / CopyWithContext: the loop stops at the first writer error and returns it (no Write call after a failed one, the reader is not read again); a reader error is returned as well; with no failure every value is written once, in order, and nil is returned.
// verif:bounds reader of 0..3 values; writer fails at Write call k in 0..4 (symbolic; 0=never; one-shot); reader fails at Read call j in 0..4 (symbolic; 0=never); Copy or CopyWithContext(Background)
// verif:outside context cancellation
func VerifH_C18_O7_copy() {
	n := verif.Choose("n", 4)
	w := &v18FailWriter{failAt: verif.Range("failAt", 0, 4)}
	r := &v18Reader{n: n, errAt: verif.Range("readErrAt", 0, 4)}
	var err error
	if verif.Choose("api", 2) == 0 {
		err = Copy(w, r)
	} else {
		err = CopyWithContext(context.Background(), w, r)
	}
	if w.failed {
		verif.Assert(err != nil, "writer-failure-reported")
		verif.Assert(err == v18ErrWrite, "first-writer-error-returned")
		verif.Assert(w.calls == w.failAt, "stopped-at-first-writer-error")
		verif.Assert(r.calls == w.failAt, "reader-not-read-after-writer-error")
		verif.Reach("writer-failed")
	} else if r.errAt > 0 && r.calls >= r.errAt {
		verif.Assert(err == v18ErrRead, "reader-error-returned")
		verif.Reach("reader-failed")
	} else {
		verif.Assert(err == nil, "no-spurious-error")
		verif.Assert(len(w.got) == n, "all-values-written")
		for i := range w.got {
			verif.Assert(w.got[i] == int64(i), "values-in-order")
		}
		verif.Reach("clean")
	}
}
