//go:build verif

package tableio

import (
	"errors"

	"github.com/brimdata/super"
	"github.com/brimdata/super/internal/verif"
	"github.com/brimdata/super/zcode"
)

var v18ErrSink = errors.New("verif: sink failure")

// v18Sink is the model io.WriteCloser: its failAt-th Write fails (0 = never),
// delivering nothing (partial=false) or half of the bytes (partial=true)
// together with the error; sticky sinks keep failing afterwards; Close may
// fail too.  phase is set by the harness to the index of the writer call in
// progress, so the first failure can be attributed to it.
type v18Sink struct {
	failAt    int
	sticky    bool
	partial   bool
	closeFail bool
	calls     int
	errored   bool
	phase     int
	errPhase  int
	data      []byte
	closed    bool
}

func (s *v18Sink) fail() {
	if !s.errored {
		s.errored = true
		s.errPhase = s.phase
	}
}

func (s *v18Sink) Write(p []byte) (int, error) {
	s.calls++
	if s.failAt > 0 && (s.calls == s.failAt || (s.sticky && s.calls > s.failAt)) {
		s.fail()
		if s.partial {
			s.data = append(s.data, p[:len(p)/2]...)
			return len(p) / 2, v18ErrSink
		}
		return 0, v18ErrSink
	}
	s.data = append(s.data, p...)
	return len(p), nil
}

func (s *v18Sink) Close() error {
	s.closed = true
	if s.closeFail {
		s.fail()
		return v18ErrSink
	}
	return nil
}

func v18NewSink(maxFail int) *v18Sink {
	return &v18Sink{
		failAt:    verif.Range("failAt", 0, maxFail),
		sticky:    verif.Bool("sticky"),
		partial:   verif.Bool("partial"),
		closeFail: verif.Bool("closeFail"),
	}
}

func v18Same(a, b []byte) bool {
	if len(a) != len(b) {
		return false
	}
	for i := range a {
		if a[i] != b[i] {
			return false
		}
	}
	return true
}

func v18Rec(zctx *zed.Context, name, val string) zed.Value {
	typ := zctx.MustLookupTypeRecord([]zed.Field{zed.NewField(name, zed.TypeString)})
	return zed.NewValue(typ, zcode.Append(nil, []byte(val)))
}

const v18ClosePhase = 100

type v18Writer interface {
	Write(zed.Value) error
	Close() error
}

// v18Drive runs the workload once over a fault-free sink (reference) and once
// over the failing sink and checks the C18 statement.
func v18Drive(mk func(*v18Sink) v18Writer, vals []zed.Value, maxFail int, observe bool) {
	ref := &v18Sink{}
	rw := mk(ref)
	for _, v := range vals {
		verif.Assert(rw.Write(v) == nil, "reference-run-clean")
	}
	verif.Assert(rw.Close() == nil, "reference-run-clean")
	verif.Assert(ref.calls <= maxFail, "failure-positions-cover-all-sink-writes")
	if observe {
		// engine and native run must produce the same amount of output
		verif.Observe("refbytes", len(ref.data))
		verif.Observe("refcalls", ref.calls)
	}

	sink := v18NewSink(maxFail)
	w := mk(sink)
	anyErr := false
	for i, v := range vals {
		sink.phase = i
		if err := w.Write(v); err != nil {
			anyErr = true
		}
	}
	sink.phase = v18ClosePhase
	if err := w.Close(); err != nil {
		anyErr = true
	}
	if !anyErr {
		if sink.errored && sink.errPhase == v18ClosePhase {
			verif.Assert(false, "sink-failure-reported/during-close")
		} else {
			verif.Assert(!sink.errored, "sink-failure-reported/during-write")
		}
		if !sink.errored {
			verif.Assert(sink.closed, "sink-closed")
			verif.Assert(v18Same(sink.data, ref.data), "all-bytes-delivered")
		}
	}
	if sink.errored {
		verif.Reach("failed")
	} else {
		verif.Assert(!anyErr, "no-spurious-error")
		verif.Reach("clean")
	}
}

func v18TableVals(n int) []zed.Value {
	zctx := zed.NewContext()
	var vals []zed.Value
	for i := 0; i < n; i++ {
		switch verif.Choose("val", 3) {
		case 0:
			vals = append(vals, v18Rec(zctx, "aa", "1"))
		case 1:
			vals = append(vals, v18Rec(zctx, "b", "x"))
		case 2:
			typ := zctx.MustLookupTypeRecord([]zed.Field{zed.NewField("c", zed.TypeString), zed.NewField("d", zed.TypeString)})
			vals = append(vals, zed.NewValue(typ, zcode.Append(zcode.Append(nil, []byte("1")), []byte("2"))))
		}
	}
	return vals
}

// verif:desc C18-O4 tableio.Writer (real text/tabwriter incl. its panic/recover error path, real flattener): if every Write and Close returned nil, no sink call returned an error, the sink was closed and holds exactly the bytes of a fault-free run; if the sink never fails every call returns nil.  Ids split by where the first sink failure happened.
// verif:bounds 1..2 records from {{aa:"1"}, {b:"x"}, {c:"1",d:"2"}} (a type change flushes the table mid-stream and prints a new header); sink fails at write call k in 0..22 (symbolic; 0=never; the fault-free run is asserted to need no more sink writes than that), one-shot or sticky, with 0 or half of the bytes delivered; Close may fail
// verif:outside the 1000-line header repeat; time fields
func VerifH_C18_O4_tableio() {
	vals := v18TableVals(verif.Choose("nvals", 2) + 1)
	v18Drive(func(s *v18Sink) v18Writer { return NewWriter(s) }, vals, 22, true)
}

// verif:desc C18-O4t tableio.Writer as O4 with exactly 3 records
// verif:bounds 3 records from the same three templates; sink fails at write call k in 0..30 (symbolic; 0=never; the fault-free run is asserted to need no more sink writes than that), one-shot or sticky, with 0 or half of the bytes delivered; Close may fail
// verif:outside as O4
// verif:tier thorough
func VerifH_C18_O4t_tableio3() {
	v18Drive(func(s *v18Sink) v18Writer { return NewWriter(s) }, v18TableVals(3), 30, true)
}
