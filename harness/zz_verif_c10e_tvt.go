//go:build verif

package zed

// VerifNewTypeVectorTable builds, as a struct literal, the state a
// TypeVectorTable has after Lookup was called once for every vector of vecs in
// order (entry k is a copy of vecs[k]).  Lookup scans the table linearly, so
// reaching a table of 16384 entries through Lookup alone costs 2^27 vector
// comparisons per path; the group-by harness C10-O2c uses this pre-state for the
// large tables only and checks it with the real Length/Types/Lookup.
func VerifNewTypeVectorTable(vecs [][]Type) *TypeVectorTable {
	t := &TypeVectorTable{types: make([]typeVector, 0, len(vecs))}
	for _, v := range vecs {
		t.types = append(t.types, newTypeVector(v))
	}
	return t
}
