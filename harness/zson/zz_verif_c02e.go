//go:build verif

package zson

import (
	"unicode/utf8"

	"github.com/brimdata/super/internal/verif"
)

// vHexVal is the JSON specification's value of a hex digit (RFC 8259: DIGIT /
// "A"-"F" / "a"-"f"), written independently of zson.Unhex.
func vHexVal(c byte) (uint32, bool) {
	switch {
	case c >= '0' && c <= '9':
		return uint32(c - '0'), true
	case c >= 'a' && c <= 'f':
		return uint32(c-'a') + 10, true
	case c >= 'A' && c <= 'F':
		return uint32(c-'A') + 10, true
	}
	return 0, false
}

// verif:desc C02-O6 every JSON string escape is accepted by the ZSON string scanner with JSON's meaning (Parser.matchString / Lexer.scanString / scanToCloseQuote / parseStringBytes / unhexRune / zson.Unhex over text constructed directly): (a) for every four hex digits - each digit ANY of 0-9, a-f, A-F - outside the surrogate range, "\uXXXX" (alone, or after an ASCII character, or followed by one) reads as the UTF-8 encoding of that code point; (b) each two-character escape \" \\ \/ \b \f \n \r \t reads as the character JSON assigns to it; the scanner stops at the closing quote.
// verif:bounds 4 symbolic hex-digit bytes (all 22^4 spellings of all code points below 0x10000 except surrogates); 3 placements; the 8 two-character escapes
// verif:outside surrogate pairs; invalid escapes (must be rejected: not asserted here); JSON numbers, literals and structure (the real JSON reader cannot be executed by the engine: encoding/json)
// verif:solver z3-new
func VerifH_C02_O6_json_string_escapes() {
	if verif.Choose("kind", 2) == 1 {
		esc := []byte{'"', '\\', '/', 'b', 'f', 'n', 'r', 't'}
		val := []byte{'"', '\\', '/', '\b', '\f', '\n', '\r', '\t'}
		i := verif.Choose("escape", len(esc))
		p := vParserOver("\"a\\" + string(esc[i:i+1]) + "z\",")
		got, ok, err := p.matchString()
		verif.Assert(err == nil && ok, "json-escape-accepted")
		if err != nil || !ok {
			return
		}
		verif.Assert(got == "a"+string(val[i:i+1])+"z", "json-escape-value")
		verif.Reach("two-character-escape")
		return
	}
	h := verif.BytesN("hex", 4)
	var r uint32
	for _, c := range h {
		d, ok := vHexVal(c)
		verif.Assume(ok)
		r = r<<4 | d
	}
	verif.Assume(r < 0xd800 || r > 0xdfff)
	pre, post := "", ""
	switch verif.Choose("placement", 3) {
	case 1:
		pre = "a"
	case 2:
		post = "z"
	}
	text := append([]byte("\""+pre+"\\u"), h...)
	text = append(text, []byte(post+"\",")...)
	p := vParserOver(string(text))
	got, ok, err := p.matchString()
	verif.Assert(err == nil && ok, "json-unicode-escape-accepted")
	if err != nil || !ok {
		return
	}
	var enc [4]byte
	n := utf8.EncodeRune(enc[:], rune(r))
	want := pre + string(enc[:n]) + post
	verif.Assert(got == want, "json-unicode-escape-value")
	c := p.lexer.cursor
	verif.Assert(len(c) == 1 && c[0] == ',', "string-extent")
	verif.Reach("end")
}
