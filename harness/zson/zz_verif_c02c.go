//go:build verif

package zson

import (
	"bytes"
	"io"
	"regexp"
	"strings"

	"github.com/brimdata/super"
	"github.com/brimdata/super/internal/verif"
	"github.com/brimdata/super/zcode"
)

// ---------------------------------------------------------------------------
// C02-O4 typedef bookkeeping of the formatter across a sequence of values
// ---------------------------------------------------------------------------

// The types a name is bound to.
const (
	vC02Int8      = iota // int8            (primitive, needs a decorator)
	vC02String           // string          (implied primitive)
	vC02RecInt8          // {x:int8}        (record with a non-implied field)
	vC02RecString        // {x:string}      (implied record)
	vC02RecInt16         // {x:int16}
)

func vC02NonImpliedRecord(k int) bool { return k == vC02RecInt8 || k == vC02RecInt16 }

func vC02Type(zctx *zed.Context, k int) zed.Type {
	switch k {
	case vC02Int8:
		return zed.TypeInt8
	case vC02String:
		return zed.TypeString
	case vC02RecInt8:
		return zctx.MustLookupTypeRecord([]zed.Field{{Name: "x", Type: zed.TypeInt8}})
	case vC02RecString:
		return zctx.MustLookupTypeRecord([]zed.Field{{Name: "x", Type: zed.TypeString}})
	case vC02RecInt16:
		return zctx.MustLookupTypeRecord([]zed.Field{{Name: "x", Type: zed.TypeInt16}})
	}
	panic("kind")
}

// vC02Body: the body of the i-th value of kind k.  A string leaf is one
// symbolic lower-case letter, an integer leaf the concrete number i+1.
func vC02Body(k, i int) zcode.Bytes {
	var leaf zcode.Bytes
	switch k {
	case vC02String, vC02RecString:
		c := verif.Byte("leaf")
		verif.Assume(c-'a' < 26)
		leaf = zcode.Bytes{c}
	default:
		leaf = zed.EncodeInt(int64(i + 1))
	}
	switch k {
	case vC02Int8, vC02String:
		return leaf
	}
	var b zcode.Builder
	b.Append(leaf)
	return b.Bytes()
}

// vC02SameType: structural equality of two types of different contexts, for
// the kinds used here (primitive, record, named).
func vC02SameType(a, b zed.Type) bool {
	switch a := a.(type) {
	case *zed.TypeNamed:
		b, ok := b.(*zed.TypeNamed)
		return ok && a.Name == b.Name && vC02SameType(a.Type, b.Type)
	case *zed.TypeRecord:
		b, ok := b.(*zed.TypeRecord)
		if !ok || len(a.Fields) != len(b.Fields) {
			return false
		}
		for i := range a.Fields {
			if a.Fields[i].Name != b.Fields[i].Name || !vC02SameType(a.Fields[i].Type, b.Fields[i].Type) {
				return false
			}
		}
		return true
	}
	return a == b // primitives are singletons
}

// the (T1,T2) pairs: foo=T1, then foo=T2, then foo=T1 again
var vC02Pairs = [][2]int{
	{vC02RecInt8, vC02RecString},
	{vC02RecString, vC02RecInt8},
	{vC02RecInt8, vC02RecInt16},
	{vC02Int8, vC02String},
	{vC02String, vC02RecString},
	{vC02RecInt16, vC02Int8},
	{vC02RecInt8, vC02RecInt8}, // no re-binding: plain references
}

const (
	vC02Sequence = iota // three top-level values  v (foo)
	vC02Wrapped         // three values {a: v (foo)}
	vC02OneValue        // one value {a: v1 (foo=T1), b: v2 (foo=T2), c: v3 (foo=T1)}
	vC02NLayouts
)

// verif:desc C02-O4 typedef bookkeeping of the real zson.Formatter (NewFormatter with / without a persist regexp; saveType, hasName, nameOf, typedefs, permanent, decorate, formatType) over a SEQUENCE of values whose named types re-bind one name: foo=T1, then foo=T2, then foo=T1 again.  Each value is formatted the way zsonio.Writer does (FormatRecord, one line per value; or Format = per-stream typedef scope as zson.MarshalContext does) and the concatenated text is read back IN SEQUENCE by the real zson.Parser / Analyzer / Build sharing one fresh zed.Context, exactly as zsonio.Reader.Read does: every value read back has a type structurally identical to the one written and the same bytes.  Assertion ids: typedef-text-unreadable, typedef-type-changed, typedef-value-changed; suffix /rebound-nonimplied-record marks the region "the value's type is foo={x:int8|int16} and the formatter's typedef scope (the value itself; the whole stream under persist or Format) already bound foo to a different type".
// verif:bounds name "foo"; (T1,T2) in {({x:int8},{x:string}), ({x:string},{x:int8}), ({x:int8},{x:int16}), (int8,string), (string,{x:string}), ({x:int16},int8), ({x:int8},{x:int8})}; layouts: 3 top-level named values, 3 values {a:named}, one value {a:..,b:..,c:..}; persist regexp nil or /foo/; FormatRecord or Format; pretty 0 or 2; string leaves one symbolic letter a..z each, integer leaves the concrete numbers 1,2,3
// verif:outside other names (quoting: C02-O3) and numbers (the digits: strconv); unions, enums, maps, arrays, nested typedefs inside a typedef; colour; more than 3 values
// verif:unwind 64
// verif:solver z3-new
func VerifH_C02_O4_typedef_rebinding() {
	pair := vC02Pairs[verif.Choose("types", len(vC02Pairs))]
	layout := verif.Choose("layout", vC02NLayouts)
	persistOn := verif.Choose("persist", 2) == 1
	perStream := verif.Choose("scope", 2) == 1
	pretty := 2 * verif.Choose("pretty", 2)

	wctx := zed.NewContext()
	kinds := []int{pair[0], pair[1], pair[0]}
	var named []zed.Type
	var bodies []zcode.Bytes
	for i, k := range kinds {
		n, err := wctx.LookupTypeNamed("foo", vC02Type(wctx, k))
		if err != nil {
			panic(err)
		}
		named = append(named, n)
		bodies = append(bodies, vC02Body(k, i))
	}
	var vals []zed.Value
	switch layout {
	case vC02Sequence:
		for i := range kinds {
			vals = append(vals, zed.NewValue(named[i], bodies[i]))
		}
	case vC02Wrapped:
		for i := range kinds {
			rt := wctx.MustLookupTypeRecord([]zed.Field{{Name: "a", Type: named[i]}})
			var b zcode.Builder
			b.Append(bodies[i])
			vals = append(vals, zed.NewValue(rt, b.Bytes()))
		}
	case vC02OneValue:
		rt := wctx.MustLookupTypeRecord([]zed.Field{{Name: "a", Type: named[0]}, {Name: "b", Type: named[1]}, {Name: "c", Type: named[2]}})
		var b zcode.Builder
		for i := range kinds {
			b.Append(bodies[i])
		}
		vals = append(vals, zed.NewValue(rt, b.Bytes()))
	}

	// the writer (zsonio.NewWriter / Writer.Write)
	var persist *regexp.Regexp
	if persistOn {
		persist = regexp.MustCompile("foo")
	}
	f := NewFormatter(pretty, true, persist)
	var text strings.Builder
	for _, v := range vals {
		if perStream {
			text.WriteString(f.Format(v))
		} else {
			text.WriteString(f.FormatRecord(v))
		}
		text.WriteString("\n")
	}
	verif.Observe("text", text.String())

	// region of value i (rule 7): its type is foo={x:int8|int16} and an
	// earlier value of the same typedef scope bound foo to another type
	streamScope := persistOn || perStream || layout == vC02OneValue
	region := func(i int) string {
		if !vC02NonImpliedRecord(kinds[i]) || !streamScope {
			return ""
		}
		for j := 0; j < i; j++ {
			if kinds[j] != kinds[i] {
				return "/rebound-nonimplied-record"
			}
		}
		return ""
	}

	// the reader (zsonio.NewReader / Reader.Read): one parser, one analyzer,
	// one builder, one fresh context for the whole stream
	rctx := zed.NewContext()
	parser := NewParser(strings.NewReader(text.String()))
	analyzer := NewAnalyzer()
	builder := zcode.NewBuilder()
	for n, want := range vals {
		// the region of a whole-record value is that of its worst field
		reg := region(n)
		if layout == vC02OneValue {
			for i := range kinds {
				if r := region(i); r != "" {
					reg = r
				}
			}
		}
		if reg != "" {
			verif.Reach("rebound-nonimplied-record")
		}
		ast, err := parser.ParseValue()
		if err != nil || ast == nil {
			verif.Assert(false, "typedef-text-unreadable"+reg)
			return
		}
		av, err := analyzer.ConvertValue(rctx, ast)
		if err != nil {
			verif.Assert(false, "typedef-text-unreadable"+reg)
			return
		}
		got, err := Build(builder, av)
		if err != nil {
			verif.Assert(false, "typedef-text-unreadable"+reg)
			return
		}
		verif.Assert(vC02SameType(got.Type(), want.Type()), "typedef-type-changed"+reg)
		verif.Assert(bytes.Equal(got.Bytes(), want.Bytes()), "typedef-value-changed"+reg)
	}
	// and nothing else follows
	ast, err := parser.ParseValue()
	verif.Assert(ast == nil && err == nil, "typedef-text-trailing-garbage")
	if persistOn {
		verif.Reach("persist")
	}
	if pretty > 0 {
		verif.Reach("pretty")
	}
	if pair[0] == pair[1] {
		verif.Reach("no-rebinding")
	}
	verif.Reach("end")
}

// ---------------------------------------------------------------------------
// C02-O5 lexer buffer refill in the middle of a multi-byte rune
// ---------------------------------------------------------------------------

// vChunkReader delivers data in pieces: either cut once at position cut, or in
// pieces of size bytes.
type vChunkReader struct {
	data []byte
	pos  int
	cut  int // if size == 0: the first Read stops at cut
	size int
}

func (r *vChunkReader) Read(p []byte) (int, error) {
	if r.pos >= len(r.data) {
		return 0, io.EOF
	}
	end := len(r.data)
	if r.size > 0 {
		if r.pos+r.size < end {
			end = r.pos + r.size
		}
	} else if r.pos < r.cut {
		end = r.cut
	}
	n := copy(p, r.data[r.pos:end])
	r.pos += n
	return n, nil
}

// vLexerOver: the state NewLexer builds (a ReadSize buffer, nothing read yet),
// without the two regular expressions, which the name scanners never use.
func vLexerOver(r io.Reader) *Parser {
	return &Parser{lexer: &Lexer{reader: r, buffer: make([]byte, ReadSize)}}
}

type vC02NameResult struct {
	open, delim bool
	name        string
	failed      bool
	rest        byte
}

// vC02ScanName drives the lexer the way the parser does for a record field
// (matchRecord: '{', matchField: matchSymbol, ':') or for a short-form typedef
// decorator (matchDecorator: '(', parseDecorator: '=', scanTypeName, ')'),
// and then reads the next byte.
func vC02ScanName(p *Parser, field bool) vC02NameResult {
	var r vC02NameResult
	l := p.lexer
	if field {
		ok, err := l.match('{')
		if err != nil || !ok {
			return vC02NameResult{failed: true}
		}
		r.open = true
		name, ok, err := p.matchSymbol()
		if err != nil || !ok {
			return vC02NameResult{failed: true}
		}
		r.name = name
		ok, err = l.match(':')
		if err != nil {
			return vC02NameResult{failed: true}
		}
		r.delim = ok
	} else {
		ok, err := l.match('(')
		if err != nil || !ok {
			return vC02NameResult{failed: true}
		}
		ok, err = l.match('=')
		if err != nil || !ok {
			return vC02NameResult{failed: true}
		}
		r.open = true
		name, err := l.scanTypeName()
		if err != nil {
			return vC02NameResult{failed: true}
		}
		r.name = name
		ok, err = l.match(')')
		if err != nil {
			return vC02NameResult{failed: true}
		}
		r.delim = ok
	}
	b, err := l.readByte()
	if err != nil {
		return vC02NameResult{failed: true}
	}
	r.rest = b
	return r
}

// verif:desc C02-O5 zson.Lexer refill (fill / check / peekRune / skipSpace / scanTypeName / scanIdentifier) when the io.Reader delivers the text in pieces: an UNQUOTED record field name ("{" name ":") or type name ("(=" name ")") that contains a 2-, 3- or 4-byte UTF-8 letter, or is followed by a 3-byte space (U+2003), is lexed exactly as when the whole text arrives in one piece - same name (the one written), same delimiter, same next byte - wherever the refill boundary falls, in particular inside the multi-byte rune (peekRune must refill when !utf8.FullRune(cursor)).
// verif:bounds the Lexer state is constructed in-package exactly as NewLexer does (buffer of ReadSize = 64 KiB, empty cursor) minus the two regexps; the lexer's buffer size is a constant, so the boundary is forced by the reader instead (the lexer asks its reader for more only when it must: io.ReadAtLeast(min) returns as soon as min bytes arrived): either the first Read ends at an arbitrary position cut in 0..len(text), or every Read returns at most 1, 2, 3 or 5 bytes.  name = c + "a" + R + "b" with c one symbolic ASCII letter and R one of U+00E9 (2 bytes), U+4E16 (3 bytes), U+1D4B3 (4 bytes), or name = c + "a" followed by U+2003; text = "{"+name+":1}" or "(="+name+")}"
// verif:outside runes other than these four; quoted names (C02-O2); refill inside string literals and primitives (peekPrimitive needs the regexps); buffer growth beyond ReadSize; read errors other than EOF
// verif:unwind 64
// verif:solver z3-new
func VerifH_C02_O5_lexer_refill() {
	field := verif.Choose("kind", 2) == 0
	c := verif.Byte("c")
	verif.Assume((c >= 'a' && c <= 'z') || (c >= 'A' && c <= 'Z'))
	var name, after string
	pre := string([]byte{c}) + "a"
	var w int // width of the multi-byte rune, which starts right after pre
	switch verif.Choose("rune", 4) {
	case 0:
		name, w = pre+"é"+"b", 2
	case 1:
		name, w = pre+"世"+"b", 3
	case 2:
		name, w = pre+"\U0001d4b3"+"b", 4
	case 3:
		name, after, w = pre, "\u2003", 3
	}
	var text string
	var delim byte
	if field {
		text = "{" + name + after + ":1}"
		delim = '1'
	} else {
		text = "(=" + name + after + ")}"
		delim = '}'
	}
	r := &vChunkReader{data: []byte(text)}
	if m := verif.Choose("mode", 5); m == 0 {
		r.cut = verif.Choose("cut", len(text)+1)
	} else {
		r.size = []int{1, 2, 3, 5}[m-1]
	}
	got := vC02ScanName(vLexerOver(r), field)
	whole := vC02ScanName(vLexerOver(&vChunkReader{data: []byte(text), cut: len(text)}), field)

	verif.Assert(!whole.failed && whole.open && whole.delim && whole.name == name && whole.rest == delim, "name-not-lexed-from-whole-text")
	verif.Assert(!got.failed, "refill-scan-error")
	if got.failed {
		return
	}
	verif.Assert(got.name == whole.name, "refill-changes-name")
	verif.Assert(got.delim == whole.delim, "refill-changes-delimiter")
	verif.Assert(got.rest == whole.rest, "refill-changes-next-byte")
	// the first fill asks for at least 4 bytes, so a first Read of 4 or more
	// bytes that ends inside the rune leaves a partial rune in the cursor
	start := strings.Index(text, name) + len(pre)
	if r.size == 0 && r.cut >= 4 && r.cut > start && r.cut < start+w {
		verif.Reach("cut-inside-rune")
	}
	verif.Reach("end")
}
