//go:build verif

package zson

import (
	"encoding/binary"
	"math"
	"strings"
	"unicode/utf8"

	"github.com/brimdata/super"
	"github.com/brimdata/super/internal/verif"
	"github.com/brimdata/super/zcode"
)

// ---------------------------------------------------------------------------
// C02-O1 float spelling
// ---------------------------------------------------------------------------

// vRead is what the ZSON reader makes of the text formatPrimitive produced for
// a float of type typ: the type it assigns and the value (in the field that
// corresponds to that type).
type vRead struct {
	typ zed.Type
	f64 float64 // typ == float64
	f32 float32 // typ == float32
	b16 uint16  // typ == float16: the bits the builder stores
}

// vTokenPayload returns the 8 payload bytes of a token of intrinsics_c02.go
// (gosym maps this function to the term the token was made from).
func vTokenPayload(text string) uint64 {
	return binary.BigEndian.Uint64([]byte(text[1:9]))
}

// vReadBack: the formatter appends the decorator "(float32)" / "(float16)";
// float64 is implied, so its text alone decides the type.
//
// Natively this IS the reader (ParseValue).  Under gosym the text is one of
// the two tokens of intrinsics_c02.go and the stated parse model is applied:
//
//	IntDot(x)  "<x>."   not an integer literal (trailing '.'), ParseFloat gives
//	                    the float nearest to x: float64(x) / float32(x)
//	G(f)                strconv.FormatFloat(f,'g',-1,bitSize): shortest text that
//	                    ParseFloat(.,bitSize) reads back as f (strconv contract,
//	                    assumed); NaN -> "NaN", Inf -> "+Inf"/"-Inf"; the text has
//	                    neither '.' nor exponent iff f is integral and |f| < 1e6
//	                    ('g' with shortest precision switches to %e at exponent
//	                    >= 6), and such a text is an int64 literal to
//	                    Parser.matchPrimitive, which tries ParseInt first.
//	"-0."             the literal text the formatter writes for negative zero
//	                    reads back as -0 (ParseFloat keeps the sign)
//	float32/float16: the decorator casts whatever number was lexed, the builder
//	                    runs ParseFloat(text,32) and, for float16, the real
//	                    zed.EncodeFloat16(float32(v)).
func vReadBack(text string, typ zed.Type) vRead {
	if !verif.Symbolic() {
		switch typ {
		case zed.TypeFloat32:
			text += "(float32)"
		case zed.TypeFloat16:
			text += "(float16)"
		}
		val, err := ParseValue(zed.NewContext(), text)
		if err != nil {
			return vRead{}
		}
		r := vRead{typ: val.Type()}
		switch r.typ {
		case zed.TypeFloat64:
			r.f64 = zed.DecodeFloat64(val.Bytes())
		case zed.TypeFloat32:
			r.f32 = zed.DecodeFloat32(val.Bytes())
		case zed.TypeFloat16:
			r.b16 = binary.LittleEndian.Uint16(val.Bytes())
		}
		return r
	}
	if text == "-0." {
		// the literal spelling of negative zero: not an integer literal
		// (trailing '.'), ParseFloat("-0.") is -0 of the requested width
		negZero := math.Copysign(0, -1)
		switch typ {
		case zed.TypeFloat64:
			return vRead{typ: typ, f64: negZero}
		case zed.TypeFloat32:
			return vRead{typ: typ, f32: float32(negZero)}
		default:
			return vRead{typ: typ, b16: binary.LittleEndian.Uint16(zed.EncodeFloat16(float32(negZero)))}
		}
	}
	if len(text) != 10 {
		return vRead{}
	}
	payload := vTokenPayload(text)
	switch text[0] {
	case 1: // IntDot
		x := int64(payload)
		switch typ {
		case zed.TypeFloat64:
			return vRead{typ: typ, f64: float64(x)}
		case zed.TypeFloat32:
			return vRead{typ: typ, f32: float32(x)}
		default:
			return vRead{typ: typ, b16: binary.LittleEndian.Uint16(zed.EncodeFloat16(float32(x)))}
		}
	case 2: // G: payload = Float64bits(f) for bitSize 64, Float32bits(float32(f)) for 32
		switch typ {
		case zed.TypeFloat64:
			f := math.Float64frombits(payload)
			if f > -1e6 && f < 1e6 && float64(int64(f)) == f {
				// digits only: an int64 literal
				return vRead{typ: zed.TypeInt64}
			}
			return vRead{typ: typ, f64: f}
		case zed.TypeFloat32:
			return vRead{typ: typ, f32: math.Float32frombits(uint32(payload))}
		default:
			f := math.Float32frombits(uint32(payload))
			return vRead{typ: typ, b16: binary.LittleEndian.Uint16(zed.EncodeFloat16(f))}
		}
	}
	return vRead{}
}

func vReadFloat(typ zed.Type, body zcode.Bytes) (vRead, bool) {
	var b strings.Builder
	formatPrimitive(&b, typ, body)
	r := vReadBack(b.String(), typ)
	verif.Assert(r.typ != nil, "float-text-unreadable")
	if r.typ == nil {
		return r, false
	}
	verif.Assert(r.typ == typ, "float-type-changed")
	return r, r.typ == typ
}

// verif:desc C02-O1 zson.formatPrimitive, float64 case (real control flow; the spelling it chooses is read back by the stated parse model, natively by the real zson.ParseValue): for every float64 the text denotes a value of type float64 with the same bits (NaN reads back as NaN).
// verif:bounds all 2^64 float64 bit patterns (SMT FloatingPoint); int64(f) of NaN/out-of-range follows amd64 (0x8000000000000000)
// verif:outside the decimal digits themselves (strconv shortest round-trip contract assumed: intrinsics_c02.go tokens); float decorators; other primitive types
func VerifH_C02_O1_float64() {
	f := verif.Float64("f")
	r, ok := vReadFloat(zed.TypeFloat64, zed.EncodeFloat64(f))
	if !ok {
		return
	}
	if f != f {
		verif.Assert(r.f64 != r.f64, "float-nan-lost")
		verif.Reach("nan")
	} else if f == 0 {
		// region split (rule 7): the two zeros
		if math.Signbit(f) {
			verif.Assert(f == r.f64 && math.Signbit(r.f64), "float-value-changed/negative-zero")
		} else {
			verif.Assert(f == r.f64 && !math.Signbit(r.f64), "float-value-changed/positive-zero")
		}
		verif.Reach("zero")
	} else {
		verif.Assert(f == r.f64, "float-value-changed")
	}
	verif.Reach("end")
}

// verif:desc C02-O1 zson.formatPrimitive, float32 case: for every float32 the text plus the (float32) decorator reads back as the same float32 (same bits; NaN as NaN).
// verif:bounds all 2^32 float32 bit patterns
// verif:outside as VerifH_C02_O1_float64
func VerifH_C02_O1_float32() {
	f := verif.Float32("f")
	r, ok := vReadFloat(zed.TypeFloat32, zed.EncodeFloat32(f))
	if !ok {
		return
	}
	if f != f {
		verif.Assert(r.f32 != r.f32, "float-nan-lost")
		verif.Reach("nan")
	} else if f == 0 {
		if math.Signbit(float64(f)) {
			verif.Assert(f == r.f32 && math.Signbit(float64(r.f32)), "float-value-changed/negative-zero")
		} else {
			verif.Assert(f == r.f32 && !math.Signbit(float64(r.f32)), "float-value-changed/positive-zero")
		}
		verif.Reach("zero")
	} else {
		verif.Assert(f == r.f32, "float-value-changed")
	}
	verif.Reach("end")
}

// verif:desc C02-O1 zson.formatPrimitive, float16 case (real zed.DecodeFloat16 / zed.EncodeFloat16 / x448 float16 conversions): for every float16 the text plus the (float16) decorator is stored by the builder as the same 16 bits (NaN as a NaN).
// verif:bounds all 2^16 float16 bit patterns
// verif:outside as VerifH_C02_O1_float64
func VerifH_C02_O1_float16() {
	bits := verif.Uint16("bits")
	r, ok := vReadFloat(zed.TypeFloat16, zcode.Bytes{byte(bits), byte(bits >> 8)})
	if !ok {
		return
	}
	if bits&0x7c00 == 0x7c00 && bits&0x03ff != 0 {
		verif.Assert(r.b16&0x7c00 == 0x7c00 && r.b16&0x03ff != 0, "float-nan-lost")
		verif.Reach("nan")
	} else if bits == 0x8000 {
		verif.Assert(r.b16 == bits, "float-value-changed/negative-zero")
	} else {
		verif.Assert(r.b16 == bits, "float-value-changed")
	}
	verif.Reach("end")
}

// ---------------------------------------------------------------------------
// C02-O2 string escaping, C02-O3 name quoting
// ---------------------------------------------------------------------------

type vEOF struct{}

func (vEOF) Read([]byte) (int, error) { return 0, vErrEOF }

var vErrEOF = errString("EOF (verif: end of text)")

type errString string

func (e errString) Error() string { return string(e) }

// vParserOver builds the parser/lexer state directly over text (NewLexer
// compiles regular expressions that the string/name scanners never use).
func vParserOver(text string) *Parser {
	return &Parser{lexer: &Lexer{
		reader: vEOF{},
		buffer: make([]byte, 64),
		cursor: []byte(text),
	}}
}

func vStringRoundTrip(max int) {
	s := verif.Bytes("s", max)
	verif.Assume(utf8.Valid(s)) // invalid UTF-8: documented replacement (issue #3455), outside
	q := QuotedString(s)
	p := vParserOver(q + ",")
	got, ok, err := p.matchString()
	verif.Assert(err == nil, "string-scan-error")
	if err != nil {
		return
	}
	verif.Assert(ok, "string-not-recognized")
	verif.Assert(got == string(s), "string-roundtrip")
	// the scanner stopped exactly at the end of the quoted text
	c := p.lexer.cursor
	verif.Assert(len(c) == 1 && c[0] == ',', "string-extent")
	verif.Reach("end")
}

// verif:desc C02-O2 zson.QuotedString followed by Parser.matchString / Lexer.scanString / scanToCloseQuote / parseStringBytes (lexer state constructed directly over the produced text, followed by ','): the string read back equals the input and the scanner consumes exactly the quoted text.
// verif:bounds every valid UTF-8 byte string of length 0..2 (all byte values symbolic)
// verif:outside invalid UTF-8 (documented lossy replacement, issue #3455); backtick strings; Lexer.fill/refill from a reader
// verif:unwind 40
// verif:solver z3-new
func VerifH_C02_O2_string() {
	vStringRoundTrip(2)
}

// verif:desc C02-O2 (thorough bound) as VerifH_C02_O2_string for length 0..3 (covers 3-byte runes)
// verif:bounds every valid UTF-8 byte string of length 0..3
// verif:tier thorough
// verif:unwind 48
// verif:solver z3-new
func VerifH_C02_O2_string_thorough() {
	vStringRoundTrip(3)
}

func vASCII(name string, max int) string {
	s := verif.String(name, max)
	for i := 0; i < len(s); i++ {
		verif.Assume(s[i] < utf8.RuneSelf)
	}
	return s
}

// verif:desc C02-O3 field-name quoting: the text zson.QuotedName(s) + ":" (as Formatter writes a record field) is read by Parser.matchSymbol (matchString / matchIdentifier / Lexer.scanIdentifier) as exactly s, leaving ':' next; an unquoted result implies IsIdentifier(s).
// verif:bounds every ASCII string s of length 0..2 (bytes symbolic, < 0x80)
// verif:outside non-ASCII names (unicode tables); the quoted branch is the O2 kernel and is also executed here
// verif:unwind 40
// verif:solver z3-new
func VerifH_C02_O3_fieldname() {
	vFieldName(2)
}

// verif:desc C02-O3 (thorough bound) as VerifH_C02_O3_fieldname for length 0..3
// verif:bounds every ASCII string s of length 0..3
// verif:tier thorough
// verif:unwind 40
// verif:solver z3-new
func VerifH_C02_O3_fieldname_thorough() {
	vFieldName(3)
}

func vFieldName(max int) {
	s := vASCII("s", max)
	q := QuotedName(s)
	if q == s {
		verif.Assert(IsIdentifier(s), "name-unquoted-nonidentifier")
		verif.Reach("unquoted")
	} else {
		verif.Reach("quoted")
	}
	p := vParserOver(q + ":")
	got, ok, err := p.matchSymbol()
	verif.Assert(err == nil, "name-scan-error")
	if err != nil {
		return
	}
	verif.Assert(ok, "name-not-recognized")
	verif.Assert(got == s, "name-roundtrip")
	c := p.lexer.cursor
	verif.Assert(len(c) == 1 && c[0] == ':', "name-extent")
	verif.Reach("end")
}

// verif:desc C02-O3 type-name quoting: the text zson.QuotedTypeName(s) followed by ')' or '=' (as Formatter writes "(=name)", "(name)", "name=type") is read by Lexer.scanTypeName as exactly s, leaving the delimiter next; an unquoted result implies IsTypeName(s).
// verif:bounds every ASCII string s of length 1..2 that zed.Context.LookupTypeNamed accepts (not a primitive type name, e.g. "ip"); delimiter in {')','='}
// verif:outside non-ASCII names; the empty type name (zed.Context.LookupTypeNamed accepts it but the ZSON grammar cannot express it: "1(=)" does not parse); the keywords "error"/"enum" (longer than the bound)
// verif:unwind 40
// verif:solver z3-new
func VerifH_C02_O3_typename() {
	vTypeName(2)
}

// verif:desc C02-O3 (thorough bound) as VerifH_C02_O3_typename for length 1..3 (reaches the primitive name "net")
// verif:bounds every ASCII string s of length 1..3 that LookupTypeNamed accepts; delimiter in {')','='}
// verif:tier thorough
// verif:unwind 40
// verif:solver z3-new
func VerifH_C02_O3_typename_thorough() {
	vTypeName(3)
}

func vTypeName(max int) {
	s := vASCII("s", max)
	// the ZSON grammar has no empty type name (Parser.parseDecorator rejects
	// it quoted or not), and LookupTypeNamed refuses primitive type names
	verif.Assume(len(s) > 0 && zed.LookupPrimitive(s) == nil)
	delim := []string{")", "="}[verif.Choose("delim", 2)]
	q := QuotedTypeName(s)
	if q == s {
		verif.Assert(IsTypeName(s), "typename-unquoted-nontypename")
		verif.Reach("unquoted")
	} else {
		verif.Reach("quoted")
	}
	p := vParserOver(q + delim)
	got, err := p.lexer.scanTypeName()
	verif.Assert(err == nil, "typename-scan-error")
	if err != nil {
		return
	}
	verif.Assert(got == s, "typename-roundtrip")
	c := p.lexer.cursor
	verif.Assert(len(c) == 1 && c[0] == delim[0], "typename-extent")
	verif.Reach("end")
}
