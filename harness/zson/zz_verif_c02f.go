//go:build verif

package zson

import (
	"bytes"
	"net/netip"
	"strings"

	"github.com/brimdata/super"
	"github.com/brimdata/super/internal/verif"
	"github.com/brimdata/super/zcode"
)

// verif:desc C02-O7 IP addresses inside containers survive text: values whose leaves are IPv4, IPv6 and IPv4-mapped addresses in every position where the ZSON text puts another token right after the address - map KEY (followed by ':'), map value, set/array element, record field, union member - with the map key type being ip, a named ip, or a UNION containing ip: real Formatter.Format (formatMap/formatVector/formatRecord/formatUnion/decorate, pretty 0/2/4) followed by the real Parser/Analyzer/Builder (one reader state, fresh context): the value read back has the same type (zed.EncodeTypeValue) and the same bytes; nothing else follows.
// verif:bounds 7 container shapes x 4 addresses (1.2.3.4, ::1, fe80::1, ::ffff:1.2.3.4) x pretty in {0,2,4}
// verif:outside symbolic addresses (netip formatting is executed concretely); net (CIDR) values; deeper nesting
func VerifH_C02_O7_ip_in_containers() {
	zctx := zed.NewContext()
	addrs := []string{"1.2.3.4", "::1", "fe80::1", "::ffff:1.2.3.4"}
	ip := zed.EncodeIP(netip.MustParseAddr(addrs[verif.Choose("addr", len(addrs))]))
	pretty := []int{0, 2, 4}[verif.Choose("pretty", 3)]
	named, _ := zctx.LookupTypeNamed("addr", zed.TypeIP)
	uni := zctx.LookupTypeUnion([]zed.Type{zed.TypeString, zed.TypeIP})
	one := zed.EncodeInt(1)
	var val zed.Value
	switch verif.Choose("shape", 7) {
	case 0: // |{ip:int64}|
		val = zed.NewValue(zctx.LookupTypeMap(zed.TypeIP, zed.TypeInt64), zcode.Append(zcode.Append(nil, ip), one))
	case 1: // |{addr=ip:int64}|
		val = zed.NewValue(zctx.LookupTypeMap(named, zed.TypeInt64), zcode.Append(zcode.Append(nil, ip), one))
	case 2: // |{(string,ip):int64}| with an ip key
		var b zcode.Builder
		zed.BuildUnion(&b, uni.TagOf(zed.TypeIP), ip)
		key := b.Bytes().Body()
		val = zed.NewValue(zctx.LookupTypeMap(uni, zed.TypeInt64), zcode.Append(zcode.Append(nil, key), one))
		verif.Reach("union-typed-map-key")
	case 3: // |{int64:ip}|
		val = zed.NewValue(zctx.LookupTypeMap(zed.TypeInt64, zed.TypeIP), zcode.Append(zcode.Append(nil, one), ip))
	case 4: // |[ip]|
		val = zed.NewValue(zctx.LookupTypeSet(zed.TypeIP), zcode.Append(nil, ip))
	case 5: // {a:ip,b:int64}
		rt := zctx.MustLookupTypeRecord([]zed.Field{zed.NewField("a", zed.TypeIP), zed.NewField("b", zed.TypeInt64)})
		val = zed.NewValue(rt, zcode.Append(zcode.Append(nil, ip), one))
	default: // [(string,ip)]
		var b zcode.Builder
		zed.BuildUnion(&b, uni.TagOf(zed.TypeIP), ip)
		val = zed.NewValue(zctx.LookupTypeArray(uni), zcode.Append(nil, b.Bytes().Body()))
	}
	text := NewFormatter(pretty, true, nil).Format(val)
	verif.Observe("text", text)
	rctx := zed.NewContext()
	parser := NewParser(strings.NewReader(text + "\n"))
	ast, err := parser.ParseValue()
	verif.Assert(err == nil && ast != nil, "text-parses")
	if err != nil || ast == nil {
		return
	}
	av, err := NewAnalyzer().ConvertValue(rctx, ast)
	verif.Assert(err == nil, "text-analyzes")
	if err != nil {
		return
	}
	got, err := Build(zcode.NewBuilder(), av)
	verif.Assert(err == nil, "text-builds")
	if err != nil {
		return
	}
	verif.Assert(bytes.Equal(zed.EncodeTypeValue(got.Type()), zed.EncodeTypeValue(val.Type())), "type-preserved")
	verif.Assert(bytes.Equal(got.Bytes(), val.Bytes()), "value-preserved")
	next, err := parser.ParseValue()
	verif.Assert(next == nil && err == nil, "nothing-follows")
	verif.Reach("end")
}
