//go:build verif

package zson

import (
	"strconv"
	"strings"
	"sync"

	"github.com/brimdata/super"
	"github.com/brimdata/super/internal/verif"
	"github.com/brimdata/super/zcode"
)

// v05zRead parses and builds every value of a ZSON text with ONE reader state
// (parser + analyzer + builder, as zsonio.Reader keeps them) into zctx.
func v05zRead(zctx *zed.Context, text string) ([]zed.Value, error) {
	parser := NewParser(strings.NewReader(text))
	analyzer := NewAnalyzer()
	builder := zcode.NewBuilder()
	var out []zed.Value
	for {
		ast, err := parser.ParseValue()
		if err != nil {
			return out, err
		}
		if ast == nil {
			return out, nil
		}
		av, err := analyzer.ConvertValue(zctx, ast)
		if err != nil {
			return out, err
		}
		val, err := Build(builder, av)
		if err != nil {
			return out, err
		}
		out = append(out, val.Copy())
	}
}

// verif:desc C05-O11 two ZSON readers (each its own zson.Parser/Analyzer/Builder, as zsonio.Reader has them) decode into ONE shared zed.Context on two goroutines, under every schedule with at most 2 (thorough: 3) preemptions at the lock/unlock/map-access points of the context: reader A reads `{a:1(N=int64)} {b:2(N)}` - a definition of the type name N and, in a later value, a REFERENCE to it - while reader B reads `"x"(N=string)` (or `{c:"x"(N=string)}`), binding the same name to another type in the shared context. A reference denotes the definition that precedes it in its own input: A's second value has type {b:N=int64} whatever B does, B's value has type N=string, and neither reader fails.
// verif:bounds 2 readers, 2 + 1 values; 2 shapes of B's text; preemption bound 2 (thorough: 3); natively 2000 repetitions
// verif:outside more readers or values; other formats' name scoping (zngio: C01, C05-O5); the text parser itself (C02); data races between sync points are assumed absent
func VerifH_C05_O11_zson_readers_share_context() {
	k := 2
	if verif.Thorough() {
		k = 3
	}
	verif.Schedules(k)
	verif.Races(true)
	shape := verif.Choose("shapeB", 2)
	rounds := verif.NativeRounds(2000)
	zctx := zed.NewContext()
	okA, okB, noErr := true, true, true
	for r := 0; r < rounds; r++ {
		name := "N" + strconv.Itoa(r)
		textA := "{a:1(" + name + "=int64)} {b:2(" + name + ")}"
		textB := "\"x\"(" + name + "=string)"
		if shape == 1 {
			textB = "{c:\"x\"(" + name + "=string)}"
		}
		var valsA, valsB []zed.Value
		var errA, errB error
		start := make(chan struct{})
		var wg sync.WaitGroup
		wg.Add(2)
		go func() {
			defer wg.Done()
			<-start
			valsA, errA = v05zRead(zctx, textA)
		}()
		go func() {
			defer wg.Done()
			<-start
			valsB, errB = v05zRead(zctx, textB)
		}()
		close(start)
		wg.Wait()
		if errA != nil || errB != nil || len(valsA) != 2 || len(valsB) != 1 {
			noErr = false
			continue
		}
		if rec := zed.TypeRecordOf(valsA[1].Type()); rec == nil || len(rec.Fields) != 1 || rec.Fields[0].Name != "b" {
			okA = false
		} else if named, ok := rec.Fields[0].Type.(*zed.TypeNamed); !ok || named.Name != name || named.Type != zed.TypeInt64 {
			okA = false
		}
		tb := valsB[0].Type()
		if shape == 1 {
			if rec := zed.TypeRecordOf(tb); rec != nil && len(rec.Fields) == 1 {
				tb = rec.Fields[0].Type
			}
		}
		if named, ok := tb.(*zed.TypeNamed); !ok || named.Name != name || named.Type != zed.TypeString {
			okB = false
		}
	}
	verif.Assert(noErr, "both-readers-succeed")
	verif.Assert(okA, "reference-denotes-the-readers-own-definition")
	verif.Assert(okB, "other-reader-gets-its-type")
	verif.Reach("end")
}
