//go:build verif

// Package verif is the harness-side interface of the gosym checker.
//
// Under gosym every function here is intercepted: inputs become SMT
// variables, Assume extends the path condition, Assert is a solver query.
// Compiled natively (go test -tags verif -overlay ...) the same harness reads
// the solver's model from a replay file, so that every counterexample and
// every witness is re-run against the real build.
package verif

import (
	"encoding/json"
	"fmt"
	"math"
	"os"
	"runtime"
	"testing"
	"time"
)

type Input struct {
	Name  string `json:"name"`
	Kind  string `json:"kind"`
	Value uint64 `json:"value"`
}

type Case struct {
	Harness  string  `json:"harness"`
	Thorough bool    `json:"thorough"`
	Inputs   []Input `json:"inputs"`
	Label    string  `json:"label"`
}

type Result struct {
	Harness  string   `json:"harness"`
	Label    string   `json:"label"`
	Failed   []string `json:"failed"`   // assertion ids that failed
	Panic    string   `json:"panic"`    // escaped panic, if any
	Assumed  bool     `json:"assumed"`  // an Assume was false (inputs outside the harness domain)
	Mismatch string   `json:"mismatch"` // replay inputs did not line up with the calls made
	Observed []string `json:"observed"`
	Reached  []string `json:"reached"`
	Done     bool     `json:"done"`
}

type assumeFailed struct{}

var (
	cur      *Case
	pos      int
	res      *Result
	thorough bool
)

func next(name, kind string) uint64 {
	if cur == nil {
		return 0
	}
	if pos >= len(cur.Inputs) {
		if res.Mismatch == "" {
			res.Mismatch = fmt.Sprintf("input %q (%s) requested beyond the %d recorded inputs", name, kind, len(cur.Inputs))
		}
		return 0
	}
	in := cur.Inputs[pos]
	pos++
	if in.Name != name {
		if res.Mismatch == "" {
			res.Mismatch = fmt.Sprintf("input #%d: harness asked for %q, replay has %q", pos-1, name, in.Name)
		}
	}
	return in.Value
}

func Uint64(name string) uint64 { return next(name, "u64") }
func Int64(name string) int64   { return int64(next(name, "i64")) }
func Int(name string) int       { return int(int64(next(name, "i64"))) }
func Uint32(name string) uint32 { return uint32(next(name, "u32")) }
func Int32(name string) int32   { return int32(next(name, "i32")) }
func Uint16(name string) uint16 { return uint16(next(name, "u16")) }
func Int16(name string) int16   { return int16(next(name, "i16")) }
func Uint8(name string) uint8   { return uint8(next(name, "u8")) }
func Int8(name string) int8     { return int8(next(name, "i8")) }
func Byte(name string) byte     { return byte(next(name, "u8")) }
func Bool(name string) bool     { return next(name, "bool") != 0 }
func Float64(name string) float64 {
	return math.Float64frombits(next(name, "f64"))
}
func Float32(name string) float32 {
	return math.Float32frombits(uint32(next(name, "f32")))
}

// Choose returns a value in [0,n); under gosym each value is a separate path.
func Choose(name string, n int) int {
	v := int(next(name, "choose"))
	if v < 0 || v >= n {
		v = 0
	}
	return v
}

// Range returns a symbolic int constrained to [lo,hi].
func Range(name string, lo, hi int) int {
	v := int(int64(next(name, "i64")))
	if v < lo || v > hi {
		panic(assumeFailed{})
	}
	return v
}

// BytesN returns n symbolic bytes.
func BytesN(name string, n int) []byte {
	b := make([]byte, n)
	for i := range b {
		b[i] = byte(next(fmt.Sprintf("%s[%d]", name, i), "u8"))
	}
	return b
}

// Bytes returns between 0 and max symbolic bytes (one path per length).
func Bytes(name string, max int) []byte {
	n := int(next(name+".len", "choose"))
	if n < 0 || n > max {
		n = 0
	}
	return BytesN(name, n)
}

func StringN(name string, n int) string { return string(BytesN(name, n)) }
func String(name string, max int) string { return string(Bytes(name, max)) }

// Assume restricts the inputs considered.
func Assume(c bool) {
	if !c {
		panic(assumeFailed{})
	}
}

// Assert states the property.
func Assert(c bool, id string) {
	if !c && res != nil {
		res.Failed = append(res.Failed, id)
	}
}

// Reach marks a region for the vacuity witnesses.
func Reach(id string) {
	if res != nil {
		res.Reached = append(res.Reached, id)
	}
}

// Observe records a value for translator validation (no-op in the engine).
func Observe(name string, v any) {
	if res != nil {
		res.Observed = append(res.Observed, fmt.Sprintf("%s=%v", name, v))
	}
}

// Unwind overrides the unwinding bound for the rest of the path (engine only).
func Unwind(n int) {}

// ArbitraryMapOrder makes map iteration order a symbolic choice (engine only).
func ArbitraryMapOrder(on bool) {}

// Symbolic reports whether the harness runs under gosym.
func Symbolic() bool { return false }

// Thorough reports the tier.
func Thorough() bool { return thorough }

// RunReplay executes the cases of the replay file named by $VERIF_REPLAY.
func RunReplay(t *testing.T, harnesses map[string]func()) {
	path := os.Getenv("VERIF_REPLAY")
	if path == "" {
		t.Skip("VERIF_REPLAY not set")
	}
	data, err := os.ReadFile(path)
	if err != nil {
		t.Fatal(err)
	}
	var cases []Case
	if err := json.Unmarshal(data, &cases); err != nil {
		t.Fatal(err)
	}
	for i := range cases {
		c := &cases[i]
		f, ok := harnesses[c.Harness]
		if !ok {
			continue
		}
		r := runCase(c, f)
		out, _ := json.Marshal(r)
		fmt.Printf("\nVERIF-CASE %s\n", out)
	}
}

func runCase(c *Case, f func()) (r *Result) {
	r = &Result{Harness: c.Harness, Label: c.Label}
	cur, pos, res, thorough = c, 0, r, c.Thorough
	defer func() {
		cur, res = nil, nil
		if e := recover(); e != nil {
			if _, ok := e.(assumeFailed); ok {
				r.Assumed = true
				return
			}
			r.Panic = fmt.Sprint(e)
		}
	}()
	base := runtime.NumGoroutine()
	f()
	// A panic in a goroutine spawned by the code under test (errgroup.Go ...)
	// kills the test binary asynchronously: its deferred Done() lets the harness
	// run on while the runtime is still printing the crash.  Wait for leftover
	// goroutines before reporting this case as done, so that the crash is
	// attributed to the case that caused it.
	for i := 0; i < 60 && runtime.NumGoroutine() > base; i++ {
		time.Sleep(5 * time.Millisecond)
	}
	r.Done = true
	return r
}

// MergeX runs a PURE closure (no heap writes that are read later, no
// Assert) and returns its result.  Under gosym all paths of the closure are
// explored locally and joined into one if-then-else term, so the caller
// continues as a single path (state merging).
func MergeInt(f func() int) int             { return f() }
func MergeInt64(f func() int64) int64       { return f() }
func MergeUint64(f func() uint64) uint64    { return f() }
func MergeBool(f func() bool) bool          { return f() }
func MergeFloat64(f func() float64) float64 { return f() }

// Goroutines(true) switches the engine to cooperative goroutines for the rest
// of the path: `go f()` starts a goroutine, blocking channel operations
// switch to another runnable goroutine (one deterministic schedule).  No-op
// natively (real goroutines run).
func Goroutines(on bool) {}

// Schedules(k) is Goroutines(true) plus SCHEDULE EXPLORATION: every lock,
// unlock, atomic, channel send, map access and goroutine start is a preemption
// point at which the engine may switch to any other runnable goroutine, at
// most k times per path (which goroutine runs next after a block or an exit
// is a free choice as well).  Every such schedule is a path.  No-op natively:
// a schedule-dependent counterexample is replayed by repetition (see
// NativeRounds), so Observe/Reach only schedule-independent facts.
func Schedules(k int) {}

// Races(true), after Schedules: happens-before data-race detection on the
// explored schedules (vector clocks over lock/unlock, channel operations,
// WaitGroup, atomics, Once, Pool, goroutine start; pointer loads/stores and map
// operations are the checked accesses).  A candidate is confirmed natively
// with the Go race detector (the replay binary is built with -race for it) and
// reported as the violation `data-race`; unconfirmed candidates are dropped.
// No-op natively.
func Races(on bool) {}

// NativeRounds returns 1 under the engine and n in the native replay: the
// harness repeats its concurrent experiment that many times natively (real
// threads, the Go scheduler picks the interleavings) so that a schedule the
// engine found has a chance to show up.
func NativeRounds(n int) int { return n }

// NativeInt returns engine under the engine and native in the native replay
// (e.g. more goroutines natively to widen a race window).
func NativeInt(engine, native int) int { return native }
