//go:build verif

package bufwriter

import (
	"bufio"
	"errors"

	"github.com/brimdata/super/internal/verif"
)

var v18ErrSink = errors.New("verif: sink failure")

// v18Sink is the model io.WriteCloser: its failAt-th Write misbehaves (0 =
// never): mode 0 returns (0, err), mode 1 writes half and returns an error,
// mode 2 writes half and returns NO error (a short write that only the count
// reveals).  Sticky sinks keep misbehaving afterwards.  Close may fail too.
type v18Sink struct {
	failAt    int
	sticky    bool
	mode      int
	closeFail bool
	calls     int
	failed    bool // misbehaved in any way
	errored   bool // returned a non-nil error
	data      []byte
	closed    bool
}

func (s *v18Sink) Write(p []byte) (int, error) {
	s.calls++
	if s.failAt > 0 && (s.calls == s.failAt || (s.sticky && s.calls > s.failAt)) {
		if len(p) == 0 && s.mode == 2 {
			return 0, nil
		}
		s.failed = true
		switch s.mode {
		case 0:
			s.errored = true
			return 0, v18ErrSink
		case 1:
			s.errored = true
			s.data = append(s.data, p[:len(p)/2]...)
			return len(p) / 2, v18ErrSink
		default:
			s.data = append(s.data, p[:len(p)/2]...)
			return len(p) / 2, nil
		}
	}
	s.data = append(s.data, p...)
	return len(p), nil
}

func (s *v18Sink) Close() error {
	s.closed = true
	if s.closeFail {
		s.failed, s.errored = true, true
		return v18ErrSink
	}
	return nil
}

// verif:desc C18-O2 bufwriter.Writer (Close = bufio Flush, then closer.Close) over the real bufio.Writer: if every Write and Close of the bufwriter returned nil then no Write/Close of the sink returned an error (in particular a flush error in Close is not masked by a nil closer error), the sink received exactly the bytes written, in order (a short write without error must have been completed by a later call), and was closed; if the sink never misbehaves every call returns nil.
// verif:bounds 1..3 writes of length in {0,3,8,20} over a buffer of 8 bytes (struct literal) or 4096 bytes (New); sink misbehaves at write call k in 0..6 (0=never; symbolic), one-shot or sticky, mode in {error, short+error, short without error}; Close may fail
// verif:outside Write after Close; concurrent use
func VerifH_C18_O2_bufwriter() {
	sink := &v18Sink{
		failAt:    verif.Range("failAt", 0, 6),
		sticky:    verif.Bool("sticky"),
		mode:      verif.Choose("mode", 3),
		closeFail: verif.Bool("closeFail"),
	}
	var w *Writer
	if verif.Choose("ctor", 2) == 0 {
		w = &Writer{closer: sink, Writer: bufio.NewWriterSize(sink, 8)}
	} else {
		w = New(sink)
	}
	n := verif.Choose("nwrites", 3) + 1
	lens := []int{0, 3, 8, 20}
	var want []byte
	anyErr := false
	next := byte(1)
	for i := 0; i < n; i++ {
		p := make([]byte, lens[verif.Choose("len", len(lens))])
		for j := range p {
			p[j] = next
			next++
		}
		want = append(want, p...)
		if _, err := w.Write(p); err != nil {
			anyErr = true
		}
	}
	if err := w.Close(); err != nil {
		anyErr = true
	}
	same := len(sink.data) == len(want)
	for i := 0; same && i < len(want); i++ {
		same = sink.data[i] == want[i]
	}
	if !anyErr {
		// success was reported: no sink call may have returned an error, and
		// every byte must have arrived (a short write without error is only
		// acceptable if the remainder was delivered by a later call)
		verif.Assert(!sink.errored, "sink-failure-reported")
		verif.Assert(same, "all-bytes-delivered")
		verif.Assert(sink.closed, "sink-closed")
	}
	if sink.failed {
		verif.Reach("failed")
	} else {
		verif.Assert(!anyErr, "no-spurious-error")
		verif.Reach("clean")
	}
}
