//go:build verif

package peeker

import (
	"io"

	"github.com/brimdata/super/internal/verif"
)

// v01Src is the model source: a fixed stream handed out in chunks; the chunk
// sizes cycle through pattern.  With eofWithData the last chunk is returned
// together with io.EOF (both behaviours are allowed by io.Reader).
type v01Src struct {
	data        []byte
	pos         int
	pattern     []int
	calls       int
	eofWithData bool
}

func (s *v01Src) Read(p []byte) (int, error) {
	if s.pos >= len(s.data) {
		return 0, io.EOF
	}
	n := s.pattern[s.calls%len(s.pattern)]
	s.calls++
	if rem := len(s.data) - s.pos; n > rem {
		n = rem
	}
	if n > len(p) {
		n = len(p)
	}
	copy(p, s.data[s.pos:s.pos+n])
	s.pos += n
	if s.eofWithData && s.pos == len(s.data) {
		return n, io.EOF
	}
	return n, nil
}

func v01Window(got, stream []byte, pos int) bool {
	if pos+len(got) > len(stream) {
		return false
	}
	for i := range got {
		if got[i] != stream[pos+i] {
			return false
		}
	}
	return true
}

var v01Patterns = [][]int{{1}, {3, 1}, {1 << 20}}

func v01Peeker(nops int, streamLens, ns []int) {
	N := streamLens[verif.Choose("streamlen", len(streamLens))]
	stream := verif.BytesN("stream", N)
	size := []int{1, 4}[verif.Choose("size", 2)]
	limit := []int{size, 8}[verif.Choose("limit", 2)]
	src := &v01Src{
		data:        append([]byte{}, stream...),
		pattern:     v01Patterns[verif.Choose("pattern", len(v01Patterns))],
		eofWithData: verif.Choose("eofWithData", 2) == 1,
	}
	r := NewReader(src, size, limit)
	pos := 0 // bytes consumed so far
	for op := 0; op < nops; op++ {
		kind := verif.Choose("op", 3)
		n := 1
		if kind != 2 {
			n = ns[verif.Choose("n", len(ns))]
		}
		// enough data and within the limit: the call must succeed
		expectOK := n > 0 && n <= limit && pos+n <= N
		var b []byte
		var err error
		switch kind {
		case 0:
			b, err = r.Peek(n)
		case 1:
			b, err = r.Read(n)
		case 2:
			var c byte
			c, err = r.ReadByte()
			if err == nil {
				b = []byte{c}
			}
		}
		switch err {
		case nil:
			verif.Assert(len(b) == n, "returned-length")
			verif.Assert(v01Window(b, stream, pos), "window-equals-stream")
			if kind != 0 {
				pos += n
			}
		case io.EOF:
			verif.Assert(pos == N, "eof-only-at-end")
			verif.Reach("eof")
		case ErrTruncated:
			verif.Assert(pos+n > N, "truncated-only-when-short")
			if kind == 0 {
				verif.Assert(len(b) == N-pos && v01Window(b, stream, pos), "truncated-remainder")
			}
			verif.Reach("truncated")
		case ErrBufferOverflow:
			verif.Assert(n > limit, "overflow-only-beyond-limit")
			verif.Reach("overflow")
		default:
			verif.Assert(false, "unexpected-error")
		}
		if expectOK {
			verif.Assert(err == nil, "no-spurious-error")
		}
	}
	verif.Observe("pos", pos)
	verif.Reach("end")
}

// verif:desc C01-O5 peeker.Reader (Peek/Read/ReadByte/fill) over a source that returns arbitrary chunkings: every slice returned without error has the requested length and equals the window of the underlying stream at the current position; io.EOF only when everything was consumed, ErrTruncated only when fewer than n bytes remain (Peek then returns exactly the remainder), ErrBufferOverflow only for n > limit, no other error; a request within the limit for which the stream has enough bytes succeeds.
// verif:bounds stream of 0,3 or 7 symbolic bytes; initial buffer size in {1,4}; limit in {size,8}; source chunking in {1 byte, 3/1 alternating, unlimited}, last chunk with or without io.EOF; 3 calls from {Peek(n),Read(n),ReadByte} with n in {0,1,3,6}
// verif:outside sources returning (0,nil); longer call sequences; Reset
// verif:unwind 32
func VerifH_C01_O5_peeker() {
	v01Peeker(3, []int{0, 3, 7}, []int{0, 1, 3, 6})
}

// verif:desc C01-O5t as O5 with more stream lengths / request sizes
// verif:bounds stream of 0,3,7 or 12 symbolic bytes; 3 calls with n in {0,1,3,6,9}; rest as O5
// verif:outside as O5
// verif:tier thorough
// verif:unwind 32
func VerifH_C01_O5t_peeker3() {
	v01Peeker(3, []int{0, 3, 7, 12}, []int{0, 1, 3, 6, 9})
}
