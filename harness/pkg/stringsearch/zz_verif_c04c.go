//go:build verif

package stringsearch

import (
	"github.com/brimdata/super/internal/verif"
)

// vSpecLower is the ASCII specification of case folding, written from the
// ASCII table (not from the code under test): exactly the 26 bytes 'A'..'Z'
// map to 'a'..'z', every other byte value (including '@' = 'A'-1, '[' =
// 'Z'+1, '`' = 'a'-1, '{' = 'z'+1 and every byte >= 0x80) maps to itself.
func vSpecLower(c byte) byte {
	return byte(vIte(vAnd(c >= 0x41, c <= 0x5a), int(c)+0x20, int(c)))
}

// vSpecFoldIndex: index of the first window of text that equals pattern up to
// ASCII case, or -1.
func vSpecFoldIndex(text, pattern string) int {
	want := -1
	for i := len(text) - len(pattern); i >= 0; i-- {
		eq := true
		for j := 0; j < len(pattern); j++ {
			eq = vAnd(eq, vSpecLower(text[i+j]) == vSpecLower(pattern[j]))
		}
		want = vIte(eq, i, want)
	}
	return want
}

// verif:desc C04-O2d case folding of pkg/stringsearch at the letter boundaries: (1) stringsearch.tolower(b) equals the ASCII specification (only 'A'..'Z' change, by +0x20) for every byte value b; (2) for an ASCII pattern of 1..2 bytes, NewCaseFinder(pattern) (real strings.ToLower + NewFinder tables) applied with CaseFinder.Next to a text of 2 arbitrary bytes finds a window exactly when some window equals the pattern up to ASCII case (never misses one: the direction the buffer filter needs; id casefinder-misses-fold-equal-window) and returns the index of the first such window (documented contract of Next; id casefinder-index).
// verif:bounds b: all 256 byte values; pattern: 1..2 bytes, each any value < 0x80 (incl. '@','A','Z','[','`','a','z','{'); text: 2 bytes, any of 256 values each
// verif:outside non-ASCII patterns (refused by expr.NewBufferFilterForStringCase, C04-O2c); longer patterns/texts (C04-O2b, C04-O1)
// verif:unwind 32
// verif:solver z3-new
func VerifH_C04_O2d_casefold_boundaries() {
	b := verif.Byte("b")
	if verif.Choose("part", 2) == 0 {
		vTolowerVsSpec(b)
		return
	}
	pn := 1 + verif.Choose("plen", 2)
	pattern := verif.StringN("pattern", pn)
	for i := 0; i < pn; i++ {
		verif.Assume(pattern[i] < 0x80)
	}
	text := string([]byte{b, verif.Byte("t1")})
	f := NewCaseFinder(pattern)
	// the constructor folded the pattern as the specification says
	verif.Assert(len(f.pattern) == pn, "pattern-length-changed")
	if len(f.pattern) == pn {
		for i := 0; i < pn; i++ {
			verif.Assert(f.pattern[i] == vSpecLower(pattern[i]), "pattern-fold-differs-from-ascii-spec")
		}
	}
	idx := f.Next(text)
	want := vSpecFoldIndex(text, pattern)
	verif.Assert(want < 0 || idx >= 0, "casefinder-misses-fold-equal-window")
	verif.Assert(idx == want, "casefinder-index")
	if idx >= 0 {
		verif.Reach("found")
	} else {
		verif.Reach("absent")
	}
	verif.Reach("end")
}

func vTolowerVsSpec(b byte) {
	got := tolower(b)
	verif.Assert(got == vSpecLower(b), "tolower-differs-from-ascii-spec")
	// fold is idempotent and never produces an upper-case letter
	verif.Assert(tolower(got) == got, "tolower-not-idempotent")
	// vacuity witnesses at the eight boundaries
	switch b {
	case 'A' - 1:
		verif.Reach("below-A")
	case 'A':
		verif.Reach("A")
	case 'Z':
		verif.Reach("Z")
	case 'Z' + 1:
		verif.Reach("above-Z")
	case 'a' - 1:
		verif.Reach("below-a")
	case 'a':
		verif.Reach("a")
	case 'z':
		verif.Reach("z")
	case 'z' + 1:
		verif.Reach("above-z")
	}
	verif.Reach("end")
}
