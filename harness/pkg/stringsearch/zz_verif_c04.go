//go:build verif

package stringsearch

import (
	"github.com/brimdata/super/internal/verif"
)

// Non-forking specification helpers (gosym maps them to single terms, see
// engine/gosym/intrinsics_c04.go; natively these bodies run).
func vIte(c bool, a, b int) int {
	if c {
		return a
	}
	return b
}
func vAnd(a, b bool) bool { return a && b }

// vNaive is the specification: index of the first window of text equal to
// pattern, or -1 (a naive window scan, written without branches on the data).
func vNaive(text, pattern string) int {
	want := -1
	for i := len(text) - len(pattern); i >= 0; i-- {
		eq := true
		for j := 0; j < len(pattern); j++ {
			eq = vAnd(eq, text[i+j] == pattern[j])
		}
		want = vIte(eq, i, want)
	}
	return want
}

func vFinderVsNaive(plo, phi, tmax int) {
	pn := plo + verif.Choose("plen", phi-plo+1)
	pattern := verif.StringN("pattern", pn)
	text := verif.String("text", tmax)
	f := NewFinder(pattern)
	got := f.Next(text)
	want := vNaive(text, pattern)
	// the direction the buffer filter relies on: an occurrence is never missed
	verif.Assert(want < 0 || got >= 0, "finder-misses-occurrence")
	verif.Assert(want >= 0 || got == -1, "finder-reports-absent-pattern")
	verif.Assert(got == want, "finder-first-occurrence")
	if got >= 0 {
		verif.Reach("found")
	} else {
		verif.Reach("absent")
	}
	verif.Reach("end")
}

// verif:desc C04-O1 Boyer-Moore is complete: stringsearch.NewFinder(pattern).Next(text) (bad-character and good-suffix tables built by the real constructor over the symbolic pattern) returns exactly the index of the first occurrence found by a naive window scan, and -1 iff there is none.
// verif:bounds pattern length 2..3, text length 0..7, all bytes symbolic (any of 256 values)
// verif:outside longer patterns/texts (see the thorough harness); CaseFinder (C04-O2)
// verif:unwind 32
// verif:solver z3-new
func VerifH_C04_O1_finder() {
	vFinderVsNaive(2, 3, 7)
}

// verif:desc C04-O1 (thorough bound) as VerifH_C04_O1_finder with pattern length 1..4 and text length 0..8
// verif:bounds pattern length 1..4, text length 0..8, all bytes symbolic
// verif:tier thorough
// verif:unwind 40
// verif:solver z3-new
func VerifH_C04_O1_finder_thorough() {
	vFinderVsNaive(1, 4, 8)
}
