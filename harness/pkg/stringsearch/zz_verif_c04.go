//go:build verif

package stringsearch

import (
	"github.com/brimdata/super/internal/verif"
)

// vNaive is the specification: index of the first window of text equal to
// pattern, or -1.
func vNaive(text, pattern string) int {
	for i := 0; i+len(pattern) <= len(text); i++ {
		eq := true
		for j := 0; j < len(pattern); j++ {
			// no short circuit: one term, no fork per byte
			eq = eq && text[i+j] == pattern[j]
		}
		if eq {
			return i
		}
	}
	return -1
}

func vFinderVsNaive(plo, phi, tmax int) {
	pn := plo + verif.Choose("plen", phi-plo+1)
	pattern := verif.StringN("pattern", pn)
	text := verif.String("text", tmax)
	f := NewFinder(pattern)
	got := f.Next(text)
	want := vNaive(text, pattern)
	if want >= 0 {
		// the direction the buffer filter relies on: an occurrence is never missed
		verif.Assert(got >= 0, "finder-misses-occurrence")
		verif.Reach("found")
	} else {
		verif.Assert(got == -1, "finder-reports-absent-pattern")
		verif.Reach("absent")
	}
	verif.Assert(got == want, "finder-first-occurrence")
	verif.Reach("end")
}

// verif:desc C04-O1 Boyer-Moore is complete: stringsearch.NewFinder(pattern).Next(text) (bad-character and good-suffix tables built by the real constructor over the symbolic pattern) returns exactly the index of the first occurrence found by a naive window scan, and -1 iff there is none.
// verif:bounds pattern length 2..3, text length 0..6, all bytes symbolic (any of 256 values)
// verif:outside longer patterns/texts (see the thorough harness); CaseFinder (C04-O2)
// verif:unwind 32
func VerifH_C04_O1_finder() {
	vFinderVsNaive(2, 3, 6)
}

// verif:desc C04-O1 (thorough bound) as VerifH_C04_O1_finder with pattern length 1..4 and text length 0..8
// verif:bounds pattern length 1..4, text length 0..8, all bytes symbolic
// verif:tier thorough
// verif:unwind 40
func VerifH_C04_O1_finder_thorough() {
	vFinderVsNaive(1, 4, 8)
}
