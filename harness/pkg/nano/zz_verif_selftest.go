//go:build verif

package nano

import (
	"sync"

	"github.com/brimdata/super/internal/verif"
)

// verif:desc engine self-test (property id C00 is not a property: this harness is never registered): cooperative goroutines — an unbuffered producer/consumer pipeline, a WaitGroup fork-join, a mutex-protected counter and a select with a done channel behave like Go.
// verif:bounds 3 symbolic bytes
func VerifH_C00_goroutines_selftest() {
	verif.Goroutines(true)
	a, b, c := verif.Byte("a"), verif.Byte("b"), verif.Byte("c")
	ch := make(chan int)
	done := make(chan struct{})
	go func() {
		for _, x := range []byte{a, b, c} {
			if x > 100 { // a symbolic branch inside a goroutine
				ch <- int(x) - 100
			} else {
				ch <- int(x)
			}
		}
		close(ch)
	}()
	sum, n := 0, 0
	for v := range ch {
		sum += v
		n++
	}
	verif.Assert(n == 3, "received-all")
	want := 0
	for _, x := range []byte{a, b, c} {
		if x > 100 {
			want += int(x) - 100
		} else {
			want += int(x)
		}
	}
	verif.Assert(sum == want, "sum")

	var wg sync.WaitGroup
	var mu sync.Mutex
	total := 0
	for i := 0; i < 3; i++ {
		wg.Add(1)
		go func(i int) {
			defer wg.Done()
			mu.Lock()
			total += i + int(a)
			mu.Unlock()
		}(i)
	}
	wg.Wait()
	verif.Assert(total == 3+3*int(a), "forkjoin-total")

	res := make(chan int, 1)
	go func() {
		select {
		case <-done:
			res <- 1
		case v := <-ch: // closed: ready immediately with zero
			res <- 2 + v
		}
	}()
	verif.Assert(<-res == 2, "select-closed-chan-ready")
	close(done)
	verif.Reach("end")
}
