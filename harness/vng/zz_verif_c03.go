//go:build verif

package vng

import (
	"bytes"

	"github.com/brimdata/super"
	"github.com/brimdata/super/internal/verif"
	"github.com/brimdata/super/zcode"
	"golang.org/x/sync/errgroup"
)

// vSame: same nullness, same length, same bytes (branch-free over the contents).
func vSame(a, b zcode.Bytes) bool {
	if (a == nil) != (b == nil) || len(a) != len(b) {
		return false
	}
	var diff byte
	for i := range a {
		diff |= a[i] ^ b[i]
	}
	return diff == 0
}

// vEncode runs the writer half of the stack on one column: NewEncoder(typ),
// Write×n, Encode (errgroup fork-join), Metadata(0), Emit into memory.  It is
// what DynamicEncoder.Encode/Emit do for a single type, minus the reflection
// marshalling of the metadata (the Metadata tree is handed over as Go structs).
func vEncode(e Encoder, bodies []zcode.Bytes) (Metadata, []byte) {
	for _, b := range bodies {
		e.Write(b)
	}
	var g errgroup.Group
	e.Encode(&g)
	verif.Assert(g.Wait() == nil, "encode-ok")
	off, meta := e.Metadata(0)
	var buf bytes.Buffer
	verif.Assert(e.Emit(&buf) == nil, "emit-ok")
	// segment bookkeeping: the offsets handed out by Metadata tile the bytes Emit wrote
	verif.Assert(off == uint64(buf.Len()), "offsets-tile-data-section")
	return meta, buf.Bytes()
}

// vDecodeCheck reads n values back with the row reader (NewBuilder/Build, as
// vectorBuilder.Read does) and asserts they equal bodies in order.
func vDecodeCheck(meta Metadata, data []byte, bodies []zcode.Bytes, id string) {
	verif.Assert(meta.Len() == uint32(len(bodies)), id+"/len")
	bld, err := NewBuilder(meta, bytes.NewReader(data))
	verif.Assert(err == nil, id+"/builder")
	if err != nil {
		return
	}
	b := zcode.NewBuilder()
	for i := range bodies {
		b.Truncate()
		err := bld.Build(b)
		verif.Assert(err == nil, id+"/build-ok")
		if err != nil {
			return
		}
		verif.Assert(vSame(b.Bytes().Body(), bodies[i]), id+"/value")
	}
}

// vLeaf: a possibly-null leaf body of 0..max symbolic bytes (max<0: exactly -max bytes).
func vLeaf(name string, max int, nullable bool) zcode.Bytes {
	if nullable && verif.Bool(name+".null") {
		return nil
	}
	var b []byte
	if max < 0 {
		b = verif.BytesN(name, -max)
	} else {
		b = verif.Bytes(name, max)
	}
	if b == nil {
		b = []byte{}
	}
	return b
}

// verif:desc C03-O1 null run-lengths, row reader: NullsEncoder.{Write,touchValue,touchNull,Encode,Metadata,Emit} (over the real PrimitiveEncoder/Int64Encoder) feeding NewBuilder + NullsBuilder.Build: for EVERY null pattern the decoded sequence equals the input (nulls at the same positions, values in order); no Nulls node in the metadata iff the column has no null; Nulls.Count = number of nulls; reading past the end is an error, not a value.
// verif:bounds column type string, every null/value pattern of length 0..6 (quick) / 0..9 (thorough); the value at position i is the concrete byte 'a'+i (distinct per position, so order and count are observable)
// verif:outside columns longer than the bound (see O2 for the step); compressed run segments (LZ4 contract stub: incompressible)
func VerifH_C03_O1_nulls_roundtrip() {
	max := 6
	if verif.Thorough() {
		max = 9
	}
	n := verif.Choose("n", max+1)
	bodies := make([]zcode.Bytes, n)
	nulls := 0
	for i := range bodies {
		if verif.Bool("null") {
			nulls++
		} else {
			bodies[i] = []byte{'a' + byte(i)}
		}
	}
	// no dictionary: keeps the values column on the plain path whatever the bytes
	e := NewNullsEncoder(NewPrimitiveEncoder(zed.TypeString, false))
	meta, data := vEncode(e, bodies)
	nm, isNulls := meta.(*Nulls)
	verif.Assert(isNulls == (nulls != 0), "nulls-node-iff-nulls")
	if isNulls {
		verif.Assert(nm.Count == uint32(nulls), "null-count")
		verif.Reach("with-nulls")
	}
	vDecodeCheck(meta, data, bodies, "roundtrip")
	if n > 0 && isNulls {
		// one more Build: the runs are exhausted, so this must be an error
		bld, _ := NewBuilder(meta, bytes.NewReader(data))
		b := zcode.NewBuilder()
		for i := 0; i < n; i++ {
			bld.Build(b)
		}
		verif.Assert(bld.Build(b) != nil, "no-value-past-the-end")
	}
	verif.Reach("end")
}

// verif:desc C03-O4 const column: a column in which every value has the same bytes is emitted as a Const (PrimitiveEncoder.update/Const/Metadata) taking no data bytes, and ConstBuilder.Build gives back exactly n copies; the empty value stays empty (not null); with a null mixed in the nulls wrap the const.
// verif:bounds type string; one symbolic value of 0..2 bytes written n=1..3 times, optionally one null at a symbolic position
// verif:outside types without dictionary (uint8/int8/bool take the plain path, see O7)
func VerifH_C03_O4_const_column() {
	v := vLeaf("v", 2, false)
	n := 1 + verif.Choose("n", 3)
	var bodies []zcode.Bytes
	nullAt := -1
	if verif.Bool("withnull") {
		nullAt = verif.Choose("nullAt", n+1)
	}
	for i := 0; i < n; i++ {
		if i == nullAt {
			bodies = append(bodies, nil)
		}
		bodies = append(bodies, bytes.Clone(v))
	}
	if nullAt == n {
		bodies = append(bodies, nil)
	}
	meta, data := vEncode(NewEncoder(zed.TypeString), bodies)
	inner := meta
	if nm, ok := meta.(*Nulls); ok {
		verif.Assert(nullAt >= 0, "nulls-node-without-null")
		inner = nm.Values
	} else {
		verif.Assert(nullAt < 0, "null-lost")
	}
	c, ok := inner.(*Const)
	verif.Assert(ok, "const-chosen")
	if ok {
		verif.Assert(c.Count == uint32(n), "const-count")
		verif.Assert(vSame(c.Value.Bytes(), v), "const-value")
		verif.Assert(len(data) == 0 || nullAt >= 0, "const-takes-no-data")
	}
	vDecodeCheck(meta, data, bodies, "roundtrip")
	verif.Reach("end")
}

// verif:desc C03-O5 header: Deserialize(Serialize(h)) == h for every header, and Serialize(Deserialize(b)) == b for every 24-byte string that Deserialize accepts (bytes 4..23 carry the three fields, nothing else is accepted).
// verif:bounds all Version/MetaSize/DataSize values; all 24-byte strings
// verif:outside ReadHeader's short-read handling
func VerifH_C03_O5_header_roundtrip() {
	if verif.Bool("from-bytes") {
		b := verif.BytesN("hdr", HeaderSize)
		var h Header
		if h.Deserialize(b) != nil {
			verif.Reach("rejected")
			return
		}
		verif.Assert(vSame(h.Serialize(), b), "serialize-inverts-deserialize")
		verif.Reach("accepted")
		return
	}
	h := Header{Version: verif.Uint32("version"), MetaSize: verif.Uint64("meta"), DataSize: verif.Uint64("data")}
	b := h.Serialize()
	verif.Assert(len(b) == HeaderSize, "size")
	var g Header
	err := g.Deserialize(b)
	valid := h.Version == Version && h.MetaSize <= MaxMetaSize && h.DataSize <= MaxDataSize
	if valid {
		verif.Assert(err == nil, "valid-header-accepted")
		verif.Reach("valid")
	}
	if err == nil {
		verif.Assert(g == h, "deserialize-inverts-serialize")
	}
	verif.Reach("end")
}

// verif:desc C03-O6 top-level tags: DynamicEncoder.Write/Encode/Emit and NewZedReader (dynamicBuilder.Read or, for a single type, vectorBuilder.Read) preserve the interleaving order of values of different types: the i-th value read has the type and bytes of the i-th value written; then end of stream.
// verif:bounds sequences of 1..4 values, each of type int64 or string or (third type) bool chosen symbolically per position (every pattern), no nulls; values either all equal (const columns) or distinct per position (dictionary columns), chosen symbolically
// verif:outside metadata marshalling (Writer.finalize), more than 3 top-level types
// verif:unwind 24
func VerifH_C03_O6_dynamic_order() {
	n := 1 + verif.Choose("n", 4)
	types := []zed.Type{zed.TypeInt64, zed.TypeString, zed.TypeBool}
	which := make([]int, n)
	vals := make([]zed.Value, n)
	distinct := verif.Bool("distinct")
	for i := 0; i < n; i++ {
		which[i] = verif.Choose("type", 3)
		v := byte(1)
		if distinct {
			v += byte(i)
		}
		vals[i] = zed.NewValue(types[which[i]], []byte{v})
	}
	d := NewDynamicEncoder()
	for _, v := range vals {
		verif.Assert(d.Write(v) == nil, "write-ok")
	}
	meta, size, err := d.Encode()
	verif.Assert(err == nil, "encode-ok")
	var buf bytes.Buffer
	verif.Assert(d.Emit(&buf) == nil, "emit-ok")
	verif.Assert(size == uint64(buf.Len()), "datasize-is-emitted-size")
	verif.Assert(meta.Len() == uint32(n), "length")
	r, err := NewZedReader(zed.NewContext(), meta, bytes.NewReader(buf.Bytes()))
	verif.Assert(err == nil, "reader-ok")
	if err != nil {
		return
	}
	if _, ok := meta.(*Dynamic); ok {
		verif.Reach("dynamic")
	} else {
		verif.Reach("single-type")
	}
	for i := 0; i < n; i++ {
		got, err := r.Read()
		verif.Assert(err == nil && got != nil, "read-ok")
		if err != nil || got == nil {
			return
		}
		verif.Assert(got.Type() == types[which[i]], "order/type")
		verif.Assert(vSame(got.Bytes(), vals[i].Bytes()), "order/value")
	}
	got, err := r.Read()
	verif.Assert(got == nil && err == nil, "eos")
	verif.Reach("end")
}

// vRunsWritten decodes the run lengths handed to the runs encoder so far.
func vRunsWritten(n *NullsEncoder) []int64 {
	var out []int64
	for it := n.runs.bytes.Iter(); !it.Done(); {
		out = append(out, zed.DecodeInt(it.Next()))
	}
	return out
}

// verif:desc C03-O2 inductive step of the null run-length encoder, any column length: (base) NewNullsEncoder establishes the state (run=0, values-polarity, count=0, no runs); (step) from ANY state with a current run of r elements of either polarity and c nulls so far, one touchValue/touchNull keeps the invariant (current run >= 1 and of the polarity of the element just written; a run is handed to the run list only when the polarity flips, it is the old current run, and only the very first one may be 0), extends the total length (written runs + current run) by exactly one and the null count by exactly the nulls written; (final) Encode appends the current run iff there are nulls, so the run list sums to the column length.
// verif:bounds r any int64 in 0..2^62, polarity any, count any uint32 < 2^32-1; one step
// verif:outside the decoder side (O1 covers it up to the pattern bound); run lengths >= 2^62
func VerifH_C03_O2_nulls_step() {
	n := NewNullsEncoder(NewPrimitiveEncoder(zed.TypeString, false))
	verif.Assert(n.run == 0 && !n.null && n.count == 0 && len(vRunsWritten(n)) == 0, "base/initial-state")
	r := verif.Int64("run")
	null := verif.Bool("null")
	c := verif.Uint32("count")
	verif.Assume(r >= 0 && r <= 1<<62 && c < 1<<32-1)
	// invariant of reachable states: an empty current run exists only before the first element
	first := r == 0
	if first {
		verif.Assume(!null && c == 0)
	} else if null {
		verif.Assume(c >= 1)
	}
	n.run, n.null, n.count = r, null, c
	elemNull := verif.Bool("elemNull")
	if elemNull {
		n.Write(nil)
	} else {
		n.Write([]byte{'x'})
	}
	written := vRunsWritten(n)
	verif.Assert(n.run >= 1, "step/current-run-nonempty")
	verif.Assert(n.null == elemNull, "step/polarity-of-current-run")
	var sum int64
	for _, w := range written {
		sum += w
	}
	verif.Assert(sum+n.run == r+1, "step/length-extended-by-one")
	if elemNull == null {
		verif.Assert(len(written) == 0, "step/no-run-written-without-flip")
	} else {
		verif.Assert(len(written) == 1 && written[0] == r, "step/old-run-written-on-flip")
		verif.Assert(r > 0 || first, "step/only-first-run-may-be-zero")
	}
	want := c
	if elemNull {
		want++
	}
	verif.Assert(n.count == want, "step/null-count")
	verif.Assert(n.values.(*PrimitiveEncoder).count == map[bool]uint32{true: 0, false: 1}[elemNull], "step/value-forwarded-iff-not-null")
	// finalisation: Encode hands over the current run iff the column has nulls
	var g errgroup.Group
	n.Encode(&g)
	verif.Assert(g.Wait() == nil, "final/encode-ok")
	var final []int64
	for it := zcode.Bytes(n.runs.out).Iter(); !it.Done(); {
		final = append(final, zed.DecodeInt(it.Next()))
	}
	if n.count == 0 {
		verif.Assert(len(final) == 0, "final/no-runs-without-nulls")
		verif.Reach("no-nulls")
	} else {
		verif.Assert(len(final) == len(written)+1 && final[len(final)-1] == n.run, "final/current-run-appended")
		verif.Reach("nulls")
	}
	verif.Reach("end")
}

// verif:desc C03-O3 dictionary boundary at MaxDictSize=256: PrimitiveEncoder (type string, dictionary enabled) pre-loaded with K distinct values, K in {255,256,257}, then ONE more Write of a symbolic value that is either one of the existing entries or new; Encode (makeDictVector/makeDict/sortDict), Metadata and the row reader (DictBuilder.ReadBytes when a dictionary was emitted, PrimitiveBuilder otherwise) give back all K+1 values in order - with 255+new=256 entries (selector 255 in use), 256+existing (dictionary kept) 256+new=257 (dictionary abandoned, plain vector) and 257+any (already abandoned).
// verif:bounds pre-state concrete: values {i mod 256, 1 + i div 256} for i<K; the extra value {x,y} with x in {0,1,254,255}, y in {1,2} symbolic (so: equal to the first/second/last entries, or new)
// verif:outside other primitive types; nulls in a dictionary column (stripped by NullsEncoder before they reach the dictionary)
// verif:unwind 600
func VerifH_C03_O3_dict_boundary() {
	k := []int{255, 256, 257}[verif.Choose("k", 3)]
	var bodies []zcode.Bytes
	for i := 0; i < k; i++ {
		bodies = append(bodies, []byte{byte(i), 1 + byte(i>>8)})
	}
	x, y := verif.Byte("x"), verif.Byte("y")
	verif.Assume(x < 2 || x >= 254)
	verif.Assume(y == 1 || y == 2)
	bodies = append(bodies, []byte{x, y})
	e := NewPrimitiveEncoder(zed.TypeString, true)
	meta, data := vEncode(e, bodies)
	p, ok := meta.(*Primitive)
	verif.Assert(ok, "primitive-metadata")
	if !ok {
		return
	}
	verif.Assert(len(p.Dict) <= MaxDictSize, "dict-within-selector-range")
	switch {
	case len(p.Dict) == MaxDictSize:
		verif.Reach("dict-256")
	case len(p.Dict) > 0:
		verif.Reach("dict-255")
	default:
		verif.Reach("dict-abandoned")
	}
	vDecodeCheck(meta, data, bodies, "roundtrip")
	verif.Reach("end")
}

// vGen appends one value of type typ to b: every container / leaf may be null
// (when nullable), arrays and sets have 0..2 elements, maps 0..1 entries, a
// union value carries any of its tags, leaves are 0..leafMax symbolic bytes.
func vGen(b *zcode.Builder, typ zed.Type, name string, nullable bool, leafMax int) {
	switch typ := typ.(type) {
	case *zed.TypeNamed:
		vGen(b, typ.Type, name, nullable, leafMax)
		return
	case *zed.TypeError:
		vGen(b, typ.Type, name, nullable, leafMax)
		return
	case *zed.TypeRecord, *zed.TypeArray, *zed.TypeSet, *zed.TypeMap, *zed.TypeUnion:
		if nullable && verif.Bool(name+".null") {
			b.Append(nil)
			return
		}
	default:
		leaf := vLeaf(name, leafMax, nullable)
		if id := typ.ID(); zed.IsInteger(id) && len(leaf) > 0 {
			// integers have one spelling: the counted varint drops trailing zero
			// bytes (0 is the empty body).  Every writer produces it; a value with a
			// padded spelling is a different byte string denoting the same number,
			// and the dictionary (keyed by bytes, ordered by value) may
			// legitimately return either.
			verif.Assume(leaf[len(leaf)-1] != 0)
		}
		b.Append(leaf)
		return
	}
	b.BeginContainer()
	switch typ := typ.(type) {
	case *zed.TypeRecord:
		for _, f := range typ.Fields {
			vGen(b, f.Type, name+"."+f.Name, true, leafMax)
		}
	case *zed.TypeArray:
		for i, n := 0, verif.Choose(name+".len", 3); i < n; i++ {
			vGen(b, typ.Type, name+".e", true, leafMax)
		}
	case *zed.TypeSet:
		for i, n := 0, verif.Choose(name+".len", 3); i < n; i++ {
			vGen(b, typ.Type, name+".e", true, leafMax)
		}
	case *zed.TypeMap:
		for i, n := 0, verif.Choose(name+".len", 2); i < n; i++ {
			vGen(b, typ.KeyType, name+".k", false, leafMax)
			vGen(b, typ.ValType, name+".v", true, leafMax)
		}
	case *zed.TypeUnion:
		tag := verif.Choose(name+".tag", len(typ.Types))
		b.Append(zed.EncodeInt(int64(tag)))
		// zed.BuildUnion spells a union whose inner value is null as a null union
		vGen(b, typ.Types[tag], name+".u", false, leafMax)
	}
	b.EndContainer()
}

// vRegions marks which encodings the metadata tree uses (vacuity witnesses).
func vRegions(m Metadata) {
	switch m := m.(type) {
	case *Nulls:
		verif.Reach("enc/nulls")
		vRegions(m.Values)
	case *Const:
		verif.Reach("enc/const")
	case *Primitive:
		if len(m.Dict) > 0 {
			verif.Reach("enc/dict")
		} else {
			verif.Reach("enc/plain")
		}
	case *Record:
		for _, f := range m.Fields {
			vRegions(f.Values)
		}
	case *Array:
		vRegions(m.Values)
	case *Set:
		vRegions(m.Values)
	case *Map:
		vRegions(m.Keys)
		vRegions(m.Values)
	case *Union:
		for _, v := range m.Values {
			vRegions(v)
		}
	case *Named:
		vRegions(m.Values)
	case *Error:
		vRegions(m.Values)
	}
}

// vStack is C03-O7: n symbolic values of type typ through the whole in-memory
// stack NewEncoder/Write/Encode/Metadata/Emit -> NewBuilder/Build.
func vStack(typ zed.Type, n, leafMax int) {
	bodies := make([]zcode.Bytes, n)
	for i := range bodies {
		b := zcode.NewBuilder()
		vGen(b, typ, "v", true, leafMax)
		bodies[i] = b.Bytes().Body()
	}
	meta, data := vEncode(NewEncoder(typ), bodies)
	verif.Assert(meta.Type(zed.NewContext()) != nil, "metadata-has-type")
	vRegions(meta)
	vDecodeCheck(meta, data, bodies, "roundtrip")
	verif.Reach("end")
}

// vNLeaf: quick = 2 values with leaves of 0..quickLeaf bytes; thorough adds
// 3 values with leaves of exactly 1 byte (or null).
func vNLeaf(quickLeaf int) (int, int) {
	if verif.Thorough() && verif.Choose("deep", 2) == 1 {
		return 3, -1
	}
	return 2, quickLeaf
}

func vN() int {
	if verif.Thorough() {
		return 3
	}
	return 2
}

// verif:desc C03-O7 encoder->builder stack in memory, primitive columns: NewEncoder(T), Write x n, Encode, Metadata, Emit, NewBuilder, Build x n gives back the n bodies in order (null vs empty vs bytes), and the segment offsets tile the emitted data section.  The symbolic values reach the const path (all equal), the dictionary path (distinct), the plain path (uint8: no dictionary) and the null-run paths in one harness.
// verif:bounds T in {string, int64, uint8}; n = 2 (quick) / 3 (thorough) values, each null or 0..2 symbolic bytes (raw bodies; the VNG code never decodes them except to order min/max)
// verif:outside metadata marshalling; LZ4 (contract stub: incompressible)
func VerifH_C03_O7_stack_primitive() {
	typ := []zed.Type{zed.TypeString, zed.TypeInt64, zed.TypeUint8}[verif.Choose("type", 3)]
	vStack(typ, vN(), 2)
}

// verif:desc C03-O7 same stack for record {a:int64,b:string} (RecordEncoder/FieldEncoder/RecordBuilder under NullsEncoder): null records, null fields and empty strings read back as written.
// verif:bounds n = 2 records, record null or each field null or 0..1 symbolic bytes; thorough adds n = 3 records with fields null or exactly 1 symbolic byte
// verif:outside nested records (see stack_nested)
func VerifH_C03_O7_stack_record() {
	zctx := zed.NewContext()
	typ := zctx.MustLookupTypeRecord([]zed.Field{{Name: "a", Type: zed.TypeInt64}, {Name: "b", Type: zed.TypeString}})
	n, leaf := vNLeaf(1)
	vStack(typ, n, leaf)
}

// verif:desc C03-O7 same stack for [string] and |[string]| (ArrayEncoder/SetEncoder lengths vector, ArrayBuilder): null, empty and 1..2-element arrays with null elements read back as written.
// verif:bounds T in {[string], |[string]|}; n = 2 values; array null or 0..2 elements, element null or exactly 1 symbolic byte
// verif:outside arrays longer than 2
func VerifH_C03_O7_stack_array() {
	zctx := zed.NewContext()
	var typ zed.Type = zctx.LookupTypeArray(zed.TypeString)
	if verif.Bool("set") {
		typ = zctx.LookupTypeSet(zed.TypeString)
	}
	vStack(typ, 2, -1)
}

// verif:desc C03-O7 same stack for the union (int64,string) (UnionEncoder tags + per-branch encoders, UnionBuilder): the branch tag and value of every union value, and null unions, read back as written.
// verif:bounds n = 2 (quick) / 3 (thorough) values; union null or tag in {0,1} with a non-null inner value of 0..1 symbolic bytes
// verif:outside unions of containers
func VerifH_C03_O7_stack_union() {
	zctx := zed.NewContext()
	typ := zctx.LookupTypeUnion([]zed.Type{zed.TypeInt64, zed.TypeString})
	vStack(typ, vN(), 1)
}

// verif:desc C03-O7 same stack for the map |{string:int64}| (MapEncoder lengths/keys/values, MapBuilder).
// verif:bounds n = 2 values, map null or 0..1 entries, key 0..1 symbolic bytes, value null or 0..1 symbolic bytes; thorough adds n = 3 values with keys/values of exactly 1 symbolic byte
// verif:outside maps with more than one entry
func VerifH_C03_O7_stack_map() {
	zctx := zed.NewContext()
	typ := zctx.LookupTypeMap(zed.TypeString, zed.TypeInt64)
	n, leaf := vNLeaf(1)
	vStack(typ, n, leaf)
}

// verif:desc C03-O7 same stack for a named type n=int64 and error(string) (NamedEncoder/ErrorEncoder wrap the inner encoder; the Named/Error metadata nodes are transparent to NewBuilder) and for a record nested in a record {r:{a:int64}} (null parent, null child record, null leaf are three different things).
// verif:bounds T in {n=int64, error(string), {r:{a:int64}}}; n = 2 (quick) / 3 (thorough) values; leaves null or 0..1 symbolic bytes
// verif:outside deeper nesting
func VerifH_C03_O7_stack_nested() {
	zctx := zed.NewContext()
	var typ zed.Type
	switch verif.Choose("type", 3) {
	case 0:
		named, err := zctx.LookupTypeNamed("n", zed.TypeInt64)
		verif.Assert(err == nil, "named-type")
		typ = named
	case 1:
		typ = zctx.LookupTypeError(zed.TypeString)
	default:
		inner := zctx.MustLookupTypeRecord([]zed.Field{{Name: "a", Type: zed.TypeInt64}})
		typ = zctx.MustLookupTypeRecord([]zed.Field{{Name: "r", Type: inner}})
	}
	vStack(typ, vN(), 1)
}
