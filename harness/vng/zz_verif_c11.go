//go:build verif

package vng

import (
	"bytes"
	"io"

	"github.com/brimdata/super"
	"github.com/brimdata/super/internal/verif"
	"github.com/brimdata/super/zcode"
)

// vSeg returns an uncompressed segment covering all of data and a ReaderAt
// over it (bytes.Reader is real standard-library code, interpreted).
func vSeg(data []byte) (Segment, io.ReaderAt) {
	return Segment{Offset: 0, Length: uint64(len(data)), MemLength: uint64(len(data)), CompressionFormat: CompressionFormatNone}, bytes.NewReader(data)
}

// vIntVector is a well-framed zcode vector of the given int64s as an untrusted
// file may hold it: every value is spelled with the full 8 bytes (zig-zag,
// little endian), which zed.DecodeInt accepts like the minimal spelling an
// Int64Encoder emits.  Branch-free, so one path covers all 2^64 values.
func vIntVector(vals ...int64) []byte {
	var b zcode.Bytes
	for _, v := range vals {
		neg := uint64(v >> 63)
		u := ((uint64(v)^neg)-neg)<<1 | neg&1
		var le [8]byte
		for i := range le {
			le[i] = byte(u >> (8 * i))
		}
		b = zcode.Append(b, le[:])
	}
	return b
}

// verif:desc C11-O4 vng.Header.Deserialize on 24 arbitrary bytes: no panic; if the header is accepted then MetaSize <= MaxMetaSize and DataSize <= MaxDataSize (the two documented read limits of the format; NewObject sizes its section readers from them).
// verif:bounds all 2^192 byte strings of length 24 (the only length Deserialize accepts; other lengths are rejected by the first test, checked for 0 and 23..25)
// verif:outside what readMetadata does with the metadata section (zngio + reflection unmarshal)
func VerifH_C11_O4_header_limits() {
	if verif.Bool("shortlen") {
		n := []int{0, 23, 25}[verif.Choose("len", 3)]
		var h Header
		verif.Assert(h.Deserialize(make([]byte, n)) != nil, "bad-length-rejected")
		verif.Reach("badlen")
		return
	}
	b := verif.BytesN("hdr", HeaderSize)
	var h Header
	if err := h.Deserialize(b); err != nil {
		verif.Reach("rejected")
		return
	}
	verif.Assert(h.Version == Version, "version")
	verif.Assert(h.MetaSize <= MaxMetaSize, "metasize-within-limit")
	verif.Assert(h.DataSize <= MaxDataSize, "datasize-within-limit")
	verif.Reach("accepted")
}

func vConstOf(typ zed.Type, body zcode.Bytes, n uint32) *Const {
	return &Const{Value: zed.NewValue(typ, body), Count: n}
}

// verif:desc C11-O4 top-level tag vector of a VNG Dynamic holding ARBITRARY int64 tags (well-framed zcode, values untrusted): newDynamicBuilder + dynamicBuilder.Read never index out of range (no panic escapes); a tag outside 0..ntypes-1 is an error; a tag inside selects that type.
// verif:bounds 2 or 3 value columns (const columns), tag vector of 1..3 tags, every tag any int64 (8-byte spelling)
// verif:outside ill-framed tag segment bytes (see VerifH_C11_O4_segment_bytes); compressed segments
// verif:unwind 24
func VerifH_C11_O4_dynamic_tags() {
	ntypes := 2 + verif.Choose("ntypes", 2)
	types := []zed.Type{zed.TypeInt64, zed.TypeString, zed.TypeBool}
	bodies := []zcode.Bytes{zed.EncodeInt(7), zed.EncodeString("s"), zed.EncodeBool(true)}
	var vals []Metadata
	for i := 0; i < ntypes; i++ {
		vals = append(vals, vConstOf(types[i], bodies[i], 4))
	}
	ntags := 1 + verif.Choose("ntags", 3)
	tags := make([]int64, ntags)
	for i := range tags {
		tags[i] = verif.Int64("tag")
	}
	seg, r := vSeg(vIntVector(tags...))
	d, err := newDynamicBuilder(zed.NewContext(), &Dynamic{Tags: seg, Values: vals, Length: uint32(ntags)}, r)
	verif.Assert(err == nil, "builder-constructed")
	if err != nil {
		return
	}
	for i := 0; i < ntags; i++ {
		val, err := d.Read()
		inRange := tags[i] >= 0 && tags[i] < int64(ntypes)
		if err != nil {
			verif.Assert(!inRange, "valid-tag-rejected")
			verif.Reach("error")
			return
		}
		verif.Assert(val != nil, "value-before-eof")
		if val == nil {
			return
		}
		verif.Assert(inRange, "bad-tag-accepted")
		for k := 0; k < ntypes; k++ {
			if tags[i] == int64(k) {
				verif.Assert(val.Type() == types[k], "tag-selects-type")
			}
		}
	}
	val, err := d.Read()
	verif.Assert(val == nil && err == nil, "eof-after-last-tag")
	verif.Reach("end")
}

// verif:desc C11-O4 UnionBuilder.Build with ARBITRARY int64 tags (well-framed zcode, values untrusted): no panic escapes; a tag outside 0..n-1 is an error; otherwise the built container is [tag, value-of-that-branch].
// verif:bounds union of 2 const branches (int64, string); tag vector of 1..3 tags, every tag any int64 (8-byte spelling)
// verif:outside ill-framed segment bytes; nested unions
// verif:unwind 24
func VerifH_C11_O4_union_tags() {
	vals := []Metadata{vConstOf(zed.TypeInt64, zed.EncodeInt(7), 4), vConstOf(zed.TypeString, zed.EncodeString("s"), 4)}
	ntags := 1 + verif.Choose("ntags", 3)
	tags := make([]int64, ntags)
	for i := range tags {
		tags[i] = verif.Int64("tag")
	}
	seg, r := vSeg(vIntVector(tags...))
	u, err := NewUnionBuilder(&Union{Tags: seg, Values: vals, Length: uint32(ntags)}, r)
	verif.Assert(err == nil, "builder-constructed")
	if err != nil {
		return
	}
	b := zcode.NewBuilder()
	for i := 0; i < ntags; i++ {
		b.Truncate()
		err := u.Build(b)
		inRange := tags[i] >= 0 && tags[i] < 2
		if err != nil {
			verif.Assert(!inRange, "valid-tag-rejected")
			verif.Reach("error")
			return
		}
		verif.Assert(inRange, "bad-tag-accepted")
		if !inRange {
			return
		}
		it := b.Bytes().Body().Iter()
		verif.Assert(zed.DecodeInt(it.Next()) == tags[i], "tag-roundtrip")
		want := zcode.Bytes(zed.EncodeInt(7))
		if tags[i] == 1 {
			want = zed.EncodeString("s")
		}
		verif.Assert(bytes.Equal(it.Next(), want), "branch-value")
		verif.Assert(it.Done(), "two-elements")
	}
	verif.Assert(u.Build(b) == io.EOF, "eof-after-last-tag")
	verif.Reach("end")
}

// verif:desc C11-O4 DictBuilder.ReadBytes with ARBITRARY selector bytes: no panic escapes; a selector >= len(dict) is an error; a selector < len(dict) returns that dictionary entry; EOF exactly after the last selector.
// verif:bounds dictionary of 1..3 entries; 0..3 selectors, every selector any byte
// verif:outside compressed selector segments; dictionaries with more than 3 entries (see C03-O3 for the 256 boundary)
func VerifH_C11_O4_dict_selectors() {
	ndict := 1 + verif.Choose("ndict", 3)
	entries := []zcode.Bytes{zed.EncodeString(""), zed.EncodeString("a"), zed.EncodeString("bc")}
	var dict []DictEntry
	for i := 0; i < ndict; i++ {
		dict = append(dict, DictEntry{Value: zed.NewValue(zed.TypeString, entries[i]), Count: 1})
	}
	sels := verif.Bytes("sel", 3)
	seg, r := vSeg(sels)
	bld, err := NewBuilder(&Primitive{Typ: zed.TypeString, Location: seg, Dict: dict, Count: uint32(len(sels))}, r)
	verif.Assert(err == nil, "builder-constructed")
	d, ok := bld.(*DictBuilder)
	verif.Assert(ok, "dict-builder-chosen")
	if !ok {
		return
	}
	for i := range sels {
		got, err := d.ReadBytes()
		inRange := int(sels[i]) < ndict
		if err != nil {
			verif.Assert(!inRange, "valid-selector-rejected")
			verif.Assert(err != io.EOF, "early-eof")
			verif.Reach("error")
			return
		}
		verif.Assert(inRange, "bad-selector-accepted")
		if !inRange {
			return
		}
		for k := 0; k < ndict; k++ {
			if int(sels[i]) == k {
				verif.Assert(got != nil && bytes.Equal(got, entries[k]), "selector-selects-entry")
			}
		}
	}
	_, err = d.ReadBytes()
	verif.Assert(err == io.EOF, "eof-after-last-selector")
	verif.Reach("end")
}

// verif:desc C11-O4 NullsBuilder.Build with ARBITRARY int64 run lengths (well-framed zcode, values untrusted): no panic escapes and every Build call returns (terminates within the unwinding bound) with a value, a null or an error.
// verif:bounds 0..3 runs, every run any int64 (8-byte spelling); values column = const column of 2 values; 4 Build calls
// verif:outside ill-framed run segment; what a caller does with more values than the column length
// verif:unwind 16
func VerifH_C11_O4_nulls_runs() {
	nruns := verif.Choose("nruns", 4)
	runs := make([]int64, nruns)
	for i := range runs {
		runs[i] = verif.Int64("run")
	}
	seg, r := vSeg(vIntVector(runs...))
	bld, err := NewBuilder(&Nulls{Runs: seg, Values: vConstOf(zed.TypeInt64, zed.EncodeInt(7), 2), Count: 2}, r)
	verif.Assert(err == nil, "builder-constructed")
	if err != nil {
		return
	}
	b := zcode.NewBuilder()
	for i := 0; i < 4; i++ {
		if err := bld.Build(b); err != nil {
			verif.Reach("error")
			return
		}
	}
	verif.Reach("end")
}

// verif:desc C11-O4 PrimitiveBuilder.ReadBytes / Int64Decoder.Next over a data segment holding ARBITRARY bytes (the file's data section is untrusted): no panic escapes; every call returns bytes or an error.
// verif:bounds segment of 0..3 arbitrary bytes, uncompressed; 4 reads
// verif:outside compressed segments (LZ4 contract stub), segments longer than 3 bytes
func VerifH_C11_O4_segment_bytes() {
	data := verif.Bytes("data", 3)
	seg, r := vSeg(data)
	d := NewInt64Decoder(seg, r)
	for i := 0; i < 4; i++ {
		if _, err := d.Next(); err != nil {
			verif.Reach("error")
			return
		}
		verif.Reach("value")
	}
}

// verif:desc C11-O4 ArrayBuilder.Build / MapBuilder.Build with an ARBITRARY (untrusted) int64 in the lengths vector: no panic escapes and Build returns (a huge length ends with the element column's EOF error, a negative one with an empty container) within the unwinding bound.
// verif:bounds one container; length any int64 (8-byte spelling); element / key / value columns are const columns of 2 values
// verif:outside ill-framed lengths segment; nested containers
// verif:unwind 16
func VerifH_C11_O4_container_lengths() {
	n := verif.Int64("len")
	seg, r := vSeg(vIntVector(n))
	elems := vConstOf(zed.TypeInt64, zed.EncodeInt(7), 2)
	var meta Metadata = &Array{Length: 1, Lengths: seg, Values: elems}
	if verif.Bool("map") {
		meta = &Map{Length: 1, Lengths: seg, Keys: elems, Values: vConstOf(zed.TypeString, zed.EncodeString("s"), 2)}
	}
	bld, err := NewBuilder(meta, r)
	verif.Assert(err == nil, "builder-constructed")
	if err != nil {
		return
	}
	b := zcode.NewBuilder()
	if err := bld.Build(b); err != nil {
		verif.Assert(n > 2, "short-container-rejected")
		verif.Reach("error")
		return
	}
	verif.Assert(n <= 2, "overlong-container-accepted")
	verif.Reach("end")
}
