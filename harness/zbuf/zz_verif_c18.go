//go:build verif

package zbuf

import (
	"errors"

	"github.com/brimdata/super"
	"github.com/brimdata/super/internal/verif"
)

var v18ErrWrite = errors.New("verif: writer failure")
var v18ErrPull = errors.New("verif: puller failure")

// v18FailWriter is a model zio.Writer whose failAt-th Write fails (0 = never),
// one-shot.
type v18FailWriter struct {
	failAt int
	calls  int
	failed bool
	got    []int64
}

func (w *v18FailWriter) Write(val zed.Value) error {
	w.calls++
	if w.calls == w.failAt {
		w.failed = true
		return v18ErrWrite
	}
	w.got = append(w.got, val.Int())
	return nil
}

// v18Puller yields the given batch sizes (values numbered consecutively), then
// EOS; its errAt-th Pull fails (0 = never).
type v18Puller struct {
	sizes []int
	errAt int
	calls int
	next  int64
}

func (p *v18Puller) Pull(done bool) (Batch, error) {
	p.calls++
	if p.calls == p.errAt {
		return nil, v18ErrPull
	}
	if p.calls > len(p.sizes) {
		return nil, nil
	}
	var vals []zed.Value
	for i := 0; i < p.sizes[p.calls-1]; i++ {
		vals = append(vals, zed.NewInt64(p.next))
		p.next++
	}
	return NewArray(vals), nil
}

// verif:desc C18-O7 zbuf.CopyPuller / WriteBatch: the loop stops at the first writer error and returns it (no Write call after a failed one, no further Pull); a puller error is returned as well; with no failure every value of every batch is written once, in order, and nil is returned.
// verif:bounds 0..2 batches of 0..2 values each; writer fails at Write call k in 0..5 (symbolic; 0=never; one-shot); puller fails at Pull call j in 0..3 (symbolic; 0=never)
// verif:outside batch reference counting; the done protocol
func VerifH_C18_O7_copypuller() {
	nb := verif.Choose("nbatches", 3)
	var sizes []int
	total := 0
	for i := 0; i < nb; i++ {
		s := verif.Choose("size", 3)
		sizes = append(sizes, s)
		total += s
	}
	w := &v18FailWriter{failAt: verif.Range("failAt", 0, 5)}
	p := &v18Puller{sizes: sizes, errAt: verif.Range("pullErrAt", 0, 3)}
	err := CopyPuller(w, p)
	if w.failed {
		verif.Assert(err == v18ErrWrite, "first-writer-error-returned")
		verif.Assert(w.calls == w.failAt, "stopped-at-first-writer-error")
		verif.Reach("writer-failed")
	} else if p.errAt > 0 && p.calls >= p.errAt {
		verif.Assert(err == v18ErrPull, "puller-error-returned")
		verif.Reach("puller-failed")
	} else {
		verif.Assert(err == nil, "no-spurious-error")
		verif.Assert(len(w.got) == total, "all-values-written")
		for i := range w.got {
			verif.Assert(w.got[i] == int64(i), "values-in-order")
		}
		verif.Reach("clean")
	}
}
