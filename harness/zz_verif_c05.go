//go:build verif

package zed

import (
	"bytes"

	"github.com/brimdata/super/internal/verif"
)

// ---------------------------------------------------------------------------
// type templates with symbolic contents
// ---------------------------------------------------------------------------

// vSymName returns a symbolic one-letter name over the alphabet {a,b,c}, so
// that equal / smaller / larger names are all reachable for up to three names.
func vSymName(name string) string {
	s := verif.StringN(name, 1)
	verif.Assume(s[0]-'a' < 3)
	return s
}

// vPrim picks one of two primitive types (one path each).
func vPrim(name string) Type {
	if verif.Choose(name, 2) == 0 {
		return TypeInt64
	}
	return TypeString
}

func vMustNamed(c *Context, name string, inner Type) Type {
	named, err := c.LookupTypeNamed(name, inner)
	if err != nil {
		panic(err)
	}
	return named
}

const (
	vNumTypeTemplates = 13
	vTmplNestedNamed  = 12
)

// vTypeTemplate builds template k in c; p prefixes the names of the symbolic
// inputs (field names, symbols, type names, primitive choices).
func vTypeTemplate(c *Context, k int, p string) Type {
	switch k {
	case 0: // primitive
		return vPrim(p + ".prim")
	case 1: // {n1:P}
		return c.MustLookupTypeRecord([]Field{{vSymName(p + ".n1"), vPrim(p + ".prim")}})
	case 2: // {n1:int64,n2:string}
		n1, n2 := vSymName(p+".n1"), vSymName(p+".n2")
		verif.Assume(n1 != n2)
		return c.MustLookupTypeRecord([]Field{{n1, TypeInt64}, {n2, TypeString}})
	case 3: // [P]
		return c.LookupTypeArray(vPrim(p + ".prim"))
	case 4: // |[int64]|
		return c.LookupTypeSet(TypeInt64)
	case 5: // |{P:Q}|
		return c.LookupTypeMap(vPrim(p+".prim"), vPrim(p+".prim2"))
	case 6: // (int64,string) or (int64,N=int64), members given in either order
		var other Type = TypeString
		if verif.Choose(p+".member", 2) == 1 {
			other = vMustNamed(c, vSymName(p+".n1"), TypeInt64)
		}
		if verif.Choose(p+".order", 2) == 0 {
			return c.LookupTypeUnion([]Type{TypeInt64, other})
		}
		return c.LookupTypeUnion([]Type{other, TypeInt64})
	case 7: // enum(s1)
		return c.LookupTypeEnum([]string{vSymName(p + ".s1")})
	case 8: // enum(s1,s2)
		return c.LookupTypeEnum([]string{vSymName(p + ".s1"), vSymName(p + ".s2")})
	case 9: // error(P)
		return c.LookupTypeError(vPrim(p + ".prim"))
	case 10: // N=P
		return vMustNamed(c, vSymName(p+".name"), vPrim(p+".prim"))
	case 11: // N={n1:int64}
		return vMustNamed(c, vSymName(p+".name"), c.MustLookupTypeRecord([]Field{{vSymName(p + ".n1"), TypeInt64}}))
	case vTmplNestedNamed: // N=(M=int64)
		return vMustNamed(c, vSymName(p+".name"), vMustNamed(c, vSymName(p+".inner"), TypeInt64))
	}
	panic("template")
}

// vSameStructure is structural equality of two types (possibly from different
// contexts), written directly from the data model: same constructor, same
// names/symbols in the same positions, structurally equal components.
func vSameStructure(a, b Type) bool {
	switch a := a.(type) {
	case *TypeNamed:
		b, ok := b.(*TypeNamed)
		return ok && a.Name == b.Name && vSameStructure(a.Type, b.Type)
	case *TypeRecord:
		b, ok := b.(*TypeRecord)
		if !ok || len(a.Fields) != len(b.Fields) {
			return false
		}
		for i := range a.Fields {
			if a.Fields[i].Name != b.Fields[i].Name || !vSameStructure(a.Fields[i].Type, b.Fields[i].Type) {
				return false
			}
		}
		return true
	case *TypeArray:
		b, ok := b.(*TypeArray)
		return ok && vSameStructure(a.Type, b.Type)
	case *TypeSet:
		b, ok := b.(*TypeSet)
		return ok && vSameStructure(a.Type, b.Type)
	case *TypeMap:
		b, ok := b.(*TypeMap)
		return ok && vSameStructure(a.KeyType, b.KeyType) && vSameStructure(a.ValType, b.ValType)
	case *TypeUnion:
		b, ok := b.(*TypeUnion)
		if !ok || len(a.Types) != len(b.Types) {
			return false
		}
		for i := range a.Types {
			if !vSameStructure(a.Types[i], b.Types[i]) {
				return false
			}
		}
		return true
	case *TypeEnum:
		b, ok := b.(*TypeEnum)
		if !ok || len(a.Symbols) != len(b.Symbols) {
			return false
		}
		for i := range a.Symbols {
			if a.Symbols[i] != b.Symbols[i] {
				return false
			}
		}
		return true
	case *TypeError:
		b, ok := b.(*TypeError)
		return ok && vSameStructure(a.Type, b.Type)
	}
	// primitives are singletons
	return a == b
}

func vSign(x int) int {
	if x < 0 {
		return -1
	}
	if x > 0 {
		return 1
	}
	return 0
}

// ---------------------------------------------------------------------------
// O1: CompareTypes is a total order consistent with structural equality;
//     within one context structural equality is pointer (and id) equality
// ---------------------------------------------------------------------------

// verif:desc C05-O1a zed.CompareTypes on every pair of types built in ONE context through the real Context.LookupType* constructors: reflexive, antisymmetric (sign(cmp(a,b)) == -sign(cmp(b,a))), and cmp(a,b)==0 exactly when a and b are structurally equal; and (C05 first sentence) a and b are the same pointer / have the same TypeID exactly when they are structurally equal, and the union of a and b is the same type whichever member order is given. Assertion ids ending in /nested-named are the region where a or b is a named type whose inner type is itself named.
// verif:bounds a,b: all pairs (i<=j) of 13 templates: P, {n1:P}, {n1:int64,n2:string}, [P], |[int64]|, |{P:Q}|, (int64,string)/(int64,N=int64) in either member order, enum(s1), enum(s1,s2), error(P), N=P, N={n1:int64}, N=(M=int64); P, Q in {int64,string}; every name/symbol an arbitrary letter of {a,b,c}, chosen independently for a and b
// verif:outside deeper nesting; more than 2 fields/members/symbols; concurrent lookups
// verif:unwind 24
func VerifH_C05_O1_order_pairs() {
	i := verif.Choose("a.template", vNumTypeTemplates)
	j := verif.Choose("b.template", vNumTypeTemplates)
	if j < i {
		// (j,i) is the same pair: both directions are compared below
		return
	}
	c := NewContext()
	a := vTypeTemplate(c, i, "a")
	b := vTypeTemplate(c, j, "b")
	// region of a known weakness: a named type whose inner type is itself named
	nested := i == vTmplNestedNamed || j == vTmplNestedNamed
	ab, ba := CompareTypes(a, b), CompareTypes(b, a)
	verif.Assert(CompareTypes(a, a) == 0 && CompareTypes(b, b) == 0, "reflexive")
	verif.Assert(vSign(ab) == -vSign(ba), "antisymmetric")
	same := vSameStructure(a, b)
	if same {
		verif.Reach("equal")
		verif.Assert(ab == 0, "equal-types-compare-zero")
		verif.Assert(a == b, "equal-structure-same-pointer")
		verif.Assert(TypeID(a) == TypeID(b), "equal-structure-same-id")
	} else {
		verif.Reach("different")
		if nested {
			verif.Assert(ab != 0, "different-types-compare-nonzero/nested-named")
		} else {
			verif.Assert(ab != 0, "different-types-compare-nonzero")
		}
		verif.Assert(a != b, "different-structure-different-pointer")
		verif.Assert(TypeID(a) != TypeID(b), "different-structure-different-id")
	}
	// a union is the same type whichever order its members are listed in
	u1 := c.LookupTypeUnion([]Type{a, b})
	u2 := c.LookupTypeUnion([]Type{b, a})
	if nested {
		verif.Assert(u1 == u2, "union-depends-on-member-order/nested-named")
	} else {
		verif.Assert(u1 == u2, "union-depends-on-member-order")
	}
	verif.Reach("end")
}

// verif:desc C05-O1b zed.CompareTypes is transitive on every triple of types of one context: cmp(a,b)<=0 and cmp(b,c)<=0 imply cmp(a,c)<=0, and if either is strict so is cmp(a,c) (what sort.SliceStable in LookupTypeUnion / UniqueTypes relies on).
// verif:bounds a,b,c: all triples of 9 templates: P, {n1:P}, [P], (int64,string)/(int64,N=int64), enum(s1), enum(s1,s2), N=P, N={n1:int64}, N=(M=int64); names as in O1a
// verif:outside as O1a
// verif:unwind 24
// verif:tier thorough
func VerifH_C05_O1_order_triples() {
	tm := []int{0, 1, 3, 6, 7, 8, 10, 11, 12}
	c := NewContext()
	a := vTypeTemplate(c, tm[verif.Choose("a.template", len(tm))], "a")
	b := vTypeTemplate(c, tm[verif.Choose("b.template", len(tm))], "b")
	d := vTypeTemplate(c, tm[verif.Choose("c.template", len(tm))], "c")
	ab, bd, ad := CompareTypes(a, b), CompareTypes(b, d), CompareTypes(a, d)
	if ab <= 0 && bd <= 0 {
		verif.Reach("chain")
		verif.Assert(ad <= 0, "transitive")
		if ab < 0 || bd < 0 {
			verif.Assert(ad < 0, "transitive-strict")
		}
	}
	verif.Reach("end")
}

// ---------------------------------------------------------------------------
// O2: canonical lookups, independent of history
// ---------------------------------------------------------------------------

// verif:desc C05-O2 canonical lookups in one Context regardless of history: the same template reached (1) through the Lookup* constructors, (2) again through the constructors after an unrelated type was created, (3) by TranslateType from a second context whose ids differ, (4) by LookupByValue of the serialized type, (5) by LookupType(id) is always the same pointer with the same id; union members given in either order give the same union; a structurally different second type never aliases it; and the type value the context reports for the type equals its canonical encoding.
// verif:bounds the 13 templates of O1a with symbolic names; second context pre-populated with 1 other complex type (ids shifted); unrelated type: [[int64]]
// verif:outside concurrent lookups; deeper nesting
// verif:unwind 24
func VerifH_C05_O2_canonical_lookup() {
	k := verif.Choose("template", vNumTypeTemplates)
	c := NewContext()
	t1 := vTypeTemplate(c, k, "t")
	id1 := TypeID(t1)
	// an unrelated creation in between
	c.LookupTypeArray(c.LookupTypeArray(TypeInt64))
	// the same structure built in a foreign context with different ids
	f := NewContext()
	f.LookupTypeMap(TypeString, TypeString)
	ft := vForeignCopy(f, t1)
	verif.Assert(vSameStructure(t1, ft), "harness-foreign-copy")
	if k != 0 {
		verif.Assert(ft != t1, "harness-foreign-distinct")
	}
	t3, err := c.TranslateType(ft)
	verif.Assert(err == nil && t3 == t1, "translate-same-pointer")
	tv := EncodeTypeValue(ft)
	t4, err := c.LookupByValue(bytes.Clone(tv))
	verif.Assert(err == nil && t4 == t1, "lookup-by-value-same-pointer")
	t2 := vForeignCopy(c, ft)
	verif.Assert(t2 == t1, "constructors-same-pointer")
	verif.Assert(TypeID(t2) == id1, "same-id")
	if k != 0 {
		byID, err := c.LookupType(id1)
		verif.Assert(err == nil && byID == t1, "lookup-by-id-same-pointer")
	}
	// the context's type value of the type is its canonical encoding
	verif.Assert(bytes.Equal(c.LookupTypeValue(t1).Bytes(), EncodeTypeValue(t1)), "type-value-is-canonical-encoding")
	verif.Assert(bytes.Equal(EncodeTypeValue(t1), tv), "encoding-independent-of-context")
	verif.Reach("end")
}

// vForeignCopy rebuilds typ (from any context) in c through the Lookup*
// constructors only.
func vForeignCopy(c *Context, typ Type) Type {
	switch typ := typ.(type) {
	case *TypeNamed:
		return vMustNamed(c, typ.Name, vForeignCopy(c, typ.Type))
	case *TypeRecord:
		var fields []Field
		for _, f := range typ.Fields {
			fields = append(fields, Field{f.Name, vForeignCopy(c, f.Type)})
		}
		return c.MustLookupTypeRecord(fields)
	case *TypeArray:
		return c.LookupTypeArray(vForeignCopy(c, typ.Type))
	case *TypeSet:
		return c.LookupTypeSet(vForeignCopy(c, typ.Type))
	case *TypeMap:
		return c.LookupTypeMap(vForeignCopy(c, typ.KeyType), vForeignCopy(c, typ.ValType))
	case *TypeUnion:
		var types []Type
		// reversed member order on purpose
		for i := len(typ.Types) - 1; i >= 0; i-- {
			types = append(types, vForeignCopy(c, typ.Types[i]))
		}
		return c.LookupTypeUnion(types)
	case *TypeEnum:
		return c.LookupTypeEnum(append([]string(nil), typ.Symbols...))
	case *TypeError:
		return c.LookupTypeError(vForeignCopy(c, typ.Type))
	}
	return typ
}

// verif:desc C05-O2b creation order does not matter: two types a,b created in order (a,b) in one context and (b,a) in another, then both translated into a third context in either order, map to pointers that are equal exactly when a and b are structurally equal, and translating back yields the original pointers.
// verif:bounds a,b from 6 templates ({n1:P}, [P], (int64,string)/(int64,N=int64), enum(s1,s2), N=P, N={n1:int64}) with symbolic names
// verif:outside concurrent lookups
// verif:unwind 24
func VerifH_C05_O2_creation_order() {
	tm := []int{1, 3, 6, 8, 10, 11}
	i := tm[verif.Choose("a.template", len(tm))]
	j := tm[verif.Choose("b.template", len(tm))]
	c1, c2, c3 := NewContext(), NewContext(), NewContext()
	a1 := vTypeTemplate(c1, i, "a")
	b1 := vTypeTemplate(c1, j, "b")
	b2 := vForeignCopy(c2, b1)
	a2 := vForeignCopy(c2, a1)
	same := vSameStructure(a1, b1)
	verif.Assert((a1 == b1) == same && (a2 == b2) == same, "pointer-equality-is-structural")
	var a3, b3, a3x, b3x Type
	var e1, e2, e3, e4 error
	if verif.Choose("order", 2) == 0 {
		a3, e1 = c3.TranslateType(a1)
		b3, e2 = c3.TranslateType(b2)
	} else {
		b3, e2 = c3.TranslateType(b1)
		a3, e1 = c3.TranslateType(a2)
	}
	a3x, e3 = c3.TranslateType(a2)
	b3x, e4 = c3.TranslateType(b1)
	verif.Assert(e1 == nil && e2 == nil && e3 == nil && e4 == nil, "translate-ok")
	verif.Assert(a3 == a3x && b3 == b3x, "translate-independent-of-source-context")
	verif.Assert((a3 == b3) == same, "translated-pointer-equality-is-structural")
	verif.Assert(vSameStructure(a3, a1) && vSameStructure(b3, b1), "translated-structure")
	back, err := c1.TranslateType(a3)
	verif.Assert(err == nil && back == a1, "translate-back-same-pointer")
	verif.Reach("end")
}

// ---------------------------------------------------------------------------
// O3: type values are portable (incl. name rebinding)
// ---------------------------------------------------------------------------

const vNumPortableTemplates = 8

// vPortableTemplate builds the name-rebinding templates of DESIGN C05-O3; the
// type names X,Y are symbolic, so "same name, different type" and "different
// names" are both covered by one template.
func vPortableTemplate(c *Context, k int) Type {
	x, y := vSymName("X"), vSymName("Y")
	xi := vMustNamed(c, x, TypeInt64)
	switch k {
	case 0: // {a:X=int64,b:Y=string}
		return c.MustLookupTypeRecord([]Field{{"a", xi}, {"b", vMustNamed(c, y, TypeString)}})
	case 1: // {a:X=int64,b:Y=int64}  (X==Y: second is a reference)
		return c.MustLookupTypeRecord([]Field{{"a", xi}, {"b", vMustNamed(c, y, TypeInt64)}})
	case 2: // {a:X=int64,b:{c:Y=string},d:X=int64}
		inner := c.MustLookupTypeRecord([]Field{{"c", vMustNamed(c, y, TypeString)}})
		return c.MustLookupTypeRecord([]Field{{"a", xi}, {"b", inner}, {"d", xi}})
	case 3: // [X=[Y=int64]]
		return c.LookupTypeArray(vMustNamed(c, x, c.LookupTypeArray(vMustNamed(c, y, TypeInt64))))
	case 4: // X=(Y=int64)
		return vMustNamed(c, x, vMustNamed(c, y, TypeInt64))
	case 5: // (X=int64, Y=string, int64)
		return c.LookupTypeUnion([]Type{xi, vMustNamed(c, y, TypeString), TypeInt64})
	case 6: // |{X=int64: error(Y=int64)}|
		return c.LookupTypeMap(xi, c.LookupTypeError(vMustNamed(c, y, TypeInt64)))
	case 7: // {a:X={e:enum(s)},b:|[Y=int64]|}
		rec := c.MustLookupTypeRecord([]Field{{"e", c.LookupTypeEnum([]string{vSymName("s")})}})
		return c.MustLookupTypeRecord([]Field{{"a", vMustNamed(c, x, rec)}, {"b", c.LookupTypeSet(vMustNamed(c, y, TypeInt64))}})
	}
	panic("template")
}

// verif:desc C05-O3 type values are portable: for a type t of one context, EncodeTypeValue(t) decoded by DecodeTypeValue in a second context (empty, or one in which the type names are already bound to other types) consumes all bytes, yields a type structurally equal to t, and re-encodes to the same bytes; LookupByValue / TranslateType agree with it, and translating back gives the original pointer.
// verif:bounds 8 templates with named types X,Y over {a,b,c} (X==Y and X!=Y both symbolic): {a:X=int64,b:Y=string}, {a:X=int64,b:Y=int64}, {a:X=int64,b:{c:Y=string},d:X=int64}, [X=[Y=int64]], X=(Y=int64), (X=int64,Y=string,int64), |{X=int64:error(Y=int64)}|, {a:X={e:enum(s)},b:|[Y=int64]|}; target context fresh or with X bound to string and Y bound to [string]
// verif:outside concurrent decoding (a rebinding between a definition and its reference in another goroutine); deeper nesting
// verif:unwind 24
func VerifH_C05_O3_typevalue_portable() {
	k := verif.Choose("template", vNumPortableTemplates)
	c1 := NewContext()
	t := vPortableTemplate(c1, k)
	tv := EncodeTypeValue(t)
	c2 := NewContext()
	if verif.Choose("polluted", 2) == 1 {
		// the names are already bound to something else over there
		c2.LookupTypeArray(TypeString)
		vBindOther(c2, t)
	}
	t2, rest := c2.DecodeTypeValue(tv)
	verif.Assert(rest != nil && t2 != nil, "decodes")
	if rest == nil || t2 == nil {
		return
	}
	verif.Assert(len(rest) == 0, "consumes-all-bytes")
	verif.Assert(vSameStructure(t, t2), "structurally-equal")
	verif.Assert(bytes.Equal(EncodeTypeValue(t2), tv), "re-encodes-to-same-bytes")
	t3, err := c2.LookupByValue(bytes.Clone(tv))
	verif.Assert(err == nil && t3 == t2, "lookup-by-value-agrees")
	t4, err := c2.TranslateType(t)
	verif.Assert(err == nil && t4 == t2, "translate-agrees")
	back, err := c1.TranslateType(t2)
	verif.Assert(err == nil && back == t, "round-trip-same-pointer")
	verif.Reach("end")
}

// vBindOther binds every type name occurring in typ to a different type in c.
func vBindOther(c *Context, typ Type) {
	switch typ := typ.(type) {
	case *TypeNamed:
		if typ.Type == TypeString {
			vMustNamed(c, typ.Name, c.LookupTypeArray(TypeString))
		} else {
			vMustNamed(c, typ.Name, TypeString)
		}
		vBindOther(c, typ.Type)
	case *TypeRecord:
		for _, f := range typ.Fields {
			vBindOther(c, f.Type)
		}
	case *TypeArray:
		vBindOther(c, typ.Type)
	case *TypeSet:
		vBindOther(c, typ.Type)
	case *TypeMap:
		vBindOther(c, typ.KeyType)
		vBindOther(c, typ.ValType)
	case *TypeUnion:
		for _, t := range typ.Types {
			vBindOther(c, t)
		}
	case *TypeError:
		vBindOther(c, typ.Type)
	}
}

// ---------------------------------------------------------------------------
// O4: a type value obtained from the context never changes
// ---------------------------------------------------------------------------

// verif:desc C05-O4 type values never change: after typ := c.LookupByValue(tv) succeeded, the caller overwrites its buffer tv with arbitrary bytes (what a recycled frame buffer does); c.LookupTypeValue(typ) must still return the bytes it returned before, must still equal the canonical encoding of typ, and looking the original bytes up again must return typ.
// verif:bounds tv: every byte string of length 0..3 over the 20-letter type-value alphabet of C11-O3a (vTVBytes) that LookupByValue accepts in a fresh context; afterwards every cell of tv is overwritten with an arbitrary byte.  Assertion id type-value-is-canonical-encoding/non-canonical-input is the region where tv is not the canonical encoding of the decoded type (trailing bytes, padded uvarints)
// verif:outside concurrent use
// verif:unwind 48
func VerifH_C05_O4_typevalue_stable() {
	tv := vTVBytes("tv", 3)
	c := NewContext()
	orig := bytes.Clone(tv)
	typ, err := c.LookupByValue(tv)
	if err != nil {
		return
	}
	verif.Reach("accepted")
	before := bytes.Clone(c.LookupTypeValue(typ).Bytes())
	canonical := bytes.Equal(orig, EncodeTypeValue(typ))
	// the caller recycles its buffer
	for i := range tv {
		tv[i] = verif.Byte("scribble")
	}
	after := c.LookupTypeValue(typ).Bytes()
	verif.Assert(bytes.Equal(before, after), "type-value-changed-with-callers-buffer")
	again, err := c.LookupByValue(orig)
	verif.Assert(err == nil && again == typ, "second-lookup-same-type")
	if canonical {
		verif.Assert(bytes.Equal(before, orig), "type-value-is-what-was-looked-up")
	} else {
		// a non-canonical spelling (unsorted union, padded uvarint, trailing bytes)
		verif.Reach("non-canonical-input")
		verif.Assert(bytes.Equal(before, EncodeTypeValue(typ)), "type-value-is-canonical-encoding/non-canonical-input")
	}
	verif.Reach("end")
}

// verif:desc C05-O4b the type value of a type already known to the context does not change when somebody later looks the type up by a different (non-canonical but accepted) spelling: LookupTypeValue(typ) before and after LookupByValue(other spelling) are equal.
// verif:bounds typ: (int64,string), enum(x), {a:int64}, [int64]; other spelling: union members in the opposite order, a two-byte (padded) uvarint count, or one trailing byte
// verif:outside concurrent use
// verif:unwind 24
func VerifH_C05_O4_typevalue_respelled() {
	c := NewContext()
	var typ Type
	var alt []byte
	switch verif.Choose("case", 4) {
	case 0:
		typ = c.LookupTypeUnion([]Type{TypeInt64, TypeString})
		alt = []byte{TypeValueUnion, 2, IDString, IDInt64}
	case 1:
		typ = c.LookupTypeEnum([]string{"x"})
		alt = []byte{TypeValueEnum, 0x81, 0, 1, 'x'}
	case 2:
		typ = c.MustLookupTypeRecord([]Field{{"a", TypeInt64}})
		alt = []byte{TypeValueRecord, 1, 0x81, 0, 'a', IDInt64}
	case 3:
		typ = c.LookupTypeArray(TypeInt64)
		alt = []byte{TypeValueArray, IDInt64, verif.Byte("trailing")}
	}
	before := bytes.Clone(c.LookupTypeValue(typ).Bytes())
	verif.Assert(bytes.Equal(before, EncodeTypeValue(typ)), "type-value-is-canonical-encoding")
	typ2, err := c.LookupByValue(alt)
	if err != nil {
		verif.Reach("respelling-rejected")
		return
	}
	verif.Reach("respelling-accepted")
	verif.Assert(typ2 == typ, "respelling-same-type")
	after := c.LookupTypeValue(typ).Bytes()
	verif.Assert(bytes.Equal(before, after), "type-value-changed-by-respelled-lookup")
	verif.Reach("end")
}

// verif:desc C05-O4c the slices a caller passes to LookupTypeRecord / LookupTypeUnion / LookupTypeEnum are not retained: after the caller reuses its []Field / []Type / []string for something else, the type returned earlier still has the same structure and serialized type value, and looking the original structure up again returns the same pointer.
// verif:bounds record of 2 fields, union of 2 members, enum of 2 symbols; names/symbols symbolic over {a,b,c}; every element of the caller's slice overwritten afterwards
// verif:outside recycling of the pooled scratch buffers (sync.Pool is modelled as always-new); concurrent use
// verif:unwind 24
func VerifH_C05_O4_constructor_args_owned() {
	c := NewContext()
	var typ Type
	var again func() Type
	var scribble func()
	switch verif.Choose("kind", 3) {
	case 0:
		n1, n2 := vSymName("n1"), vSymName("n2")
		verif.Assume(n1 != n2)
		fields := []Field{{n1, TypeInt64}, {n2, TypeString}}
		typ = c.MustLookupTypeRecord(fields)
		scribble = func() {
			fields[0] = Field{vSymName("m1"), TypeString}
			fields[1] = Field{vSymName("m2"), TypeInt64}
		}
		again = func() Type { return c.MustLookupTypeRecord([]Field{{n1, TypeInt64}, {n2, TypeString}}) }
	case 1:
		named := vMustNamed(c, vSymName("n1"), TypeInt64)
		types := []Type{TypeString, named}
		typ = c.LookupTypeUnion(types)
		scribble = func() {
			types[0] = TypeUint8
			types[1] = TypeUint8
		}
		again = func() Type { return c.LookupTypeUnion([]Type{named, TypeString}) }
	case 2:
		s1, s2 := vSymName("s1"), vSymName("s2")
		symbols := []string{s1, s2}
		typ = c.LookupTypeEnum(symbols)
		scribble = func() {
			symbols[0] = vSymName("m1")
			symbols[1] = vSymName("m2")
		}
		again = func() Type { return c.LookupTypeEnum([]string{s1, s2}) }
	}
	before := EncodeTypeValue(typ)
	scribble()
	verif.Assert(bytes.Equal(EncodeTypeValue(typ), before), "type-changed-with-callers-slice")
	verif.Assert(bytes.Equal(c.LookupTypeValue(typ).Bytes(), before), "type-value-changed-with-callers-slice")
	verif.Assert(again() == typ, "second-lookup-same-type")
	verif.Reach("end")
}

// ---------------------------------------------------------------------------
// C01-O7: the reader-side type cache does not leak across streams
// ---------------------------------------------------------------------------

// verif:desc C01-O7 zed.MapperLookupCache (the per-worker cache in front of the per-stream zed.Mapper used by zngio's scanner): after any sequence of lookups against the mapper of stream 1, Reset(mapper of stream 2) and further lookups, every Lookup(id) returns exactly what the current stream's Mapper.Lookup(id) returns (nil for an id the new stream has not defined) - no entry of the previous stream survives Reset; Mapper.EnterType keeps earlier entries when it grows, in ascending and descending id order.
// verif:bounds two streams; stream 1 defines ids 30,31,32, stream 2 ids 30..30+n2-1 (n2 in 0..3) with different types; 2 lookups before the Reset and 2 after, each with an arbitrary id in 29..33 (a primitive id, the defined ids, an undefined id)
// verif:outside concurrent use of Mapper (its mutex); ids beyond 33; more than one Reset
// verif:unwind 24
func VerifH_C01_O7_mapper_reset() {
	out := NewContext()
	s1 := []Type{out.LookupTypeArray(TypeInt64), out.LookupTypeSet(TypeInt64), out.LookupTypeError(TypeInt64)}
	s2 := []Type{out.LookupTypeArray(TypeString), out.LookupTypeSet(TypeString), out.LookupTypeError(TypeString)}
	n2 := verif.Choose("n2", 4)
	m1, m2 := NewMapper(out), NewMapper(out)
	for k := 2; k >= 0; k-- {
		m1.EnterType(IDTypeComplex+k, s1[k])
	}
	for k := 0; k < n2; k++ {
		m2.EnterType(IDTypeComplex+k, s2[k])
	}
	// the mappers themselves kept everything that was entered
	for k := 0; k < 3; k++ {
		verif.Assert(m1.Lookup(IDTypeComplex+k) == s1[k], "mapper-keeps-entries")
	}
	for k := 0; k < n2; k++ {
		verif.Assert(m2.Lookup(IDTypeComplex+k) == s2[k], "mapper-keeps-entries")
	}
	verif.Assert(m2.Lookup(IDTypeComplex+n2) == nil, "mapper-unknown-id-nil")
	var cache MapperLookupCache
	cache.Reset(m1)
	for i := 0; i < 2; i++ {
		id := IDTypeComplex - 1 + verif.Choose("id1", 5)
		verif.Assert(cache.Lookup(id) == m1.Lookup(id), "cache-agrees-with-mapper/first-stream")
	}
	cache.Reset(m2)
	for i := 0; i < 2; i++ {
		id := IDTypeComplex - 1 + verif.Choose("id2", 5)
		verif.Assert(cache.Lookup(id) == m2.Lookup(id), "cache-agrees-with-mapper/after-reset")
	}
	verif.Reach("end")
}
