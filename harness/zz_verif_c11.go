//go:build verif

package zed

import (
	"encoding/binary"
	"unicode/utf8"

	"github.com/brimdata/super/internal/verif"
	"github.com/brimdata/super/zcode"
)

// The type-value alphabet restricts type-value bytes to the classes that matter to the
// decoder: small counts / name lengths 0..4, eight primitive ids (uint8..uint64,
// the unimplemented uint128, int64, string, null), every complex type-value
// code 30..38, the first invalid id 39, and two high bytes (0x80: uvarint
// continuation with zero payload, 0xff: continuation with full payload /
// invalid UTF-8 / invalid id).  Without it every id byte forks into 30
// primitives and every count byte concretises into hundreds of sizes.
var vTVLetters = [20]byte{0, 1, 2, 3, 4, 9, 25, 29, 30, 31, 32, 33, 34, 35, 36, 37, 38, 39, 0x80, 0xff}

// vTVBytes returns 0..max bytes (one path per length), each an arbitrary
// letter of the alphabet.
func vTVBytes(name string, max int) []byte {
	n := verif.Choose(name+".len", max+1)
	b := make([]byte, n)
	for i := range b {
		b[i] = vTVLetters[verif.Range(name+".letter", 0, len(vTVLetters)-1)]
	}
	return b
}

// vTouchType traverses a decoded type the way consumers do (type-value
// encoding visits every node, field name and symbol).
func vTouchType(typ Type) int {
	return len(EncodeTypeValue(typ))
}

// verif:desc C11-O3a Context.LookupByValue / Context.DecodeTypeValue (DecodeName, DecodeLength, all Lookup* constructors, CompareTypes via the union sort) on an arbitrary byte string: no panic escapes; err==nil implies a non-nil type that can be traversed (re-encoded) and that a second LookupByValue of the same bytes returns again; a rejected input returns (nil, error).
// verif:bounds tv: every byte string of length 0..3 (quick) / 0..4 (thorough) over the 20-letter alphabet {0..4, 9, 25, 29, 30..39, 0x80, 0xff} (see vTVBytes); fresh context
// verif:outside other byte values (further primitive ids, larger counts; same decoder classes); longer inputs; counts near the documented maxima (see O3b)
// verif:unwind 48
func VerifH_C11_O3_typevalue_bytes() {
	n := 3
	if verif.Thorough() {
		n = 4
	}
	tv := vTVBytes("tv", n)
	c := NewContext()
	typ, err := c.LookupByValue(tv)
	if err != nil {
		verif.Assert(typ == nil, "rejected-returns-nil-type")
		verif.Reach("reject")
		return
	}
	verif.Assert(typ != nil, "accepted-type-non-nil")
	if typ == nil {
		return
	}
	verif.Assert(vTouchType(typ) > 0, "accepted-type-encodes")
	typ2, err2 := c.LookupByValue(tv)
	verif.Assert(err2 == nil && typ2 == typ, "second-lookup-same-type")
	verif.Reach("accept")
}

// verif:desc C11-O3b the element counts of record / union / enum type values and the name lengths are bounded before they are used: for ANY uvarint count (1..10 bytes, including values >= 2^63 that wrap to a negative int) DecodeTypeValue returns without a panic (no negative or oversized make, no negative slice bound).  Assertion id decode-panics/count-wraps-negative is the region count >= 2^63.
// verif:bounds kind in {record, union, enum, namedef, nameref}; count/length: any uvarint of 1..10 bytes whose value is >= 99999 (so also every value that is negative as int) (the region around MaxRecordFields/MaxUnionTypes/MaxEnumSymbols = 100000 and everything above); up to 1 trailing byte (alphabet of O3a)
// verif:outside counts below 99999 (small counts are covered by O3a)
// verif:unwind 24
func VerifH_C11_O3_typevalue_counts() {
	kind := []byte{TypeValueRecord, TypeValueUnion, TypeValueEnum, TypeValueNameDef, TypeValueNameRef}[verif.Choose("kind", 5)]
	cnt := verif.Bytes("count", 10)
	u, k := binary.Uvarint(cnt)
	verif.Assume(k == len(cnt) && k > 0)
	verif.Assume(u >= 99999)
	tail := vTVBytes("tail", 1)
	tv := append([]byte{kind}, cnt...)
	tv = append(tv, tail...)
	c := NewContext()
	var typ Type
	var rest zcode.Bytes
	panicked := true
	func() {
		defer func() { recover() }()
		typ, rest = c.DecodeTypeValue(tv)
		panicked = false
	}()
	if int(u) < 0 {
		// the uvarint does not fit an int: DecodeLength wraps it negative
		verif.Reach("negative")
		verif.Assert(!panicked, "decode-panics/count-wraps-negative")
	} else {
		verif.Assert(!panicked, "decode-panics")
	}
	if panicked {
		return
	}
	if rest == nil {
		verif.Reach("reject")
		return
	}
	// only an enum with a (wrapped) non-positive count can be accepted here
	verif.Assert(typ != nil, "accepted-type-non-nil")
	verif.Reach("accept")
}

// verif:desc C11-O3c type names in type values: a name definition whose name is not valid UTF-8 or is the name of a primitive type is rejected (LookupTypeNamed's error is not dropped), anything accepted is a usable named type carrying exactly that name, and a reference to it then resolves to the same type; no panic escapes.
// verif:bounds tv = [namedef, len, name bytes, int64] followed by [nameref, len, name bytes]; name: every byte string of length 0..2 (all 256 byte values, so "ip" and invalid UTF-8 are included)
// verif:outside longer names (the other primitive names are 4+ letters); names inside nested types
// verif:unwind 24
func VerifH_C11_O3_typevalue_names() {
	name := verif.Bytes("name", 2)
	tv := append([]byte{TypeValueNameDef, byte(len(name))}, name...)
	tv = append(tv, IDInt64)
	c := NewContext()
	typ, rest := c.DecodeTypeValue(tv)
	valid := utf8.Valid(name) && string(name) != "ip"
	if rest == nil {
		verif.Assert(!valid, "valid-name-rejected")
		verif.Reach("reject")
		return
	}
	verif.Assert(valid, "invalid-name-accepted")
	named, ok := typ.(*TypeNamed)
	verif.Assert(ok && named != nil, "accepted-is-named-type")
	if !ok || named == nil {
		return
	}
	verif.Assert(named.Name == string(name) && named.Type == TypeInt64 && len(rest) == 0, "named-type-contents")
	verif.Assert(vTouchType(typ) == len(tv), "accepted-type-encodes")
	ref := append([]byte{TypeValueNameRef, byte(len(name))}, name...)
	typ2, rest2 := c.DecodeTypeValue(ref)
	verif.Assert(rest2 != nil && typ2 == typ, "reference-resolves")
	verif.Reach("accept")
}

// vConsume does what consumers of a validated value do: a full Walk (no
// container skipped), indexing enum symbols by the selector (zson formatter,
// jsonio writer) and untagging unions (Value.Under).
func vConsume(typ Type, body zcode.Bytes) (enumInRange, tagInRange bool) {
	enumInRange, tagInRange = true, true
	_ = Walk(typ, body, func(typ Type, body zcode.Bytes) error {
		switch typ := typ.(type) {
		case *TypeEnum:
			if body != nil && DecodeUint(body) >= uint64(len(typ.Symbols)) {
				enumInRange = false
			}
		case *TypeUnion:
			if body != nil {
				it := body.Iter()
				tag := DecodeInt(it.Next())
				if tag < 0 || tag >= int64(len(typ.Types)) {
					tagInRange = false
				}
			}
		}
		return nil
	})
	return
}

// vValueTemplate builds the k-th value type template in a fresh context.
func vValueTemplate(c *Context, k int) Type {
	rec := c.MustLookupTypeRecord([]Field{{"a", TypeInt64}, {"b", TypeString}})
	switch k {
	case 0:
		return rec
	case 1:
		return c.LookupTypeArray(TypeInt64)
	case 2:
		return c.LookupTypeSet(TypeInt64)
	case 3:
		return c.LookupTypeMap(TypeString, TypeInt64)
	case 4:
		return c.LookupTypeUnion([]Type{TypeInt64, TypeString})
	case 5:
		return c.LookupTypeEnum([]string{"x", "y"})
	case 6:
		named, _ := c.LookupTypeNamed("n", c.LookupTypeArray(TypeInt64))
		return named
	case 7:
		return c.LookupTypeError(rec)
	case 8:
		return c.LookupTypeArray(c.LookupTypeUnion([]Type{TypeInt64, c.LookupTypeArray(TypeString)}))
	case 9:
		return c.MustLookupTypeRecord([]Field{{"e", c.LookupTypeEnum([]string{"x", "y"})}, {"m", c.LookupTypeMap(TypeString, TypeInt64)}})
	case 10:
		return c.LookupTypeSet(c.LookupTypeArray(TypeInt64))
	}
	panic("template")
}

const vNumValueTemplates = 11

func vValidateThenConsume(typ Type, body zcode.Bytes, setOfContainer bool) {
	val := NewValue(typ, body)
	if err := val.Validate(); err != nil {
		verif.Reach("invalid")
		return
	}
	verif.Reach("valid")
	panicked := true
	var enumOK, tagOK bool
	func() {
		defer func() { recover() }()
		enumOK, tagOK = vConsume(typ, body)
		panicked = false
	}()
	if setOfContainer {
		verif.Assert(!panicked, "validated-value-walk-panics/set-of-container")
	} else {
		verif.Assert(!panicked, "validated-value-walk-panics")
	}
	if !panicked {
		verif.Assert(enumOK, "validated-enum-selector-in-range")
		verif.Assert(tagOK, "validated-union-tag-in-range")
	}
}

// verif:desc C11-O2a zed.Value.Validate (Walk, walkRecord/Array/Set/Map/Union, checkSet, checkEnum, zcode.Iter) on an arbitrary body for each type template never lets a panic escape, and when it returns nil a full consumer traversal of the same value (zed.Walk into every container, enum symbol indexing by selector, union untagging) does not panic, every enum selector is < the number of symbols and every union tag is in range.
// verif:bounds body: every byte string of length 0..4 (quick) / 0..6 (thorough), or null; 11 type templates: {a:int64,b:string}, [int64], |[int64]|, |{string:int64}|, (int64,string), enum(x,y), n=[int64], error({a,b}), [(int64,[string])], {e:enum(x,y),m:|{string:int64}|}, |[[int64]]|
// verif:outside leaf (primitive) payload well-formedness, which Validate documents as unchecked; enum selectors wider than the body bound (see O2b)
// verif:unwind 40
func VerifH_C11_O2_validate_walk() {
	n := 4
	if verif.Thorough() {
		n = 6
	}
	k := verif.Choose("template", vNumValueTemplates)
	c := NewContext()
	typ := vValueTemplate(c, k)
	var body zcode.Bytes
	if !verif.Bool("null") {
		body = verif.Bytes("body", n)
		if body == nil {
			body = zcode.Bytes{}
		}
	}
	vValidateThenConsume(typ, body, k == 10)
	verif.Reach("end")
}

// verif:desc C11-O2b checkEnum: a validated enum value has a selector < number of symbols for EVERY selector width (DecodeUint reads up to 8 little-endian bytes; selectors >= 2^63 must not slip through a signed comparison), both as a top-level value and as a record field.
// verif:bounds enum(x,y) and {e:enum(x,y)}; selector body: any byte string of length 0..9
// verif:unwind 40
func VerifH_C11_O2_enum_selector() {
	c := NewContext()
	enum := c.LookupTypeEnum([]string{"x", "y"})
	sel := verif.Bytes("selector", 9)
	if sel == nil {
		sel = []byte{}
	}
	if verif.Choose("nested", 2) == 0 {
		vValidateThenConsume(enum, sel, false)
	} else {
		rec := c.MustLookupTypeRecord([]Field{{"e", enum}})
		vValidateThenConsume(rec, zcode.Append(nil, sel), false)
	}
	verif.Reach("end")
}
