//go:build verif

package optimizer

import (
	"github.com/brimdata/super/compiler/ast/dag"
	"github.com/brimdata/super/order"
)

// VerifRangePruner is the real maybeNewRangePruner (what Optimizer attaches as
// KeyPruner to Lister/SeqScan/Deleter), exported for the seek-index obligation
// VerifH_C16_O4_seek_ranges of package compiler/kernel, which compiles it with
// the real kernel Builder and hands it to data.LookupSeekRange.
func VerifRangePruner(pred dag.Expr, sortKeys order.SortKeys) dag.Expr {
	return maybeNewRangePruner(pred, sortKeys)
}
