//go:build verif

package optimizer

// verif:needs runtime/sam/op/sort

import (
	"context"

	"github.com/brimdata/super"
	"github.com/brimdata/super/compiler/ast/dag"
	"github.com/brimdata/super/internal/verif"
	"github.com/brimdata/super/order"
	"github.com/brimdata/super/pkg/field"
	"github.com/brimdata/super/runtime"
	"github.com/brimdata/super/runtime/sam/expr"
	"github.com/brimdata/super/runtime/sam/op/sort"
	"github.com/brimdata/super/zcode"
)

// ---------------------------------------------------------------------------
// C08: lifting a sort into parallel legs (Optimizer.liftIntoParPaths)

var v08cFields = []string{"k", "j"}

func v08cThis(i int) *dag.This {
	return &dag.This{Kind: "This", Path: field.Path{v08cFields[i]}}
}

func v08cWhich(name string) order.Which {
	return order.Which(verif.Choose(name, 2) == 1)
}

func v08cIsThis(e dag.Expr, i int) bool {
	t, ok := e.(*dag.This)
	return ok && len(t.Path) == 1 && t.Path[0] == v08cFields[i]
}

func v08cSameSort(a dag.Op, s *dag.Sort, keys []int) bool {
	c, ok := a.(*dag.Sort)
	if !ok || len(c.Args) != len(s.Args) || c.NullsFirst != s.NullsFirst || c.Reverse != s.Reverse {
		return false
	}
	for i := range c.Args {
		if !v08cIsThis(c.Args[i].Key, keys[i]) || c.Args[i].Order != s.Args[i].Order {
			return false
		}
	}
	return true
}

// v08cRec is {k:X,j:X}, X null(int64) or the int64 with the one-byte body
// [x] (x != 0: every non-zero integer of magnitude <= 127).
func v08cRec(zctx *zed.Context, null bool, x byte) zed.Value {
	var b zcode.Builder
	for range v08cFields {
		if null {
			b.Append(nil)
		} else {
			b.Append(zcode.Bytes{x})
		}
	}
	rt := zctx.MustLookupTypeRecord([]zed.Field{zed.NewField("k", zed.TypeInt64), zed.NewField("j", zed.TypeInt64)})
	return zed.NewValue(rt, b.Bytes())
}

func v08cSign(c int) int {
	switch {
	case c < 0:
		return -1
	case c > 0:
		return 1
	}
	return 0
}

// verif:desc C08-O3 real Optimizer.liftIntoParPaths (with parallelPaths, sortKeysOfSort, sortKeyOfExpr, copyOp) on [Par, egress?, Sort, Output]: (1) if the sort is NOT lifted nothing changes: the legs are untouched and the sort stays after the operator that re-joins them; (2) if it IS lifted, every leg ends in a copy of the sort (same keys, orders, nullsfirst, reverse), the legs are re-joined by a dag.Merge (not a Combine, not nothing), no sort is left downstream, the lifted sort has exactly ONE key (dag.Merge can only express one; merging on a prefix of the keys leaves ties in leg order) and the merge expression is that key; (3) the merge re-joins in the order the legs are sorted in: for two records with keys a, b the comparator kernel.Builder builds for the dag.Merge -- expr.NewComparator(nullsMax=true, SortEvaluator(expr, Order)).WithMissingAsNull(), modelled here by those very calls -- has the sign of the comparator the lifted sort operator sorts with (real sort.Op.setComparator via sort.New(keys, NullsFirst, Reverse)).
// verif:bounds Par in {dag.Scatter, dag.Fork} with 2 legs [Pass]; egress in {absent, dag.Combine, dag.Merge on this.k asc, on this.k desc, on this.j asc}; Sort with 0, 1 or 2 keys, each this.k or this.j with order asc|desc (Choose), NullsFirst and Reverse any; record keys a, b any non-zero int64 of magnitude <= 127 (symbolic one-byte body) or one of them null(int64); liftIntoParPaths handles exactly these shapes for a Sort: ops[0] Scatter|Fork, ops[1] optional Merge|Combine, then the Sort
// verif:outside key expressions that are not field references; the Summarize/Head/Tail/Cut... cases of liftIntoParPaths; parallelizeSeqScan; running the legs (goroutines); key types other than int64
func VerifH_C08_O3_lift_sort() {
	o := &Optimizer{ctx: context.Background()}
	legs := []dag.Seq{{&dag.Pass{Kind: "Pass"}}, {&dag.Pass{Kind: "Pass"}}}
	var par dag.Op
	if verif.Choose("par", 2) == 0 {
		par = &dag.Scatter{Kind: "Scatter", Paths: legs}
	} else {
		par = &dag.Fork{Kind: "Fork", Paths: legs}
	}
	var egress dag.Op
	var oldMerge *dag.Merge
	switch verif.Choose("egress", 5) {
	case 1:
		egress = &dag.Combine{Kind: "Combine"}
	case 2:
		oldMerge = &dag.Merge{Kind: "Merge", Expr: v08cThis(0), Order: order.Asc}
	case 3:
		oldMerge = &dag.Merge{Kind: "Merge", Expr: v08cThis(0), Order: order.Desc}
	case 4:
		oldMerge = &dag.Merge{Kind: "Merge", Expr: v08cThis(1), Order: order.Asc}
	}
	if oldMerge != nil {
		egress = oldMerge
	}
	nkeys := verif.Choose("nkeys", 3)
	srt := &dag.Sort{Kind: "Sort"}
	var keys []int
	for i := 0; i < nkeys; i++ {
		nm := "key" + string(rune('0'+i))
		f := verif.Choose(nm+".field", 2)
		keys = append(keys, f)
		srt.Args = append(srt.Args, dag.SortExpr{Key: v08cThis(f), Order: v08cWhich(nm + ".order")})
	}
	srt.NullsFirst = verif.Choose("nullsfirst", 2) == 1
	srt.Reverse = verif.Choose("reverse", 2) == 1
	output := &dag.Output{Kind: "Output", Name: "main"}
	ops := []dag.Op{par}
	if egress != nil {
		ops = append(ops, egress)
	}
	sortAt := len(ops)
	ops = append(ops, srt, output)
	n := len(ops)

	o.liftIntoParPaths(ops)

	paths, _ := parallelPaths(ops[0])
	verif.Assert(ops[0] == par && len(paths) == 2 && len(ops) == n && ops[n-1] == dag.Op(output), "frame-kept")
	lifted := len(paths[0]) > 1 || len(paths[1]) > 1
	if !lifted {
		verif.Reach("not-lifted")
		verif.Assert(ops[sortAt] == dag.Op(srt), "unlifted-sort-stays-after-the-legs")
		if egress != nil {
			verif.Assert(ops[1] == egress, "unlifted-egress-unchanged")
		}
		verif.Reach("end")
		return
	}
	verif.Reach("lifted")
	for k := range paths {
		verif.Assert(len(paths[k]) == 2, "each-leg-gets-exactly-the-sort")
		if len(paths[k]) == 2 {
			verif.Assert(v08cSameSort(paths[k][1], srt, keys), "leg-sort-is-a-copy-of-the-sort")
			verif.Assert(paths[k][1] != dag.Op(srt), "leg-sort-is-a-copy-of-the-sort")
		}
	}
	for _, op := range ops[1:] {
		_, isSort := op.(*dag.Sort)
		verif.Assert(!isSort, "lifted-sort-removed-downstream")
	}
	m, isMerge := ops[1].(*dag.Merge)
	verif.Assert(isMerge, "lifted-legs-rejoined-by-merge")
	if !isMerge {
		return
	}
	for _, op := range ops[2 : n-1] {
		_, isPass := op.(*dag.Pass)
		verif.Assert(isPass, "only-pass-between-merge-and-output")
	}
	verif.Assert(nkeys == 1, "lifted-sort-merged-on-all-its-keys")
	if nkeys != 1 {
		return
	}
	verif.Assert(v08cIsThis(m.Expr, keys[0]), "merge-expression-is-the-sort-key")
	if !v08cIsThis(m.Expr, keys[0]) {
		return
	}
	created := m != oldMerge
	if created {
		verif.Reach("merge-created")
	} else {
		verif.Reach("merge-reused")
	}

	// (3) the merge order is the order the legs are sorted in
	zctx := zed.NewContext()
	nulls := verif.Choose("nulls", 3) // 0 none, 1 a null, 2 b null
	a, b := verif.Byte("a"), verif.Byte("b")
	verif.Assume(a != 0 && b != 0)
	ra, rb := v08cRec(zctx, nulls == 1, a), v08cRec(zctx, nulls == 2, b)
	keyEval := func(i int) expr.Evaluator { return expr.NewDottedExpr(zctx, field.Path{v08cFields[i]}) }
	// kernel.Builder.compile, case *dag.Merge
	mergeCmp := expr.NewComparator(true, expr.NewSortEvaluator(keyEval(keys[0]), m.Order)).WithMissingAsNull()
	// kernel.Builder.compileLeaf, case *dag.Sort
	leg := paths[0][1].(*dag.Sort)
	sop := sort.New(runtime.NewContext(context.Background(), zctx), nil,
		[]expr.SortEvaluator{expr.NewSortEvaluator(keyEval(keys[0]), leg.Args[0].Order)}, leg.NullsFirst, leg.Reverse, expr.Resetters{})
	sortCmp := sort.VerifComparator(sop, ra)
	ms, ss := v08cSign(mergeCmp.Compare(ra, rb)), v08cSign(sortCmp.Compare(ra, rb))
	verif.Observe("mergeSign", ms)
	verif.Observe("sortSign", ss)
	effDesc := (srt.Args[0].Order == order.Desc) != srt.Reverse
	id := "merge-order-is-leg-sort-order"
	switch {
	case created && srt.Reverse:
		// region: the merge is built from Args[0].Order, the sort's
		// reverse flag is not taken into account
		id += "/reverse-flag-dropped"
	case nulls != 0 && srt.NullsFirst && !effDesc:
		// region: ascending sort with nulls first, merge puts nulls last
		id += "/null-key/nulls-first"
	case nulls != 0 && !srt.NullsFirst && effDesc:
		// region: descending sort (nulls last), merge puts nulls first
		id += "/null-key/descending-nulls-last"
	}
	verif.Assert(ms == ss, id)
	verif.Reach("end")
}
