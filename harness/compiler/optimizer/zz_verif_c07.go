//go:build verif

package optimizer

import (
	"context"

	"github.com/brimdata/super"
	"github.com/brimdata/super/compiler/ast/dag"
	"github.com/brimdata/super/internal/verif"
	"github.com/brimdata/super/order"
	"github.com/brimdata/super/pkg/field"
	"github.com/brimdata/super/runtime/sam/expr"
	"github.com/brimdata/super/runtime/sam/op"
	"github.com/brimdata/super/zbuf"
)

// ---------------------------------------------------------------------------
// C07: rewrite-local lemmas of the optimizer.  Predicates are opaque leaves
// (dag.Call "A", "B", ...) whose outcome on a value is chosen by the checker.
// ---------------------------------------------------------------------------

// outcome classes of an opaque predicate
const (
	v07True    = iota // true
	v07False          // false
	v07Null           // null(bool)
	v07Missing        // error("missing")
	v07Quiet          // error("quiet")
	v07Err            // any other error value
	v07NonBool        // a value that is not a Boolean (EvalBool wraps it into an error)
	v07N
	v07NamedTrue = v07N // true of a named type whose underlying type is bool (only where asked for)
)

// v07Leaf is the evaluator of an opaque predicate: the first time it is
// evaluated on an ordinary value / on an error value its outcome class is
// chosen (one path per class) and then stays fixed, so that the two plans
// being compared see the same predicate.
type v07Leaf struct {
	name      string
	zctx      *zed.Context
	memo      map[bool]int
	sawErrors bool // evaluated at least once on an error value
	withNamed bool // also choose among named-bool true
}

func (l *v07Leaf) Eval(_ expr.Context, this zed.Value) zed.Value {
	onErr := this.IsError()
	if onErr {
		l.sawErrors = true
	}
	oc, ok := l.memo[onErr]
	if !ok {
		name := l.name
		if onErr {
			name += ".on-error-input"
		}
		n := v07N
		if l.withNamed {
			n++
		}
		oc = verif.Choose(name, n)
		l.memo[onErr] = oc
	}
	switch oc {
	case v07NamedTrue:
		named, err := l.zctx.LookupTypeNamed("mybool", zed.TypeBool)
		if err != nil {
			panic(err)
		}
		return zed.NewValue(named, zed.EncodeBool(true))
	case v07True:
		return zed.True
	case v07False:
		return zed.False
	case v07Null:
		return zed.NullBool
	case v07Missing:
		return l.zctx.Missing()
	case v07Quiet:
		return l.zctx.Quiet()
	case v07Err:
		return zed.NewValue(l.zctx.StringTypeError(), []byte("failed: "+l.name))
	}
	return zed.NewInt64(7)
}

func v07Call(name string) *dag.Call { return &dag.Call{Kind: "Call", Name: name} }

// v07Leaves returns the opaque leaf names of a merged filter expression in
// evaluation order and asserts that only "and" joins them.
func v07Leaves(e dag.Expr, out []string) []string {
	switch e := e.(type) {
	case *dag.Call:
		return append(out, e.Name)
	case *dag.BinaryExpr:
		verif.Assert(e.Op == "and" && e.Kind == "BinaryExpr", "merged-filter-joined-by-and")
		out = v07Leaves(e.LHS, out)
		return v07Leaves(e.RHS, out)
	}
	verif.Assert(false, "merged-filter-unexpected-node")
	return out
}

// v07Compile mirrors kernel.compileExpr for the two node kinds that occur:
// "and" -> the real expr.NewLogicalAnd, opaque call -> its leaf.
func v07Compile(zctx *zed.Context, e dag.Expr, leaves map[string]*v07Leaf) expr.Evaluator {
	switch e := e.(type) {
	case *dag.Call:
		return leaves[e.Name]
	case *dag.BinaryExpr:
		return expr.NewLogicalAnd(zctx, v07Compile(zctx, e.LHS, leaves), v07Compile(zctx, e.RHS, leaves))
	}
	panic("v07Compile")
}

type v07Src struct {
	val  zed.Value
	done bool
}

func (s *v07Src) Pull(bool) (zbuf.Batch, error) {
	if s.done {
		return nil, nil
	}
	s.done = true
	return zbuf.NewArray([]zed.Value{s.val}), nil
}

// v07Run pushes one value through a chain of real filter operators
// (op.applier over expr.filterApplier, exactly what kernel builds for
// dag.Filter) and returns what comes out.
func v07Run(zctx *zed.Context, preds []expr.Evaluator, val zed.Value) []zed.Value {
	var p zbuf.Puller = &v07Src{val: val}
	for _, e := range preds {
		p = op.NewApplier(nil, p, expr.NewFilterApplier(zctx, e), expr.Resetters{})
	}
	var out []zed.Value
	for {
		b, err := p.Pull(false)
		verif.Assert(err == nil, "filter-chain-no-error")
		if b == nil {
			return out
		}
		out = append(out, b.Values()...)
	}
}

func v07SameValues(a, b []zed.Value) bool {
	if len(a) != len(b) {
		return false
	}
	for i := range a {
		if !a[i].Equal(b[i]) {
			return false
		}
	}
	return true
}

// v07CheckRun compares, on one input value, the chain of filters `names`
// applied in sequence with the single merged filter `merged`.
func v07CheckRun(names []string, merged dag.Expr) {
	zctx := zed.NewContext()
	leaves := map[string]*v07Leaf{}
	var seqPreds []expr.Evaluator
	for _, n := range names {
		l := &v07Leaf{name: n, zctx: zctx, memo: map[bool]int{}}
		leaves[n] = l
		seqPreds = append(seqPreds, l)
	}
	val := zed.NewInt64(42)
	seqOut := v07Run(zctx, seqPreds, val)
	errorFedToFilter := false
	for _, l := range leaves {
		errorFedToFilter = errorFedToFilter || l.sawErrors
	}
	mergedOut := v07Run(zctx, []expr.Evaluator{v07Compile(zctx, merged, leaves)}, val)
	// the lemma of DESIGN C07-O1: the value passes (unchanged) the merged
	// filter iff it passes every filter of the chain
	passSeq := len(seqOut) == 1 && seqOut[0].Equal(val)
	passMerged := len(mergedOut) == 1 && mergedOut[0].Equal(val)
	verif.Assert(passSeq == passMerged, "value-passes-merged-iff-passes-chain")
	allTrue := true
	for _, l := range leaves {
		oc, ok := l.memo[false]
		allTrue = allTrue && ok && oc == v07True
	}
	verif.Assert(passSeq == allTrue, "chain-passes-iff-all-true")
	// full output equality (the property as stated).  When an earlier filter
	// of the chain yields a non-missing error, the real filter operator emits
	// that error value and the next filter is evaluated ON THE ERROR VALUE,
	// whereas the merged `and` never evaluates its right operand: a separate id.
	if errorFedToFilter {
		verif.Assert(v07SameValues(seqOut, mergedOut), "same-output/error-value-fed-to-later-filter")
		verif.Reach("error-fed-to-later-filter")
	} else {
		verif.Assert(v07SameValues(seqOut, mergedOut), "same-output")
	}
	if passSeq {
		verif.Reach("value-passes")
	}
	if len(seqOut) == 0 {
		verif.Reach("value-dropped")
	}
}

// verif:desc C07-O1 optimizer.mergeFilters on [Filter A, Filter B] (optionally surrounded by other operators) yields ONE filter whose expression joins A and B by "and" in chain order and keeps the other operators in place; then, with A and B opaque predicates whose outcome is any of {true,false,null,missing,quiet,error,non-bool} (separately for an ordinary input and for an error-valued input), the real filter operator chain (op.applier+expr.filterApplier) over A then B emits exactly what the real merged filter over expr.And(A,B) emits.
// verif:bounds 2 filters; 7 outcome classes per predicate and input kind; one input value; templates: bare, with a leading and a trailing non-filter operator
// verif:outside predicates with side effects; batches of more than one value; id same-output/error-value-fed-to-later-filter is the region where the chain feeds an emitted error value into the next filter
func VerifH_C07_O1_merge2() {
	a, b := v07Call("A"), v07Call("B")
	fa, fb := dag.NewFilter(a), dag.NewFilter(b)
	x := &dag.Sort{Kind: "Sort"}
	y := &dag.Head{Kind: "Head", Count: 1}
	var seq dag.Seq
	tmpl := verif.Choose("template", 2)
	if tmpl == 0 {
		seq = dag.Seq{fa, fb}
	} else {
		seq = dag.Seq{x, fa, fb, y}
	}
	out := mergeFilters(seq)
	var f *dag.Filter
	if tmpl == 0 {
		verif.Assert(len(out) == 1, "merged-length")
		f, _ = out[0].(*dag.Filter)
	} else {
		verif.Assert(len(out) == 3, "merged-length")
		verif.Assert(out[0] == dag.Op(x) && out[2] == dag.Op(y), "other-operators-kept-in-place")
		f, _ = out[1].(*dag.Filter)
	}
	verif.Assert(f != nil, "merged-op-is-filter")
	names := v07Leaves(f.Expr, nil)
	verif.Assert(len(names) == 2 && names[0] == "A" && names[1] == "B", "merged-leaves-in-chain-order")
	be, _ := f.Expr.(*dag.BinaryExpr)
	verif.Assert(be != nil && be.LHS == dag.Expr(a) && be.RHS == dag.Expr(b), "merged-is-and-A-B")
	v07CheckRun([]string{"A", "B"}, f.Expr)
	verif.Reach("end")
}

// verif:desc C07-O1 (three filters) mergeFilters on [Filter A, Filter B, Filter C] yields one filter whose "and" tree has leaves A,B,C in order, and the real operator chain equals the real merged filter on every outcome combination.
// verif:bounds 3 filters; 7 outcome classes per predicate and input kind; one input value
// verif:outside as merge2
func VerifH_C07_O1_merge3() {
	fa, fb, fc := dag.NewFilter(v07Call("A")), dag.NewFilter(v07Call("B")), dag.NewFilter(v07Call("C"))
	out := mergeFilters(dag.Seq{fa, fb, fc})
	verif.Assert(len(out) == 1, "merged-length")
	f, _ := out[0].(*dag.Filter)
	verif.Assert(f != nil, "merged-op-is-filter")
	names := v07Leaves(f.Expr, nil)
	verif.Assert(len(names) == 3 && names[0] == "A" && names[1] == "B" && names[2] == "C", "merged-leaves-in-chain-order")
	v07CheckRun([]string{"A", "B", "C"}, f.Expr)
	verif.Reach("end")
}

// verif:desc C07-O1 (structure) mergeFilters only merges ADJACENT filters, and also inside fork paths: [Filter A, Sort, Filter B] is left alone; fork(=>[Filter A, Filter B] =>[Filter C, Head, Filter D]) becomes fork(=>[Filter and(A,B)] =>[Filter C, Head, Filter D]).
// verif:bounds the two templates named
func VerifH_C07_O1_merge_structure() {
	a, b, c, d := v07Call("A"), v07Call("B"), v07Call("C"), v07Call("D")
	fa, fb, fc, fd := dag.NewFilter(a), dag.NewFilter(b), dag.NewFilter(c), dag.NewFilter(d)
	x := &dag.Sort{Kind: "Sort"}
	h := &dag.Head{Kind: "Head", Count: 1}
	if verif.Choose("template", 2) == 0 {
		out := mergeFilters(dag.Seq{fa, x, fb})
		verif.Assert(len(out) == 3 && out[0] == dag.Op(fa) && out[1] == dag.Op(x) && out[2] == dag.Op(fb), "non-adjacent-filters-untouched")
		verif.Assert(fa.Expr == dag.Expr(a) && fb.Expr == dag.Expr(b), "non-adjacent-filter-exprs-untouched")
	} else {
		fork := &dag.Fork{Kind: "Fork", Paths: []dag.Seq{{fa, fb}, {fc, h, fd}}}
		out := mergeFilters(dag.Seq{fork})
		verif.Assert(len(out) == 1 && out[0] == dag.Op(fork) && len(fork.Paths) == 2, "fork-kept")
		p0, p1 := fork.Paths[0], fork.Paths[1]
		verif.Assert(len(p0) == 1, "fork-path-merged")
		f, _ := p0[0].(*dag.Filter)
		verif.Assert(f != nil, "merged-op-is-filter")
		names := v07Leaves(f.Expr, nil)
		verif.Assert(len(names) == 2 && names[0] == "A" && names[1] == "B", "merged-leaves-in-chain-order")
		verif.Assert(len(p1) == 3 && p1[0] == dag.Op(fc) && p1[1] == dag.Op(h) && p1[2] == dag.Op(fd), "non-adjacent-filters-untouched")
		verif.Assert(fc.Expr == dag.Expr(c) && fd.Expr == dag.Expr(d), "non-adjacent-filter-exprs-untouched")
	}
	verif.Reach("end")
}

// ---- O3 (semantic half): a filter evaluated inside the scanner vs the filter operator ----

type v07Reader struct {
	val  zed.Value
	done bool
}

func (r *v07Reader) Read() (*zed.Value, error) {
	if r.done {
		return nil, nil
	}
	r.done = true
	return &r.val, nil
}

type v07Pushdown struct{ e expr.Evaluator }

func (f *v07Pushdown) AsEvaluator() (expr.Evaluator, error)           { return f.e, nil }
func (f *v07Pushdown) AsBufferFilter() (*expr.BufferFilter, error) { return nil, nil }

func v07Drain(p zbuf.Puller) []zed.Value {
	var out []zed.Value
	for {
		b, err := p.Pull(false)
		verif.Assert(err == nil, "plan-no-error")
		if b == nil {
			return out
		}
		out = append(out, b.Values()...)
	}
}

// verif:desc C07-O3 (semantic half) the plan after push-down, a scan with the predicate A evaluated inside the real generic scanner (zbuf.NewScanner: `val.Type()==TypeBool && val.Bool()`, the same test as zngio.check), emits exactly what the plan before push-down emits, a plain scan followed by the real filter operator (op.applier+expr.filterApplier) over A, for every outcome class of A in {true,false,null,missing,quiet,error,non-bool,true of a named bool type}.
// verif:bounds one input value; 8 outcome classes; ids: same-output (A yields a Boolean or missing/quiet), same-output/predicate-yields-error (A yields another error or a non-Boolean: the filter operator emits the error value, the scanner drops the input), same-output/named-bool (the scanner compares the type with TypeBool itself, the operator looks under the named type)
// verif:outside the zngio scanner's own copy of the test (zngio.check, same expression) and its buffer filter; batches of several values
func VerifH_C07_O3_scanfilter_vs_filterop() {
	zctx := zed.NewContext()
	a := &v07Leaf{name: "A", zctx: zctx, memo: map[bool]int{}, withNamed: true}
	val := zed.NewInt64(42)
	ctx := context.Background()
	plain, err := zbuf.NewScanner(ctx, &v07Reader{val: val}, nil)
	verif.Assert(err == nil, "plan-no-error")
	before := v07Drain(op.NewApplier(nil, plain, expr.NewFilterApplier(zctx, a), expr.Resetters{}))
	pushed, err := zbuf.NewScanner(ctx, &v07Reader{val: val}, &v07Pushdown{a})
	verif.Assert(err == nil, "plan-no-error")
	after := v07Drain(pushed)
	switch a.memo[false] {
	case v07Err, v07NonBool:
		verif.Assert(v07SameValues(before, after), "same-output/predicate-yields-error")
		verif.Reach("predicate-yields-error")
	case v07NamedTrue:
		verif.Assert(v07SameValues(before, after), "same-output/named-bool")
		verif.Reach("named-bool")
	default:
		verif.Assert(v07SameValues(before, after), "same-output")
		verif.Reach("boolean-or-missing")
	}
	verif.Reach("end")
}

// ---- O2: pass removal ----

// v07OpSeq builds a sequence of n operators, each chosen among {the shared
// dag.PassOp, a fresh *dag.Pass, Sort, Head}, and returns it with the list of
// non-pass operators in order.
func v07OpSeq(name string, maxLen int) (dag.Seq, []dag.Op) {
	n := verif.Choose(name+".len", maxLen+1)
	var seq dag.Seq
	var keep []dag.Op
	for i := 0; i < n; i++ {
		var o dag.Op
		switch verif.Choose(name+".op", 4) {
		case 0:
			o = dag.PassOp
		case 1:
			o = &dag.Pass{Kind: "Pass"}
		case 2:
			o = &dag.Sort{Kind: "Sort"}
			keep = append(keep, o)
		default:
			o = &dag.Head{Kind: "Head", Count: i + 1}
			keep = append(keep, o)
		}
		seq = append(seq, o)
	}
	return seq, keep
}

func v07CheckPassRemoved(out dag.Seq, keep []dag.Op) {
	verif.Assert(len(out) > 0, "path-never-empty")
	if len(keep) == 0 {
		ok := len(out) == 1
		if ok {
			_, ok = out[0].(*dag.Pass)
		}
		verif.Assert(ok, "all-pass-path-becomes-single-pass")
		verif.Reach("all-pass")
		return
	}
	verif.Assert(len(out) == len(keep), "only-pass-ops-removed")
	if len(out) == len(keep) {
		for i := range keep {
			verif.Assert(out[i] == keep[i], "other-operators-kept-in-order")
		}
	}
	verif.Reach("kept-some")
}

// verif:desc C07-O2 optimizer.removePassOps on a sequence of up to 3 operators drawn from {pass (shared and fresh), sort, head}: the result is never empty, contains exactly the non-pass operators in their original order (same objects), and is a single pass when nothing else is left.
// verif:bounds sequence length 0..3, 4 operator kinds per position (all 85 sequences)
// verif:outside operators other than sort/head as the non-pass operators (removePassOps only type-tests for *dag.Pass)
func VerifH_C07_O2_removepass_flat() {
	seq, keep := v07OpSeq("s", 3)
	out := removePassOps(seq)
	v07CheckPassRemoved(out, keep)
	verif.Reach("end")
}

// verif:desc C07-O2 (nested) removePassOps inside fork paths and an over body: [Fork{p0,p1}, Over{body}] with each of p0,p1,body a sequence of up to 2 operators: every path is non-empty afterwards and keeps its non-pass operators in order; the outer sequence keeps Fork and Over.
// verif:bounds three nested sequences of length 0..2 over 4 operator kinds (21^3 combinations)
func VerifH_C07_O2_removepass_nested() {
	p0, k0 := v07OpSeq("p0", 2)
	p1, k1 := v07OpSeq("p1", 2)
	body, kb := v07OpSeq("body", 2)
	fork := &dag.Fork{Kind: "Fork", Paths: []dag.Seq{p0, p1}}
	over := &dag.Over{Kind: "Over", Body: body}
	out := removePassOps(dag.Seq{fork, dag.PassOp, over})
	verif.Assert(len(out) == 2 && out[0] == dag.Op(fork) && out[1] == dag.Op(over), "outer-sequence-keeps-fork-and-over")
	verif.Assert(len(fork.Paths) == 2, "fork-keeps-its-paths")
	v07CheckPassRemoved(fork.Paths[0], k0)
	v07CheckPassRemoved(fork.Paths[1], k1)
	if len(body) == 0 {
		// walk() leaves a nil Over body alone (Body == nil means "no body")
		verif.Assert(len(over.Body) == 0, "nil-over-body-untouched")
	} else {
		v07CheckPassRemoved(over.Body, kb)
	}
	verif.Reach("end")
}

// ---- O3: source filter push-down ----

// verif:desc C07-O3 matchFilter + Optimizer.optimizeSourcePaths on [DefaultScan|FileScan, Filter A?, X, Y?]: when the operator right after the scan is a filter its expression (the same object) becomes the scan's Filter and the filter operator is removed; every other operator stays, in order; when the first operator is not a filter (or there is none) the scan's Filter is nil and the chain is unchanged; a second, non-leading filter is never lifted.
// verif:bounds source kind in {DefaultScan, FileScan}; 5 chain templates: [], [F(A)], [F(A),Sort,Head], [Sort,F(A)], [F(A),Sort,F(B)]; scan sort keys nil or {k asc}
// verif:outside pool scans (need a lake); what the scan does with the filter (see VerifH_C07_O3_scanfilter_vs_filterop)
func VerifH_C07_O3_pushdown() {
	a, b := v07Call("A"), v07Call("B")
	fa, fb := dag.NewFilter(a), dag.NewFilter(b)
	x := &dag.Sort{Kind: "Sort", Args: []dag.SortExpr{{Key: &dag.This{Kind: "This", Path: field.Path{"k"}}, Order: order.Asc}}}
	h := &dag.Head{Kind: "Head", Count: 1}
	var sortKeys order.SortKeys
	if verif.Choose("sorted-source", 2) == 1 {
		sortKeys = order.SortKeys{order.NewSortKey(order.Asc, field.Path{"k"})}
	}
	var src dag.Op
	var ds *dag.DefaultScan
	var fs *dag.FileScan
	// a stale filter on the scan must be overwritten, not kept
	stale := v07Call("STALE")
	if verif.Choose("source", 2) == 0 {
		ds = &dag.DefaultScan{Kind: "DefaultScan", SortKeys: sortKeys, Filter: stale}
		src = ds
	} else {
		fs = &dag.FileScan{Kind: "FileScan", Path: "f.zng", SortKeys: sortKeys, Filter: stale}
		src = fs
	}
	var chain []dag.Op
	var wantFilter dag.Expr
	var wantRest []dag.Op
	tmpl := verif.Choose("chain", 5)
	switch tmpl {
	case 0:
		// nothing to push down: optimizeSourcePaths returns early and leaves
		// the scan exactly as it is
		wantFilter = stale
	case 1:
		chain, wantFilter = []dag.Op{fa}, a
	case 2:
		chain, wantFilter, wantRest = []dag.Op{fa, x, h}, a, []dag.Op{x, h}
	case 3:
		chain, wantRest = []dag.Op{x, fa}, []dag.Op{x, fa}
	case 4:
		chain, wantFilter, wantRest = []dag.Op{fa, x, fb}, a, []dag.Op{x, fb}
	}
	// matchFilter by itself
	mf, mrest := matchFilter(chain)
	if tmpl != 0 {
		verif.Assert(mf == wantFilter, "matchFilter-returns-leading-filter-expr")
	} else {
		verif.Assert(mf == nil, "matchFilter-returns-leading-filter-expr")
	}
	verif.Assert(len(mrest) == len(wantRest), "matchFilter-keeps-rest")
	if len(mrest) == len(wantRest) {
		for i := range wantRest {
			verif.Assert(mrest[i] == wantRest[i], "matchFilter-keeps-rest")
		}
	}
	o := &Optimizer{ctx: context.Background()}
	seq := append(dag.Seq{src}, chain...)
	out, err := o.optimizeSourcePaths(seq)
	verif.Assert(err == nil, "pushdown-no-error")
	verif.Assert(len(out) == 1+len(wantRest), "chain-keeps-the-other-operators")
	if err == nil && len(out) == 1+len(wantRest) {
		verif.Assert(out[0] == src, "source-stays-first")
		for i := range wantRest {
			verif.Assert(out[1+i] == wantRest[i], "chain-keeps-the-other-operators")
		}
	}
	var got dag.Expr
	if ds != nil {
		got = ds.Filter
	} else {
		got = fs.Filter
	}
	verif.Assert(got == wantFilter, "filter-moved-into-scan-unchanged")
	verif.Assert(fa.Expr == dag.Expr(a) && fb.Expr == dag.Expr(b), "filter-exprs-not-rewritten")
	if wantFilter != nil && tmpl != 0 {
		verif.Reach("pushed-down")
	} else {
		verif.Reach("nothing-pushed")
	}
	verif.Reach("end")
}
