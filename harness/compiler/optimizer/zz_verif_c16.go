//go:build verif

package optimizer

import (
	"github.com/brimdata/super"
	"github.com/brimdata/super/compiler/ast/dag"
	"github.com/brimdata/super/internal/verif"
	"github.com/brimdata/super/order"
	"github.com/brimdata/super/pkg/field"
	"github.com/brimdata/super/runtime/sam/expr"
)

// A symbolic key-like value: int64 or null.
type vKey struct {
	null bool
	v    int64
}

func (k vKey) val() zed.Value {
	if k.null {
		return zed.NullInt64
	}
	return zed.NewInt64(k.v)
}

func vSymKey(name string) vKey {
	return vKey{null: verif.Bool(name + ".null"), v: verif.Int64(name)}
}

type vLeaf struct {
	unknown bool // non-key predicate: truth is arbitrary
	truth   bool // for unknown leaves
	op      string
	lit     int64
}

var vOps = []string{"==", "<", "<=", ">", ">="}

// vMkLeaf builds one comparison leaf `key op LIT` / `LIT op key` / an opaque
// non-key predicate, choosing op and orientation symbolically.
func vMkLeaf(name string, lits map[string]int64) (dag.Expr, vLeaf) {
	k := verif.Choose(name+".kind", 2*len(vOps)+1)
	if k == 2*len(vOps) {
		// a predicate the pruner knows nothing about
		return &dag.Call{Kind: "Call", Name: "opaque_" + name}, vLeaf{unknown: true, truth: verif.Bool(name + ".truth")}
	}
	op := vOps[k%len(vOps)]
	lit := verif.Int64(name + ".lit")
	litName := "LIT_" + name
	lits[litName] = lit
	this := &dag.This{Kind: "This", Path: field.Path{"k"}}
	l := &dag.Literal{Kind: "Literal", Value: litName}
	if k < len(vOps) {
		// key op LIT
		return dag.NewBinaryExpr(op, this, l), vLeaf{op: op, lit: lit}
	}
	// LIT op key  ==  key mirror(op) LIT
	mirror := map[string]string{"==": "==", "<": ">", "<=": ">=", ">": "<", ">=": "<="}[op]
	return dag.NewBinaryExpr(op, l, this), vLeaf{op: mirror, lit: lit}
}

// truth of `key op lit` as the filter evaluates it: comparisons with a null
// key are not true.
func (l vLeaf) eval(key vKey) bool {
	if l.unknown {
		return l.truth
	}
	if key.null {
		return false
	}
	switch l.op {
	case "==":
		return key.v == l.lit
	case "<":
		return key.v < l.lit
	case "<=":
		return key.v <= l.lit
	case ">":
		return key.v > l.lit
	case ">=":
		return key.v >= l.lit
	}
	panic("op")
}

// vEvalPruner interprets the DAG produced by buildRangePruner: comparisons of
// compare(x, y, nullsMax=true) against 0, joined by and/or.  compare() is the
// real value comparator (expr.NewValueCompareFn), as function.Compare uses.
func vEvalPruner(e dag.Expr, min, max vKey, lits map[string]int64, cmp expr.CompareFn) bool {
	b := e.(*dag.BinaryExpr)
	switch b.Op {
	case "and":
		return vEvalPruner(b.LHS, min, max, lits, cmp) && vEvalPruner(b.RHS, min, max, lits, cmp)
	case "or":
		return vEvalPruner(b.LHS, min, max, lits, cmp) || vEvalPruner(b.RHS, min, max, lits, cmp)
	}
	call := b.LHS.(*dag.Call)
	verif.Assert(call.Name == "compare" && len(call.Args) == 3, "pruner-shape")
	verif.Assert(b.RHS.(*dag.Literal).Value == "0", "pruner-shape-zero")
	arg := func(a dag.Expr) zed.Value {
		switch a := a.(type) {
		case *dag.This:
			if a.Path[0] == "min" {
				return min.val()
			}
			return max.val()
		case *dag.Literal:
			return zed.NewInt64(lits[a.Value])
		}
		panic("arg")
	}
	x, y := arg(call.Args[0]), arg(call.Args[1])
	c := verif.MergeInt(func() int { return cmp(x, y) })
	switch b.Op {
	case "==":
		return c == 0
	case "<":
		return c < 0
	case "<=":
		return c <= 0
	case ">":
		return c > 0
	case ">=":
		return c >= 0
	}
	panic("pruner op " + b.Op)
}

func vCheckPruner(pred dag.Expr, truth func(vKey) bool, lits map[string]int64) {
	sortKeys := order.SortKeys{order.NewSortKey(order.Asc, field.Path{"k"})}
	pruner := maybeNewRangePruner(pred, sortKeys)
	if pruner == nil {
		verif.Reach("no-pruner")
		return
	}
	key, min, max := vSymKey("key"), vSymKey("min"), vSymKey("max")
	cmp := expr.NewValueCompareFn(order.Asc, true)
	// the object's bounds really bound the key (nulls are the largest key)
	lo := verif.MergeInt(func() int { return cmp(min.val(), key.val()) })
	hi := verif.MergeInt(func() int { return cmp(key.val(), max.val()) })
	verif.Assume(lo <= 0 && hi <= 0)
	pruned := vEvalPruner(pruner, min, max, lits, cmp)
	if truth(key) {
		verif.Assert(!pruned, "pruned-a-matching-key")
	}
	verif.Reach("pruner")
}

// verif:desc C16-O1 the pruner synthesized by buildRangePruner/rangePrunerPred/literalComparison/reverseComparator/compare for a single comparison `key op LIT` or `LIT op key` (op in ==,<,<=,>,>=) never prunes an object [min,max] that contains a key for which the predicate is true.
// verif:bounds key,min,max: any int64 or null with min<=key<=max under the real nulls-max comparator; LIT any int64; 5 ops x 2 orientations (one path each)
// verif:outside key types other than int64/null; literal null; seek-index I/O
func VerifH_C16_O1_single() {
	lits := map[string]int64{}
	e, l := vMkLeaf("a", lits)
	vCheckPruner(e, l.eval, lits)
}

// verif:desc C16-O1b and/or combinations of two leaves (each a key comparison in either orientation or an opaque non-key predicate): and -> or of pruners, or -> and, unknown side handled soundly.
// verif:bounds as O1, two leaves, connective in {and, or}
func VerifH_C16_O1_binary() {
	lits := map[string]int64{}
	ea, la := vMkLeaf("a", lits)
	eb, lb := vMkLeaf("b", lits)
	if verif.Choose("conn", 2) == 0 {
		vCheckPruner(dag.NewBinaryExpr("and", ea, eb), func(k vKey) bool { return la.eval(k) && lb.eval(k) }, lits)
	} else {
		vCheckPruner(dag.NewBinaryExpr("or", ea, eb), func(k vKey) bool { return la.eval(k) || lb.eval(k) }, lits)
	}
}
