//go:build verif

package optimizer

// verif:needs runtime/sam/op/sort

import (
	"context"
	"strings"

	"github.com/brimdata/super"
	"github.com/brimdata/super/compiler/ast/dag"
	"github.com/brimdata/super/internal/verif"
	"github.com/brimdata/super/order"
	"github.com/brimdata/super/pkg/field"
	"github.com/brimdata/super/runtime"
	"github.com/brimdata/super/runtime/sam/expr"
	"github.com/brimdata/super/runtime/sam/op/sort"
	"github.com/brimdata/super/zcode"
)

// ---------------------------------------------------------------------------
// C07-O5: sort-key propagation (Optimizer.propagateSortKey and friends).
//
// The optimizer's claim "the input of this summarize/join is ordered by key K
// in direction D" is compared with an abstract interpretation of the operator
// chain written here: for every field path the state says
//     Sorted(dir, nullsMax)  every record stream reaching this point is ordered
//                            on the path in that direction, nulls placed as the
//                            largest value (what groupby/merge/join compare with)
//     Absent                 no record has the path (every claim holds vacuously)
//     Unknown                anything else (with the reason the fact was lost)
// and each template operator transforms that state according to its semantics.
// A claim is justified iff the state of the path the key expression reads is
// Sorted in the claimed direction with nulls as the maximum, or Absent.
// ---------------------------------------------------------------------------

const (
	v07dUnknown = iota
	v07dAbsent
	v07dSorted
)

type v07dFact struct {
	dir      int  // +1 ascending, -1 descending
	nullsMax bool // nulls placed as the largest value (last asc, first desc)
}

type v07dState struct {
	sorted map[string]v07dFact
	absent map[string]bool   // the whole subtree of the path is absent
	only   map[string]bool   // non-nil: top-level fields not listed are absent
	why    map[string]string // why a path lost its Sorted fact
}

func v07dNewState() *v07dState {
	return &v07dState{sorted: map[string]v07dFact{}, absent: map[string]bool{}, why: map[string]string{}}
}

func v07dKey(p field.Path) string { return strings.Join(p, ".") }

func v07dTop(p string) string {
	if i := strings.IndexByte(p, '.'); i >= 0 {
		return p[:i]
	}
	return p
}

// v07dUnder reports whether q is p or a path below p.
func v07dUnder(q, p string) bool { return q == p || strings.HasPrefix(q, p+".") }

func v07dKeys[V any](m map[string]V) []string {
	var out []string
	for k := range m {
		out = append(out, k)
	}
	return out
}

func (s *v07dState) lookup(p string) (int, v07dFact, string) {
	if s.only != nil && !s.only[v07dTop(p)] {
		return v07dAbsent, v07dFact{}, ""
	}
	for _, q := range v07dKeys(s.absent) {
		if v07dUnder(p, q) {
			return v07dAbsent, v07dFact{}, ""
		}
	}
	if f, ok := s.sorted[p]; ok {
		return v07dSorted, f, ""
	}
	if w, ok := s.why[p]; ok {
		return v07dUnknown, v07dFact{}, w
	}
	return v07dUnknown, v07dFact{}, "never-sorted"
}

// assigned: path p gets a new value of unknown order.
func (s *v07dState) assigned(p, reason string) {
	s.why[p] = reason
	for _, q := range v07dKeys(s.sorted) {
		switch {
		case q == p:
			s.why[q] = reason
		case v07dUnder(q, p): // q below p: the parent of a sorted path was replaced
			s.why[q] = reason + "-parent-of-key"
		case v07dUnder(p, q): // p below q: a subfield of a sorted value was replaced
			s.why[q] = reason + "-subfield-of-key"
		default:
			continue
		}
		delete(s.sorted, q)
	}
	for _, q := range v07dKeys(s.absent) {
		if v07dUnder(q, p) || v07dUnder(p, q) {
			delete(s.absent, q)
		}
	}
	if s.only != nil {
		s.only[v07dTop(p)] = true
	}
}

// dropped: the subtree p disappears from every record.
func (s *v07dState) dropped(p, reason string) {
	for _, q := range v07dKeys(s.sorted) {
		switch {
		case v07dUnder(q, p):
			// gone: Absent from now on
		case v07dUnder(p, q):
			s.why[q] = reason + "-subfield-of-key"
		default:
			continue
		}
		delete(s.sorted, q)
	}
	s.absent[p] = true
}

// copied returns the facts below src re-rooted at dst.
func (s *v07dState) copied(src, dst string) (map[string]v07dFact, map[string]bool) {
	facts, abs := map[string]v07dFact{}, map[string]bool{}
	for q, f := range s.sorted {
		if v07dUnder(q, src) {
			facts[dst+q[len(src):]] = f
		}
	}
	for q := range s.absent {
		if v07dUnder(q, src) {
			abs[dst+q[len(src):]] = true
		}
	}
	if k, _, _ := s.lookup(src); k == v07dAbsent {
		abs[dst] = true
	}
	return facts, abs
}

// cut: the output record has exactly the assigned paths.
func (s *v07dState) cut(dsts, srcs []string) {
	n := v07dNewState()
	n.only = map[string]bool{}
	n.why = s.why
	for i := range dsts {
		facts, abs := s.copied(srcs[i], dsts[i])
		for q, f := range facts {
			n.sorted[q] = f
		}
		for q := range abs {
			n.absent[q] = true
		}
		n.only[v07dTop(dsts[i])] = true
		// a sorted path strictly above the source loses the other subfields
		for q := range s.sorted {
			if q != srcs[i] && v07dUnder(srcs[i], q) {
				n.why[q] = "cut-subfield-of-key"
			}
		}
	}
	*s = *n
}

// rename dst:=src (dst must not exist, else the real operator yields an error value).
func (s *v07dState) rename(dst, src string) {
	dk, _, _ := s.lookup(dst)
	facts, abs := s.copied(src, dst)
	s.assigned(dst, "rename-onto-key")
	if dk == v07dAbsent {
		for q, f := range facts {
			s.sorted[q] = f
		}
		for q := range abs {
			s.absent[q] = true
		}
	}
	s.dropped(src, "rename")
}

// scrambled: every order fact is lost (absence facts are kept iff keepAbsent).
func (s *v07dState) scrambled(reason string, keepAbsent bool) {
	for _, q := range v07dKeys(s.sorted) {
		s.why[q] = reason
		delete(s.sorted, q)
	}
	if !keepAbsent {
		s.absent = map[string]bool{}
		s.only = nil
	}
}

func (s *v07dState) sortedOn(p string, dir int, nullsMax bool) {
	s.scrambled("re-sorted-on-another-key", true)
	s.sorted[p] = v07dFact{dir: dir, nullsMax: nullsMax}
}

// merge of several legs that all carry state s (fork of identical legs).
func (s *v07dState) merged(p string, dir int) {
	k, f, _ := s.lookup(p)
	ok := k == v07dSorted && f.dir == dir && f.nullsMax
	s.scrambled("merged-on-another-key", true)
	if ok {
		s.sorted[p] = f
	}
}

// ---- DAG building blocks ----

func v07dThis(p ...string) *dag.This { return &dag.This{Kind: "This", Path: field.Path(p)} }

func v07dAssign(l, r dag.Expr) dag.Assignment {
	return dag.Assignment{Kind: "Assignment", LHS: l, RHS: r}
}

func v07dLit(v string) *dag.Literal { return &dag.Literal{Kind: "Literal", Value: v} }

func v07dCountAgg() []dag.Assignment {
	return []dag.Assignment{v07dAssign(v07dThis("count"), &dag.Agg{Kind: "Agg", Name: "count"})}
}

func v07dSummarize(lhs *dag.This, rhs dag.Expr) *dag.Summarize {
	return &dag.Summarize{Kind: "Summarize", Keys: []dag.Assignment{v07dAssign(lhs, rhs)}, Aggs: v07dCountAgg()}
}

func v07dPassFork() *dag.Fork {
	return &dag.Fork{Kind: "Fork", Paths: []dag.Seq{{&dag.Pass{Kind: "Pass"}}, {&dag.Pass{Kind: "Pass"}}}}
}

// v07dKeyReads is the harness's statement of what the ORDER of a group-by
// key expression depends on: a field reference is ordered like the field;
// floor/ceil/round/bucket are monotone in their first argument; every(d) is
// bucket(this.ts, d) (runtime/sam/expr/function: path = ts) and so is ordered
// like ts; nothing is known about anything else.
func v07dKeyReads(e dag.Expr) (string, bool) {
	switch e := e.(type) {
	case *dag.This:
		return v07dKey(e.Path), true
	case *dag.Call:
		switch e.Name {
		case "floor", "ceil", "round", "bucket":
			if len(e.Args) >= 1 {
				if t, ok := e.Args[0].(*dag.This); ok {
					return v07dKey(t.Path), true
				}
			}
		case "every":
			return "ts", true
		}
	}
	return "", false
}

// v07dCheckClaim asserts that the stream is ordered on path p in direction dir.
func v07dCheckClaim(s *v07dState, p string, dir int, base string) bool {
	k, f, why := s.lookup(p)
	switch {
	case k == v07dAbsent:
		verif.Reach("claim-holds-vacuously")
		return true
	case k == v07dUnknown:
		verif.Assert(false, base+"/"+why)
		return false
	case f.dir != dir:
		verif.Assert(false, base+"/wrong-direction")
		return false
	case !f.nullsMax:
		verif.Assert(false, base+"/null-placement")
		return false
	}
	verif.Assert(true, base)
	verif.Reach("claim-justified")
	return true
}

// v07dApplySummarize checks the claim the optimizer recorded in op (after it
// ran) and returns the state of the summarize output.
func v07dApplySummarize(s *v07dState, op *dag.Summarize) {
	lhs := v07dKey(fieldOf(op.Keys[0].LHS))
	justified := false
	if op.InputSortDir != 0 {
		verif.Reach("summarize-sort-dir-set")
		verif.Assert(op.InputSortDir == 1 || op.InputSortDir == -1, "summarize-sort-dir-is-a-direction")
		p, ok := v07dKeyReads(op.Keys[0].RHS)
		if !ok {
			verif.Assert(false, "summarize-input-sorted-as-claimed/key-expression-order-unknown")
		} else if call, isCall := op.Keys[0].RHS.(*dag.Call); isCall && call.Name == "every" && p != lhs {
			if k, _, _ := s.lookup(p); k == v07dUnknown {
				verif.Assert(false, "summarize-input-sorted-as-claimed/every-buckets-ts-not-the-key")
			} else {
				justified = v07dCheckClaim(s, p, op.InputSortDir, "summarize-input-sorted-as-claimed")
			}
		} else {
			justified = v07dCheckClaim(s, p, op.InputSortDir, "summarize-input-sorted-as-claimed")
		}
	} else {
		verif.Reach("summarize-sort-dir-unset")
	}
	n := v07dNewState()
	n.only = map[string]bool{v07dTop(lhs): true, "count": true}
	if justified {
		// a streaming group-by releases its groups in primary-key order
		n.sorted[lhs] = v07dFact{dir: op.InputSortDir, nullsMax: true}
	}
	*s = *n
}

func v07dApplyJoin(left, right *v07dState, j *dag.Join) {
	if j.LeftDir != 0 {
		verif.Reach("join-left-dir-set")
		v07dCheckClaim(left, v07dKey(fieldOf(j.LeftKey)), int(j.LeftDir), "join-left-input-sorted-as-claimed")
	}
	if j.RightDir != 0 {
		verif.Reach("join-right-dir-set")
		v07dCheckClaim(right, v07dKey(fieldOf(j.RightKey)), int(j.RightDir), "join-right-input-sorted-as-claimed")
	}
	if j.LeftDir == 0 && j.RightDir == 0 {
		verif.Reach("join-dirs-unset")
	}
}

const v07dNumChainOps = 22

// v07dChainOp returns the DAG operators of intermediate template i and the
// abstract transformer of the "sorted-on" state (run after the optimizer).
func v07dChainOp(i int) ([]dag.Op, func(*v07dState)) {
	x1 := dag.NewBinaryExpr("+", v07dThis("x"), v07dLit("1"))
	ident := func(*v07dState) {}
	switch i {
	case 0: // where x > 0
		return []dag.Op{dag.NewFilter(dag.NewBinaryExpr(">", v07dThis("x"), v07dLit("0")))}, ident
	case 1: // put x:=x+1
		return []dag.Op{&dag.Put{Kind: "Put", Args: []dag.Assignment{v07dAssign(v07dThis("x"), x1)}}},
			func(s *v07dState) { s.assigned("x", "put") }
	case 2: // put k:=x+1
		return []dag.Op{&dag.Put{Kind: "Put", Args: []dag.Assignment{v07dAssign(v07dThis("k"), x1)}}},
			func(s *v07dState) { s.assigned("k", "put") }
	case 3: // put k.a:=x+1
		return []dag.Op{&dag.Put{Kind: "Put", Args: []dag.Assignment{v07dAssign(v07dThis("k", "a"), x1)}}},
			func(s *v07dState) { s.assigned("k.a", "put") }
	case 4: // cut k
		return []dag.Op{&dag.Cut{Kind: "Cut", Args: []dag.Assignment{v07dAssign(v07dThis("k"), v07dThis("k"))}}},
			func(s *v07dState) { s.cut([]string{"k"}, []string{"k"}) }
	case 5: // cut x
		return []dag.Op{&dag.Cut{Kind: "Cut", Args: []dag.Assignment{v07dAssign(v07dThis("x"), v07dThis("x"))}}},
			func(s *v07dState) { s.cut([]string{"x"}, []string{"x"}) }
	case 6: // cut k.a
		return []dag.Op{&dag.Cut{Kind: "Cut", Args: []dag.Assignment{v07dAssign(v07dThis("k", "a"), v07dThis("k", "a"))}}},
			func(s *v07dState) { s.cut([]string{"k.a"}, []string{"k.a"}) }
	case 7: // drop x
		return []dag.Op{&dag.Drop{Kind: "Drop", Args: []dag.Expr{v07dThis("x")}}},
			func(s *v07dState) { s.dropped("x", "drop") }
	case 8: // drop k
		return []dag.Op{&dag.Drop{Kind: "Drop", Args: []dag.Expr{v07dThis("k")}}},
			func(s *v07dState) { s.dropped("k", "drop") }
	case 9: // rename j:=k
		return []dag.Op{&dag.Rename{Kind: "Rename", Args: []dag.Assignment{v07dAssign(v07dThis("j"), v07dThis("k"))}}},
			func(s *v07dState) { s.rename("j", "k") }
	case 10: // rename k:=x
		return []dag.Op{&dag.Rename{Kind: "Rename", Args: []dag.Assignment{v07dAssign(v07dThis("k"), v07dThis("x"))}}},
			func(s *v07dState) { s.rename("k", "x") }
	case 11: // sort j
		return []dag.Op{&dag.Sort{Kind: "Sort", Args: []dag.SortExpr{{Key: v07dThis("j"), Order: order.Asc}}}},
			func(s *v07dState) { s.sortedOn("j", 1, true) }
	case 12: // sort -r k: descending, nulls last (see VerifH_C07_O5_sort_vs_groupby_order)
		return []dag.Op{&dag.Sort{Kind: "Sort", Args: []dag.SortExpr{{Key: v07dThis("k"), Order: order.Asc}}, Reverse: true}},
			func(s *v07dState) { s.sortedOn("k", -1, false) }
	case 13: // sort -nulls first k desc: descending, nulls first
		return []dag.Op{&dag.Sort{Kind: "Sort", Args: []dag.SortExpr{{Key: v07dThis("k"), Order: order.Desc}}, NullsFirst: true}},
			func(s *v07dState) { s.sortedOn("k", -1, true) }
	case 14: // head 1
		return []dag.Op{&dag.Head{Kind: "Head", Count: 1}}, ident
	case 15: // pass
		return []dag.Op{&dag.Pass{Kind: "Pass"}}, ident
	case 16: // yield {k:x}
		rec := &dag.RecordExpr{Kind: "RecordExpr", Elems: []dag.RecordElem{&dag.Field{Kind: "Field", Name: "k", Value: v07dThis("x")}}}
		return []dag.Op{&dag.Yield{Kind: "Yield", Exprs: []dag.Expr{rec}}},
			func(s *v07dState) { s.scrambled("yield", false) }
	case 17: // over x
		return []dag.Op{&dag.Over{Kind: "Over", Exprs: []dag.Expr{v07dThis("x")}}},
			func(s *v07dState) { s.scrambled("over", false) }
	case 18: // count() by k
		sum := v07dSummarize(v07dThis("k"), v07dThis("k"))
		return []dag.Op{sum}, func(s *v07dState) { v07dApplySummarize(s, sum) }
	case 19: // fork (=> pass => pass) re-joined by the implicit combine: arbitrary interleaving
		return []dag.Op{v07dPassFork()},
			func(s *v07dState) { s.scrambled("fork-legs-combined-unordered", true) }
	case 20: // fork (=> pass => pass) | merge k
		return []dag.Op{v07dPassFork(), &dag.Merge{Kind: "Merge", Expr: v07dThis("k"), Order: order.Asc}},
			func(s *v07dState) { s.merged("k", 1) }
	case 21: // uniq
		return []dag.Op{&dag.Uniq{Kind: "Uniq"}}, ident
	}
	panic("v07dChainOp")
}

// verif:desc C07-O5 real Optimizer.propagateSortKey / propagateSortKeyOp / analyzeSortKeys / analyzeCuts / sortKeysOfSort / orderPreservingCall on [DefaultScan with declared sort key, 0..2 intermediate operators, consumer]: whenever the optimizer sets Summarize.InputSortDir (streaming release of groups) or Join.LeftDir/RightDir (no sort inserted), the input of that operator is ordered on the path the key expression reads, in that direction, with nulls as the largest value, according to the abstract interpretation of the operator semantics stated in this file (Sorted/Absent/Unknown per field path); an intermediate summarize is checked the same way.
// verif:bounds source sort key in {none, k asc, k desc, k.a asc}; 0..2 intermediate operators from 22 templates {where x>0, put x:=x+1, put k:=x+1, put k.a:=x+1, cut k, cut x, cut k.a, drop x, drop k, rename j:=k, rename k:=x, sort j, sort -r k, sort -nulls first k desc, head 1, pass, yield {k:x}, over x, count() by k, fork(pass,pass), fork(pass,pass)|merge k, uniq}; consumer in {count() by k, by j, by k:=floor(k), by k:=every(1h), by k:=j, by k.a, fork(pass,pass)|join k=k, fork(rename j:=k, pass)|join j=k}; everything concrete (Choose)
// verif:outside records that lack the key only in part (the state is per stream: all records have the path or none); mixed-type keys; secondary sort keys; pool/file sources (sortKeysOfSource needs a lake; FileScan keys are never propagated); the region ids after "/" name the operator that destroyed the order the optimizer still claims
func VerifH_C07_O5_sortkey_propagation() {
	v07dSortkeyPropagation(2)
}

func v07dSortkeyPropagation(maxChain int) {
	o := &Optimizer{ctx: context.Background()}
	src := &dag.DefaultScan{Kind: "DefaultScan"}
	st := v07dNewState()
	switch verif.Choose("source-key", 4) {
	case 1:
		src.SortKeys = order.SortKeys{order.NewSortKey(order.Asc, field.Path{"k"})}
		st.sorted["k"] = v07dFact{dir: 1, nullsMax: true}
	case 2:
		src.SortKeys = order.SortKeys{order.NewSortKey(order.Desc, field.Path{"k"})}
		st.sorted["k"] = v07dFact{dir: -1, nullsMax: true}
	case 3:
		src.SortKeys = order.SortKeys{order.NewSortKey(order.Asc, field.Path{"k", "a"})}
		st.sorted["k.a"] = v07dFact{dir: 1, nullsMax: true}
	}
	seq := dag.Seq{src}
	var xfs []func(*v07dState)
	n := verif.Choose("chain-len", maxChain+1)
	for i := 0; i < n; i++ {
		ops, xf := v07dChainOp(verif.Choose("chain-op", v07dNumChainOps))
		seq = append(seq, ops...)
		xfs = append(xfs, xf)
	}
	var sum *dag.Summarize
	var join *dag.Join
	var legs [2]func(*v07dState)
	ident := func(*v07dState) {}
	switch verif.Choose("consumer", 8) {
	case 0:
		sum = v07dSummarize(v07dThis("k"), v07dThis("k"))
	case 1:
		sum = v07dSummarize(v07dThis("j"), v07dThis("j"))
	case 2:
		sum = v07dSummarize(v07dThis("k"), &dag.Call{Kind: "Call", Name: "floor", Args: []dag.Expr{v07dThis("k")}})
	case 3:
		sum = v07dSummarize(v07dThis("k"), &dag.Call{Kind: "Call", Name: "every", Args: []dag.Expr{v07dLit("1h")}})
	case 4:
		sum = v07dSummarize(v07dThis("k"), v07dThis("j"))
	case 5:
		sum = v07dSummarize(v07dThis("k", "a"), v07dThis("k", "a"))
	case 6:
		seq = append(seq, v07dPassFork())
		join = &dag.Join{Kind: "Join", Style: "inner", LeftKey: v07dThis("k"), RightKey: v07dThis("k")}
		legs = [2]func(*v07dState){ident, ident}
	case 7:
		f := v07dPassFork()
		f.Paths[0] = dag.Seq{&dag.Rename{Kind: "Rename", Args: []dag.Assignment{v07dAssign(v07dThis("j"), v07dThis("k"))}}}
		seq = append(seq, f)
		join = &dag.Join{Kind: "Join", Style: "inner", LeftKey: v07dThis("j"), RightKey: v07dThis("k")}
		legs = [2]func(*v07dState){func(s *v07dState) { s.rename("j", "k") }, ident}
	}
	if sum != nil {
		seq = append(seq, sum)
	} else {
		seq = append(seq, join)
	}

	_, err := o.propagateSortKey(seq, []order.SortKeys{nil})
	verif.Assert(err == nil, "propagate-no-error")

	for _, xf := range xfs {
		xf(st)
	}
	if sum != nil {
		v07dApplySummarize(st, sum)
	} else {
		right := v07dNewState()
		for q, f := range st.sorted {
			right.sorted[q] = f
		}
		for q := range st.absent {
			right.absent[q] = true
		}
		if st.only != nil {
			right.only = map[string]bool{}
			for q := range st.only {
				right.only[q] = true
			}
		}
		for q, w := range st.why {
			right.why[q] = w
		}
		legs[0](st)
		legs[1](right)
		v07dApplyJoin(st, right, join)
	}
	verif.Reach("end")
}

// ---- the order a dag.Sort produces vs the order the streaming group-by assumes ----

func v07dKeyRec(zctx *zed.Context, null bool, x byte) (zed.Value, zed.Value) {
	var body zcode.Bytes
	if !null {
		body = zcode.Bytes{x}
	}
	var b zcode.Builder
	b.Append(body)
	rt := zctx.MustLookupTypeRecord([]zed.Field{zed.NewField("k", zed.TypeInt64)})
	return zed.NewValue(rt, b.Bytes()), zed.NewValue(zed.TypeInt64, body)
}

// verif:desc C07-O5 (comparators) for every dag.Sort on one field key after which the optimizer sets InputSortDir on `summarize by k` (real propagateSortKey), the order the real sort operator produces (sort.Op.setComparator via sort.New(keys, NullsFirst, Reverse)) is the order the streaming group-by assumes when it decides that a group is complete (real expr.NewValueCompareFn(order.Which(dir<0), nullsMax=true), as in groupby.NewAggregator): record a sorted strictly before record b implies key(a) <= key(b) for the group-by.  This grounds the nullsMax component of the abstract state of VerifH_C07_O5_sortkey_propagation in the real comparators.
// verif:bounds Sort{Args:[{this.k, asc|desc}], NullsFirst, Reverse} all 8; keys a, b any non-zero int64 of magnitude <= 127 (symbolic one-byte body) or one of them null(int64)
// verif:outside key types other than int64; multi-key sorts (the optimizer derives no key from them); spill files
func VerifH_C07_O5_sort_vs_groupby_order() {
	o := &Optimizer{ctx: context.Background()}
	srt := &dag.Sort{Kind: "Sort", Args: []dag.SortExpr{{Key: v07dThis("k"), Order: order.Which(verif.Choose("order-desc", 2) == 1)}}}
	srt.NullsFirst = verif.Choose("nullsfirst", 2) == 1
	srt.Reverse = verif.Choose("reverse", 2) == 1
	sum := v07dSummarize(v07dThis("k"), v07dThis("k"))
	seq := dag.Seq{&dag.DefaultScan{Kind: "DefaultScan"}, srt, sum}
	_, err := o.propagateSortKey(seq, []order.SortKeys{nil})
	verif.Assert(err == nil, "propagate-no-error")
	verif.Assert(sum.InputSortDir == 1 || sum.InputSortDir == -1, "sort-then-summarize-gets-a-direction")
	effDesc := (srt.Args[0].Order == order.Desc) != srt.Reverse
	verif.Assert((sum.InputSortDir == -1) == effDesc, "claimed-direction-is-the-sorts-effective-direction")

	zctx := zed.NewContext()
	nulls := verif.Choose("nulls", 3) // 0 none, 1 a null, 2 b null
	a, b := verif.Byte("a"), verif.Byte("b")
	verif.Assume(a != 0 && b != 0)
	ra, ka := v07dKeyRec(zctx, nulls == 1, a)
	rb, kb := v07dKeyRec(zctx, nulls == 2, b)
	keyEval := expr.NewDottedExpr(zctx, field.Path{"k"})
	sop := sort.New(runtime.NewContext(context.Background(), zctx), nil,
		[]expr.SortEvaluator{expr.NewSortEvaluator(keyEval, srt.Args[0].Order)}, srt.NullsFirst, srt.Reverse, expr.Resetters{})
	sortCmp := sort.VerifComparator(sop, ra)
	valueCompare := expr.NewValueCompareFn(order.Which(sum.InputSortDir < 0), true)
	sc, gc := sortCmp.Compare(ra, rb), valueCompare(ka, kb)
	verif.Observe("sortBefore", sc < 0)
	verif.Observe("groupbyAfter", gc > 0)
	id := "groupby-order-agrees-with-sort-order"
	if nulls != 0 && srt.NullsFirst != effDesc {
		// region: the sort puts nulls where the group-by's nulls-max order does not
		id += "/null-placement"
		verif.Reach("null-placement-differs")
	}
	verif.Assert(!(sc < 0 && gc > 0), id)
	verif.Reach("end")
}
