//go:build verif

package optimizer

// verif:needs runtime/sam/op/sort

import (
	"context"
	"strings"

	"github.com/brimdata/super"
	"github.com/brimdata/super/compiler/ast/dag"
	"github.com/brimdata/super/compiler/optimizer/demand"
	"github.com/brimdata/super/internal/verif"
	"github.com/brimdata/super/order"
	"github.com/brimdata/super/pkg/field"
	"github.com/brimdata/super/runtime"
	"github.com/brimdata/super/runtime/sam/expr"
	"github.com/brimdata/super/runtime/sam/op/sort"
	"github.com/brimdata/super/zcode"
)

// ---------------------------------------------------------------------------
// C07-O5: sort-key propagation (Optimizer.propagateSortKey and friends).
//
// The optimizer's claim "the input of this summarize/join is ordered by key K
// in direction D" is compared with an abstract interpretation of the operator
// chain written here: for every field path the state says
//     Sorted(dir, nullsMax)  every record stream reaching this point is ordered
//                            on the path in that direction, nulls placed as the
//                            largest value (what groupby/merge/join compare with)
//     Absent                 no record has the path (every claim holds vacuously)
//     Unknown                anything else (with the reason the fact was lost)
// and each template operator transforms that state according to its semantics.
// A claim is justified iff the state of the path the key expression reads is
// Sorted in the claimed direction with nulls as the maximum, or Absent.
// ---------------------------------------------------------------------------

const (
	v07dUnknown = iota
	v07dAbsent
	v07dSorted
)

type v07dFact struct {
	dir      int  // +1 ascending, -1 descending
	nullsMax bool // nulls placed as the largest value (last asc, first desc)
}

type v07dState struct {
	sorted map[string]v07dFact
	absent map[string]bool   // the whole subtree of the path is absent
	only   map[string]bool   // non-nil: top-level fields not listed are absent
	why    map[string]string // why a path lost its Sorted fact
	ever   map[string]bool   // paths that carried a Sorted fact at some point
	has    map[string]bool   // paths every record is known to have (a Sorted or assigned path)
}

func v07dNewState() *v07dState {
	return &v07dState{sorted: map[string]v07dFact{}, absent: map[string]bool{}, why: map[string]string{}, ever: map[string]bool{}, has: map[string]bool{}}
}

func (s *v07dState) setSorted(p string, f v07dFact) {
	s.sorted[p] = f
	s.ever[p] = true
	s.has[p] = true
}

func v07dKey(p field.Path) string { return strings.Join(p, ".") }

func v07dTop(p string) string {
	if i := strings.IndexByte(p, '.'); i >= 0 {
		return p[:i]
	}
	return p
}

// v07dUnder reports whether q is p or a path below p.
func v07dUnder(q, p string) bool { return q == p || strings.HasPrefix(q, p+".") }

func v07dKeys[V any](m map[string]V) []string {
	var out []string
	for k := range m {
		out = append(out, k)
	}
	return out
}

func (s *v07dState) lookup(p string) (int, v07dFact, string) {
	if s.only != nil && !s.only[v07dTop(p)] {
		return v07dAbsent, v07dFact{}, ""
	}
	for _, q := range v07dKeys(s.absent) {
		if v07dUnder(p, q) {
			return v07dAbsent, v07dFact{}, ""
		}
	}
	if f, ok := s.sorted[p]; ok {
		return v07dSorted, f, ""
	}
	if w, ok := s.why[p]; ok {
		return v07dUnknown, v07dFact{}, w
	}
	// the reason recorded for the nearest assigned ancestor or descendant
	// (smallest path first, so that the choice does not depend on map order)
	best, bestWhy := "", ""
	for _, q := range v07dKeys(s.why) {
		var w string
		switch {
		case v07dUnder(p, q):
			w = s.why[q] + "-parent-of-key"
		case v07dUnder(q, p):
			w = s.why[q] + "-subfield-of-key"
		default:
			continue
		}
		if best == "" || q < best {
			best, bestWhy = q, w
		}
	}
	if best != "" {
		return v07dUnknown, v07dFact{}, bestWhy
	}
	return v07dUnknown, v07dFact{}, "never-sorted"
}

// assigned: path p gets a new value of unknown order.
func (s *v07dState) assigned(p, reason string) {
	s.why[p] = reason
	s.has[p] = true
	for _, q := range v07dKeys(s.sorted) {
		switch {
		case q == p:
			s.why[q] = reason
		case v07dUnder(q, p): // q below p: the parent of a sorted path was replaced
			s.why[q] = reason + "-parent-of-key"
		case v07dUnder(p, q): // p below q: a subfield of a sorted value was replaced
			s.why[q] = reason + "-subfield-of-key"
		default:
			continue
		}
		delete(s.sorted, q)
	}
	for _, q := range v07dKeys(s.absent) {
		if v07dUnder(q, p) || v07dUnder(p, q) {
			delete(s.absent, q)
		}
	}
	if s.only != nil {
		s.only[v07dTop(p)] = true
	}
}

// dropped: the subtree p disappears from every record.
func (s *v07dState) dropped(p, reason string) {
	for _, q := range v07dKeys(s.sorted) {
		switch {
		case v07dUnder(q, p):
			// gone: Absent from now on
		case v07dUnder(p, q):
			s.why[q] = reason + "-subfield-of-key"
		default:
			continue
		}
		delete(s.sorted, q)
	}
	for _, q := range v07dKeys(s.has) {
		if v07dUnder(q, p) {
			delete(s.has, q)
		}
	}
	s.absent[p] = true
}

// copied returns the facts below src re-rooted at dst.
func (s *v07dState) copied(src, dst string) (map[string]v07dFact, map[string]bool) {
	facts, abs := map[string]v07dFact{}, map[string]bool{}
	for q, f := range s.sorted {
		if v07dUnder(q, src) {
			facts[dst+q[len(src):]] = f
		}
	}
	for q := range s.absent {
		if v07dUnder(q, src) {
			abs[dst+q[len(src):]] = true
		}
	}
	if k, _, _ := s.lookup(src); k == v07dAbsent {
		abs[dst] = true
	}
	return facts, abs
}

// cut: the output record has exactly the assigned paths.
func (s *v07dState) cut(dsts, srcs []string) {
	n := v07dNewState()
	n.only = map[string]bool{}
	n.why = s.why
	n.ever = s.ever
	for i := range dsts {
		facts, abs := s.copied(srcs[i], dsts[i])
		if k, _, w := s.lookup(srcs[i]); k == v07dUnknown && w != "never-sorted" {
			n.why[dsts[i]] = w // the order was already lost upstream
		} else if dsts[i] != srcs[i] {
			n.why[dsts[i]] = "cut-assigned"
		}
		for q, f := range facts {
			n.setSorted(q, f)
		}
		for q := range abs {
			n.absent[q] = true
		}
		if k, _, _ := s.lookup(srcs[i]); k != v07dAbsent {
			// cutting a path no record has adds nothing to the output
			n.only[v07dTop(dsts[i])] = true
		}
		for q := range s.has {
			if v07dUnder(q, srcs[i]) {
				n.has[dsts[i]+q[len(srcs[i]):]] = true
			} else if v07dUnder(srcs[i], q) {
				n.has[dsts[i]] = true
			}
		}
		// a sorted path strictly above the source loses the other subfields
		for q := range s.sorted {
			if q != srcs[i] && v07dUnder(srcs[i], q) {
				n.why[q] = "cut-subfield-of-key"
			}
		}
	}
	*s = *n
}

// rename dst:=src (dst must not exist, else the real operator yields an error value).
func (s *v07dState) rename(dst, src string) {
	for _, q := range v07dKeys(s.has) {
		if v07dUnder(q, dst) {
			// dst exists in every record: the real operator turns every
			// record into error("rename: duplicate field"), after which no
			// path exists any more
			s.sorted = map[string]v07dFact{}
			s.absent = map[string]bool{}
			s.only = map[string]bool{}
			s.has = map[string]bool{}
			return
		}
	}
	// otherwise either dst is absent and takes over the facts of src, or it
	// exists and every record becomes an error value (every claim vacuous):
	// in both cases the facts of src hold for dst
	facts, abs := s.copied(src, dst)
	sk, _, sw := s.lookup(src)
	everDst := false
	for _, q := range v07dKeys(s.ever) {
		everDst = everDst || v07dUnder(q, dst) || v07dUnder(dst, q)
	}
	s.assigned(dst, "rename-onto-key")
	if !everDst && sk == v07dUnknown && sw != "never-sorted" {
		// dst never was a sort key: a claim on it can only have been
		// carried over from src, whose order was already lost upstream
		s.why[dst] = sw
	}
	for q, f := range facts {
		s.setSorted(q, f)
	}
	for q := range abs {
		s.absent[q] = true
	}
	srcHas := false
	for q := range s.has {
		srcHas = srcHas || v07dUnder(src, q) || v07dUnder(q, src)
	}
	if !srcHas {
		delete(s.has, dst) // assigned() marked it; it exists only if src did
	}
	s.dropped(src, "rename")
}

// scrambled: every order fact is lost (absence facts are kept iff keepAbsent).
func (s *v07dState) scrambled(reason string, keepAbsent bool) {
	for _, q := range v07dKeys(s.sorted) {
		s.why[q] = reason
		delete(s.sorted, q)
	}
	if !keepAbsent {
		s.absent = map[string]bool{}
		s.only = nil
		s.has = map[string]bool{}
	}
}

func (s *v07dState) sortedOn(p string, dir int, nullsMax bool) {
	s.scrambled("re-sorted-on-another-key", true)
	had := s.has[p]
	s.setSorted(p, v07dFact{dir: dir, nullsMax: nullsMax})
	if !had {
		delete(s.has, p) // sorting on a path does not make it exist
	}
}

// merge of several legs that all carry state s (fork of identical legs).
func (s *v07dState) merged(p string, dir int) {
	k, f, _ := s.lookup(p)
	ok := k == v07dSorted && f.dir == dir && f.nullsMax
	s.scrambled("merged-on-another-key", true)
	if ok {
		s.setSorted(p, f)
	}
}

// ---- DAG building blocks ----

func v07dThis(p ...string) *dag.This { return &dag.This{Kind: "This", Path: field.Path(p)} }

func v07dAssign(l, r dag.Expr) dag.Assignment {
	return dag.Assignment{Kind: "Assignment", LHS: l, RHS: r}
}

func v07dLit(v string) *dag.Literal { return &dag.Literal{Kind: "Literal", Value: v} }

func v07dCountAgg() []dag.Assignment {
	return []dag.Assignment{v07dAssign(v07dThis("count"), &dag.Agg{Kind: "Agg", Name: "count"})}
}

func v07dSummarize(lhs *dag.This, rhs dag.Expr) *dag.Summarize {
	return &dag.Summarize{Kind: "Summarize", Keys: []dag.Assignment{v07dAssign(lhs, rhs)}, Aggs: v07dCountAgg()}
}

func v07dPassFork() *dag.Fork {
	return &dag.Fork{Kind: "Fork", Paths: []dag.Seq{{&dag.Pass{Kind: "Pass"}}, {&dag.Pass{Kind: "Pass"}}}}
}

// v07dKeyReads is the harness's statement of what the ORDER of a group-by
// key expression depends on: a field reference is ordered like the field;
// floor/ceil/round/bucket are monotone in their first argument; every(d) is
// bucket(this.ts, d) (runtime/sam/expr/function: path = ts) and so is ordered
// like ts; nothing is known about anything else.
func v07dKeyReads(e dag.Expr) (string, bool) {
	switch e := e.(type) {
	case *dag.This:
		return v07dKey(e.Path), true
	case *dag.Call:
		switch e.Name {
		case "floor", "ceil", "round", "bucket":
			if len(e.Args) >= 1 {
				if t, ok := e.Args[0].(*dag.This); ok {
					return v07dKey(t.Path), true
				}
			}
		case "every":
			return "ts", true
		}
	}
	return "", false
}

// v07dClass groups the reasons an order fact was lost by the root cause in
// the optimizer (the ids reported are per class).
func v07dClass(why string) string {
	switch {
	case strings.HasSuffix(why, "-parent-of-key"), strings.HasSuffix(why, "-subfield-of-key"):
		// analyzeSortKeys compares paths with Equal only: an assignment to
		// (or removal of) a parent or a subfield of the key goes unnoticed
		return "nested-key-overlap"
	}
	return why
}

// v07dClaimStatus: is the stream ordered on path p in direction dir (nulls
// as the largest value)?  If not, the region names why.
func v07dClaimStatus(s *v07dState, p string, dir int) (bool, string) {
	k, f, why := s.lookup(p)
	switch {
	case k == v07dAbsent:
		return true, "vacuous"
	case k == v07dUnknown:
		return false, v07dClass(why)
	case f.dir != dir:
		return false, "wrong-direction"
	case !f.nullsMax:
		return false, "null-placement"
	}
	return true, ""
}

// v07dCheckClaim asserts that the stream is ordered on path p in direction dir.
func v07dCheckClaim(s *v07dState, p string, dir int, base string) bool {
	ok, region := v07dClaimStatus(s, p, dir)
	if !ok {
		verif.Assert(false, base+"/"+region)
		return false
	}
	if region == "vacuous" {
		verif.Reach("claim-holds-vacuously")
		return true
	}
	verif.Assert(true, base)
	verif.Reach("claim-justified")
	return true
}

// v07dApplySummarize checks the claim the optimizer recorded in op (after it
// ran) and returns the state of the summarize output.
func v07dApplySummarize(s *v07dState, op *dag.Summarize, matched int) {
	lhs := v07dKey(fieldOf(op.Keys[0].LHS))
	justified := false
	if op.InputSortDir != 0 {
		verif.Reach("summarize-sort-dir-set")
		verif.Assert(op.InputSortDir == 1 || op.InputSortDir == -1, "summarize-sort-dir-is-a-direction")
		base := "summarize-input-sorted-as-claimed"
		p, ok := v07dKeyReads(op.Keys[0].RHS)
		call, isCall := op.Keys[0].RHS.(*dag.Call)
		primaryOK := false
		if ok {
			primaryOK, _ = v07dClaimStatus(s, p, op.InputSortDir)
		}
		switch {
		case !ok:
			verif.Assert(false, base+"/key-expression-order-unknown")
		case !primaryOK && matched > 0:
			// the optimizer matched the sort key with a later group-by key,
			// the group-by operator releases groups on its FIRST key
			// (groupby.NewAggregator: keyRefs[0], Consume: i == 0)
			verif.Assert(false, base+"/sorted-key-is-not-the-primary-group-by-key")
		case !primaryOK && isCall && call.Name == "every" && p != lhs:
			verif.Assert(false, base+"/every-buckets-ts-not-the-key")
		default:
			justified = v07dCheckClaim(s, p, op.InputSortDir, base)
		}
	} else {
		verif.Reach("summarize-sort-dir-unset")
	}
	n := v07dNewState()
	n.only = map[string]bool{"count": true}
	for _, k := range op.Keys {
		n.only[v07dTop(v07dKey(fieldOf(k.LHS)))] = true
	}
	if justified {
		// a streaming group-by releases its groups in primary-key order
		n.setSorted(lhs, v07dFact{dir: op.InputSortDir, nullsMax: true})
	}
	*s = *n
}

func v07dApplyJoin(left, right *v07dState, j *dag.Join, side int) {
	if j.LeftDir == 0 && j.RightDir == 0 {
		verif.Reach("join-dirs-unset")
	}
	if side == 0 && j.LeftDir != 0 {
		verif.Reach("join-left-dir-set")
		v07dCheckClaim(left, v07dKey(fieldOf(j.LeftKey)), int(j.LeftDir), "join-left-input-sorted-as-claimed")
	}
	if side == 1 && j.RightDir != 0 {
		verif.Reach("join-right-dir-set")
		v07dCheckClaim(right, v07dKey(fieldOf(j.RightKey)), int(j.RightDir), "join-right-input-sorted-as-claimed")
	}
}

const v07dNumChainOps = 25

// v07dChainOp returns the DAG operators of intermediate template i and the
// abstract transformer of the "sorted-on" state (run after the optimizer).
func v07dChainOp(i int) ([]dag.Op, func(*v07dState)) {
	x1 := dag.NewBinaryExpr("+", v07dThis("x"), v07dLit("1"))
	ident := func(*v07dState) {}
	switch i {
	case 0: // where x > 0
		return []dag.Op{dag.NewFilter(dag.NewBinaryExpr(">", v07dThis("x"), v07dLit("0")))}, ident
	case 1: // put x:=x+1
		return []dag.Op{&dag.Put{Kind: "Put", Args: []dag.Assignment{v07dAssign(v07dThis("x"), x1)}}},
			func(s *v07dState) { s.assigned("x", "put") }
	case 2: // put k:=x+1
		return []dag.Op{&dag.Put{Kind: "Put", Args: []dag.Assignment{v07dAssign(v07dThis("k"), x1)}}},
			func(s *v07dState) { s.assigned("k", "put") }
	case 3: // put k.a:=x+1
		return []dag.Op{&dag.Put{Kind: "Put", Args: []dag.Assignment{v07dAssign(v07dThis("k", "a"), x1)}}},
			func(s *v07dState) { s.assigned("k.a", "put") }
	case 4: // cut k
		return []dag.Op{&dag.Cut{Kind: "Cut", Args: []dag.Assignment{v07dAssign(v07dThis("k"), v07dThis("k"))}}},
			func(s *v07dState) { s.cut([]string{"k"}, []string{"k"}) }
	case 5: // cut x
		return []dag.Op{&dag.Cut{Kind: "Cut", Args: []dag.Assignment{v07dAssign(v07dThis("x"), v07dThis("x"))}}},
			func(s *v07dState) { s.cut([]string{"x"}, []string{"x"}) }
	case 6: // cut k.a
		return []dag.Op{&dag.Cut{Kind: "Cut", Args: []dag.Assignment{v07dAssign(v07dThis("k", "a"), v07dThis("k", "a"))}}},
			func(s *v07dState) { s.cut([]string{"k.a"}, []string{"k.a"}) }
	case 7: // drop x
		return []dag.Op{&dag.Drop{Kind: "Drop", Args: []dag.Expr{v07dThis("x")}}},
			func(s *v07dState) { s.dropped("x", "drop") }
	case 8: // drop k
		return []dag.Op{&dag.Drop{Kind: "Drop", Args: []dag.Expr{v07dThis("k")}}},
			func(s *v07dState) { s.dropped("k", "drop") }
	case 9: // rename j:=k
		return []dag.Op{&dag.Rename{Kind: "Rename", Args: []dag.Assignment{v07dAssign(v07dThis("j"), v07dThis("k"))}}},
			func(s *v07dState) { s.rename("j", "k") }
	case 10: // rename k:=x
		return []dag.Op{&dag.Rename{Kind: "Rename", Args: []dag.Assignment{v07dAssign(v07dThis("k"), v07dThis("x"))}}},
			func(s *v07dState) { s.rename("k", "x") }
	case 11: // sort j
		return []dag.Op{&dag.Sort{Kind: "Sort", Args: []dag.SortExpr{{Key: v07dThis("j"), Order: order.Asc}}}},
			func(s *v07dState) { s.sortedOn("j", 1, true) }
	case 12: // sort -r k: descending, nulls last (see VerifH_C07_O5_sort_vs_groupby_order)
		return []dag.Op{&dag.Sort{Kind: "Sort", Args: []dag.SortExpr{{Key: v07dThis("k"), Order: order.Asc}}, Reverse: true}},
			func(s *v07dState) { s.sortedOn("k", -1, false) }
	case 13: // sort -nulls first k desc: descending, nulls first
		return []dag.Op{&dag.Sort{Kind: "Sort", Args: []dag.SortExpr{{Key: v07dThis("k"), Order: order.Desc}}, NullsFirst: true}},
			func(s *v07dState) { s.sortedOn("k", -1, true) }
	case 14: // head 1
		return []dag.Op{&dag.Head{Kind: "Head", Count: 1}}, ident
	case 15: // pass
		return []dag.Op{&dag.Pass{Kind: "Pass"}}, ident
	case 16: // yield {k:x}
		rec := &dag.RecordExpr{Kind: "RecordExpr", Elems: []dag.RecordElem{&dag.Field{Kind: "Field", Name: "k", Value: v07dThis("x")}}}
		return []dag.Op{&dag.Yield{Kind: "Yield", Exprs: []dag.Expr{rec}}},
			func(s *v07dState) { s.scrambled("yield", false) }
	case 17: // over x
		return []dag.Op{&dag.Over{Kind: "Over", Exprs: []dag.Expr{v07dThis("x")}}},
			func(s *v07dState) { s.scrambled("over", false) }
	case 18: // count() by k
		sum := v07dSummarize(v07dThis("k"), v07dThis("k"))
		return []dag.Op{sum}, func(s *v07dState) { v07dApplySummarize(s, sum, 0) }
	case 19: // fork (=> pass => pass) re-joined by the implicit combine: arbitrary interleaving
		return []dag.Op{v07dPassFork()},
			func(s *v07dState) { s.scrambled("fork-legs-combined-unordered", true) }
	case 20: // fork (=> pass => pass) | merge k
		return []dag.Op{v07dPassFork(), &dag.Merge{Kind: "Merge", Expr: v07dThis("k"), Order: order.Asc}},
			func(s *v07dState) { s.merged("k", 1) }
	case 21: // uniq
		return []dag.Op{&dag.Uniq{Kind: "Uniq"}}, ident
	case 22: // drop k.a
		return []dag.Op{&dag.Drop{Kind: "Drop", Args: []dag.Expr{v07dThis("k", "a")}}},
			func(s *v07dState) { s.dropped("k.a", "drop") }
	case 23: // cut j:=k
		return []dag.Op{&dag.Cut{Kind: "Cut", Args: []dag.Assignment{v07dAssign(v07dThis("j"), v07dThis("k"))}}},
			func(s *v07dState) { s.cut([]string{"j"}, []string{"k"}) }
	case 24: // cut k:=x
		return []dag.Op{&dag.Cut{Kind: "Cut", Args: []dag.Assignment{v07dAssign(v07dThis("k"), v07dThis("x"))}}},
			func(s *v07dState) { s.cut([]string{"k"}, []string{"x"}) }
	}
	panic("v07dChainOp")
}

// verif:desc C07-O5 real Optimizer.propagateSortKey / propagateSortKeyOp / analyzeSortKeys / analyzeCuts / sortKeysOfSort / orderPreservingCall on [DefaultScan with declared sort key, 0..2 intermediate operators, consumer]: whenever the optimizer sets Summarize.InputSortDir (streaming release of groups) or Join.LeftDir/RightDir (no sort inserted), the input of that operator is ordered on the path the key expression reads, in that direction, with nulls as the largest value, according to the abstract interpretation of the operator semantics stated in this file (Sorted/Absent/Unknown per field path); an intermediate summarize is checked the same way.
// verif:bounds source sort key in {none, k asc, k desc, k.a asc}; 0..2 intermediate operators from 25 templates {where x>0, put x:=x+1, put k:=x+1, put k.a:=x+1, cut k, cut x, cut k.a, drop x, drop k, rename j:=k, rename k:=x, sort j, sort -r k, sort -nulls first k desc, head 1, pass, yield {k:x}, over x, count() by k, fork(pass,pass), fork(pass,pass)|merge k, uniq, drop k.a, cut j:=k, cut k:=x}; consumer in {count() by k, by j, by k:=floor(k), by k:=every(1h), by k:=j, by k.a, by j,k, fork(pass,pass)|join k=k, fork(rename j:=k, pass)|join j=k (left or right claim checked)}; everything concrete (Choose)
// verif:outside records that lack the key only in part (the state is per stream: all records have the path or none); mixed-type keys; secondary sort keys; pool/file sources (sortKeysOfSource needs a lake; FileScan keys are never propagated); the region ids after "/" name the class of operator that destroyed the order the optimizer still claims (fork-legs-combined-unordered, rename-onto-key, nested-key-overlap, null-placement, every-buckets-ts-not-the-key, sorted-key-is-not-the-primary-group-by-key)
func VerifH_C07_O5_sortkey_propagation() {
	v07dSortkeyPropagation(2)
}

func v07dSortkeyPropagation(maxChain int) {
	o := &Optimizer{ctx: context.Background()}
	src := &dag.DefaultScan{Kind: "DefaultScan"}
	st := v07dNewState()
	switch verif.Choose("source-key", 4) {
	case 1:
		src.SortKeys = order.SortKeys{order.NewSortKey(order.Asc, field.Path{"k"})}
		st.setSorted("k", v07dFact{dir: 1, nullsMax: true})
	case 2:
		src.SortKeys = order.SortKeys{order.NewSortKey(order.Desc, field.Path{"k"})}
		st.setSorted("k", v07dFact{dir: -1, nullsMax: true})
	case 3:
		src.SortKeys = order.SortKeys{order.NewSortKey(order.Asc, field.Path{"k", "a"})}
		st.setSorted("k.a", v07dFact{dir: 1, nullsMax: true})
	}
	seq := dag.Seq{src}
	var xfs []func(*v07dState)
	n := verif.Choose("chain-len", maxChain+1)
	for i := 0; i < n; i++ {
		ops, xf := v07dChainOp(verif.Choose("chain-op", v07dNumChainOps))
		seq = append(seq, ops...)
		xfs = append(xfs, xf)
	}
	var sum *dag.Summarize
	var join *dag.Join
	var legs [2]func(*v07dState)
	ident := func(*v07dState) {}
	switch verif.Choose("consumer", 9) {
	case 0:
		sum = v07dSummarize(v07dThis("k"), v07dThis("k"))
	case 1:
		sum = v07dSummarize(v07dThis("j"), v07dThis("j"))
	case 2:
		sum = v07dSummarize(v07dThis("k"), &dag.Call{Kind: "Call", Name: "floor", Args: []dag.Expr{v07dThis("k")}})
	case 3:
		sum = v07dSummarize(v07dThis("k"), &dag.Call{Kind: "Call", Name: "every", Args: []dag.Expr{v07dLit("1h")}})
	case 4:
		sum = v07dSummarize(v07dThis("k"), v07dThis("j"))
	case 5:
		sum = v07dSummarize(v07dThis("k", "a"), v07dThis("k", "a"))
	case 8:
		sum = v07dSummarize(v07dThis("j"), v07dThis("j"))
		sum.Keys = append(sum.Keys, v07dAssign(v07dThis("k"), v07dThis("k")))
	case 6:
		seq = append(seq, v07dPassFork())
		join = &dag.Join{Kind: "Join", Style: "inner", LeftKey: v07dThis("k"), RightKey: v07dThis("k")}
		legs = [2]func(*v07dState){ident, ident}
	case 7:
		f := v07dPassFork()
		f.Paths[0] = dag.Seq{&dag.Rename{Kind: "Rename", Args: []dag.Assignment{v07dAssign(v07dThis("j"), v07dThis("k"))}}}
		seq = append(seq, f)
		join = &dag.Join{Kind: "Join", Style: "inner", LeftKey: v07dThis("j"), RightKey: v07dThis("k")}
		legs = [2]func(*v07dState){func(s *v07dState) { s.rename("j", "k") }, ident}
	}
	if sum != nil {
		seq = append(seq, sum)
	} else {
		seq = append(seq, join)
	}

	_, err := o.propagateSortKey(seq, []order.SortKeys{nil})
	verif.Assert(err == nil, "propagate-no-error")

	for _, xf := range xfs {
		xf(st)
	}
	if sum != nil {
		// which group-by key did the optimizer match the sort key with?  (the
		// real propagateSortKey on the chain in front of the summarize gives
		// the key it had in hand)
		matched := 0
		ps, err := o.propagateSortKey(seq[:len(seq)-1], []order.SortKeys{nil})
		same := err == nil && len(ps) >= 1 && !ps[0].IsNil()
		for _, p := range ps {
			same = same && p.Equal(ps[0]) // several parents are condensed when equal
		}
		if same {
			for i, k := range sum.Keys {
				if fieldOf(k.LHS).Equal(ps[0].Primary().Key) {
					matched = i
					break
				}
			}
		}
		v07dApplySummarize(st, sum, matched)
	} else {
		right := v07dNewState()
		for q, f := range st.sorted {
			right.setSorted(q, f)
		}
		for q := range st.ever {
			right.ever[q] = true
		}
		for q := range st.has {
			right.has[q] = true
		}
		for q := range st.absent {
			right.absent[q] = true
		}
		if st.only != nil {
			right.only = map[string]bool{}
			for q := range st.only {
				right.only[q] = true
			}
		}
		for q, w := range st.why {
			right.why[q] = w
		}
		legs[0](st)
		legs[1](right)
		v07dApplyJoin(st, right, join, verif.Choose("join-side-checked", 2))
	}
	verif.Reach("end")
}

// ---- the order a dag.Sort produces vs the order the streaming group-by assumes ----

func v07dKeyRec(zctx *zed.Context, null bool, x byte) (zed.Value, zed.Value) {
	var body zcode.Bytes
	if !null {
		body = zcode.Bytes{x}
	}
	var b zcode.Builder
	b.Append(body)
	rt := zctx.MustLookupTypeRecord([]zed.Field{zed.NewField("k", zed.TypeInt64)})
	return zed.NewValue(rt, b.Bytes()), zed.NewValue(zed.TypeInt64, body)
}

// verif:desc C07-O5 (comparators) for every dag.Sort on one field key after which the optimizer sets InputSortDir on `summarize by k` (real propagateSortKey), the order the real sort operator produces (sort.Op.setComparator via sort.New(keys, NullsFirst, Reverse)) is the order the streaming group-by assumes when it decides that a group is complete (real expr.NewValueCompareFn(order.Which(dir<0), nullsMax=true), as in groupby.NewAggregator): record a sorted strictly before record b implies key(a) <= key(b) for the group-by.  This grounds the nullsMax component of the abstract state of VerifH_C07_O5_sortkey_propagation in the real comparators.
// verif:bounds Sort{Args:[{this.k, asc|desc}], NullsFirst, Reverse} all 8; keys a, b any non-zero int64 of magnitude <= 127 (symbolic one-byte body) or one of them null(int64)
// verif:outside key types other than int64; multi-key sorts (the optimizer derives no key from them); spill files
func VerifH_C07_O5_sort_vs_groupby_order() {
	o := &Optimizer{ctx: context.Background()}
	srt := &dag.Sort{Kind: "Sort", Args: []dag.SortExpr{{Key: v07dThis("k"), Order: order.Which(verif.Choose("order-desc", 2) == 1)}}}
	srt.NullsFirst = verif.Choose("nullsfirst", 2) == 1
	srt.Reverse = verif.Choose("reverse", 2) == 1
	sum := v07dSummarize(v07dThis("k"), v07dThis("k"))
	seq := dag.Seq{&dag.DefaultScan{Kind: "DefaultScan"}, srt, sum}
	_, err := o.propagateSortKey(seq, []order.SortKeys{nil})
	verif.Assert(err == nil, "propagate-no-error")
	effDesc := (srt.Args[0].Order == order.Desc) != srt.Reverse
	if sum.InputSortDir == 0 {
		// no claim: nothing to ground.  The optimizer may (and after the fix of
		// the null-placement defect does) decline a sort whose null placement the
		// group-by's comparison cannot reproduce; it must still make the claim
		// for the sorts that do match, else this obligation would be vacuous.
		verif.Assert(srt.NullsFirst != effDesc, "matching-sort-then-summarize-gets-a-direction")
		verif.Reach("no-claim")
		return
	}
	verif.Assert(sum.InputSortDir == 1 || sum.InputSortDir == -1, "sort-then-summarize-gets-a-direction")
	verif.Assert((sum.InputSortDir == -1) == effDesc, "claimed-direction-is-the-sorts-effective-direction")

	zctx := zed.NewContext()
	nulls := verif.Choose("nulls", 3) // 0 none, 1 a null, 2 b null
	a, b := verif.Byte("a"), verif.Byte("b")
	verif.Assume(a != 0 && b != 0)
	ra, ka := v07dKeyRec(zctx, nulls == 1, a)
	rb, kb := v07dKeyRec(zctx, nulls == 2, b)
	keyEval := expr.NewDottedExpr(zctx, field.Path{"k"})
	sop := sort.New(runtime.NewContext(context.Background(), zctx), nil,
		[]expr.SortEvaluator{expr.NewSortEvaluator(keyEval, srt.Args[0].Order)}, srt.NullsFirst, srt.Reverse, expr.Resetters{})
	sortCmp := sort.VerifComparator(sop, ra)
	valueCompare := expr.NewValueCompareFn(order.Which(sum.InputSortDir < 0), true)
	sc, gc := sortCmp.Compare(ra, rb), valueCompare(ka, kb)
	verif.Observe("sortBefore", sc < 0)
	verif.Observe("groupbyAfter", gc > 0)
	id := "groupby-order-agrees-with-sort-order"
	if nulls != 0 && srt.NullsFirst != effDesc {
		// region: the sort puts nulls where the group-by's nulls-max order does not
		id += "/null-placement"
		verif.Reach("null-placement-differs")
	}
	verif.Assert(!(sc < 0 && gc > 0), id)
	verif.Reach("end")
}

// ---------------------------------------------------------------------------
// C07-O6: demand analysis (insertDemand / InferDemandSeqOut / inferDemandExprIn
// and the demand package).  The harness states, per template operator, which
// paths of its INPUT record the operator reads given what is needed of its
// OUTPUT; the demand the real code computes for the scan must include them.
// ---------------------------------------------------------------------------

// v07dNeed is a set of field paths (each meaning the whole subtree), or everything.
type v07dNeed struct {
	all   bool
	paths []string
}

func v07dNeedOf(p ...string) v07dNeed { return v07dNeed{paths: p} }

func (n v07dNeed) union(m v07dNeed) v07dNeed {
	if n.all || m.all {
		return v07dNeed{all: true}
	}
	return v07dNeed{paths: append(append([]string{}, n.paths...), m.paths...)}
}

func (n v07dNeed) touches(p string) bool {
	if n.all {
		return true
	}
	for _, q := range n.paths {
		if v07dUnder(q, p) || v07dUnder(p, q) {
			return true
		}
	}
	return false
}

// sub is the need on the value of field p, relative to that value.
func (n v07dNeed) sub(p string) v07dNeed {
	if n.all {
		return n
	}
	var out []string
	for _, q := range n.paths {
		if v07dUnder(p, q) {
			return v07dNeed{all: true}
		}
		if v07dUnder(q, p) {
			out = append(out, q[len(p)+1:])
		}
	}
	return v07dNeed{paths: out}
}

func (n v07dNeed) without(p string) v07dNeed {
	if n.all {
		return n
	}
	var out []string
	for _, q := range n.paths {
		if !v07dUnder(q, p) {
			out = append(out, q)
		}
	}
	return v07dNeed{paths: out}
}

// prefixed turns a need relative to the value of field p into a need on the record.
func (n v07dNeed) prefixed(p string) v07dNeed {
	if n.all {
		return v07dNeedOf(p)
	}
	var out []string
	for _, q := range n.paths {
		out = append(out, p+"."+q)
	}
	return v07dNeed{paths: out}
}

func v07dGt0(e dag.Expr) dag.Expr { return dag.NewBinaryExpr(">", e, v07dLit("0")) }

func v07dRecord(elems ...dag.RecordElem) *dag.RecordExpr {
	return &dag.RecordExpr{Kind: "RecordExpr", Elems: elems}
}

func v07dField(name string, v dag.Expr) *dag.Field {
	return &dag.Field{Kind: "Field", Name: name, Value: v}
}

func v07dYield(e dag.Expr) *dag.Yield { return &dag.Yield{Kind: "Yield", Exprs: []dag.Expr{e}} }

// a[0].f as the semantic pass builds it: a Dot over a non-path expression
func v07dIndexDot() dag.Expr {
	return &dag.Dot{Kind: "Dot", LHS: &dag.IndexExpr{Kind: "IndexExpr", Expr: v07dThis("a"), Index: v07dLit("0")}, RHS: "f"}
}

const v07dNumDemandOps = 22

// v07dDemandOp returns template operator i, the paths of its input it reads
// as a function of what is needed of its output, and whether it contains a
// dag.Dot expression.
func v07dDemandOp(i int) (dag.Op, func(v07dNeed) v07dNeed, bool) {
	switch i {
	case 0: // cut a
		return &dag.Cut{Kind: "Cut", Args: []dag.Assignment{v07dAssign(v07dThis("a"), v07dThis("a"))}},
			func(out v07dNeed) v07dNeed { return out.sub("a").prefixed("a") }, false
	case 1: // put b:=a+1
		return &dag.Put{Kind: "Put", Args: []dag.Assignment{v07dAssign(v07dThis("b"), dag.NewBinaryExpr("+", v07dThis("a"), v07dLit("1")))}},
			func(out v07dNeed) v07dNeed {
				if out.touches("b") {
					return out.without("b").union(v07dNeedOf("a"))
				}
				return out
			}, false
	case 2: // where c>0
		return dag.NewFilter(v07dGt0(v07dThis("c"))),
			func(out v07dNeed) v07dNeed { return out.union(v07dNeedOf("c")) }, false
	case 3: // count() by a
		return v07dSummarize(v07dThis("a"), v07dThis("a")),
			func(v07dNeed) v07dNeed { return v07dNeedOf("a") }, false
	case 4: // sort a
		return &dag.Sort{Kind: "Sort", Args: []dag.SortExpr{{Key: v07dThis("a"), Order: order.Asc}}},
			func(out v07dNeed) v07dNeed { return out.union(v07dNeedOf("a")) }, false
	case 5: // rename d:=a
		return &dag.Rename{Kind: "Rename", Args: []dag.Assignment{v07dAssign(v07dThis("d"), v07dThis("a"))}},
			func(out v07dNeed) v07dNeed {
				return out.without("d").without("a").union(out.sub("d").prefixed("a"))
			}, false
	case 6: // yield {x:a}
		return v07dYield(v07dRecord(v07dField("x", v07dThis("a")))),
			func(out v07dNeed) v07dNeed { return out.sub("x").prefixed("a") }, false
	case 7: // drop a
		return &dag.Drop{Kind: "Drop", Args: []dag.Expr{v07dThis("a")}},
			func(out v07dNeed) v07dNeed { return out.without("a") }, false
	case 8: // s:=sum(b) where c>0 by a
		sum := v07dSummarize(v07dThis("a"), v07dThis("a"))
		sum.Aggs = []dag.Assignment{v07dAssign(v07dThis("s"), &dag.Agg{Kind: "Agg", Name: "sum", Expr: v07dThis("b"), Where: v07dGt0(v07dThis("c"))})}
		return sum, func(v07dNeed) v07dNeed { return v07dNeedOf("a", "b", "c") }, false
	case 9: // yield a
		return v07dYield(v07dThis("a")),
			func(out v07dNeed) v07dNeed { return out.prefixed("a") }, false
	case 10: // yield {r:{x:a,y:b}}
		return v07dYield(v07dRecord(v07dField("r", v07dRecord(v07dField("x", v07dThis("a")), v07dField("y", v07dThis("b")))))),
			func(out v07dNeed) v07dNeed {
				r := out.sub("r")
				return r.sub("x").prefixed("a").union(r.sub("y").prefixed("b"))
			}, false
	case 11: // yield {x:a[0].f}
		return v07dYield(v07dRecord(v07dField("x", v07dIndexDot()))),
			func(out v07dNeed) v07dNeed {
				if out.touches("x") {
					return v07dNeedOf("a")
				}
				return v07dNeed{}
			}, true
	case 12: // yield {...r, x:a}
		return v07dYield(v07dRecord(&dag.Spread{Kind: "Spread", Expr: v07dThis("r")}, v07dField("x", v07dThis("a")))),
			func(out v07dNeed) v07dNeed {
				return out.sub("x").prefixed("a").union(out.without("x").prefixed("r"))
			}, false
	case 13: // count() by x:=r.x
		return v07dSummarize(v07dThis("x"), v07dThis("r", "x")),
			func(v07dNeed) v07dNeed { return v07dNeedOf("r.x") }, false
	case 14: // count() by x
		return v07dSummarize(v07dThis("x"), v07dThis("x")),
			func(v07dNeed) v07dNeed { return v07dNeedOf("x") }, false
	case 15: // yield this
		return v07dYield(v07dThis()),
			func(out v07dNeed) v07dNeed { return out }, false
	case 16: // yield {x: c ? a : b}
		return v07dYield(v07dRecord(v07dField("x", &dag.Conditional{Kind: "Conditional", Cond: v07dThis("c"), Then: v07dThis("a"), Else: v07dThis("b")}))),
			func(out v07dNeed) v07dNeed {
				if out.touches("x") {
					return v07dNeedOf("a", "b", "c")
				}
				return v07dNeed{}
			}, false
	case 17: // where a[0].f > 0
		return dag.NewFilter(v07dGt0(v07dIndexDot())),
			func(out v07dNeed) v07dNeed { return out.union(v07dNeedOf("a")) }, true
	case 18: // count() by k:=lower(a)
		return v07dSummarize(v07dThis("k"), &dag.Call{Kind: "Call", Name: "lower", Args: []dag.Expr{v07dThis("a")}}),
			func(v07dNeed) v07dNeed { return v07dNeedOf("a") }, false
	case 19: // count() by x:=a[0].f.g
		return v07dSummarize(v07dThis("x"), &dag.Dot{Kind: "Dot", LHS: v07dIndexDot(), RHS: "g"}),
			func(v07dNeed) v07dNeed { return v07dNeedOf("a") }, true
	case 20: // count()
		sum := v07dSummarize(v07dThis("x"), v07dThis("x"))
		sum.Keys = nil
		return sum, func(v07dNeed) v07dNeed { return v07dNeed{} }, false
	case 21: // yield {x:|{a:b}|}
		return v07dYield(v07dRecord(v07dField("x", &dag.MapExpr{Kind: "MapExpr", Entries: []dag.Entry{{Key: v07dThis("a"), Value: v07dThis("b")}}}))),
			func(out v07dNeed) v07dNeed {
				if out.touches("x") {
					return v07dNeedOf("a", "b")
				}
				return v07dNeed{}
			}, false
	}
	panic("v07dDemandOp")
}

func v07dDemandCovers(d demand.Demand, p []string) bool {
	if demand.IsAll(d) {
		return true
	}
	if len(p) == 0 {
		return false
	}
	return v07dDemandCovers(demand.GetKey(d, p[0]), p[1:])
}

// v07dFieldsCover: a nil projection reads everything; otherwise a listed path
// reads its whole subtree.
func v07dFieldsCover(fields []field.Path, p string) bool {
	if fields == nil {
		return true
	}
	for _, f := range fields {
		if v07dUnder(p, v07dKey(f)) {
			return true
		}
	}
	return false
}

func v07dCheckDemand(d demand.Demand, need v07dNeed, dot bool, what string) {
	verif.Assert(d != nil && demand.IsValid(d), what+"-demand-is-valid")
	if d == nil {
		return
	}
	if need.all {
		verif.Assert(demand.IsAll(d), what+"-demand-is-all-when-everything-is-read")
		verif.Reach("need-all")
		return
	}
	id := what + "-demand-includes-every-path-read"
	if dot {
		id += "/dot-expression"
	}
	for _, p := range need.paths {
		verif.Assert(v07dDemandCovers(d, strings.Split(p, ".")), id)
	}
	if len(need.paths) == 0 {
		verif.Reach("need-none")
	} else {
		verif.Reach("need-some-paths")
	}
}

// verif:desc C07-O6 real insertDemand / InferDemandSeqOut / inferDemandExprIn + demand.Union/Key/GetKey/Fields/IsValid on [SeqScan, op1?, op2?]: the demand computed for the scan's output (and for op1's output) includes every input path the downstream operators read according to the per-template read sets stated in this file (a conservative under-read is the bug: the pruned column would read as missing), is demand.All() whenever the whole record is read, is valid, and SeqScan.Fields as written by insertDemand covers the same paths (nil = everything).
// verif:bounds 0..2 operators from 22 templates {cut a, put b:=a+1, where c>0, count() by a, sort a, rename d:=a, yield {x:a}, drop a, sum(b) where c>0 by a, yield a, yield {r:{x:a,y:b}}, yield {x:a[0].f}, yield {...r,x:a}, count() by x:=r.x, count() by x, yield this, yield {x:c?a:b}, where a[0].f>0, count() by k:=lower(a), count() by x:=a[0].f.g, count(), yield {x:|{a:b}|}}; the query output is read entirely; id .../dot-expression is the region of chains containing a dag.Dot over a non-path expression
// verif:outside fork/scatter/over bodies (inferDemandSeqOutWith does not descend: scans inside get a nil demand = everything); how the vector scanner applies the projection; that the demand is not larger than needed
func VerifH_C07_O6_demand() {
	scan := &dag.SeqScan{Kind: "SeqScan"}
	seq := dag.Seq{scan}
	var reads []func(v07dNeed) v07dNeed
	dot := false
	n := verif.Choose("chain-len", 3)
	for i := 0; i < n; i++ {
		op, rd, d := v07dDemandOp(verif.Choose("op", v07dNumDemandOps))
		seq = append(seq, op)
		reads = append(reads, rd)
		dot = dot || d
	}
	// needs[i] = what is needed of the output of seq[i]
	needs := make([]v07dNeed, len(seq))
	need := v07dNeed{all: true}
	for i := len(seq) - 1; i >= 0; i-- {
		needs[i] = need
		if i > 0 {
			need = reads[i-1](need)
		}
	}
	demands := InferDemandSeqOut(seq)
	v07dCheckDemand(demands[scan], needs[0], dot, "scan")
	if len(seq) > 2 {
		v07dCheckDemand(demands[seq[1]], needs[1], dot, "op")
	}
	out := insertDemand(seq)
	verif.Assert(len(out) == len(seq) && out[0] == dag.Op(scan), "insertDemand-keeps-the-sequence")
	if needs[0].all {
		verif.Assert(scan.Fields == nil, "scan-projection-is-everything-when-everything-is-read")
	} else {
		id := "scan-projection-includes-every-path-read"
		if dot {
			id += "/dot-expression"
		}
		for _, p := range needs[0].paths {
			verif.Assert(v07dFieldsCover(scan.Fields, p), id)
		}
		if scan.Fields != nil {
			verif.Reach("projection-pruned")
		}
	}
	verif.Reach("end")
}

// ---------------------------------------------------------------------------
// C07-O7: lifting summarize / head / tail / stateless operators into parallel legs
// ---------------------------------------------------------------------------

func v07dSameExpr(a, b dag.Expr) bool {
	switch a := a.(type) {
	case nil:
		return b == nil
	case *dag.This:
		b, ok := b.(*dag.This)
		return ok && v07dKey(a.Path) == v07dKey(b.Path) && len(a.Path) == len(b.Path)
	case *dag.Literal:
		b, ok := b.(*dag.Literal)
		return ok && a.Value == b.Value
	case *dag.BinaryExpr:
		b, ok := b.(*dag.BinaryExpr)
		return ok && a.Op == b.Op && v07dSameExpr(a.LHS, b.LHS) && v07dSameExpr(a.RHS, b.RHS)
	case *dag.Agg:
		b, ok := b.(*dag.Agg)
		return ok && a.Name == b.Name && v07dSameExpr(a.Expr, b.Expr) && v07dSameExpr(a.Where, b.Where)
	case *dag.Call:
		b, ok := b.(*dag.Call)
		if !ok || a.Name != b.Name || len(a.Args) != len(b.Args) {
			return false
		}
		for i := range a.Args {
			if !v07dSameExpr(a.Args[i], b.Args[i]) {
				return false
			}
		}
		return true
	}
	return false
}

func v07dSameAssignments(a, b []dag.Assignment) bool {
	if len(a) != len(b) {
		return false
	}
	for i := range a {
		if !v07dSameExpr(a[i].LHS, b[i].LHS) || !v07dSameExpr(a[i].RHS, b[i].RHS) {
			return false
		}
	}
	return true
}

// v07dLiftSummarize builds the summarize templates (fresh objects on every call).
func v07dLiftSummarize(i int) *dag.Summarize {
	switch i {
	case 0: // count() by k
		return v07dSummarize(v07dThis("k"), v07dThis("k"))
	default: // count(), s:=sum(x) by k:=floor(x), j with -limit 10
		s := v07dSummarize(v07dThis("k"), &dag.Call{Kind: "Call", Name: "floor", Args: []dag.Expr{v07dThis("x")}})
		s.Keys = append(s.Keys, v07dAssign(v07dThis("j"), v07dThis("j")))
		s.Aggs = append(s.Aggs, v07dAssign(v07dThis("s"), &dag.Agg{Kind: "Agg", Name: "sum", Expr: v07dThis("x")}))
		s.Limit = 10
		return s
	}
}

func v07dSameStateless(a, b dag.Op) bool {
	switch a := a.(type) {
	case *dag.Filter:
		b, ok := b.(*dag.Filter)
		return ok && v07dSameExpr(a.Expr, b.Expr)
	case *dag.Put:
		b, ok := b.(*dag.Put)
		return ok && v07dSameAssignments(a.Args, b.Args)
	case *dag.Cut:
		b, ok := b.(*dag.Cut)
		return ok && v07dSameAssignments(a.Args, b.Args)
	case *dag.Rename:
		b, ok := b.(*dag.Rename)
		return ok && v07dSameAssignments(a.Args, b.Args)
	case *dag.Drop:
		b, ok := b.(*dag.Drop)
		if !ok || len(a.Args) != len(b.Args) {
			return false
		}
		for i := range a.Args {
			if !v07dSameExpr(a.Args[i], b.Args[i]) {
				return false
			}
		}
		return true
	}
	return false
}

// verif:desc C07-O7 real Optimizer.liftIntoParPaths (parallelPaths, copyOp, propagateSortKeyOp) on [Scatter|Fork of 2 legs, egress?, OP, Output] for the non-sort cases. Summarize: every leg ends in a copy with PartialsOut (same keys, aggregates, limit, sort direction), the original stays after the egress with PartialsIn, the same aggregates, and every key reading the partial's output name (RHS = LHS); an already partial summarize is left alone. Head/Tail: every leg ends in a copy with the same count and the original stays after the egress. Filter/Put/Cut/Drop/Rename: either nothing changes or every leg ends in an equal copy and the original becomes a pass; and it is NOT lifted into legs that are re-joined by a Merge unless the merge key still holds the value it had (abstract interpretation of VerifH_C07_O5: the key path must stay Sorted, merely Absent is not enough because the merge compares the values). The egress operator is never changed; Uniq is never lifted.
// verif:bounds par in {Scatter, Fork} with 2 legs [pass]; egress in {none, Combine, Merge k asc, Merge k desc, Merge k.a asc}; OP in {count() by k, count(),sum(x) by k:=floor(x),j -limit 10 (each with InputSortDir 0, or the merge direction when the egress merges on k), the same already PartialsOut / PartialsIn, head 3, tail 2, where x>0, put x:=x+1, put k:=x+1, put k.a:=x+1, cut k, cut x, cut k.a, drop x, drop k, rename j:=k, rename k:=x, uniq}
// verif:outside the Sort case (VerifH_C08_O3_lift_sort); a summarize whose InputSortDir is set although the legs are not merged on its key (parallelizeSeqScan never builds that; user-written forks: see VerifH_C07_O5 id fork-legs-combined-unordered); running the legs
func VerifH_C07_O7_parallel_lift_ops() {
	o := &Optimizer{ctx: context.Background()}
	legs := []dag.Seq{{&dag.Pass{Kind: "Pass"}}, {&dag.Pass{Kind: "Pass"}}}
	var par dag.Op
	if verif.Choose("par", 2) == 0 {
		par = &dag.Scatter{Kind: "Scatter", Paths: legs}
	} else {
		par = &dag.Fork{Kind: "Fork", Paths: legs}
	}
	var egressOp dag.Op
	var merge *dag.Merge
	mergeKey, mergeDir := "", 0
	switch verif.Choose("egress", 5) {
	case 1:
		egressOp = &dag.Combine{Kind: "Combine"}
	case 2:
		merge, mergeKey, mergeDir = &dag.Merge{Kind: "Merge", Expr: v07dThis("k"), Order: order.Asc}, "k", 1
	case 3:
		merge, mergeKey, mergeDir = &dag.Merge{Kind: "Merge", Expr: v07dThis("k"), Order: order.Desc}, "k", -1
	case 4:
		merge, mergeKey, mergeDir = &dag.Merge{Kind: "Merge", Expr: v07dThis("k", "a"), Order: order.Asc}, "k.a", 1
	}
	if merge != nil {
		egressOp = merge
	}
	const (
		kSummarize = iota
		kPartial
		kHeadTail
		kStateless
		kUniq
	)
	var op dag.Op
	var kind, sumTmpl int
	var xf func(*v07dState)
	switch c := verif.Choose("op", 20); {
	case c < 2:
		kind, sumTmpl = kSummarize, c
		s := v07dLiftSummarize(c)
		if mergeKey == "k" && verif.Choose("input-sort-dir-set", 2) == 1 {
			s.InputSortDir = mergeDir
		}
		op = s
	case c < 4:
		kind, sumTmpl = kPartial, c-2
		s := v07dLiftSummarize(c - 2)
		if verif.Choose("partials-in", 2) == 1 {
			s.PartialsIn = true
		} else {
			s.PartialsOut = true
		}
		op = s
	case c == 4:
		kind, op = kHeadTail, &dag.Head{Kind: "Head", Count: 3}
	case c == 5:
		kind, op = kHeadTail, &dag.Tail{Kind: "Tail", Count: 2}
	case c < 17:
		kind = kStateless
		var ops []dag.Op
		ops, xf = v07dChainOp(c - 6) // templates 0..10: where, put, cut, drop, rename
		op = ops[0]
	default:
		kind, op = kUniq, &dag.Uniq{Kind: "Uniq"}
	}
	output := &dag.Output{Kind: "Output", Name: "main"}
	ops := []dag.Op{par}
	if egressOp != nil {
		ops = append(ops, egressOp)
	}
	at := len(ops)
	ops = append(ops, op, output)
	n := len(ops)

	o.liftIntoParPaths(ops)

	paths, _ := parallelPaths(ops[0])
	verif.Assert(ops[0] == par && len(paths) == 2 && len(ops) == n && ops[n-1] == dag.Op(output), "frame-kept")
	if egressOp != nil {
		verif.Assert(ops[1] == egressOp, "egress-operator-unchanged")
	}
	if merge != nil {
		t, ok := merge.Expr.(*dag.This)
		verif.Assert(ok && v07dKey(t.Path) == mergeKey && (merge.Order == order.Desc) == (mergeDir < 0), "egress-operator-unchanged")
	}
	for k := range paths {
		_, isPass := paths[k][0].(*dag.Pass)
		verif.Assert(len(paths[k]) >= 1 && len(paths[k]) <= 2 && isPass, "legs-only-appended-to")
	}
	lifted := len(paths[0]) == 2
	verif.Assert((len(paths[1]) == 2) == lifted, "all-legs-treated-alike")
	switch kind {
	case kSummarize:
		verif.Reach("summarize")
		orig := op.(*dag.Summarize)
		want := v07dLiftSummarize(sumTmpl)
		verif.Assert(lifted, "summarize-split-into-partials")
		for k := range paths {
			if len(paths[k]) != 2 {
				continue
			}
			leg, ok := paths[k][1].(*dag.Summarize)
			verif.Assert(ok && leg != orig, "leg-ends-in-a-copy-of-the-summarize")
			if !ok {
				continue
			}
			verif.Assert(leg.PartialsOut && !leg.PartialsIn, "leg-summarize-emits-partials")
			verif.Assert(v07dSameAssignments(leg.Keys, want.Keys), "leg-summarize-has-the-original-keys")
			verif.Assert(v07dSameAssignments(leg.Aggs, want.Aggs), "leg-summarize-has-the-original-aggregates")
			verif.Assert(leg.Limit == want.Limit && leg.InputSortDir == orig.InputSortDir, "leg-summarize-keeps-limit-and-sort-dir")
		}
		verif.Assert(ops[at] == dag.Op(orig), "summarize-stays-after-the-egress")
		verif.Assert(orig.PartialsIn && !orig.PartialsOut, "post-egress-summarize-consumes-partials")
		verif.Assert(v07dSameAssignments(orig.Aggs, want.Aggs), "post-egress-summarize-has-the-original-aggregates")
		verif.Assert(len(orig.Keys) == len(want.Keys), "post-egress-summarize-has-the-original-key-names")
		for i := range orig.Keys {
			if i < len(want.Keys) {
				verif.Assert(v07dSameExpr(orig.Keys[i].LHS, want.Keys[i].LHS), "post-egress-summarize-has-the-original-key-names")
				verif.Assert(v07dSameExpr(orig.Keys[i].RHS, want.Keys[i].LHS), "post-egress-keys-read-the-partials-output-names")
			}
		}
		verif.Assert(orig.Limit == want.Limit, "post-egress-summarize-keeps-limit")
		if orig.InputSortDir != 0 {
			verif.Assert(merge != nil && mergeKey == "k" && orig.InputSortDir == mergeDir, "post-egress-sort-dir-backed-by-the-merge")
			verif.Reach("summarize-streaming-after-merge")
		}
	case kPartial:
		verif.Reach("already-partial")
		orig := op.(*dag.Summarize)
		verif.Assert(!lifted && ops[at] == op, "partial-summarize-left-alone")
		verif.Assert(orig.PartialsIn != orig.PartialsOut, "partial-summarize-left-alone")
		verif.Assert(v07dSameAssignments(orig.Keys, v07dLiftSummarize(sumTmpl).Keys), "partial-summarize-left-alone")
	case kHeadTail:
		verif.Reach("head-tail")
		verif.Assert(lifted, "head-tail-copied-into-legs")
		for k := range paths {
			if len(paths[k]) != 2 {
				continue
			}
			switch orig := op.(type) {
			case *dag.Head:
				leg, ok := paths[k][1].(*dag.Head)
				verif.Assert(ok && leg != orig && leg.Count == 3, "leg-ends-in-a-copy-with-the-same-count")
			case *dag.Tail:
				leg, ok := paths[k][1].(*dag.Tail)
				verif.Assert(ok && leg != orig && leg.Count == 2, "leg-ends-in-a-copy-with-the-same-count")
			}
		}
		verif.Assert(ops[at] == op, "head-tail-stays-after-the-egress")
		switch orig := op.(type) {
		case *dag.Head:
			verif.Assert(orig.Count == 3, "head-tail-stays-after-the-egress")
		case *dag.Tail:
			verif.Assert(orig.Count == 2, "head-tail-stays-after-the-egress")
		}
	case kStateless:
		if lifted {
			verif.Reach("stateless-lifted")
			for k := range paths {
				if len(paths[k]) == 2 {
					verif.Assert(paths[k][1] != op && v07dSameStateless(op, paths[k][1]), "leg-ends-in-an-equal-copy")
				}
			}
			_, isPass := ops[at].(*dag.Pass)
			verif.Assert(isPass, "lifted-operator-replaced-by-pass")
			if merge != nil {
				st := v07dNewState()
				st.setSorted(mergeKey, v07dFact{dir: mergeDir, nullsMax: true})
				xf(st)
				k, f, why := st.lookup(mergeKey)
				id := "no-operator-lifted-past-a-merge-whose-key-it-modifies"
				switch {
				case k == v07dAbsent:
					verif.Assert(false, id+"/merge-key-removed")
				case k == v07dUnknown:
					verif.Assert(false, id+"/"+v07dClass(why))
				default:
					verif.Assert(f.dir == mergeDir, id)
					verif.Reach("lifted-past-merge-key-intact")
				}
			}
		} else {
			verif.Reach("stateless-not-lifted")
			verif.Assert(ops[at] == op, "unlifted-operator-stays")
			verif.Assert(merge != nil, "stateless-operator-lifted-when-legs-are-not-merged")
		}
	case kUniq:
		verif.Reach("uniq")
		verif.Assert(!lifted && ops[at] == op, "uniq-never-lifted")
	}
	verif.Reach("end")
}

// v07dLegOps are the single-operator templates of v07dChainOp (no forks).
var v07dLegOps = []int{0, 1, 2, 3, 4, 5, 6, 7, 8, 9, 10, 11, 12, 13, 14, 15, 16, 17, 18, 21, 22, 23, 24}

// verif:desc C07-O7 (which operators go into the legs) real Optimizer.concurrentPath, which parallelizeSeqScan uses to decide how many of the operators after a pool scan are replicated into the scatter legs and on which key the legs are re-joined by a dag.Merge: whenever it asks for a merge, the key it names is non-empty and, unless the path stopped at a sort that is itself going to produce that key, every leg -- the scan ordered on the pool key followed by the first n operators -- still carries the named key with its values ordered in the named direction (abstract interpretation of VerifH_C07_O5; a key that is merely Absent is not enough, the merge compares its values), so that the merge reproduces the order of the sequential plan.
// verif:bounds pool key in {k asc, k desc, k.a asc}; 0..2 operators from the 23 single-operator templates of VerifH_C07_O5, followed by nothing, head 1 or count() by k
// verif:outside parallelizeSeqScan itself (needs a lake to look the pool key up); pools without a sort key; multi-key pools (not parallelized)
func VerifH_C07_O7_concurrent_path() {
	o := &Optimizer{ctx: context.Background()}
	st := v07dNewState()
	var srcKeys order.SortKeys
	switch verif.Choose("pool-key", 3) {
	case 0:
		srcKeys = order.SortKeys{order.NewSortKey(order.Asc, field.Path{"k"})}
		st.setSorted("k", v07dFact{dir: 1, nullsMax: true})
	case 1:
		srcKeys = order.SortKeys{order.NewSortKey(order.Desc, field.Path{"k"})}
		st.setSorted("k", v07dFact{dir: -1, nullsMax: true})
	case 2:
		srcKeys = order.SortKeys{order.NewSortKey(order.Asc, field.Path{"k", "a"})}
		st.setSorted("k.a", v07dFact{dir: 1, nullsMax: true})
	}
	var ops []dag.Op
	var xfs []func(*v07dState)
	nchain := verif.Choose("chain-len", 3)
	for i := 0; i < nchain; i++ {
		tops, xf := v07dChainOp(v07dLegOps[verif.Choose("chain-op", len(v07dLegOps))])
		ops = append(ops, tops[0])
		xfs = append(xfs, xf)
	}
	switch verif.Choose("then", 3) {
	case 1:
		ops = append(ops, &dag.Head{Kind: "Head", Count: 1})
	case 2:
		ops = append(ops, v07dSummarize(v07dThis("k"), v07dThis("k")))
	}
	n, outKeys, _, needMerge, err := o.concurrentPath(ops, srcKeys)
	verif.Assert(err == nil, "concurrent-path-no-error")
	verif.Assert(n >= 0 && n <= len(ops), "concurrent-path-length-in-range")
	if err != nil || n < 0 || n > len(ops) {
		return
	}
	for i := 0; i < n && i < len(xfs); i++ {
		xfs[i](st)
	}
	verif.Assert(n <= len(xfs), "only-stateless-operators-go-into-the-legs")
	if !needMerge {
		verif.Reach("legs-combined")
		verif.Reach("end")
		return
	}
	verif.Assert(len(outKeys) == 1, "merge-has-exactly-one-key")
	if len(outKeys) != 1 {
		return
	}
	if n < len(ops) {
		if _, isSort := ops[n].(*dag.Sort); isSort {
			// the merge key is the key of the sort the path stopped at
			verif.Reach("stopped-at-sort")
			verif.Reach("end")
			return
		}
	}
	key, dir := v07dKey(outKeys.Primary().Key), 1
	if outKeys.Primary().Order == order.Desc {
		dir = -1
	}
	k, f, why := st.lookup(key)
	id := "legs-are-ordered-on-the-merge-key"
	switch {
	case k == v07dAbsent:
		verif.Assert(false, id+"/merge-key-removed")
	case k == v07dUnknown:
		verif.Assert(false, id+"/"+v07dClass(why))
	case f.dir != dir:
		verif.Assert(false, id+"/wrong-direction")
	case !f.nullsMax:
		verif.Assert(false, id+"/null-placement")
	default:
		verif.Assert(true, id)
		verif.Reach("merge-key-intact")
	}
	verif.Reach("end")
}
