//go:build verif

package optimizer

import (
	"context"
	"os"
	"path/filepath"

	"github.com/brimdata/super/compiler/ast/dag"
	"github.com/brimdata/super/internal/verif"
	"github.com/brimdata/super/lake"
	"github.com/brimdata/super/lake/pools"
	"github.com/brimdata/super/order"
	"github.com/brimdata/super/pkg/field"
	"github.com/brimdata/super/pkg/storage"
	"github.com/brimdata/super/runtime/sam/expr"
	"github.com/segmentio/ksuid"
)

// ---- environment: the lake that OptimizeDeleter asks for the pool's sort key ----

// v16bSortKeys is what the modelled lake answers (engine only).
var v16bSortKeys order.SortKeys

// VerifEnv_OpenPool is the engine-side model of lake.Root.OpenPool (the lake
// is environment): a pool with the id asked for and the sort keys chosen by
// the harness.  The native replay opens a real lake instead.
func VerifEnv_OpenPool(id ksuid.KSUID) (*lake.Pool, error) {
	return &lake.Pool{Config: pools.Config{Name: "p", ID: id, SortKeys: v16bSortKeys}}, nil
}

// v16bOptimizer returns an Optimizer over a lake holding one pool with the
// given sort keys, and the pool's id.
func v16bOptimizer(sortKeys order.SortKeys) (*Optimizer, ksuid.KSUID, func()) {
	ctx := context.Background()
	if verif.Symbolic() {
		v16bSortKeys = sortKeys
		id := ksuid.KSUID{1, 2, 3, 4, 5, 6, 7, 8, 9, 10, 11, 12, 13, 14, 15, 16, 17, 18, 19, 20}
		return &Optimizer{ctx: ctx, lake: new(lake.Root)}, id, func() {}
	}
	// native replay: a real lake in a scratch directory next to the replay file
	parent := ""
	if p := os.Getenv("VERIF_REPLAY"); p != "" {
		parent = filepath.Dir(p)
	}
	dir, err := os.MkdirTemp(parent, "c16b-lake-")
	if err != nil {
		panic(err)
	}
	cleanup := func() { os.RemoveAll(dir) }
	root, err := lake.Create(ctx, storage.NewLocalEngine(), nil, storage.MustParseURI(dir))
	if err != nil {
		cleanup()
		panic(err)
	}
	pool, err := root.CreatePool(ctx, "p", sortKeys, 0, 0)
	if err != nil {
		cleanup()
		panic(err)
	}
	return &Optimizer{ctx: ctx, lake: root}, pool.ID, cleanup
}

func v16bSameExpr(a, b dag.Expr) bool {
	switch a := a.(type) {
	case *dag.BinaryExpr:
		b, ok := b.(*dag.BinaryExpr)
		return ok && a.Kind == b.Kind && a.Op == b.Op && v16bSameExpr(a.LHS, b.LHS) && v16bSameExpr(a.RHS, b.RHS)
	case *dag.This:
		b, ok := b.(*dag.This)
		return ok && a.Kind == b.Kind && field.Path(a.Path).Equal(field.Path(b.Path))
	case *dag.Literal:
		b, ok := b.(*dag.Literal)
		return ok && a.Kind == b.Kind && a.Value == b.Value
	case *dag.Call:
		b, ok := b.(*dag.Call)
		return ok && a.Kind == b.Kind && a.Name == b.Name && len(a.Args) == len(b.Args)
	}
	return false
}

// verif:desc C16-O3 Optimizer.OptimizeDeleter on the delete-where plan [DeleteScan, Filter{P}, Output] with P = `k op LIT` / `LIT op k` / an opaque predicate: the returned DAG is [Lister, Scatter{replicas x [Deleter]}, Merge on the pool key, Output]; every Deleter carries P as Where; the Lister's key pruner (if any) is sound for P (never prunes an object range holding a key for which P is true); and the Deleter's scan of SURVIVING values is not pruned by P's pruner: a Deleter.KeyPruner, if present, must never prune a range [min,max] holding a key for which P is NOT true (those values must be written back), in particular null keys.
// verif:bounds P: 5 ops x 2 orientations + opaque; pool key in {k asc, k desc, ts desc (P is not on the pool key)}; replicas 2 / 1 / 1; key,min,max any int64 or null with min<=key<=max (nulls max), LIT any int64
// verif:outside the runtime use of the pruner (meta.Deleter/newScanner seek ranges); key types other than int64/null; the modelled lake answers OpenPool only (engine), the native replay uses a real lake on disk
func VerifH_C16_O3_deleter() {
	lits := map[string]int64{}
	pred, leaf := vMkLeaf("a", lits)
	var sortKeys order.SortKeys
	replicas := 1
	keyIsK := true
	switch verif.Choose("poolkey", 3) {
	case 0:
		sortKeys = order.SortKeys{order.NewSortKey(order.Asc, field.Path{"k"})}
		replicas = 2
	case 1:
		sortKeys = order.SortKeys{order.NewSortKey(order.Desc, field.Path{"k"})}
	default:
		sortKeys = order.SortKeys{order.NewSortKey(order.Desc, field.Path{"ts"})}
		keyIsK = false
	}
	o, poolID, cleanup := v16bOptimizer(sortKeys)
	defer cleanup()
	commit := ksuid.KSUID{9, 9, 9}
	output := &dag.Output{Kind: "Output", Name: "main"}
	out, err := o.OptimizeDeleter(dag.Seq{
		&dag.DeleteScan{Kind: "DeleteScan", ID: poolID, Commit: commit},
		dag.NewFilter(pred),
		output,
	}, replicas)
	verif.Assert(err == nil, "optimize-deleter-no-error")
	if err != nil {
		return
	}
	verif.Assert(len(out) == 4, "deleter-plan-shape")
	if len(out) != 4 {
		return
	}
	lister, _ := out[0].(*dag.Lister)
	scatter, _ := out[1].(*dag.Scatter)
	merge, _ := out[2].(*dag.Merge)
	verif.Assert(lister != nil && scatter != nil && merge != nil && out[3] == dag.Op(output), "deleter-plan-shape")
	if lister == nil || scatter == nil || merge == nil {
		return
	}
	verif.Assert(lister.Pool == poolID && lister.Commit == commit, "lister-scans-the-pool-at-the-commit")
	this, _ := merge.Expr.(*dag.This)
	verif.Assert(this != nil && field.Path(this.Path).Equal(sortKeys.Primary().Key) && merge.Order == sortKeys.Primary().Order, "merge-on-the-pool-key")
	verif.Assert(len(scatter.Paths) == replicas, "one-deleter-per-replica")

	key, min, max := vSymKey("key"), vSymKey("min"), vSymKey("max")
	cmp := expr.NewValueCompareFn(order.Asc, true)
	// the range really bounds the key (nulls are the largest key)
	verif.Assume(cmp(min.val(), key.val()) <= 0 && cmp(key.val(), max.val()) <= 0)
	predTrue := leaf.eval(key)

	for _, path := range scatter.Paths {
		verif.Assert(len(path) == 1, "deleter-plan-shape")
		if len(path) != 1 {
			return
		}
		del, _ := path[0].(*dag.Deleter)
		verif.Assert(del != nil, "deleter-plan-shape")
		if del == nil {
			return
		}
		verif.Assert(del.Pool == poolID, "deleter-on-the-pool")
		verif.Assert(v16bSameExpr(del.Where, pred), "deleter-where-is-the-predicate")
		if del.KeyPruner != nil {
			// whatever prunes the scan of survivors must not skip a value
			// that survives (predicate not true)
			pruned := vEvalPruner(del.KeyPruner, min, max, lits, cmp)
			if !predTrue {
				verif.Assert(!pruned, "deleter-scan-pruned-a-surviving-value")
			}
			verif.Reach("deleter-has-pruner")
		} else {
			verif.Reach("deleter-unpruned")
		}
	}
	if lister.KeyPruner != nil {
		verif.Assert(keyIsK && !leaf.unknown, "lister-pruner-only-for-pool-key-predicates")
		pruned := vEvalPruner(lister.KeyPruner, min, max, lits, cmp)
		if predTrue {
			verif.Assert(!pruned, "lister-pruned-a-matching-key")
		}
		verif.Reach("lister-has-pruner")
	} else {
		verif.Reach("lister-unpruned")
	}
	verif.Reach("end")
}
