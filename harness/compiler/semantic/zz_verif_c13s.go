//go:build verif

package semantic

// verif:needs lake lake/commits lake/journal lake/data lake/seekindex

import (
	"context"

	"github.com/brimdata/super/compiler/ast"
	"github.com/brimdata/super/compiler/ast/dag"
	"github.com/brimdata/super/compiler/data"
	"github.com/brimdata/super/internal/verif"
	"github.com/brimdata/super/lake"
	"github.com/segmentio/ksuid"
)

// verif:desc C13-O8 what `from pool@X` denotes: the real analyzer.semPoolWithName (compiler/semantic) over data.Source -> lake.Root.PoolID/CommitObject on a model lake whose pool has commits c1, c2 on main: X = the text of a commit id resolves to THAT commit (a commit is an immutable snapshot: what `pool@<id>` reads cannot change later) - also after somebody has created a branch whose name is the very text of c1 and whose tip is c2; X = "main" resolves to main's tip c2; X = that oddly named branch is only reachable when X is not a commit id; no X resolves to main's tip.
// verif:bounds one pool, two commits, with and without the branch named like c1; X in {id of c1, id of c2, "main", none}; the AST node is built directly (the parser is outside)
// verif:outside the query parser; meta queries (pool:log etc.); HEAD resolution; remote lakes (lake/api remote)
func VerifH_C13_O8_commitish_resolution() {
	ctx := context.Background()
	odd := verif.Choose("branch-named-like-c1", 2) == 1
	root, eng, pool, c1, c2, ok := lake.VerifModelLake(ctx, odd)
	verif.Assert(ok, "setup")
	if !ok {
		return
	}
	a := newAnalyzer(ctx, data.NewSource(eng, root), nil)
	var commit string
	var want ksuid.KSUID
	switch verif.Choose("commitish", 4) {
	case 0:
		commit, want = c1.String(), c1
	case 1:
		commit, want = c2.String(), c2
	case 2:
		commit, want = "main", c2
	default:
		commit, want = "", c2
	}
	op := a.semPoolWithName(&ast.Pool{Kind: "Pool", Spec: ast.PoolSpec{Commit: commit}}, pool)
	verif.Assert(len(a.errors) == 0, "resolves-without-error")
	scan, isScan := op.(*dag.PoolScan)
	verif.Assert(isScan, "compiles-to-a-pool-scan")
	if !isScan {
		return
	}
	if odd && commit == c1.String() {
		verif.Assert(scan.Commit == want, "commit-id-denotes-that-commit/branch-with-the-same-spelling-exists")
		verif.Reach("branch-with-the-same-spelling-exists")
	} else {
		verif.Assert(scan.Commit == want, "commitish-denotes-the-right-commit")
	}
	verif.Reach("end")
}
